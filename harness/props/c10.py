"""C10 - landscape p-norms and the sup norm equal the integrals they name.

Spec  : coq/Spec/PNormS.v   (closed-form segment integrals of |l|^p, largest |y|)
Model : coq/Model/PNormM.v  (persim/landscapes/auxiliary.py:_p_norm branch by branch, Legacy = pinned
        code, intended = after fixes/C10_pnorm_crossing.patch; exact / approximate callers),
        coq/Model/PNormRM.v (real p, over R)
Tie   : landscapes are built through the public API (constructors, + - * /), the implementation
        reports the breakpoints it ended up with, p_norm(p) and sup_norm(); inside Coq the models are
        run by vm_compute on exactly those breakpoints (integer p: |v - N| <= 1e-9 N decided exactly
        as (v/(1+r))^p <= N^p <= (v/(1-r))^p) or certified by `interval` (real p, Rpower).
Predicate: an independent derivation in Python Fractions (split at the root, one-signed
        antiderivative), homogeneity, ||P - P|| = 0, the triangle inequality.
"""
import math
import re
from fractions import Fraction

from .. import core

PID = "C10"
THEOREMS = [
    "seg_closed_form_same_sign", "seg_closed_form_crossing", "pnorm_pow_correct",
    "pnorm_exact_class_correct", "pnorm_approx_class_correct", "pnorm_legacy_refuted",
    "sup_norm_is_sup", "sup_norm_landscape_is_sup", "exact_sup_norm_is_sup", "approx_sup_norm_is_max",
    "pnorm_homogeneous", "pnorm_zero", "pnorm_pow_nonneg",
    "seg_closed_form_is_RInt", "interpolant_is_line",
    "landscape_stability_any_matching", "landscape_stability", "exact_landscape_stability", "exact_landscape_stability_model", "sup_norm_triangle",
    "landscape_stability_every_real_t", "sweep_stability_every_real_t",
    "sup_norm_bounds_every_real_t", "exact_landscape_stability_every_real_t", "exact_landscape_entry_stability",  # cross-property glue (Proofs/LandscapeGlue*.v, LandscapeStabP.v)
    # triangle inequality (Minkowski) of the p-norm, Proofs/PNormMinkowski*.v
    "depth_pow_is_RInt", "pointwise_sum_at_every_real_t", "pnorm_minkowski_depth", "pnorm_minkowski_add_depth",
    "pnorm_minkowski", "pnorm_minkowski_difference", "pnorm_real_exists_unique", "pnorm_triangle_inequality",
    "pnorm_triangle_inequality_difference", "pnorm_minkowski_model_add", "pnorm_minkowski_model_sub", "pnorm_triangle",
]
RULE = ("seeded generator over classes {non-negative / non-positive / sign-crossing / flat / nearly-flat / "
        "axis-touching breakpoint lists given as int, float and numpy scalars; exact landscapes of diagrams, "
        "their sums, differences and linear combinations through + - * /; grid landscapes from values and from "
        "diagrams and their combinations; landscapes built from diagrams with compute=False whose first use is p_norm / sup_norm "
        "(compared with the eagerly built twin and the spec); scales 2^-20..2^20; several depths; single-breakpoint depths; "
        "dtypes / containers / layouts of what the caller hands over: grid landscapes whose `values` array is int64 / int32 / int16 / "
        "float32 / float64, C- or Fortran-ordered, a strided or negative-stride view or read-only, on grids whose nodes are not "
        "integers (steps 1/2, 1/4, decimal steps below and above 1, grid ends as Python ints; a few with 49..129 nodes), alone, as "
        "differences and in combinations with int and float coefficients and operands of mixed dtypes; exact and grid landscapes of "
        "int64 / int32 diagrams (grid ends given or left to the constructor, also with compute=False); critical pairs given as "
        "tuples or as one float / int ndarray per depth} x "
        "p in {1,2,3,4,5,7,10} and real p in {1.5, 2.5, pi}; "
        "non-default exponents: large integer p in {11,16,24,31,32,33,40,48,64,100,113,128,200,256}, large real p in "
        "{12.5,31.5,32.5,40.25,64.5,100.5}, p just above 1 in {1.000001,1.001,1.0625}, and an integer p handed over as a Python float "
        "/ np.int64 / np.int32 / np.float64, on breakpoint lists (all sign classes, nearly flat, scaled by 2^-6..2^5, tuple / ndarray "
        "containers), exact and grid landscapes of diagrams, their differences and linear combinations and grid landscapes from values "
        "of every dtype, whose largest |value| is known in advance so that p is drawn only from the exponents for which |f|^p of "
        "P, c*P and P+M stays inside the binary64 range (outside it the code under test overflows / underflows: finding "
        "C10-pnorm-large-p-range, whose cases - the same exponents at scales 2^-20..2^20 - are generated only while known_findings.json "
        "lists it); landscapes with full-mantissa ordinates keep nseg * p^2 <= 10000 (cost of the exact evaluation inside Coq), "
        "short dyadic ordinates go up to p = 256; "
        "extreme scales (class `extreme`, p in {1,2,3,5}): landscapes all of whose ordinates are of size 1e-150..1e-250 or 1e150..1e250 "
        "(the product of two ordinates under- / overflows although every ordinate and the norm are ordinary doubles; abscissae stay "
        "ordinary): explicit critical pairs with crossings (also |y0| = |y1| across the axis) and of every other sign class as list / "
        "np scalar / tuple / ndarray; differences P - Q and linear combinations of diagrams' exact landscapes scaled by L*s, s*L or "
        "L/(1/s); combinations s*P + (-s)*Q whose coefficients carry the scale; grid landscapes from sign-changing values (C / F / "
        "strided) and scaled differences of grid landscapes of diagrams; ordinary differences whose homogeneity factor c is the "
        "extreme scale; triangle partner at the same scale; scales from {1e-150,1e-163,1e-170,1e-200,1e-250,1e150,1e155,1e170,1e200,"
        "1e250} or m*10^(+-e), e in 150..250; every kind is met in every run; "
        "a case is non-trivial when the call succeeds and "
        "the reported landscape has a sloped segment with non-zero integral; distinct = distinct JSON input")
TRUSTED_BASE = [
    "Coq 8.16.1 kernel; vm_compute for the rational models (no native_compute)",
    "Coquelicot (RInt) and the stdlib axioms of the classical reals for seg_closed_form_is_RInt, depth_pow_is_RInt, the every_real_t theorems and the Minkowski / triangle theorems (pnorm_minkowski*, pnorm_triangle*; proved by integration, also where stated over Q); the other theorems are closed under the global context",
    "coq-interval per-case certificates for real p (stdlib axioms of the classical reals, primitive-float specs)",
    "hand-written models Model/PNormM.v, Model/PNormRM.v of auxiliary.py:_p_norm, exact.py 381-400, approximate.py 315-370",
    "harness: generator, float->exact-rational printer (doubles below 2^-128 / integers above 2^128 are printed as num / 2^k resp. "
    "m * 2^k with the power evaluated by vm_compute: the same rational), landscape construction through the public API",
]
ASSUMPTIONS = [
    "the landscape whose norm is taken is the one the implementation reports (critical_pairs / start, stop, "
    "num_steps, values); correctness of the arithmetic that produced it is property C09",
    "binary64 rounding of the implementation is bounded by the 1e-9 relative tolerance, not proved",
    "large exponents (p > 10) are generated only at magnitudes where |f|^p stays inside the binary64 range (see _fits); that the "
    "norm is also right where |f|^p leaves that range is NOT checked while fixes/C10_pnorm_large_p_range.patch is not applied",
    "np.linspace(start, stop, n)[i] = start + i (stop-start)/(n-1) up to rounding",
    "extreme scales are generated for the ORDINATES only (what c * P scales) and with p <= 5: with abscissae of the same size, or "
    "ordinates below ~1e-290, the norm itself would leave the binary64 range; real p is not generated at extreme scales (no "
    "interval certificate attempted there); landscapes mixing ordinary and extreme ordinates are not generated (the extreme part "
    "is then below the tolerance)",
    "single-precision CRITICAL PAIRS / diagrams are not generated: _p_norm then works in float32 (relative error ~1e-8, "
    "outside the binary64 tolerance); float32 `values` arrays are generated (the grid, hence the pairs, is binary64), with "
    "homogeneity factors restricted to powers of two because c*P is itself formed in single precision (C09)",
]
RTOL = Fraction(1, 10 ** 9)
COQ_DEPS = ["Corr/PNormCorr.vo", "Corr/PNormRCorr.vo"]
INT_PS = [1, 2, 3, 4, 5, 7, 10]
REAL_PS = [1.5, 2.5, 3.141592653589793]
LEGACY_ID = "C10-pnorm-pinned-code"
# large exponents ("for every p >= 1"): around the powers of two where an implementation may switch strategy, the
# largest p of the library's own tests (113), and reals in between; exponents just above 1
BIG_INT_PS = [11, 16, 24, 31, 32, 33, 40, 48, 64, 100, 113, 128, 200, 256]
BIG_REAL_PS = [12.5, 31.5, 32.5, 40.25, 64.5, 100.5]
NEAR_ONE_PS = [1.001, 1.0625, 1.000001]
P_REPS = ["float", "np_int64", "np_int32", "np_float64"]      # an integer p handed over as 2.0 / np.int64(2) / ...
RANGE_ID = "C10-pnorm-large-p-range"
# extreme scales ("all scales"): the product of two ordinates leaves the binary64 range (|y| < 1e-162 or > 1e154) although
# every ordinate, and the norm, is an ordinary double; small exponents only, so that the norm itself stays representable
# and the exact rationals inside Coq stay cheap
EXTREME_SCALES = [1e-150, 1e-163, 1e-170, 1e-200, 1e-250, 1e150, 1e155, 1e170, 1e200, 1e250]
EXTREME_PS = [1, 2, 3, 5]
EXTREME_KINDS = ["cp_cross", "cp_cross", "cp_any", "ddiff", "ddiff", "dlin", "coef", "vals", "adiff", "homog"]


# ------------------------------------------------------------------------------- generators
def _xs(rng, n, mode):
    if mode == "dyadic":
        x = rng.randint(-16, 16) / 8.0
        out = [x]
        for _ in range(n - 1):
            x += rng.randint(1, 12) / 8.0
            out.append(x)
        return out
    if mode == "int":
        x = rng.randint(-5, 5)
        out = [x]
        for _ in range(n - 1):
            x += rng.randint(1, 4)
            out.append(x)
        return out
    x = round(rng.uniform(-5, 5), 3)
    out = [x]
    for _ in range(n - 1):
        x = x + rng.choice([round(rng.uniform(0.05, 3), 3), rng.uniform(1e-3, 2)])
        out.append(x)
    return out


def _y(rng, mode, sign=0):
    if mode == "int":
        v = rng.randint(0, 5)
    elif mode == "dyadic":
        v = rng.randint(0, 40) / 8.0
    else:
        v = rng.choice([round(rng.uniform(0, 4), 2), rng.uniform(0, 3), rng.uniform(0, 1e-3)])
    if sign == 0:
        sign = rng.choice([-1, 1])
    return sign * v


def _depth(rng, cls, mode):
    n = rng.randint(2, 7)
    xs = _xs(rng, n, mode)
    if cls == "pos":
        ys = [_y(rng, mode, 1) for _ in range(n)]
    elif cls == "neg":
        ys = [_y(rng, mode, -1) for _ in range(n)]
    elif cls == "cross":
        s = rng.choice([-1, 1])
        ys = []
        for i in range(n):
            v = _y(rng, mode, s)
            if v == 0:
                v = s * (1 if mode == "int" else 0.5)
            ys.append(v)
            if rng.random() < 0.7:
                s = -s
        if all(a * b >= 0 for a, b in zip(ys, ys[1:])):
            ys[1] = -ys[0]
    elif cls == "flat":
        ys = [_y(rng, mode) for _ in range(n)]
        for i in range(1, n):
            if rng.random() < 0.6:
                ys[i] = ys[i - 1]
    elif cls == "touch":
        ys = [_y(rng, mode) for _ in range(n)]
        for i in range(n):
            if rng.random() < 0.5:
                ys[i] = 0 if mode == "int" else 0.0
    else:  # mixed
        ys = [_y(rng, mode) for _ in range(n)]
    if cls != "flat" and rng.random() < 0.5:   # landscape-like: zero at both ends
        ys[0] = ys[-1] = 0 if mode == "int" else 0.0
    return [[x, y] for x, y in zip(xs, ys)]


def _nearly_flat(rng):
    n = rng.randint(2, 5)
    xs = _xs(rng, n, "float")
    y = rng.choice([1.0, 2.7, rng.uniform(0.3, 5)]) * rng.choice([-1, 1])
    ys = [y]
    for _ in range(n - 1):
        d = 10.0 ** (-rng.randint(4, 16)) * rng.choice([-1, 1]) * rng.uniform(0.5, 2)
        ys.append(ys[-1] * (1 + d))
    return [[x, yy] for x, yy in zip(xs, ys)]


def _bars(rng, mode, n=None):
    n = n or rng.randint(1, 4)
    out, used = [], set()
    while len(out) < n:
        if mode == "dyadic":
            b = rng.randint(0, 40) / 4.0
            d = b + rng.randint(1, 24) / 4.0
        elif mode == "int":
            b = rng.randint(0, 12)
            d = b + rng.randint(1, 8)
        else:
            b = round(rng.uniform(0, 5), 1)
            d = round(b + rng.uniform(0.2, 5), 1)
        if b in used or d in used or d <= b:   # keep births / deaths pairwise distinct (C03 / C09 territory)
            continue
        used.update((b, d))
        out.append([b, d])
    return out


def _coef(rng):
    return rng.choice([2.0, -1.0, 0.5, 0.3, -0.7, 0.4, 3.0, 1.0, -2.5, 0.1])


def _exact_leaf(rng):
    if rng.random() < 0.5:
        return {"t": "dgm", "bars": _bars(rng, rng.choice(["dyadic", "decimal"]))}
    mode = rng.choice(["int", "dyadic", "float"])
    d = _depth(rng, "pos", mode)
    d[0][1] = d[-1][1] = 0 if mode == "int" else 0.0
    return {"t": "cp", "cp": [d], "rep": "int" if mode == "int" else rng.choice(["float", "np"])}


def _approx_leaf(rng, grid=None):
    start, stop, n = grid or (float(rng.randint(-2, 1)), float(rng.randint(3, 8)), rng.randint(4, 12))
    if rng.random() < 0.5:
        bars = [[rng.uniform(start, stop - 1), 0] for _ in range(rng.randint(1, 3))]
        bars = [[b, rng.uniform(b + 0.5, stop)] for b, _ in bars]
        return {"t": "adgm", "bars": bars, "start": start, "stop": stop, "n": n}
    k = rng.randint(1, 3)
    vals = [[rng.choice([0.0, float(rng.randint(-3, 3)), round(rng.uniform(-2, 2), 2)]) for _ in range(n)] for _ in range(k)]
    return {"t": "vals", "start": start, "stop": stop, "n": n, "values": vals}


INT_DTYPES = ["int64", "int32", "int16"]
LAYOUTS = ["C", "F", "F", "strided", "readonly", "negstride"]


def _frac_grid(rng, big=False):
    """a grid whose nodes are (mostly) not integers: fractional ends and / or a step that is not 1"""
    n = rng.choice([49, 65, 129]) if big else rng.choice([4, 5, 6, 6, 7, 9, 11, 12])
    k = rng.randrange(4)
    if k == 0:      # step exactly 1/2 or 1/4
        h = rng.choice([0.5, 0.25])
        start = rng.randint(-8, 4) * h
        stop = start + (n - 1) * h
    elif k == 1:    # decimal ends, step below 1
        start = round(rng.uniform(-2, 2), 1)
        stop = round(start + rng.uniform(0.4, 0.9) * (n - 1) * rng.choice([1, 0.1]), 2)
    elif k == 2:    # integer ends, step (stop - start)/(n - 1) not an integer in general
        start = float(rng.randint(-2, 1))
        stop = float(rng.randint(3, 8))
    else:           # step above 1, not an integer
        start = rng.randint(-8, 4) / 4.0
        stop = start + (n - 1) * rng.choice([1.5, 2.25, 1.1])
    return start, stop, n


def _dtype_leaf(rng, grid, dtype, layout=None):
    """grid landscape from a `values` array of the given dtype (integer samples for the integer dtypes) and memory layout"""
    start, stop, n = grid
    layout = layout or rng.choice(LAYOUTS)
    k = rng.randint(2, 3) if layout == "F" else rng.randint(1, 3)
    rows = []
    for _ in range(k):
        if dtype in INT_DTYPES:
            row = [rng.randint(-3, 3) if rng.random() < 0.5 else rng.randint(0, 5) for _ in range(n)]
        else:
            row = [rng.choice([0.0, float(rng.randint(-3, 3)), round(rng.uniform(-2, 2), 2)]) for _ in range(n)]
        if rng.random() < 0.6:          # landscape-like: zero at both ends
            row[0] = row[-1] = 0 if dtype in INT_DTYPES else 0.0
        rows.append(row)
    r = {"t": "vals", "start": start, "stop": stop, "n": n, "values": rows, "dtype": dtype,
         "layout": layout}
    if rng.random() < 0.5:
        r["grid_int"] = True            # integral grid ends are passed as Python ints (start=0, stop=3)
    return r


def _scale_recipe(r, s):
    r = dict(r)
    if r["t"] == "cp":
        r["cp"] = [[[x * s, y * s] for x, y in d] for d in r["cp"]]
    return r



def _scale_y(cp, s):
    """only the ordinates are scaled (what c * P does); the abscissae stay ordinary"""
    return [[[x, float(y) * s] for x, y in d] for d in cp]


def _extreme_scale(rng):
    if rng.random() < 0.7:
        return rng.choice(EXTREME_SCALES)
    e = rng.randint(150, 250)
    return rng.uniform(1, 9.99) * 10.0 ** (-e if rng.random() < 0.6 else e)


def _extreme_case(rng, c, j=None):
    """sign-changing (and one-signed, flat, touching) landscapes whose ordinates are all of size ~1e-150..1e-250 or
    ~1e150..1e250: explicit critical pairs, differences / combinations of diagrams' landscapes scaled by * / rmul / division,
    combinations whose coefficients carry the scale, grid landscapes from values and differences of grid landscapes of
    diagrams; `homog`: an ordinary difference whose homogeneity factor carries the scale"""
    k = rng.choice(EXTREME_KINDS) if j is None else EXTREME_KINDS[j % len(EXTREME_KINDS)]
    s = _extreme_scale(rng)
    c["p"] = rng.choice(EXTREME_PS)
    op = rng.choice(["mul", "mul", "rmul", "div"])
    dleaf = lambda: {"t": "dgm", "bars": _bars(rng, rng.choice(["dyadic", "decimal"]), rng.randint(1, 3))}

    def two():
        a, b = dleaf(), dleaf()
        while sorted(map(tuple, b["bars"])) == sorted(map(tuple, a["bars"])):
            b = dleaf()
        return a, b
    if k in ("cp_cross", "cp_any"):
        base = "cross" if k == "cp_cross" else rng.choice(["pos", "neg", "flat", "touch", "mixed", "cross"])
        mode = rng.choice(["int", "dyadic", "float"])
        cp = [_depth(rng, base, mode) for _ in range(rng.choice([1, 1, 2]))]
        if rng.random() < 0.3 and k == "cp_cross":     # |y0| == |y1| on a crossing segment
            cp[0][1][1] = -cp[0][0][1] if cp[0][0][1] != 0 else 1.0
        c["recipe"] = {"t": "cp", "cp": _scale_y(cp, s), "rep": rng.choice(["float", "np", "tuple", "arr"])}
    elif k == "ddiff":
        a, b = two()
        c["recipe"] = {"t": "scale", "s": s, "op": op, "sub": {"t": "lin", "terms": [[1.0, a], [-1.0, b]]}}
        if rng.random() < 0.5:
            c["other"] = {"t": "scale", "s": s, "op": "mul", "sub": dleaf()}
    elif k == "dlin":
        c["recipe"] = {"t": "scale", "s": s, "op": op,
                       "sub": {"t": "lin", "terms": [[_coef(rng), dleaf()] for _ in range(rng.randint(2, 3))]}}
    elif k == "coef":
        # s*P + (-s)*Q : the coefficients of the combination carry the scale
        a, b = two()
        c["recipe"] = {"t": "lin", "terms": [[s, a], [-s * rng.choice([1.0, 1.0, 0.5, 2.0]), b]]}
    elif k == "vals":
        start, stop, n = _frac_grid(rng) if rng.random() < 0.5 else (float(rng.randint(-2, 1)), float(rng.randint(3, 8)), rng.randint(4, 12))
        rows = [[rng.choice([0.0, float(rng.randint(-3, 3)), round(rng.uniform(-2, 2), 2), rng.uniform(-2, 2)]) * s for _ in range(n)]
                for _ in range(rng.randint(1, 2))]
        if all(a * b >= 0 for a, b in zip(rows[0], rows[0][1:])):
            rows[0][0], rows[0][1] = 1.5 * s, -0.5 * s
        c["recipe"] = {"t": "vals", "start": start, "stop": stop, "n": n, "values": rows, "layout": rng.choice(["C", "C", "F", "strided"])}
        if rng.random() < 0.4:
            c["other"] = {"t": "vals", "start": start, "stop": stop, "n": n, "values": [[rng.randint(-3, 3) * s for _ in range(n)]]}
    elif k == "adiff":
        grid = _dyadic_grid(rng) if rng.random() < 0.5 else (0.0, float(rng.randint(4, 9)), rng.choice([5, 9, 12, 17]))
        def aleaf():
            bars = [[b, min(d, grid[1])] for b, d in _bars(rng, rng.choice(["dyadic", "decimal"])) if b + 0.25 < grid[1]] or [[0.5, 3.0]]
            return {"t": "adgm", "bars": bars, "start": grid[0], "stop": grid[1], "n": grid[2]}
        a, b = aleaf(), aleaf()
        while b["bars"] == a["bars"]:
            b = aleaf()
        c["recipe"] = {"t": "scale", "s": s, "op": op, "sub": {"t": "lin", "terms": [[1.0, a], [-1.0, b]]}}
        if rng.random() < 0.4:
            c["other"] = {"t": "scale", "s": s, "op": "mul", "sub": aleaf()}
    else:  # homog: ||c (P - Q)|| = |c| ||P - Q|| with the extreme factor as c
        a, b = two()
        c["recipe"] = {"t": "lin", "terms": [[1.0, a], [-1.0, b]]}
        c["c"] = s * rng.choice([1.0, -1.0])
    return c


def _fits(lo, hi, p, cmax=3.0, cmin=0.1):
    """|f|^p stays well inside the binary64 range for every landscape the case touches (P, c*P, P + M) when the
    largest |value| of P lies in [lo, hi]: the pinned code integrates |f|^p itself, so hi**p overflows / vanishes
    outside this window although the norm is representable (finding C10-pnorm-large-p-range, generated separately)"""
    if hi <= 0:
        return True
    lo = min(lo, hi)
    return p * math.log10(max(hi, 1e-300) * 2 * cmax) < 250 and (lo <= 0 or p * math.log10(lo * cmin) > -250)


def _pick_big_p(rng, lo, hi, pool):
    ok = [p for p in pool if _fits(lo, hi, p)]
    return rng.choice(ok) if ok else None


def _cp_top(cp):
    ys = [abs(y) for d in cp for _, y in d if y != 0]
    return (min(ys), max(ys)) if ys else (0.0, 0.0)


def _dyadic_grid(rng):
    """grid whose step is 1/4, 1/2, 1 or 2: diagrams with quarter-integer ends snap to it exactly"""
    stop, n = rng.choice([(4.0, 5), (4.0, 9), (4.0, 17), (8.0, 5), (8.0, 9), (8.0, 17), (8.0, 33), (16.0, 9), (16.0, 33)])
    return 0.0, stop, n


def _big_p_recipe(rng, real=False, light=True):
    """(recipe, other, lo, hi, nseg): a landscape whose largest |value| is known in advance to lie in [lo, hi] (when it
    is not identically zero), so that the exponent can be chosen inside the window of `_fits`.
    light: every ordinate is an integer or a short dyadic number (the exact rational evaluation of the model inside Coq
    stays cheap for p in the hundreds); otherwise full-mantissa doubles / decimal diagrams, kept small: nseg is the
    (estimated) number of segments, used to cap the exponent (cost of the Coq evaluation ~ nseg * p^2)."""
    if real:
        kinds = ["cp", "cp", "ddiff", "vals", "cp_scaled"] if light else ["cp", "cp_nf", "decdiff", "vals"]
    elif light:
        kinds = ["cp", "cp", "cp_scaled", "dgm", "ddiff", "ddiff", "vals", "valsdiff", "adgm", "adiff", "cp_container", "vals_dtype"]
    else:
        kinds = ["cp", "cp", "cp_nf", "decdiff", "decdiff", "declin", "vals", "valsdiff", "vals_dtype"]
    k = rng.choice(kinds)
    small = real or not light
    other = None
    nseg = 0
    dy_leaf = lambda: {"t": "dgm", "bars": _bars(rng, "dyadic", rng.randint(1, 2 if real else 4))}
    if k in ("cp", "cp_container", "cp_scaled"):
        base = rng.choice(["pos", "neg", "cross", "cross", "flat", "touch", "mixed"])
        rep = rng.choice(["tuple", "arr", "arrint"]) if k == "cp_container" else None
        mode = "int" if rep == "arrint" else (rng.choice(["int", "dyadic"]) if light else "float")
        cp = [(_depth(rng, base, mode)[:4] if small else _depth(rng, base, mode)) for _ in range(1 if small else rng.choice([1, 1, 2, 3]))]
        r = {"t": "cp", "cp": cp, "rep": rep or ("int" if mode == "int" else rng.choice(["float", "np"]))}
        if k == "cp_scaled":
            r = _scale_recipe(dict(r, rep="float" if r["rep"] == "int" else r["rep"]), 2.0 ** rng.choice([-6, -3, 3, 5]))
        lo, hi = _cp_top(r["cp"])
        lo = hi          # the largest ordinate itself is known
        nseg = sum(len(d) - 1 for d in cp)
    elif k == "cp_nf":
        r = {"t": "cp", "cp": [_nearly_flat(rng)[:3]], "rep": rng.choice(["float", "np"])}
        lo, hi = _cp_top(r["cp"]); lo = hi
        nseg = 3 * sum(len(d) - 1 for d in r["cp"])     # (1 - s)^(p+1) with a tiny s: the most expensive rationals
    elif k == "dgm":
        r = dy_leaf(); lo, hi = 0.125, 3.0
        other = dy_leaf()
    elif k == "ddiff":
        a, b = dy_leaf(), dy_leaf()
        while sorted(map(tuple, b["bars"])) == sorted(map(tuple, a["bars"])):
            b = dy_leaf()
        r = {"t": "lin", "terms": [[1.0, a], [-1.0, b]]}; lo, hi = 0.125, 6.0     # breakpoint values are multiples of 1/8
        other = None if real else dy_leaf()
    elif k in ("decdiff", "declin"):
        # one-decimal diagrams: every breakpoint value of a combination with the coefficients of _coef is (up to rounding
        # crumbs) a multiple of 0.005, so the largest is >= 0.004 unless the combination vanishes identically
        leaves = []
        while len(leaves) < 2:
            l = {"t": "dgm", "bars": _bars(rng, "decimal", 1 if (real or k == "declin") else rng.randint(1, 2))}
            if all(sorted(map(tuple, l["bars"])) != sorted(map(tuple, q["bars"])) for q in leaves):
                leaves.append(l)
        cs = [1.0, -1.0] if k == "decdiff" else [_coef(rng) for _ in leaves]
        r = {"t": "lin", "terms": [[c, l] for c, l in zip(cs, leaves)]}
        lo, hi = (0.04 if k == "decdiff" else 0.004), 2.5 * sum(abs(c) for c in cs)
        nseg = 4 * sum(len(l["bars"]) ** 2 for l in leaves)
    elif k in ("vals", "valsdiff", "vals_dtype"):
        grid = _frac_grid(rng) if k == "vals_dtype" else (float(rng.randint(-2, 1)), float(rng.randint(3, 8)), rng.randint(4, 6 if small else 12))
        if small and grid[2] > 6:
            grid = (grid[0], grid[0] + (grid[1] - grid[0]) * 5 / (grid[2] - 1), 6)
        def leaf():
            if k == "vals_dtype":
                q = _dtype_leaf(rng, grid, rng.choice(INT_DTYPES) if light else "float64")
                return dict(q, values=q["values"][:1], layout="C" if q["layout"] == "F" else q["layout"]) if small else q
            kk = 1 if small else rng.randint(1, 3)
            pick = (lambda: rng.choice([0.0, float(rng.randint(-3, 3)), rng.randint(-12, 12) / 4.0])) if light else \
                   (lambda: rng.choice([0.0, float(rng.randint(-3, 3)), round(rng.uniform(-2, 2), 2), rng.uniform(-2, 2)]))
            return {"t": "vals", "start": grid[0], "stop": grid[1], "n": grid[2], "values": [[pick() for _ in range(grid[2])] for _ in range(kk)]}
        a = leaf()
        if k == "valsdiff":
            b = leaf()
            r = {"t": "lin", "terms": [[1.0, a], [-1.0, b]]}
            rows = max(len(a["values"]), len(b["values"]))
            pad = lambda v: v + [[0.0] * grid[2]] * (rows - len(v))
            diff = [abs(x - y) for ra, rb in zip(pad(a["values"]), pad(b["values"])) for x, y in zip(ra, rb)]
        else:
            r = a
            rows = len(a["values"])
            diff = [abs(x) for row in a["values"] for x in row]
        nz = [x for x in diff if x > 1e-12]
        lo = hi = max(nz) if nz else 0.0
        nseg = rows * (grid[2] - 1)
        if hi and rng.random() < 0.5 and not real:
            other = leaf()
    else:  # adgm / adiff: quarter-integer bars on a grid of dyadic step, sampled values are multiples of 1/8
        grid = _dyadic_grid(rng)
        def leaf():
            bars = [[b, min(d, grid[1])] for b, d in _bars(rng, "dyadic") if b + 0.25 < grid[1]] or [[0.5, 3.0]]
            return {"t": "adgm", "bars": bars, "start": grid[0], "stop": grid[1], "n": grid[2]}
        if k == "adgm":
            r = leaf()
        else:
            r = {"t": "lin", "terms": [[1.0, leaf()], [-1.0, leaf()]]}
        lo, hi = 0.125, 8.0
        other = leaf() if rng.random() < 0.5 else None
    return r, other, lo, hi, (0 if light else nseg)


HEAVY_BUDGET = 10000     # nseg * p^2 of a case with full-mantissa ordinates (1-2 s of vm_compute)


def _case(rng, cls, j=None):
    """j: running index within the class (generate() passes it so that dtypes x layouts x kinds are all met in every run)"""
    p = rng.choice(INT_PS)
    c = {"cls": cls, "p": p, "c": _coef(rng), "other": None}
    if cls in ("pos", "neg", "cross", "flat", "touch", "mixed"):
        mode = rng.choice(["int", "dyadic", "float"])
        k = rng.choice([1, 1, 2, 3])
        cp = [_depth(rng, cls, mode) for _ in range(k)]
        c["recipe"] = {"t": "cp", "cp": cp, "rep": "int" if mode == "int" else rng.choice(["float", "np"])}
    elif cls == "nearly_flat":
        c["recipe"] = {"t": "cp", "cp": [_nearly_flat(rng) for _ in range(rng.choice([1, 2]))], "rep": rng.choice(["float", "np"])}
    elif cls == "single_point":
        mode = rng.choice(["int", "float"])
        c["recipe"] = {"t": "cp", "cp": [[[1, 2] if mode == "int" else [1.0, -2.0]], _depth(rng, "mixed", mode)],
                       "rep": "int" if mode == "int" else "float"}
    elif cls == "scaled":
        s = 2.0 ** rng.choice([-20, -10, 10, 20])
        cp = [_depth(rng, rng.choice(["cross", "mixed", "pos"]), "dyadic")]
        c["recipe"] = _scale_recipe({"t": "cp", "cp": cp, "rep": "float"}, s)
    elif cls == "dgm":
        c["recipe"] = {"t": "dgm", "bars": _bars(rng, rng.choice(["dyadic", "decimal"]))}
        c["other"] = {"t": "dgm", "bars": _bars(rng, "decimal")}
    elif cls in ("sum", "diff"):
        a, b = _exact_leaf(rng), _exact_leaf(rng)
        c["recipe"] = {"t": "lin", "terms": [[1.0, a], [1.0 if cls == "sum" else -1.0, b]]}
        c["other"] = _exact_leaf(rng)
    elif cls == "lincomb":
        c["recipe"] = {"t": "lin", "terms": [[_coef(rng), _exact_leaf(rng)] for _ in range(rng.randint(2, 4))]}
        if rng.random() < 0.3:   # a*P + b*P - (a+b)*P : cancelling slopes, tiny ordinates
            leaf = _exact_leaf(rng)
            c["recipe"] = {"t": "lin", "terms": [[0.1, leaf], [0.2, leaf], [-0.3, leaf]]}
    elif cls == "approx_vals":
        c["recipe"] = _approx_leaf(rng)
        c["recipe"] = c["recipe"] if c["recipe"]["t"] == "vals" else dict(_approx_leaf(rng), **{})
    elif cls == "approx_dgm":
        start, stop, n = 0.0, float(rng.randint(4, 9)), rng.choice([5, 9, 17, 33])
        bars = _bars(rng, "decimal")
        c["recipe"] = {"t": "adgm", "bars": [[b, min(d, stop)] for b, d in bars if b < stop], "start": start, "stop": stop, "n": n}
        if not c["recipe"]["bars"]:
            c["recipe"]["bars"] = [[0.5, 3.0]]
    elif cls in ("approx_diff", "approx_lin"):
        grid = (float(rng.randint(-2, 1)), float(rng.randint(3, 8)), rng.randint(4, 12))
        if cls == "approx_diff":
            terms = [[1.0, _approx_leaf(rng, grid)], [-1.0, _approx_leaf(rng, grid)]]
        else:
            terms = [[_coef(rng), _approx_leaf(rng, grid)] for _ in range(rng.randint(2, 3))]
        c["recipe"] = {"t": "lin", "terms": terms}
        c["other"] = _approx_leaf(rng, grid)
    elif cls in ("lazy_exact_pnorm", "lazy_exact_sup"):
        c["recipe"] = {"t": "dgm", "bars": _bars(rng, rng.choice(["dyadic", "decimal"]))}
        c["lazy"] = "p_norm" if cls == "lazy_exact_pnorm" else "sup_norm"
    elif cls in ("lazy_approx_pnorm", "lazy_approx_sup"):
        start, stop, n = 0.0, float(rng.randint(4, 9)), rng.choice([5, 9, 17])
        bars = [[b, min(d, stop)] for b, d in _bars(rng, "decimal") if b + 0.5 < stop] or [[0.5, 3.0]]
        c["recipe"] = {"t": "adgm", "bars": bars, "start": start, "stop": stop, "n": n}
        c["lazy"] = "p_norm" if cls == "lazy_approx_pnorm" else "sup_norm"
    elif cls in ("vals_dtype", "vals_dtype_big"):
        # the user's `values` array is an integer / single-precision array (as in the docs and the test-suite:
        # values=np.array([[0, 1, 2, 2, 1, 0]])), possibly Fortran-ordered, a strided view or read-only, on a
        # grid whose nodes are not integers; alone, as a difference, or in a combination with int coefficients
        big = cls == "vals_dtype_big"
        grid = _frac_grid(rng, big)
        dtype = rng.choice(INT_DTYPES + ["int64", "float32", "float64"])
        lay = None
        k = rng.choice(["leaf", "leaf", "diff", "lin"])
        if j is not None:       # 6 dtypes x 5 layouts x 6 kind slots, met once each every 30 cases
            dtype = (INT_DTYPES + ["float32", "float64", "int64"])[j % 6]
            lay = ["F", "strided", "negstride", "readonly", "C"][j % 5]
            k = ["leaf", "diff", "leaf", "lin", "leaf", "leaf"][(j // 5) % 6]
        if big:
            c["p"] = rng.choice([1, 2, 3])
        dt2 = lambda: dtype if dtype == "float32" else rng.choice([dtype, dtype, "float64", "int32"])   # operands of mixed dtypes
        if k == "leaf":
            c["recipe"] = _dtype_leaf(rng, grid, dtype, lay)
        elif k == "diff":
            c["recipe"] = {"t": "lin", "terms": [[1.0, _dtype_leaf(rng, grid, dtype, lay)], [-1.0, _dtype_leaf(rng, grid, dt2(), lay)]]}
        else:
            c["recipe"] = {"t": "lin", "terms": [[rng.choice([1.0, -1.0, 2, -3, 0.5, 0.3]), _dtype_leaf(rng, grid, dt2(), lay)]
                                                 for _ in range(rng.randint(1, 3))]}
        if dtype == "float32":
            # c * P is formed in single precision: only factors that scale exactly; no second landscape
            c["c"] = rng.choice([2.0, -1.0, 0.5, -4.0, 0.25])
        else:
            c["c"] = rng.choice([c["c"], 2, -3])
            if not big:
                c["other"] = _dtype_leaf(rng, grid, rng.choice([dtype, "float64"]))
    elif cls in ("dgm_int", "adgm_int"):
        # diagrams given as integer arrays (the docs' own example: np.array([[0, 3], [1, 4]]))
        dtype = rng.choice(["int64", "int32"])
        bars = _bars(rng, "int")
        if cls == "dgm_int":
            c["recipe"] = {"t": "dgm", "bars": bars, "dtype": dtype}
            c["other"] = {"t": "dgm", "bars": _bars(rng, "int"), "dtype": dtype}
        else:
            n = rng.choice([5, 6, 9, 12, 17, 33])
            c["recipe"] = {"t": "adgm", "bars": bars, "n": n, "dtype": dtype}
            if rng.random() < 0.5:      # grid ends left to the constructor (taken from the diagram)
                c["recipe"].update(start=None, stop=None)
            else:
                lo, hi = min(b for b, _ in bars), max(d for _, d in bars)
                c["recipe"].update(start=lo - rng.choice([0, 1, 0.5]), stop=hi + rng.choice([0, 1, 0.5, 2.5]), grid_int=True)
        if rng.random() < 0.3:
            c["lazy"] = rng.choice(["p_norm", "sup_norm"])
            c["other"] = None
    elif cls == "cp_container":
        # critical pairs handed over as tuples / one ndarray per depth instead of nested lists
        base = rng.choice(["pos", "neg", "cross", "flat", "touch", "mixed"])
        rep = rng.choice(["tuple", "arr", "arrint"])
        mode = "int" if rep == "arrint" else rng.choice(["int", "dyadic", "float"])
        cp = [_depth(rng, base, mode) for _ in range(rng.choice([1, 2, 3]))]
        c["recipe"] = {"t": "cp", "cp": cp, "rep": rep}
        if rng.random() < 0.5:
            # a second summand only for functions that vanish at both ends (what a sum of the others means is C09's business)
            for d in cp:
                d[0][1] = d[-1][1] = 0 if mode == "int" else 0.0
            c["other"] = _exact_leaf(rng)
    elif cls == "real_p":
        c["p"] = rng.choice(REAL_PS)
        k = rng.choice(["cross", "mixed", "neg", "nearly_flat", "diff", "vals_int"])
        if k == "vals_int":
            g = _frac_grid(rng)
            c["recipe"] = _dtype_leaf(rng, (g[0], g[1] if g[2] <= 6 else g[0] + (g[1] - g[0]) * 5 / (g[2] - 1), min(g[2], 6)),
                                      rng.choice(INT_DTYPES))
            c["recipe"]["values"] = c["recipe"]["values"][:1]
            if c["recipe"]["layout"] == "F":
                c["recipe"]["layout"] = "C"
        elif k == "nearly_flat":
            c["recipe"] = {"t": "cp", "cp": [_nearly_flat(rng)[:3]], "rep": "float"}
        elif k == "diff":
            c["recipe"] = {"t": "lin", "terms": [[1.0, {"t": "dgm", "bars": _bars(rng, "decimal", 2)}],
                                                 [-1.0, {"t": "dgm", "bars": _bars(rng, "decimal", 1)}]]}
        else:
            mode = rng.choice(["int", "float"])
            c["recipe"] = {"t": "cp", "cp": [_depth(rng, k, mode)[:4]], "rep": "int" if mode == "int" else rng.choice(["float", "np"])}
    elif cls in ("big_p", "big_p_real", "near_one_p", "p_rep"):
        # non-default exponents: large integer / real p, p just above 1, an integer p handed over as a float or a
        # numpy scalar; the landscape's magnitude is known in advance and p is drawn from the exponents for which
        # |f|^p stays inside the binary64 range (see _fits)
        real = cls in ("big_p_real", "near_one_p")
        for _ in range(50):
            r, other, lo, hi, nseg = _big_p_recipe(rng, real, light=rng.random() < (0.5 if real else 0.7))
            pool = {"big_p": BIG_INT_PS, "big_p_real": BIG_REAL_PS, "near_one_p": NEAR_ONE_PS, "p_rep": INT_PS + BIG_INT_PS[:8]}[cls]
            if cls == "near_one_p" and j is not None:
                pool = [NEAR_ONE_PS[j % len(NEAR_ONE_PS)]]      # every exponent just above 1 is met in every run
            if not real:
                pool = [q for q in pool if nseg * q * q <= HEAVY_BUDGET]
            p = _pick_big_p(rng, lo, hi, pool)
            if p is not None:
                break
        else:
            r, other, p = {"t": "cp", "cp": [[[0.0, 0.0], [1.0, 1.5], [3.0, -0.5]]], "rep": "float"}, None, pool[0]
        c.update(recipe=r, other=other, p=p)
        if p >= 150:
            c["c"] = rng.choice([2.0, -1.0, 0.5, 1.0, -2.0])
        if cls == "p_rep" or (cls == "big_p" and rng.random() < 0.3):
            c["p_rep"] = rng.choice(P_REPS) if j is None else P_REPS[j % len(P_REPS)]
    elif cls == "extreme":
        _extreme_case(rng, c, j)
    elif cls == "big_p_range":
        # the same exponents at scales where |f|^p itself leaves the binary64 range although the norm does not
        # (only generated while known_findings.json lists RANGE_ID)
        s_ = 2.0 ** rng.choice([-20, -14, -10, 10, 14, 20])
        cp = [_depth(rng, rng.choice(["cross", "mixed", "pos"]), "dyadic")]
        for d in cp:
            if all(y == 0 for _, y in d):
                d[1][1] = 1.5
        c["recipe"] = _scale_recipe({"t": "cp", "cp": cp, "rep": "float"}, s_)
        hi = _cp_top(c["recipe"]["cp"])[1]
        c["p"] = rng.choice([p for p in BIG_INT_PS[4:] + BIG_REAL_PS[2:] if not _fits(hi, hi, p, 1.0, 1.0)] or [256])
    else:
        raise ValueError(cls)
    return c


CLASSES = (["pos", "neg", "flat", "touch", "mixed", "single_point", "scaled", "dgm"] * 2
           + ["cross", "nearly_flat", "sum", "diff", "lincomb"] * 4
           + ["approx_vals", "approx_dgm", "approx_diff", "approx_lin"] * 2
           + ["lazy_exact_pnorm", "lazy_exact_sup", "lazy_approx_pnorm", "lazy_approx_sup"] * 2)
# dtypes / containers / memory layouts of what the caller hands over
DTYPE_CLASSES = ["vals_dtype"] * 5 + ["dgm_int", "adgm_int", "cp_container"] * 2


def generate(rng, tier):
    n = 380 if tier == "quick" else 9000
    n_real = 16 if tier == "quick" else 320
    n_dt = 66 if tier == "quick" else 1800
    n_big = 2 if tier == "quick" else 60
    cases = [_case(rng, CLASSES[i % len(CLASSES)]) for i in range(n)]
    cases += [_case(rng, "real_p") for _ in range(n_real)]
    seen = {}
    for i in range(n_dt):
        cls = DTYPE_CLASSES[i % len(DTYPE_CLASSES)]
        cases.append(_case(rng, cls, seen.setdefault(cls, 0)))
        seen[cls] += 1
    cases += [_case(rng, "vals_dtype_big", 7 * i) for i in range(n_big)]
    # non-default exponents
    n_bp, n_bpr, n_one, n_rep = (36, 5, 4, 8) if tier == "quick" else (1200, 60, 40, 300)
    cases += [_case(rng, "big_p") for _ in range(n_bp)]
    cases += [_case(rng, "big_p_real") for _ in range(n_bpr)]
    cases += [_case(rng, "near_one_p", i) for i in range(n_one)]
    cases += [_case(rng, "p_rep", i) for i in range(n_rep)]
    # extreme scales (every kind of EXTREME_KINDS is met in every run)
    cases += [_case(rng, "extreme", i) for i in range(40 if tier == "quick" else 800)]
    if _range_finding_listed():
        cases += [_case(rng, "big_p_range") for _ in range(4 if tier == "quick" else 60)]
    return cases


def _range_finding_listed():
    try:
        return any(f.get("id") == RANGE_ID for f in core.load_findings(PID))
    except Exception:
        return False


def search_generate(rng, n):
    return [_case(rng, rng.choice(["cross", "nearly_flat", "sum", "diff", "lincomb", "mixed", "approx_diff", "flat", "touch",
                                  "lazy_exact_pnorm", "lazy_exact_sup", "lazy_approx_pnorm", "lazy_approx_sup",
                                  "vals_dtype", "vals_dtype", "dgm_int", "adgm_int", "cp_container",
                                  "big_p", "big_p", "big_p", "p_rep", "extreme", "extreme", "extreme"]))
            for _ in range(n)]


def corpus():
    """refutation witnesses and minimised failures: corpus/C10/*.json (run first on every check)"""
    import json
    d = core.VERIF / "corpus" / PID
    out = []
    for f in sorted(d.glob("*.json")):
        c = json.loads(f.read_text())
        c.pop("note", None)
        c["cls"] = "corpus"
        out.append(c)
    return out


# ------------------------------------------------------------------------------- implementation
def _num(v):
    v = float(v)
    if v != v:
        return "nan"
    if v in (float("inf"), float("-inf")):
        return "inf" if v > 0 else "-inf"
    return v


def _build(r, lazy=False):
    """lazy=True: diagrams are passed with compute=False, so the first method that needs the landscape computes it"""
    import numpy as np
    from persim.landscapes import PersLandscapeApprox, PersLandscapeExact
    t = r["t"]

    def end(v):   # grid end: integral values as Python ints when the recipe asks for it
        return int(v) if (v is not None and r.get("grid_int") and float(v) == int(v)) else v

    if t == "cp":
        rep = r["rep"]
        if rep == "tuple":
            return PersLandscapeExact(critical_pairs=[tuple((x, y) for x, y in d) for d in r["cp"]], hom_deg=0)
        if rep in ("arr", "arrint"):
            return PersLandscapeExact(critical_pairs=[np.array(d, dtype=np.int64 if rep == "arrint" else float) for d in r["cp"]],
                                      hom_deg=0)
        conv = {"int": (lambda v: int(v) if float(v) == int(v) else float(v)), "float": float, "np": np.float64}[rep]
        return PersLandscapeExact(critical_pairs=[[[conv(x), conv(y)] for x, y in d] for d in r["cp"]], hom_deg=0)
    if t == "dgm":
        return PersLandscapeExact(dgms=[np.array(r["bars"], dtype=r.get("dtype", "float64"))], hom_deg=0, compute=not lazy)
    if t == "vals":
        a = np.array(r["values"], dtype=r.get("dtype", "float64"))
        lay = r.get("layout", "C")
        if lay == "F":
            a = np.asfortranarray(a)
        elif lay == "strided":          # every second row / column of a larger buffer
            big = np.full((2 * a.shape[0], 2 * a.shape[1] + 1), 7, dtype=a.dtype)
            big[::2, 1::2] = a
            a = big[::2, 1::2]
        elif lay == "negstride":
            a = np.ascontiguousarray(a[:, ::-1])[:, ::-1]
        elif lay == "readonly":
            a.setflags(write=False)
        return PersLandscapeApprox(start=end(r["start"]), stop=end(r["stop"]), num_steps=r["n"], values=a, hom_deg=0)
    if t == "adgm":
        return PersLandscapeApprox(start=end(r["start"]), stop=end(r["stop"]), num_steps=r["n"],
                                   dgms=[np.array(r["bars"], dtype=r.get("dtype", "float64"))], hom_deg=0, compute=not lazy)
    if t == "scale":
        L = _build(r["sub"])
        op = r.get("op", "mul")
        return L * r["s"] if op == "mul" else (r["s"] * L if op == "rmul" else L / (1.0 / r["s"]))
    if t == "lin":
        acc = None
        for c, sub in r["terms"]:
            L = _build(sub)
            if acc is not None and c == -1.0:
                acc = acc - L
                continue
            T = L if c == 1.0 else (-L if c == -1.0 else (c * L if c != 0.5 else L / 2.0))
            acc = T if acc is None else acc + T
        return acc
    raise ValueError(t)


def _describe(L):
    import numpy as np
    if hasattr(L, "values") and not hasattr(L, "critical_pairs"):
        L.compute_landscape()
        return {"kind": "approx", "start": _num(L.start), "stop": _num(L.stop), "n": int(L.num_steps),
                "values": [[_num(v) for v in row] for row in np.asarray(L.values, dtype=float)]}
    L.compute_landscape()
    return {"kind": "exact", "cp": [[[_num(x), _num(y)] for x, y in d] for d in L.critical_pairs]}


def _p_arg(c):
    """the exponent as the caller hands it over: as generated, or an integer p as 2.0 / np.int64(2) / np.float64(2)"""
    import numpy as np
    conv = {"float": float, "np_int64": np.int64, "np_int32": np.int32, "np_float64": np.float64}.get(c.get("p_rep"))
    return conv(c["p"]) if conv else c["p"]


def impl_run(cases):
    outs = []
    for c in cases:
        def call():
            p = _p_arg(c)
            if c.get("lazy"):
                # the landscape is described from an eagerly built twin; on the lazy object the method
                # named by c["lazy"] is the FIRST one that needs the landscape
                E = _build(c["recipe"])
                o = _describe(E)
                o["eager_norm"] = core.guarded(lambda: _num(E.p_norm(p)))
                o["eager_sup"] = core.guarded(lambda: _num(E.sup_norm()))
                L = _build(c["recipe"], lazy=True)
                if c["lazy"] == "p_norm":
                    o["norm"] = core.guarded(lambda: _num(L.p_norm(p)))
                    o["sup"] = core.guarded(lambda: _num(L.sup_norm()))
                else:
                    o["sup"] = core.guarded(lambda: _num(L.sup_norm()))
                    o["norm"] = core.guarded(lambda: _num(L.p_norm(p)))
            else:
                L = _build(c["recipe"])
                o = _describe(L)
                o["norm"] = core.guarded(lambda: _num(L.p_norm(p)))
                o["sup"] = core.guarded(lambda: _num(L.sup_norm()))
            o["homog"] = core.guarded(lambda: _num((c["c"] * L).p_norm(p)))
            o["zero"] = core.guarded(lambda: _num((L - L).p_norm(p)))
            if c.get("other"):
                def tri():
                    M = _build(c["other"])
                    return [_num(M.p_norm(p)), _num((L + M).p_norm(p))]
                o["tri"] = core.guarded(tri)
            return o
        outs.append(core.guarded(call))
    return outs


# ------------------------------------------------------------------------------- the spec in Python
def _landscape_of(o):
    """breakpoint lists (Fractions) of the landscape the implementation reports, or None if not finite"""
    if o["kind"] == "exact":
        cp = o["cp"]
        if any(isinstance(v, str) for d in cp for pt in d for v in pt):
            return None
        return [[(Fraction(x), Fraction(y)) for x, y in d] for d in cp]
    if any(isinstance(v, str) for row in o["values"] for v in row) or isinstance(o["start"], str) or isinstance(o["stop"], str):
        return None
    a, b, n = Fraction(o["start"]), Fraction(o["stop"]), o["n"]
    grid = [a] if n == 1 else [a + i * (b - a) / (n - 1) for i in range(n)]
    return [list(zip(grid, [Fraction(v) for v in row])) for row in o["values"]]


def _seg_pow_int(x0, y0, x1, y1, p):
    """integral of |l|^p over the segment, integer p: one-signed antiderivative, split at the root"""
    dx, a, b = x1 - x0, abs(y0), abs(y1)
    if y0 * y1 < 0:
        z = x0 + dx * a / (a + b)
        return (z - x0) * a ** p / (p + 1) + (x1 - z) * b ** p / (p + 1)
    if a == b:
        return a ** p * dx
    return dx * (b ** (p + 1) - a ** (p + 1)) / ((p + 1) * (b - a))


def _spec_pow_int(L, p):
    return sum(_seg_pow_int(d[i][0], d[i][1], d[i + 1][0], d[i + 1][1], p) for d in L for i in range(len(d) - 1))


def _spec_norm_real(L, p):
    """high-precision value of the norm for real p (decimal, 60 digits)"""
    import decimal
    ctx = decimal.Context(prec=60)
    D = lambda q: ctx.divide(decimal.Decimal(q.numerator), decimal.Decimal(q.denominator))
    P = D(Fraction(p))
    pw = lambda q, e: decimal.Decimal(0) if q == 0 else ctx.exp(ctx.multiply(e, ctx.ln(D(q))))
    tot = decimal.Decimal(0)
    for d in L:
        for (x0, y0), (x1, y1) in zip(d, d[1:]):
            dx, a, b = D(x1 - x0), abs(y0), abs(y1)
            if y0 * y1 < 0:
                v = ctx.divide(ctx.multiply(dx, ctx.add(pw(a, P + 1), pw(b, P + 1))), ctx.multiply(P + 1, D(a + b)))
            elif a == b:
                v = ctx.multiply(pw(a, P), dx)
            else:
                v = ctx.divide(ctx.multiply(dx, abs(ctx.subtract(pw(b, P + 1), pw(a, P + 1)))), ctx.multiply(P + 1, D(abs(b - a))))
            tot = ctx.add(tot, v)
    if tot == 0:
        return 0.0
    return float(ctx.exp(ctx.divide(ctx.ln(tot), P)))


def _close_pow(v, NP, p, rtol=RTOL):
    """|v - N| <= rtol N with N^p = NP, decided exactly"""
    v = Fraction(v)
    return v >= 0 and (v / (1 + rtol)) ** p <= NP <= (v / (1 - rtol)) ** p


def _froot(NP, p):
    """float(NP ** (1/p)) for a non-negative Fraction whose value may lie outside the binary64 range"""
    if NP <= 0:
        return 0.0
    return math.exp((math.log(NP.numerator) - math.log(NP.denominator)) / p)


def _is_int_p(p):
    return float(p) == int(p)


def _fl(v):
    return isinstance(v, float) or isinstance(v, int)


def predicate(c, o):
    if "error" in o:
        return False, "unexpected-error: construction raised %s" % o
    L = _landscape_of(o)
    if L is None:
        return True, ""          # landscape itself not finite: C09's business, nothing to say about its norm
    p = c["p"]
    v = o["norm"]
    if not _fl(v):
        return False, "norm: p_norm(%r) is not a finite number: %r" % (p, v)
    if _is_int_p(p):
        NP = _spec_pow_int(L, int(p))
        if not _close_pow(v, NP, int(p)):
            return False, "norm: p_norm(%r) = %r but (sum of integrals of |f|^p)^(1/p) = %r" % (p, v, _froot(NP, int(p)))
        N = _froot(NP, int(p))
    else:
        N = _spec_norm_real(L, p)
        if abs(v - N) > 1e-9 * N:
            return False, "norm: p_norm(%r) = %r but (sum of integrals of |f|^p)^(1/p) = %r" % (p, v, N)
    pts = [y for d in L for _, y in d]
    if pts:
        s = o["sup"]
        want = max(abs(y) for y in pts)
        if not _fl(s) or Fraction(s) != want:
            return False, "sup: sup_norm() = %r but the largest |value| is %r" % (s, float(want))
    if c.get("lazy"):
        if o.get("eager_norm") != v or o.get("eager_sup") != o["sup"]:
            return False, "lazy: compute=False landscape, %s first: p_norm %r / sup_norm %r but the eagerly built one gives %r / %r" % (
                c["lazy"], v, o["sup"], o.get("eager_norm"), o.get("eager_sup"))
    h = o.get("homog")
    if not _fl(h) or abs(h - abs(c["c"]) * v) > 4e-9 * abs(c["c"]) * v + 1e-300:
        return False, "homogeneity: ||%r P||_p = %r but |c| ||P||_p = %r" % (c["c"], h, abs(c["c"]) * v)
    z = o.get("zero")
    if not _fl(z) or z > 1e-9 * N:
        return False, "zero: ||P - P||_p = %r" % (z,)
    t = o.get("tri")
    if t is not None and not (isinstance(t, dict) and "error" in t):
        if all(_fl(x) for x in t) and t[1] > (v + t[0]) * (1 + 4e-9) + 1e-300:
            return False, "triangle: ||P + M|| = %r > ||P|| + ||M|| = %r" % (t[1], v + t[0])
    return True, ""


def nontrivial(c, o):
    if "error" in o:
        return False
    L = _landscape_of(o)
    if L is None:
        return False
    return any(y0 != y1 and (y0 != 0 or y1 != 0) and x0 != x1 for d in L for (x0, y0), (x1, y1) in zip(d, d[1:]))


def finding_of(c, o, detail):
    """a failure at an exponent / scale where |f|^p itself leaves the binary64 range (see _fits) is an instance of RANGE_ID"""
    if "error" in o or c.get("p", 0) < 11:
        return None
    L = _landscape_of(o)
    if not L:
        return None
    top = max([abs(y) for d in L for _, y in d] or [0])
    if top > 0 and not _fits(float(top), float(top), c["p"]):
        return RANGE_ID
    return None


# ------------------------------------------------------------------------------- the models in Coq
HEADER_Q = """From Coq Require Import QArith List Bool.
From Persim Require Import Lib.PL Spec.PNormS Model.PNormM Corr.PNormCorr.
Import ListNotations.
Open Scope Q_scope.
"""


def _cq(f):
    """Coq Q literal of an exact rational. A dyadic rational with a very large denominator (a double of size 1e-150 and
    below) is written as num / 2^k with the power left to vm_compute: the same rational, but elaborating a 250-digit
    `positive` literal costs ~0.1 s apiece. Likewise an integer m * 2^k of size 1e150 and above."""
    f = Fraction(f)
    n, d = f.numerator, f.denominator
    if d >= 1 << 128 and d & (d - 1) == 0:
        return "(Qmake (%d)%%Z (Pos.pow 2%%positive %d%%positive))" % (n, d.bit_length() - 1)
    if d == 1 and abs(n) >= 1 << 128:
        k = (abs(n) & -abs(n)).bit_length() - 1
        if k >= 64:
            return "(Qmake (Z.mul (%d)%%Z (Z.pow 2%%Z %d%%Z)) 1%%positive)" % (n >> k, k)
    return core.coq_Q(f)


def _q(v):
    return _cq(Fraction(v))


def _coq_landscape(L):
    return core.coq_list([core.coq_list(["(%s, %s)" % (_cq(x), _cq(y)) for x, y in d]) for d in L])


def _opt(v):
    return "(Some %s)" % _q(v) if _fl(v) else "None"


def _terms(c, o):
    """(norm term or None, sup term) for one case"""
    p = c["p"]
    if o["kind"] == "exact":
        L = _landscape_of(o)
        Lc = _coq_landscape(L)
        nt = "check_exact %d %s %s %s" % (int(p), Lc, _opt(o["norm"]), core.coq_Q(RTOL)) if _is_int_p(p) else None
        s = o["sup"]
        st = "check_sup_exact %s %s && %s" % (Lc, _opt(s), ("check_sup_spec %s %s" % (Lc, _q(s))) if _fl(s) else "true")
        return nt, st
    vals = core.coq_list([core.coq_list([_q(v) for v in row]) for row in o["values"]])
    nt = ("check_approx %d %s %s %d%%nat %s %s %s" % (int(p), _q(o["start"]), _q(o["stop"]), o["n"], vals, _opt(o["norm"]),
                                                     core.coq_Q(RTOL))) if _is_int_p(p) else None
    s = o["sup"]
    Lc = "(values_to_pairs %s %s %d%%nat %s)" % (_q(o["start"]), _q(o["stop"]), o["n"], vals)
    st = "check_sup_approx %s %s && %s" % (vals, _opt(s), ("check_sup_spec %s %s" % (Lc, _q(s))) if _fl(s) else "true")
    return nt, st


def coq_jobs(cases, outs):
    return []


def coq_judge(cases, outs, results):
    n = len(cases)
    verdicts = [None] * n
    terms, where = [], []
    real = []
    for i, (c, o) in enumerate(zip(cases, outs)):
        if "error" in o:
            verdicts[i] = "disagree:construction raised %s" % o.get("error")
            continue
        if _landscape_of(o) is None:
            verdicts[i] = "skip:reported landscape is not finite (C09)"
            continue
        if isinstance(o["sup"], dict) and not any(True for d in _landscape_of(o) for _ in d):
            o = dict(o); o["sup"] = None
        nt, st = _terms(c, o)
        if nt is None:
            real.append(i)
        terms.append("(%s, %s)" % (nt or "VIntended", st)); where.append(i)
    # exponents above 10 are evaluated in small files of their own (the exact rationals have thousands of bits); the
    # vm_compute files and the real-p certificates are independent and are compiled in ONE parallel batch
    big = [k for k, i in enumerate(where) if cases[i]["p"] > 10]
    # extreme scales: rationals with ~800-bit denominators, files of their own as well
    mid = [k for k, i in enumerate(where) if cases[i]["p"] <= 10 and cases[i].get("cls") == "extreme"]
    small = [k for k, i in enumerate(where) if cases[i]["p"] <= 10 and cases[i].get("cls") != "extreme"]
    real_res, lemmas, lem_where = _real_lemmas(cases, outs, real)
    jobs, ev_chunks, lem_chunks = [], {}, {}
    for ks, ch, tag in ((big, 6, "evb"), (mid, 14, "evx"), (small, 60, "ev")):
        for n0 in range(0, len(ks), ch):
            name = "%s_%03d" % (tag, n0 // ch)
            ev_chunks[name] = ks[n0:n0 + ch]
            jobs.append((name, HEADER_Q + "\nEval vm_compute in (%s).\n" % core.coq_list(["(%s)" % terms[k] for k in ev_chunks[name]], sep=";\n ")))
    for n0 in range(0, len(lemmas), 4):
        name = "real_%03d" % (n0 // 4)
        lem_chunks[name] = list(range(n0, min(len(lemmas), n0 + 4)))
        jobs.append((name, "\n".join([HEADER_R] + ["Lemma case_%d : %s.\nProof. %s Qed.\n" % ((i,) + lemmas[i]) for i in lem_chunks[name]])))
    results_ = core.run_coq_jobs(PID, jobs) if jobs else {}
    toks = ["ERROR"] * len(terms)
    for name, ks in ev_chunks.items():
        r = results_[name]
        if not r.ok:
            core.log("[%s] coq job %s failed: %s" % (PID, name, (r.err or r.out)[-800:]))
            continue
        lists = r.eval_lists()
        if len(lists) == 1 and len(lists[0]) == len(ks):
            for k, t in zip(ks, lists[0]):
                toks[k] = t
        else:
            core.log("[%s] coq job %s: could not parse %d results" % (PID, name, len(ks)))
    retry = []
    for name, idx in lem_chunks.items():
        if results_[name].ok:
            for i in idx:
                real_res[lem_where[i]] = "VIntended"
        else:
            retry += idx
    if retry:   # a chunk that fails is re-run one lemma per file so that every case gets its own verdict
        ok, _ = core.prove_lemmas(PID, HEADER_R, [lemmas[i] for i in retry], chunk=1, tag="real1")
        for i, good in zip(retry, ok):
            real_res[lem_where[i]] = "VIntended" if good else "interval certificate |model - impl| <= 1e-9 impl not provable"
    real_ok = real_res
    res = {}
    for i, t in zip(where, toks):
        m = re.match(r"\(\s*(\w+)\s*,\s*(\w+)\s*\)$", t.strip())
        res[i] = {"norm": m.group(1), "sup": m.group(2)} if m else {"norm": t, "sup": t}
    for i in range(n):
        if verdicts[i] is not None:
            continue
        r = res.get(i, {})
        nv = r.get("norm") if i not in real_ok else real_ok[i]
        sv = r.get("sup")
        if sv != "true":
            verdicts[i] = "disagree:sup_norm differs from the model (%s)" % sv
        elif nv == "VIntended":
            verdicts[i] = "agree"
        elif nv == "VLegacy":
            verdicts[i] = "legacy:" + LEGACY_ID
        elif nv == "skip":
            verdicts[i] = "skip:real-p certificate not attempted"
        else:
            verdicts[i] = "disagree:p_norm outside 1e-9 of the model (%s)" % nv
    return verdicts


HEADER_R = """From Coq Require Import QArith Reals List Lra.
From Interval Require Import Tactic.
From Persim Require Import Lib.PL Spec.PNormS Model.PNormM Model.PNormRM Corr.PNormRCorr.
Import ListNotations.
Open Scope R_scope.
"""


def _real_lemmas(cases, outs, idx):
    """real p: one kernel-checked interval certificate |model - impl| <= 1e-9 impl per case.
    Returns (verdicts decided without Coq, [(statement, script)], [case index of each lemma])"""
    lemmas, where, res = [], [], {}
    for i in idx:
        c, o = cases[i], outs[i]
        v = o["norm"]
        if not _fl(v):
            res[i] = "impl returned %r" % (v,)
            continue
        if o["kind"] == "exact":
            Lc = _coq_landscape(_landscape_of(o))
        else:
            vals = core.coq_list([core.coq_list([_q(x) for x in row]) for row in o["values"]])
            Lc = "(values_to_pairs %s %s %d%%nat %s)" % (_q(o["start"]), _q(o["stop"]), o["n"], vals)
        st = "agrees_R %s (%s)%%Q %s %s" % (core.coq_R(Fraction(c["p"])), Lc, core.coq_R(Fraction(v)), core.coq_R(RTOL))
        lemmas.append((st, "pnorm_real_case."))
        where.append(i)
    return res, lemmas, where


def shrink_candidates(c):
    r = c["recipe"]
    if c.get("other"):
        d = dict(c); d["other"] = None; yield d
    if r["t"] == "scale":
        if r.get("op", "mul") != "mul":
            d = dict(c); d["recipe"] = dict(r, op="mul"); yield d
        for q in shrink_candidates(dict(c, recipe=r["sub"], other=None)):
            if q["recipe"] != r["sub"]:
                yield dict(c, recipe=dict(r, sub=q["recipe"]))
    if r["t"] == "lin":
        for k in range(len(r["terms"])):
            if len(r["terms"]) > 1:
                d = dict(c); d["recipe"] = {"t": "lin", "terms": r["terms"][:k] + r["terms"][k + 1:]}; yield d
        if len(r["terms"]) == 1:
            d = dict(c); d["recipe"] = r["terms"][0][1]; yield d
    if r["t"] == "cp":
        cp = r["cp"]
        if len(cp) > 1:
            for k in range(len(cp)):
                d = dict(c); d["recipe"] = dict(r, cp=cp[:k] + cp[k + 1:]); yield d
        for k, dep in enumerate(cp):
            if len(dep) > 2:
                for j in range(len(dep)):
                    d = dict(c); d["recipe"] = dict(r, cp=cp[:k] + [dep[:j] + dep[j + 1:]] + cp[k + 1:]); yield d
    if r["t"] in ("dgm", "adgm") and len(r["bars"]) > 1:
        for k in range(len(r["bars"])):
            d = dict(c); d["recipe"] = dict(r, bars=r["bars"][:k] + r["bars"][k + 1:]); yield d
    if r["t"] == "vals" and len(r["values"]) > 1:
        for k in range(len(r["values"])):
            d = dict(c); d["recipe"] = dict(r, values=r["values"][:k] + r["values"][k + 1:]); yield d
    if r["t"] == "vals" and r.get("layout", "C") != "C":
        d = dict(c); d["recipe"] = dict(r, layout="C"); yield d
    if r.get("grid_int"):
        d = dict(c); d["recipe"] = {k: v for k, v in r.items() if k != "grid_int"}; yield d
    if c.get("p_rep"):
        d = {k: v for k, v in c.items() if k != "p_rep"}; yield d
    if _is_int_p(c["p"]) and c["p"] > 33:
        d = dict(c); d["p"] = 32 if c["p"] % 2 == 0 else 33; yield d
    if _is_int_p(c["p"]) and c["p"] > 2:
        d = dict(c); d["p"] = 2 if c["p"] % 2 == 0 else 1; yield d
