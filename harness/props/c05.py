"""C05 - mGH estimates always bracket the true modified Gromov-Hausdorff distance.

Model: coq/Model/MGHM.v (find_lb, curvature search with an oracle for the deleted row, row
distributions, greedy assignment feasibility, construct_mapping with permutation and first image as
inputs, find_ub with the early exit), Model/GraphM.v (hop metric).  Every case is executed by
vm_compute inside Coq (Corr/MGHCorr.v: check_c05 / check_cms) and by the implementation of the current
working tree; the spec (brute-force 2*mGH by branch and bound over all maps, own BFS) is evaluated in
Python on the implementation's outputs, independently of the model."""
import math
import random

from .. import core

PID = "C05"
THEOREMS = [
    "construct_mapping_is_distortion", "ub_sound", "lb_trivial_sound", "thmA_sound", "thmB_sound",
    "bounded_curvature_any_oracle", "greedy_complete_all", "greedy_total", "lb_sound", "lb_total", "numpy_oracles_in_range",
    "greedy_eq_bruteforce_small", "lb_nonneg", "half_integers", "iso_lb_zero", "iso_find_lb_zero",
    "estimate_brackets", "estimate_total", "sortkey_legacy_refuted",
]
RULE = ("seeded generator over pairs of connected graphs with 1-7 vertices in classes {dense, sparse (tree + few "
        "edges), path, cycle, clique, star, spider, equal sizes (Theorem B decides), single vertex, relabelled copy (isomorphic), docstring examples} plus "
        "'big' pairs with len*diam >= 128 (int8 wrap of the sort key under NumPy 2); containers csr/dense/list; "
        "mapping_sample_size_order in {default, [0,0], [1,0], [1,1], [.5,0], [2,0]}; one run with a harness-supplied "
        "RNG (patched np.random.permutation/choice, logged) compared exactly with the model, and several real "
        "numpy seeds checked by the predicate; 'broom' pairs (lower bound only): 8-14 vertices made of far-apart clusters "
        "- a hub with 2-3 long legs and a bundle of 2-6 short legs whose tips are mutually close but far from the long "
        "tips - against a partner of 3-6 vertices (mostly a path) whose order is just below the number of leaves, judged "
        "by the exact oracle or, over budget, by the distortion of explicit greedy maps (any pair of maps bounds 2*mGH "
        "from above); 'lookalike' pairs of 6-8 vertices: NON-isomorphic graphs with equal order, degree sequence and "
        "multiset of sorted distance rows (or equal diameter only), produced by degree-preserving edge switches and "
        "kept when the exact oracle says 2*mGH >= 1, plus K_{3,3}/prism, C8(1,2)/K_{4,4}, Q3/Moebius ladder in the "
        "corpus; non-trivial = both graphs have >= 3 vertices and either the true "
        "2*mGH >= 1 or the pair is a relabelled copy (lower-bound-only cases: relabelled copy or lower bound > 0); "
        "distinct = distinct JSON input")
TRUSTED_BASE = [
    "Coq 8.16.1 kernel, vm_compute (no native_compute); development closed under the global context (no axioms)",
    "hand-written models Model/MGHM.v (gromov_hausdorff.py lines 266-741) and Model/GraphM.v (hop metric)",
    "harness: generator, RNG patch/log in the implementation subprocess, matrix printer, verdict parser",
    "independent Python predicate: BFS hop metric + branch-and-bound minimum distortion over all maps; when that is "
    "over budget on a lower-bound-only case, the distortion of explicit greedy maps in both directions (an upper bound of 2*mGH)",
]
ASSUMPTIONS = [
    "np.delete(K, r, axis=0/1) keeps the principal submatrix on the remaining indices; np.argmin returns the first "
    "minimum; np.unique(axis=0) only reorders/deduplicates rows (does not change `exists row`)",
    "distances stay below 64 so that no int8 operation other than len(K)*diam_X wraps (i + (d - 1) in the greedy)",
    "scipy shortest_path(directed=False, unweighted=True) is the hop metric (checked per case against Coq Floyd-Warshall)",
    "theorems assume only that both inputs are distance matrices (square, zero diagonal, symmetric, positive off "
    "the diagonal); the triangle inequality is not needed",
]
COQ_DEPS = ["Corr/MGHCorr.vo"]
ORDERS = [[0.5, 1.0], [0.0, 0.0], [1.0, 0.0], [1.0, 1.0], [0.5, 0.0], [2.0, 0.0]]


# ---------------------------------------------------------------- graphs
def _upper(n, edges):
    A = [[0] * n for _ in range(n)]
    for a, b in edges:
        if a != b:
            A[min(a, b)][max(a, b)] = 1
    return A


def _edges(A):
    n = len(A)
    return sorted({(min(i, j), max(i, j)) for i in range(n) for j in range(n) if i != j and (A[i][j] or A[j][i])})


def _tree(rng, n):
    return [(rng.randrange(i), i) for i in range(1, n)]


def _graph(rng, kind, n):
    if kind == "path":
        e = [(i, i + 1) for i in range(n - 1)]
    elif kind == "cycle":
        e = [(i, (i + 1) % n) for i in range(n)] if n >= 3 else [(i, i + 1) for i in range(n - 1)]
    elif kind == "clique":
        e = [(i, j) for i in range(n) for j in range(i + 1, n)]
    elif kind == "star":
        e = [(0, i) for i in range(1, n)]
    elif kind == "spider":
        e, v = [], 1
        while v < n:                     # legs of length 1-3 hanging off vertex 0
            prev = 0
            for _ in range(rng.randint(1, 3)):
                if v < n:
                    e.append((prev, v)); prev = v; v += 1
    elif kind == "sparse":
        e = _tree(rng, n) + [tuple(rng.sample(range(n), 2)) for _ in range(rng.randint(0, 2)) if n >= 2]
    else:  # dense
        e = _tree(rng, n) + [(i, j) for i in range(n) for j in range(i + 1, n) if rng.random() < 0.6]
    return _relabel(_upper(n, e), _perm(rng, n)) if kind in ("path", "cycle", "star", "spider") and rng.random() < 0.5 else _upper(n, e)


def _rich(rng, n):
    """graphs with several distinct row distributions: trees, cycles with chords, near-regular circulants"""
    k = rng.choice(["tree", "tree", "chords", "circulant", "sparse", "spider"])
    if k == "tree":
        e = _tree(rng, n)
    elif k == "chords":
        e = [(i, (i + 1) % n) for i in range(n)] + [tuple(rng.sample(range(n), 2)) for _ in range(rng.randint(1, 3))]
    elif k == "circulant":
        step = rng.randint(2, max(2, n // 2))
        e = [(i, (i + 1) % n) for i in range(n)] + [(i, (i + step) % n) for i in range(n) if rng.random() < 0.8]
    else:
        return _graph(rng, k, n)
    return _relabel(_upper(n, e), _perm(rng, n))


def _perm(rng, n):
    p = list(range(n))
    rng.shuffle(p)
    return p


def _relabel(A, p):
    return _upper(len(A), [(p[a], p[b]) for a, b in _edges(A)])


KINDS = ["dense", "sparse", "path", "cycle", "clique", "star", "spider"]


def _broom(rng, nmin=8, nmax=14):
    """far-apart clusters: a hub (vertex / edge / triangle) with 2-3 long legs (length 2-4) and a bundle of 2-6 short
    legs (length 1-2) that mostly start at the same hub vertex.  The tips of the long legs are far from everything, the
    tips of the bundle are mutually close but far from the long tips, so a curvature search that removes rows greedily
    drops a whole bundle of mutually close vertices that are far from all the rows it keeps."""
    while True:
        L = rng.choice([2, 3, 3, 3, 4, 4])
        s = min(L, rng.choice([1, 1, 1, 2]))
        kl, ks, h = rng.choice([2, 2, 3]), rng.randint(2, 6), rng.choice([1, 1, 1, 2, 3])
        lens = [max(1, L - (rng.random() < 0.25)) for _ in range(kl)] + [s] * ks
        n = h + sum(lens)
        if nmin <= n <= nmax:
            break
    hub = list(range(h))
    e = [(a, b) for a in hub for b in hub if a < b]
    v = h
    shared = rng.choice(hub) if rng.random() < 0.7 else None
    for i, ln in enumerate(lens):
        prev = shared if (i >= kl and shared is not None) else rng.choice(hub)
        for _ in range(ln):
            e.append((prev, v)); prev = v; v += 1
    if rng.random() < 0.3:
        e.append(tuple(rng.sample(range(n), 2)))
    return _relabel(_upper(n, e), _perm(rng, n))


def _small_partner(rng, AX):
    """a graph of 3-6 vertices whose order is just below the number of leaves of AX (the cardinality test of
    Theorem A is on the edge), mostly a path (largest diameter for its order: the diameter bound stays silent)"""
    deg = [0] * len(AX)
    for a, b in _edges(AX):
        deg[a] += 1; deg[b] += 1
    m = min(6, max(3, sum(1 for x in deg if x == 1) - rng.choice([0, 1, 1, 2])))
    return _graph(rng, rng.choice(["path", "path", "path", "star", "cycle", "spider", "sparse"]), m)


def _rowsig(A):
    """multiset of sorted distance rows: equal for isomorphic graphs, but NOT a complete invariant"""
    return sorted(sorted(r) for r in _bfs(A))


def _degsig(A):
    return sorted(sum(1 for v in r if v == 1) for r in _bfs(A))


def _lookalike(rng, n, level):
    """a pair of graphs on n vertices with the same order, degree sequence and (level 'rows') the same multiset of
    sorted distance rows, or (level 'deg') the same diameter: the second graph is obtained from the first by a chain
    of degree-preserving edge switches a-b, c-d -> a-c, b-d.  Returns None if the chain never left the start."""
    for _ in range(20):
        if rng.random() < 0.5:       # circulants / near-regular graphs: all rows alike
            step = rng.randint(2, max(2, n // 2))
            e = [(i, (i + 1) % n) for i in range(n)] + [(i, (i + step) % n) for i in range(n)]
            if rng.random() < 0.4:
                e.append(tuple(rng.sample(range(n), 2)))
        else:
            e = _tree(rng, n) + [(i, j) for i in range(n) for j in range(i + 1, n) if rng.random() < 0.45]
        A = _upper(n, e)
        sig = _rowsig(A) if level == "rows" else (_degsig(A), max(map(max, _bfs(A))))
        cur, best = _edges(A), None
        for _ in range(60):
            if len(cur) < 2:
                break
            (a, b), (c, d) = rng.sample(cur, 2)
            if rng.random() < 0.5:
                c, d = d, c
            new = [(min(a, c), max(a, c)), (min(b, d), max(b, d))]
            if len({a, b, c, d}) < 4 or new[0] in cur or new[1] in cur:
                continue
            nxt = sorted([x for x in cur if x not in ((a, b), (min(c, d), max(c, d)))] + new)
            B = _upper(n, nxt)
            if not _connected(B):
                continue
            cur = nxt
            if (_rowsig(B) if level == "rows" else (_degsig(B), max(map(max, _bfs(B))))) == sig and nxt != _edges(A):
                best = B
                if rng.random() < 0.3:
                    break
        if best is not None:
            return A, _relabel(best, _perm(rng, n))
    return None


def _case(rng, cls, AX, AY, iso=None, nseeds=2):
    return {"cls": cls, "AX": AX, "AY": AY, "order": rng.choice(ORDERS), "fmt": rng.choice(["csr", "dense", "list"]),
            "seeds": [rng.randrange(2 ** 31) for _ in range(nseeds)], "pseed": rng.randrange(2 ** 31), "iso": iso}


def generate(rng, tier):
    n_cases = 450 if tier == "quick" else 10000
    cases = []
    for _ in range(n_cases):
        r = rng.random()
        if r < 0.12:
            k = rng.choice(KINDS)
            n = rng.randint(1, 7)
            AX = _graph(rng, k, n)
            p = _perm(rng, n)
            cases.append(_case(rng, "iso", AX, _relabel(AX, p), iso=p))
        elif r < 0.45:
            # equal sizes: the cardinality bound is silent and Theorem A cannot fire, so any
            # non-trivial lower bound comes from the row test of Theorem B
            n = rng.randint(4, 7)
            AX = _graph(rng, rng.choice(KINDS), n)
            AY = _graph(rng, rng.choice(KINDS), n)
            if r < 0.32:                 # ... and equal diameters: the diameter bound is silent too
                for _ in range(30):
                    if max(map(max, _bfs(AX))) == max(map(max, _bfs(AY))):
                        break
                    AY = _graph(rng, rng.choice(KINDS), n)
            cases.append(_case(rng, "samesize", AX, AY))
        elif r < 0.50:
            cases.append(_case(rng, "single", _upper(1, []), _graph(rng, rng.choice(KINDS), rng.randint(1, 7))))
        else:
            kx, ky = rng.choice(KINDS), rng.choice(KINDS)
            cls = kx if rng.random() < 0.5 else ky
            cases.append(_case(rng, cls, _graph(rng, kx, rng.randint(1, 7)), _graph(rng, ky, rng.randint(1, 7))))
    # larger relabelled copies of sparse graphs: equal sizes and diameters, many distinct row distributions, so the
    # row test of Theorem B runs through several rows of K and all rows of DY; the true distance is 0 by construction
    for _ in range(700 if tier == "quick" else 10000):
        n = rng.randint(5, 14)
        AX = _rich(rng, n)
        p = _perm(rng, n)
        cases.append({"cls": "iso_tree", "kind": "lb", "AX": AX, "AY": _relabel(AX, p), "iso": p,
                      "fmt": rng.choice(["csr", "dense", "list"])})
    # lower bound only, model vs implementation exactly, on pairs of 6-10 vertices with several distinct row
    # distributions (the pure model cannot share state between feasibility checks)
    for _ in range(500 if tier == "quick" else 6000):
        n = rng.randint(6, 10)
        m = n if rng.random() < 0.7 else rng.randint(6, 10)
        cases.append({"cls": "lb_only", "kind": "lb", "AX": _rich(rng, n), "AY": _rich(rng, m), "iso": None,
                      "fmt": rng.choice(["csr", "dense", "list"])})
    # >= 128 vertices with a small diameter (distance matrix stays int8): relabelled copies, so the curvature search
    # runs on all of X (len(K) >= 128) and the true distance is 0 by construction.  NumPy >= 2 raised OverflowError
    # here (`len(K) * diam_X` with an int8 scalar) before fixes/C05_sortkey_overflow.patch
    for _ in range(4 if tier == "quick" else 30):
        n = rng.randint(128, 136)
        kind = rng.choice(["star", "double_star", "k2n", "clique_pendants"])
        if kind == "star":
            e = [(0, i) for i in range(1, n)]
        elif kind == "double_star":
            e = [(0, 1)] + [(rng.randint(0, 1), i) for i in range(2, n)]
        elif kind == "k2n":
            e = [(a, i) for a in (0, 1) for i in range(2, n)]
        else:
            e = [(a, b) for a in range(5) for b in range(a + 1, 5)] + [(rng.randrange(5), i) for i in range(5, n)]
        AX = _relabel(_upper(n, e), _perm(rng, n))
        p = _perm(rng, n)
        cases.append({"cls": "wide", "kind": "lb", "AX": AX, "AY": _relabel(AX, p), "iso": p, "fmt": "csr",
                      "e2e_seed": rng.randrange(2 ** 31)})
    # far-apart clusters against a small partner (lower bound only; exact oracle, else explicit maps)
    for k in range(90 if tier == "quick" else 2500):
        AX = _broom(rng)
        AY = _small_partner(rng, AX)
        if rng.random() < 0.3:
            AX, AY = AY, AX
        c = {"cls": "broom", "kind": "lb", "AX": AX, "AY": AY, "iso": None, "fmt": rng.choice(["csr", "dense", "list"])}
        if k % 4 == 0:
            c["e2e_seed"] = rng.randrange(2 ** 31)
        cases.append(c)
    # look-alikes: same order, same degree sequence, same multiset of sorted distance rows (or only the same diameter),
    # obtained by degree-preserving edge switches; kept only when the pair is NOT isomorphic (true 2*mGH >= 1), so a
    # shortcut that declares graphs isometric from such invariants returns an upper bound 0 below the true distance
    want, tries = (36 if tier == "quick" else 600), 0
    got = 0
    while got < want and tries < 6 * want:
        tries += 1
        pr = _lookalike(rng, rng.randint(6, 8), "rows" if rng.random() < 0.7 else "deg")
        if pr is None:
            continue
        c = _case(rng, "lookalike", pr[0], pr[1], nseeds=1)
        t2 = true_two_mgh(c)
        if t2 is not None and t2 >= 1:
            cases.append(c)
            got += 1
    # the greedy assignment test on its own, on distributions larger than 7-vertex graphs produce
    for _ in range(150 if tier == "quick" else 3000):
        maxd = rng.randint(1, 9)
        hi = rng.choice([1, 2, 3, 5])
        dens = rng.choice([0.3, 0.6, 0.9])
        v = [rng.randint(1, hi) if rng.random() < dens else 0 for _ in range(maxd)]
        u = [rng.randint(1, hi) if rng.random() < dens else 0 for _ in range(maxd)]
        if rng.random() < 0.5 and sum(u) < sum(v):      # q >= p is the documented precondition; also exercise q < p
            v, u = u, v
        cases.append({"cls": "greedy", "kind": "greedy", "v": v, "u": u, "d": rng.randint(1, maxd)})
    # beyond the no-overflow regime: len(K) * diam_X >= 128 wraps in int8 under NumPy 2
    for _ in range(6 if tier == "quick" else 60):
        n = rng.randint(12, 15)
        kind = rng.choice(["path", "caterpillar", "cycle2"])
        if kind == "path":
            e = [(i, i + 1) for i in range(n - 1)]
        elif kind == "caterpillar":
            s = n - 2
            e = [(i, i + 1) for i in range(s - 1)] + [(rng.randrange(1, s - 1), s), (rng.randrange(1, s - 1), s + 1)]
        else:
            n = 2 * rng.randint(8, 9) + 3       # diam >= 8, n >= 19: n * diam >= 152
            c = n - 3
            e = [(i, (i + 1) % c) for i in range(c)] + [(0, c), (c, c + 1), (c // 2, c + 2)]
        AX = _relabel(_upper(n, e), _perm(rng, n))
        if rng.random() < 0.5:
            p = _perm(rng, n)
            c = _case(rng, "big", AX, _relabel(AX, p), iso=p, nseeds=1)
        else:
            c = _case(rng, "big", AX, _graph(rng, rng.choice(KINDS), rng.randint(1, 3)), nseeds=1)
            if rng.random() < 0.5:
                c["AX"], c["AY"] = c["AY"], c["AX"]
        c["order"] = rng.choice([[0.5, 1.0], [0.0, 0.0], [0.5, 0.0]])
        cases.append(c)
    return cases


def _corpus_files():
    # minimised failures / refutation witnesses stored under corpus/<PID>/
    import json
    out = []
    d = core.VERIF / "corpus" / PID
    if d.is_dir():
        for f in sorted(d.glob("*.json")):
            c = json.loads(f.read_text())["case"]
            c["cls"] = "corpus_file"
            out.append(c)
    return out


def corpus():
    K4 = [[0, 1, 1, 1], [0, 0, 1, 1], [0, 0, 0, 1], [0, 0, 0, 0]]
    C5 = _upper(5, [(0, 1), (0, 4), (1, 2), (2, 3), (3, 4)])
    base = {"order": [0.5, 1.0], "fmt": "list", "seeds": [0, 1], "pseed": 7, "iso": None}
    out = [dict(base, AX=K4, AY=[[0]]), dict(base, AX=[[0, 1], [0, 0]], AY=C5, fmt="csr"),
           dict(base, AX=C5, AY=_upper(5, [(i, i + 1) for i in range(4)])),
           # Theorem B is needed: star K_{1,4} against path P5 (equal sizes, diameters 2 and 4)
           dict(base, AX=_upper(5, [(0, i) for i in range(1, 5)]), AY=_upper(6, [(i, i + 1) for i in range(5)])),
           dict(base, AX=_upper(7, [(0, i) for i in range(1, 7)]), AY=_upper(7, [(i, (i + 1) % 7) for i in range(7)]))]
    # non-isomorphic graphs with identical multisets of sorted distance rows: K_{3,3} / triangular prism (cubic, diameter
    # 2) and C8(1,2) / K_{4,4} (4-regular, diameter 2); the 3-cube / 8-vertex Moebius ladder pair (both cubic, diameters 3
    # and 2) shares only order and degree sequence
    K33 = _upper(6, [(a, b) for a in (0, 1, 2) for b in (3, 4, 5)])
    PRISM = _upper(6, [(0, 1), (1, 2), (0, 2), (3, 4), (4, 5), (3, 5), (0, 3), (1, 4), (2, 5)])
    Q3 = _upper(8, [(a, a ^ b) for a in range(8) for b in (1, 2, 4)])
    MOEB = _upper(8, [(i, (i + 1) % 8) for i in range(8)] + [(i, i + 4) for i in range(4)])
    C8_2 = _upper(8, [(i, (i + 1) % 8) for i in range(8)] + [(i, (i + 2) % 8) for i in range(8)])      # 4-regular, diameter 2
    K44m = _upper(8, [(a, b) for a in range(4) for b in range(4, 8)])                                    # K_{4,4}: 4-regular, diameter 2
    out += [dict(base, AX=K33, AY=PRISM, fmt="dense"), dict(base, AX=PRISM, AY=K33, fmt="csr"),
            dict(base, AX=Q3, AY=MOEB), dict(base, AX=C8_2, AY=K44m, seeds=[3])]
    return _corpus_files() + out


def shrink_candidates(c):
    if c.get("kind") == "greedy":
        for key in ("v", "u"):
            for k in range(len(c[key])):
                if c[key][k] > 0:
                    d = dict(c); d[key] = list(c[key]); d[key][k] -= 1; yield d
        return
    if c.get("cls") == "wide" or max(len(c["AX"]), len(c["AY"])) > 60:
        return          # shrinking below 128 vertices leaves the regime, and every step costs seconds
    p = c.get("iso")
    if p is not None and len(c["AX"]) == len(c["AY"]) and len(p) == len(c["AX"]) > 1:
        # keep the pair isomorphic: drop vertex v of X together with its image p[v] in Y
        n = len(p)
        for v in range(n):
            kx = [i for i in range(n) if i != v]
            ky = [i for i in range(n) if i != p[v]]
            BX = [[c["AX"][i][j] for j in kx] for i in kx]
            BY = [[c["AY"][i][j] for j in ky] for i in ky]
            if _connected(BX) and _connected(BY):
                d = dict(c); d["AX"], d["AY"] = BX, BY
                d["iso"] = [ky.index(p[i]) for i in kx]
                yield d
    for key in ("AX", "AY"):
        A = c[key]
        n = len(A)
        if n > 1:
            for v in range(n):
                keep = [i for i in range(n) if i != v]
                B = [[A[i][j] for j in keep] for i in keep]
                if _connected(B):
                    d = dict(c); d[key] = B; d["iso"] = None
                    yield d
    if len(c.get("seeds", [])) > 1:
        for s in c["seeds"]:
            d = dict(c); d["seeds"] = [s]; yield d
    if c.get("fmt", "list") != "list":
        d = dict(c); d["fmt"] = "list"; yield d


# ---------------------------------------------------------------- the implementation
def impl_run(cases):
    import sys
    import numpy as np
    import scipy.sparse as sps
    import persim
    mod = sys.modules["persim.gromov_hausdorff"]
    gh = mod.gromov_hausdorff

    def conv(A, fmt):
        if fmt == "csr":
            return sps.csr_matrix(np.array(A))
        if fmt == "dense":
            return np.array(A)
        return [list(r) for r in A]

    def one(c):
        if c.get("kind") == "greedy":
            va, ua = np.array(c["v"], dtype=np.int8), np.array(c["u"], dtype=np.int8)
            r = bool(mod.check_assignment_feasibility(va, ua, np.int8(c["d"])))
            out = {"feasible": r, "v_after": [int(x) for x in va], "u_after": [int(x) for x in ua]}
            r2 = bool(mod.check_assignment_feasibility(va, ua, np.int8(c["d"])))      # state-leak monitor
            if r2 != r:
                out["leak"] = "check_assignment_feasibility answered %s, then %s on the same arrays" % (r, r2)
            return out
        out = {}
        DX = mod.make_distance_matrix_from_adjacency_matrix(conv(c["AX"], c["fmt"]))
        DY = mod.make_distance_matrix_from_adjacency_matrix(conv(c["AY"], c["fmt"]))
        out["DX"] = [[int(v) for v in r] for r in np.asarray(DX)]
        out["DY"] = [[int(v) for v in r] for r in np.asarray(DY)]
        bx, by = np.asarray(DX).tobytes(), np.asarray(DY).tobytes()
        lb = mod.find_lb(DX, DY)
        out["lb2"] = int(lb)
        # state-leak monitor: same inputs, same process, second call; inputs must stay byte-identical
        lb_again = int(mod.find_lb(DX, DY))
        if lb_again != int(lb):
            out["leak"] = "find_lb returned %d, then %d on the same inputs" % (int(lb), lb_again)
        elif np.asarray(DX).tobytes() != bx or np.asarray(DY).tobytes() != by:
            out["leak"] = "find_lb modified its input distance matrices"
        if c.get("kind") == "lb":
            if "e2e_seed" in c:          # also through the public entry point
                np.random.seed(c["e2e_seed"])
                l, u = gh(conv(c["AX"], c["fmt"]), conv(c["AY"], c["fmt"]))
                out["e2e"] = [[float(l), float(u)]]
            return out
        order = np.array(c["order"], dtype=float)
        # --- run with the harness-supplied RNG, logged
        prng = random.Random(c["pseed"])
        calls, cur = [], [None]
        o_perm, o_choice = np.random.permutation, np.random.choice
        o_fumd, o_cm = mod.find_ub_of_min_distortion, mod.construct_mapping

        def perm(n):
            p = list(range(int(n)))
            prng.shuffle(p)
            if cur[0] is not None:
                cur[0]["perms"].append(p)
            return np.array(p)

        def choice(m):
            y = prng.randrange(int(m))
            if cur[0] is not None:
                cur[0]["choices"].append(y)
            return np.int64(y)

        def fumd(DA, DB, *a, **k):
            rec = {"perms": [], "choices": [], "cm": [], "n": len(DA),
                   "goal": int(k.get("goal_distortion", a[1] if len(a) > 1 else 0))}
            cur[0] = rec
            r = o_fumd(DA, DB, *a, **k)
            cur[0] = None
            try:
                rec["res"] = int(r)
                calls.append(rec)
            except Exception:           # the helper's interface changed: no per-call log, predicate still applies
                pass
            return r

        def cm(DA, DB, pi):
            res = o_cm(DA, DB, pi)
            try:
                images, dist = res
                if cur[0] is not None:
                    cur[0]["cm"].append({"pi": [int(v) for v in pi], "images": [int(v) for v in images], "dist": int(dist)})
            except Exception:
                pass
            return res
        np.random.permutation, np.random.choice = perm, choice
        mod.find_ub_of_min_distortion, mod.construct_mapping = fumd, cm
        try:
            ub = mod.find_ub(DX, DY, mapping_sample_size_order=order, double_lb=lb)
        finally:
            np.random.permutation, np.random.choice = o_perm, o_choice
            mod.find_ub_of_min_distortion, mod.construct_mapping = o_fumd, o_cm
        out["ub2"] = int(ub)
        out["calls"] = calls
        # --- end to end with real numpy seeds
        e2e = []
        for s in c["seeds"]:
            np.random.seed(s)
            l, u = gh(conv(c["AX"], c["fmt"]), conv(c["AY"], c["fmt"]), mapping_sample_size_order=order)
            e2e.append([float(l), float(u)])
        out["e2e"] = e2e
        return out

    return [core.guarded(lambda c=c: one(c)) for c in cases]


# ---------------------------------------------------------------- the spec, independent of the model
def _bfs(A):
    n = len(A)
    nb = [[j for j in range(n) if j != i and (A[i][j] or A[j][i])] for i in range(n)]
    D = []
    for s in range(n):
        dist = [None] * n
        dist[s] = 0
        q = [s]
        for x in q:
            for y in nb[x]:
                if dist[y] is None:
                    dist[y] = dist[x] + 1
                    q.append(y)
        D.append(dist)
    return D


def _connected(A):
    return all(v is not None for v in _bfs(A)[0])


def _distortion(DX, DY, f):
    n = len(DX)
    return max([abs(DX[i][j] - DY[f[i]][f[j]]) for i in range(n) for j in range(n)] + [0])


def min_distortion(DX, DY, budget=3_000_000):
    """Exact min over all maps X -> Y of the distortion (branch and bound); None if over budget."""
    n, m = len(DX), len(DY)
    if n == 0 or m == 0:
        return 0
    # farthest-first order of X prunes early
    order = [max(range(n), key=lambda i: max(DX[i]))]
    while len(order) < n:
        rest = [i for i in range(n) if i not in order]
        order.append(max(rest, key=lambda i: min(DX[i][j] for j in order)))
    best = [max(max(r) for r in DX)]       # a constant map
    img = [0] * n
    nodes = [0]

    def rec(k, cur):
        if cur >= best[0]:
            return
        if k == n:
            best[0] = cur
            return
        x = order[k]
        rowx = DX[x]
        for y in range(m):
            nodes[0] += 1
            if nodes[0] > budget:
                raise OverflowError
            c = cur
            rowy = DY[y]
            for l in range(k):
                t = abs(rowx[order[l]] - rowy[img[l]])
                if t > c:
                    c = t
                    if c >= best[0]:
                        break
            if c < best[0]:
                img[k] = y
                rec(k + 1, c)
    try:
        rec(0, 0)
    except OverflowError:
        return None
    return best[0]


def _greedy_map(DA, DB, y0):
    """an explicit map A -> B: farthest-first order of A, first point to y0, every further point to the image that
    keeps the distortion so far smallest; returns its distortion (an upper bound of the minimum distortion)"""
    n, m = len(DA), len(DB)
    order = [max(range(n), key=lambda i: max(DA[i]))]
    while len(order) < n:
        rest = [i for i in range(n) if i not in order]
        order.append(max(rest, key=lambda i: min(DA[i][j] for j in order)))
    f = {order[0]: y0}
    for x in order[1:]:
        f[x] = min(range(m), key=lambda y: max(abs(DA[x][z] - DB[y][f[z]]) for z in f))
    return _distortion(DA, DB, [f[i] for i in range(n)])


def explicit_upper(c):
    """2*mGH <= max(dis f, dis g) for ANY maps f: X -> Y, g: Y -> X; here the best of |Y| resp. |X| greedy maps"""
    key = core.sha(["explicit", c["AX"], c["AY"]])
    if key not in _true_cache:
        DX, DY = _bfs(c["AX"]), _bfs(c["AY"])
        _true_cache[key] = max(min(_greedy_map(DX, DY, y) for y in range(len(DY))),
                               min(_greedy_map(DY, DX, x) for x in range(len(DX))))
    return _true_cache[key]


_true_cache = {}


def true_two_mgh(c, budget=3_000_000):
    key = core.sha([c["AX"], c["AY"], budget])
    if key not in _true_cache:
        DX, DY = _bfs(c["AX"]), _bfs(c["AY"])
        p = c.get("iso")
        if p is not None and len(DX) == len(DY) and all(DY[p[i]][p[j]] == DX[i][j] for i in range(len(DX)) for j in range(len(DX))):
            _true_cache[key] = 0
        else:
            a = min_distortion(DX, DY, budget)
            b = None if a is None else min_distortion(DY, DX, budget)
            _true_cache[key] = None if a is None or b is None else max(a, b)
    return _true_cache[key]


def n_map(n, order):
    import numpy as np
    return int(np.ceil(np.prod(np.array([n, np.log(n + 1)]) ** np.array(order, dtype=float))))


def _expand(dist):
    """frequency distribution (index j <-> value max_d - j) -> list of values"""
    m = len(dist)
    return [m - j for j, f in enumerate(dist) for _ in range(f)]


def injection_exists(v, u, d):
    """maximum bipartite matching (augmenting paths): can v be injectively assigned into u with |v-u| < d ?"""
    match = [-1] * len(u)

    def aug(i, seen):
        for j in range(len(u)):
            if abs(v[i] - u[j]) < d and j not in seen:
                seen.add(j)
                if match[j] < 0 or aug(match[j], seen):
                    match[j] = i
                    return True
        return False
    return all(aug(i, set()) for i in range(len(v)))


def predicate(c, o):
    if c.get("kind") == "greedy":
        if "error" in o:
            return False, "greedy-raised: %s" % o
        # only soundness is part of the property: a False answer must mean that no assignment exists
        if not o["feasible"] and injection_exists(_expand(c["v"]), _expand(c["u"]), c["d"]):
            return False, "greedy: check_assignment_feasibility answered False although an injective assignment exists"
        return True, ""
    if "error" in o:
        return False, "raised: connected graphs must be accepted, got %s: %s" % (o["error"], o.get("msg"))
    DX, DY = _bfs(c["AX"]), _bfs(c["AY"])
    if o["DX"] != DX or o["DY"] != DY:
        return False, "metric: distance matrix differs from the hop metric"
    if c.get("kind") == "lb":
        l = o["lb2"]
        if l < 0:
            return False, "half-integer: negative lower bound %r" % (l / 2.0)
        t2 = true_two_mgh(c, budget=150_000)
        if t2 is not None and l > t2:
            return False, "lower: lower bound %r exceeds true mGH %r (find_lb)" % (l / 2.0, t2 / 2.0)
        if t2 is None and max(len(DX), len(DY)) <= 60:
            u2 = explicit_upper(c)
            if l > u2:
                return False, "lower: lower bound %r exceeds the distortion bound %r of an explicit pair of maps (find_lb)" % (l / 2.0, u2 / 2.0)
            for lo, up in o.get("e2e", []):
                if 2 * lo > u2:
                    return False, "lower: lower bound %r exceeds the distortion bound %r of an explicit pair of maps" % (lo, u2 / 2.0)
        for lo, up in o.get("e2e", []):
            if not (lo >= 0 and up >= 0 and float(2 * lo).is_integer() and float(2 * up).is_integer()):
                return False, "half-integer: (%r, %r) are not non-negative multiples of 1/2" % (lo, up)
            if lo > up or (t2 is not None and not (2 * lo <= t2 <= 2 * up)):
                return False, "bracket: [%r, %r] does not bracket true mGH %r" % (lo, up, None if t2 is None else t2 / 2.0)
        return True, ""
    t2 = true_two_mgh(c)
    runs = [("seed %d" % s, l, u) for s, (l, u) in zip(c["seeds"], o["e2e"])] + [("patched-rng", o["lb2"] / 2.0, o["ub2"] / 2.0)]
    for name, l, u in runs:
        for v in (l, u):
            if not (v >= 0 and float(2 * v).is_integer()):
                return False, "half-integer: %r is not a non-negative multiple of 1/2 (%s)" % (v, name)
        if l > u:
            return False, "order: lower %r > upper %r (%s)" % (l, u, name)
        if t2 is not None:
            if 2 * l > t2:
                return False, "lower: lower bound %r exceeds true mGH %r (%s)" % (l, t2 / 2.0, name)
            if 2 * u < t2:
                return False, "upper: upper bound %r below true mGH %r (%s)" % (u, t2 / 2.0, name)
            if t2 == 0 and l != 0:
                return False, "iso: isomorphic graphs got lower bound %r" % l
    # every constructed mapping's reported distortion is the distortion of that map
    for k, call in enumerate(o.get("calls", [])):
        A, B = (DX, DY) if k % 2 == 0 else (DY, DX)
        for rec in call["cm"]:
            pi, im = rec["pi"], rec["images"]
            if sorted(pi) != list(range(len(A))) or len(im) != len(pi) or not all(0 <= y < len(B) for y in im):
                return False, "mapping: construct_mapping returned an invalid map %s" % rec
            f = [0] * len(A)
            for x, y in zip(pi, im):
                f[x] = y
            if _distortion(A, B, f) != rec["dist"]:
                return False, "mapping: reported distortion %d, true distortion of the map %d" % (rec["dist"], _distortion(A, B, f))
    return True, ""


def nontrivial(c, o):
    if c.get("kind") == "greedy":
        return "error" not in o and sum(c["v"]) >= 2 and sum(c["u"]) >= 2
    if "error" in o or min(len(c["AX"]), len(c["AY"])) < 3:
        return False
    if c.get("kind") == "lb":
        return c.get("iso") is not None or o.get("lb2", 0) > 0
    t2 = true_two_mgh(c)
    return t2 is not None and (t2 >= 1 or c.get("iso") is not None)


# ---------------------------------------------------------------- the model, run inside Coq
HEADER = """From Coq Require Import ZArith List Bool.
From Persim Require Import Spec.MGH Model.MGHM Model.GraphM Corr.MGHCorr.
Import ListNotations.
Open Scope Z_scope.
"""


def cmat(M):
    return core.coq_list([core.coq_list([str(int(v)) for v in r]) for r in M])


def cnatl(l):
    return "[" + "; ".join("%d%%nat" % int(v) for v in l) + "]"


def csamples(call):
    k = len(call["choices"])
    return core.coq_list(["(%s, %d%%nat)" % (cnatl(p), y) for p, y in zip(call["perms"][:k], call["choices"])])


def cbool(b):
    return "true" if b else "false"


def _terms(c, o):
    if c.get("kind") == "greedy":
        zl = lambda l: core.coq_list([str(int(x)) for x in l])
        return "match check_feas %s %s %d with Some b => if Bool.eqb b %s then 0 else 256 | None => 512 end" % (
            zl(c["v"]), zl(c["u"]), c["d"], cbool(o["feasible"]))
    if c.get("kind") == "lb" and max(len(c["AX"]), len(c["AY"])) > 60:
        # the list-based model of the curvature search is quartic: only the metrics are compared at this size
        return "bit (dm_ok %s %s) 1 + bit (dm_ok %s %s) 2" % (cmat(c["AX"]), cmat(o["DX"]), cmat(c["AY"]), cmat(o["DY"]))
    if c.get("kind") == "lb":
        return "bit (dm_ok %s %s) 1 + bit (dm_ok %s %s) 2 + check_lb %s %s %d" % (
            cmat(c["AX"]), cmat(o["DX"]), cmat(c["AY"]), cmat(o["DY"]), cmat(o["DX"]), cmat(o["DY"]), o["lb2"])
    calls = o["calls"]
    if len(calls) != 2:
        return None
    more = [len(cl["perms"]) > len(cl["choices"]) for cl in calls]
    t1 = "check_c05 %s %s %s %s %d %s %s %s %s %d %d %d" % (
        cmat(c["AX"]), cmat(c["AY"]), cmat(o["DX"]), cmat(o["DY"]), o["lb2"], csamples(calls[0]), csamples(calls[1]),
        cbool(more[0]), cbool(more[1]), calls[0]["res"], calls[1]["res"], o["ub2"])
    recs = []
    for k, cl in enumerate(calls):
        rl = []
        if len(cl["cm"]) != len(cl["choices"]):
            return None
        for rec, y0 in zip(cl["cm"], cl["choices"]):
            rl.append("(%s, %d%%nat, %s, %d)" % (cnatl(rec["pi"]), y0, cnatl(rec["images"]), rec["dist"]))
        recs.append(core.coq_list(rl))
    t2 = "check_cms %s %s %s %s" % (cmat(o["DX"]), cmat(o["DY"]), recs[0], recs[1])
    return "%s + %s" % (t1, t2)


BITS = {1: "DX is not the hop metric", 2: "DY is not the hop metric", 4: "find_lb differs from the model",
        8: "find_ub_of_min_distortion X->Y differs (value / samples consumed / early exit)",
        16: "find_ub_of_min_distortion Y->X differs (value / samples consumed / early exit)",
        32: "find_ub is not max of the two directions", 64: "find_ub differs from the model",
        128: "construct_mapping differs from the model (images or distortion)",
        256: "check_assignment_feasibility differs from the model", 512: "model ran out of fuel",
        1024: "a distance matrix is not square / zero-diagonal / symmetric / positive (hypothesis dmatrix of the theorems)"}


def coq_jobs(cases, outs):
    return []


def coq_judge(cases, outs, results):
    verdicts = [None] * len(cases)
    terms, idx = [], []
    for i, (c, o) in enumerate(zip(cases, outs)):
        if "error" in o:
            verdicts[i] = "disagree:implementation raised %s on a connected graph" % o["error"]
            continue
        if "leak" in o:
            verdicts[i] = "disagree:state leak: " + o["leak"]
            continue
        if c.get("kind") == "greedy" and (o.get("v_after", c["v"]) != c["v"] or o.get("u_after", c["u"]) != c["u"]):
            verdicts[i] = "disagree:check_assignment_feasibility modified its arguments (it is documented as pure; the " \
                          "row distributions of DY are reused for every row of K)"
            continue
        t = _terms(c, o)
        if t is None:
            verdicts[i] = "skip:call structure of find_ub changed (no per-call log)"
            continue
        # sample-count bookkeeping, independent of Coq
        bad = None
        for k, cl in enumerate(o.get("calls", [])):
            nm = n_map(cl["n"], c["order"])
            early = cl["res"] <= cl["goal"]
            if len(cl["choices"]) > nm or (not early and len(cl["choices"]) != nm) or \
                    len(cl["perms"]) != min(len(cl["choices"]) + 1, nm):
                bad = "disagree:direction %d drew %d permutations / %d first images, ceil(n^a log(n+1)^b) = %d" % (
                    k, len(cl["perms"]), len(cl["choices"]), nm)
        if bad:
            verdicts[i] = bad
            continue
        idx.append(i)
        terms.append(t)
    toks, _ = core.eval_cases(PID, HEADER, terms, chunk=max(8, (len(terms) + 15) // 16))
    for i, t in zip(idx, toks):
        if t == "0":
            verdicts[i] = "agree"
        elif t == "ERROR" or not t.lstrip("-").isdigit():
            verdicts[i] = "disagree:coq evaluation failed (%s)" % t[:60]
        else:
            m = int(t)
            verdicts[i] = "disagree:" + "; ".join(txt for b, txt in BITS.items() if m & b)
    return verdicts
