"""C07 - bottleneck and Wasserstein obey the metric and invariance laws at any size.

Proof content: the laws are theorems about the SPEC minimum (coq/Properties/C07.v; proofs in
Proofs/MetricLaws{G,B,W}.v), transferred to the code through C01 / C02.

Tie (this module):
  * a METAMORPHIC MONITOR on the implementation at sizes 5-60 (quick) / 50-300 (thorough): every
    case is one instance of one law (symmetry, zero on a reordering, reordering invariance,
    translation along the diagonal, positive rescaling, diagonal padding, empty side, B <= W,
    triangle on triples); the predicate is "the relation holds on the implementation's outputs"
    within 1e-9 (relative to the values and the coordinate scale).  This is a test at size, not a
    proof.
  * the spec the laws are proved about is itself tied to the code: on small exact (dyadic)
    instances (<= 3 points per side) the proved-correct brute-force twin `bottleneck_brute`
    (theorem bottleneck_brute_is_bottleneck) is evaluated inside Coq by vm_compute and must equal
    the implementation's value exactly; for Wasserstein a kernel-checked lemma per case
    `forall w, is_wasserstein S T w -> v - tol <= w <= v + tol` (Corr/MetricCorrW.v: every partial matching of
    the enumeration costs >= v - tol and one costs <= v + tol, each by the interval tactic) ties the real
    spec to the implementation's value v; independently, a Python enumeration of all partial
    matchings (Fractions for bottleneck, floats for Wasserstein) is the predicate for those cases.
  * the same laws on the other ways a diagram reaches the functions: MAGNITUDES (bars that are short against
    their birth value: births at 5e2..1e6 with lifetimes 1e-3..4; whole diagrams at scale 1e-8..1e-10;
    translations by 2^17..1e6, rescalings by 2^-30..1e-9) and CONTAINERS ("form" of a case: nested lists /
    tuples, Fortran order, strided and negative-stride views, read-only arrays, extra columns after
    (birth, death), float32 / int64 / int32 / uint16 where the coordinates are exact in that type).  The
    spec side never sees the form: the relation is the same relation on the same (birth, death) lists.
  * CALL HISTORIES (harness/history.py): pairwise loops, parameter sweeps and a rejected call followed by
    clean calls, all in one interpreter on shared array objects; every step is an ordinary case and must
    satisfy its own relation.  Inside every case equal-valued arguments are one object (d(S, S) aliases).
"""
import itertools
import math
import random
from fractions import Fraction

from .. import core, history

PID = "C07"
THEOREMS = [
    "bottleneck_value_unique", "bottleneck_value_exists", "bottleneck_brute_is_bottleneck",
    "bottleneck_zero_on_permutation", "bottleneck_symmetric", "bottleneck_nonneg",
    "bottleneck_reorder_invariant", "bottleneck_diagonal_point_left", "bottleneck_diagonal_point_right",
    "bottleneck_diagonal_padding", "wasserstein_diagonal_padding",
    "bottleneck_translation", "bottleneck_scaling", "bottleneck_vs_empty", "bottleneck_triangle",
    "wasserstein_value_unique", "wasserstein_value_exists", "wasserstein_zero_on_permutation",
    "wasserstein_symmetric", "wasserstein_nonneg", "wasserstein_reorder_invariant",
    "wasserstein_diagonal_point_left", "wasserstein_diagonal_point_right", "wasserstein_translation",
    "wasserstein_scaling", "wasserstein_vs_empty", "wasserstein_triangle", "bottleneck_le_wasserstein",
    "bottleneck_laws_transfer", "wasserstein_laws_transfer", "bottleneck_le_wasserstein_transfer",
    # the laws instantiated with the models of bottleneck.py / wasserstein.py (Proofs/MetricInstP.v)
    "bottleneck_model_computes_spec", "bottleneck_model_laws", "wasserstein_solver_exists",
    "wasserstein_model_computes_spec", "wasserstein_model_laws", "bottleneck_le_wasserstein_models",
]
RULE = ("seeded generator; each case is one instance of one law {sym, perm(zero), perminv, translate, scale, "
        "diagpad, empty, BleW, triangle} for one distance {B, W} on diagrams drawn from families {uniform doubles, "
        "dyadic grid with ties, near-diagonal, repeated points, heavy-tailed persistence} with 5-60 points "
        "(thorough 50-300), plus small exact cases {bruteB: <=3+3 dyadic points, value must equal the Coq "
        "brute-force spec twin; bruteW: <=3+3 points, interval certificate that the spec minimum is within 1e-9 "
        "of the value}; magnitude families {late: births at 5e2/1e3/1e5/1e6 with lifetimes below 1e-5 of the birth "
        "value, T partly a lifetime-sized jitter of S; tiny: uniform diagrams at scale 1e-8/1e-9/1e-10/2^-30} for "
        "every law and for bruteW, translations up to 1e6 and rescalings down to 2^-30; container forms {list, "
        "tuples, Fortran, strided, negative stride, read-only, extra column(s), float32, int64, int32, uint16 (the "
        "integer / float32 forms on grids exact in that type; on the integer grid T is mostly S with every coordinate "
        "moved by -1/0/1)} for every law and for bruteB/bruteW; inside a case equal-valued arguments are one object; "
        "call histories "
        "{pairwise, sweep, fault} of 5-6 such cases on shared array objects; a case is non-trivial when the "
        "relation passes and its reference value is non-zero (perm: the diagram has >= 2 distinct points; "
        "brute: both diagrams non-empty or a positive value; history: >= 2 non-trivial steps); "
        "distinct = distinct JSON input")
TRUSTED_BASE = [
    "Coq 8.16.1 kernel; vm_compute for the brute-force twin of the bottleneck spec; coq-interval (incl. the "
    "stdlib's primitive-float/int63 specification axioms) for the per-case Wasserstein enclosures",
    "stdlib axioms of the classical reals (ClassicalDedekindReals.sig_forall_dec, sig_not_dec, "
    "functional_extensionality_dep, classic) for every law stated over R or transferred through Q2R; "
    "bottleneck_value_unique / _exists / _nonneg / bottleneck_brute_is_bottleneck are closed under the global context",
    "specs Spec/PartialMatching.v, Spec/BottleneckS.v, Spec/WassersteinS.v (shared with C01/C02, whose theorems "
    "bottleneck_correct / wasserstein_correct carry the laws from the spec minimum to the models of the code)",
    "harness: generators, float->exact-rational printer, relation predicates and their tolerance; the container "
    "forms built by _args (the (birth, death) columns of every form are bit-equal to the case's lists, checked "
    "before the call for the narrow types); call histories (harness/history.py)",
]
ASSUMPTIONS = [
    "the laws reach the code through C01/C02 (model computes the spec minimum) and their ties; here the code is "
    "only monitored (metamorphic relations at size) and compared with the brute-force spec twin at <= 3+3 points",
    "binary64 rounding of the implementation is bounded by the 1e-9 tolerance, not proved",
    "Wasserstein laws with a zero / reordering / diagonal point / triangle need the diagram(s) on or above the "
    "diagonal (birth <= death); the bottleneck versions need nothing",
    "extra columns: bottleneck ignores them (arbitrary values are generated); wasserstein's point-to-point cost "
    "uses ALL columns, so for W the extra columns are constant over both diagrams, and the extra-column form is "
    "not used for a W call with an empty side (persim.wasserstein raises ValueError for Mx3 against the empty "
    "diagram on the unchanged tree: fixes/C07_wasserstein_extra_columns_vs_empty.patch)",
    "relative tolerance: at coordinate scale m the relations are checked within 1e-9*m, so a change that only "
    "shows below that (e.g. at 1e6, below 1e-3) is not seen by the late family",
]
HASHSEEDS = ["0", "1", "2"]
COQ_DEPS = ["Corr/MetricCorr.vo", "Corr/MetricCorrW.vo"]
TOL = 1e-9
LAWS = ["sym", "perm", "perminv", "translate", "scale", "diagpad", "empty", "BleW", "triangle"]


# --------------------------------------------------------------------------- generators

def _dgm(rng, n, fam):
    pts = []
    if fam == "uniform":
        for _ in range(n):
            b = rng.uniform(-5, 10); pts.append([b, b + rng.uniform(0, 4)])
    elif fam == "dyadic":
        for _ in range(n):
            b = rng.randint(-8, 24) / 4.0; pts.append([b, b + rng.randint(0, 12) / 4.0])
    elif fam == "neardiag":
        for _ in range(n):
            b = rng.uniform(0, 10); pts.append([b, b + rng.choice([rng.uniform(0, 1e-3), rng.uniform(0, 0.3), 0.0])])
    elif fam == "repeated":
        base = [[b, b + rng.uniform(0.1, 3)] for b in (rng.uniform(0, 6) for _ in range(max(1, n // 3)))]
        pts = [list(rng.choice(base)) for _ in range(n)]
    elif fam == "decimal":
        # decimal-grid coordinates (not exactly representable in binary64)
        for _ in range(n):
            b = rng.randint(-30, 60) / 10.0; pts.append([b, round(b + rng.randint(0, 40) / 10.0, 10)])
    elif fam == "straddle":
        # births below zero, deaths above: persistence large against the coordinates
        for _ in range(n):
            a = rng.uniform(2.5, 40); pts.append([-a + rng.uniform(-.3, .3), a + rng.uniform(-.3, .3)])
    elif fam in LATE:
        # short bars born late: lifetime / birth below 1e-5 (noise of a filtration with large values)
        base, lo, hi = LATE[fam]
        for _ in range(n):
            b = base + rng.uniform(0, 1); pts.append([b, b + rng.uniform(lo, hi)])
    elif fam in TINY:
        # an ordinary diagram in very small units
        k = TINY[fam]
        for _ in range(n):
            b = rng.uniform(-5, 10); pts.append([b * k, (b + rng.uniform(0, 4)) * k])
    elif fam == "integer":
        # non-negative integer coordinates (exact in every integer dtype down to uint16)
        for _ in range(n):
            b = rng.randint(0, 40); pts.append([float(b), float(b + rng.randint(0, 12))])
    else:  # heavy
        for _ in range(n):
            b = rng.uniform(0, 3); pts.append([b, b + rng.paretovariate(1.5) * 0.2])
    return pts


LATE = {"late5e2": (5e2, 1e-3, 4e-3), "late1e3": (1e3, 1e-3, 9e-3), "late1e5": (1e5, 0.05, 0.9),
        "late1e6": (1e6, 0.05, 4.0)}
TINY = {"tiny1e-8": 1e-8, "tiny1e-9": 1e-9, "tiny1e-10": 1e-10, "tiny2^-30": 2.0 ** -30}
MAGS = ["late5e2", "late1e3", "late1e3", "late1e5", "late1e6", "tiny1e-8", "tiny1e-9", "tiny1e-10", "tiny2^-30"]
# container forms (see _args); the last four only on grids that are exact in the type
FORMS = ["list", "tuples", "F", "strided", "revstride", "ro", "extra", "extra", "extra2", "f32", "i64", "i32", "u16", "u16"]
FORMS_ANY = FORMS[:9]
INT_FORMS = ("i64", "i32", "u16")


def _ijitter(rng, S):
    """S with every coordinate moved by -1, 0 or 1 (integers stay integers, non-negative, on or above the diagonal)."""
    T = []
    for b, d in S:
        nb = max(0.0, b + rng.randint(-1, 1))
        T.append([nb, max(nb, d + rng.randint(-1, 1))])
    rng.shuffle(T)
    return T


def _jitter(rng, S, amp):
    """S with every point moved by at most amp in each coordinate (never below the diagonal), a few dropped."""
    T = []
    for b, d in S:
        if rng.random() < 0.9:
            nb = b + rng.uniform(-amp, amp)
            T.append([nb, max(nb, d + rng.uniform(-amp, amp))])
    rng.shuffle(T)
    return T


def _repair(rng, S):
    """A diagram with the same multiset of births and the same multiset of deaths as S, paired differently."""
    if len(S) < 2:
        return [list(p) for p in S]
    bs = sorted(p[0] for p in S)
    top = max(bs)
    ds = [max(p[1], top) for p in S]
    rng.shuffle(ds)
    T = [[b, d] for b, d in zip(bs, ds)]
    rng.shuffle(T)
    return T


FAMS = ["uniform", "uniform", "dyadic", "neardiag", "repeated", "heavy", "straddle", "decimal"]


def _widen(rng, S):
    """S with some bars widened symmetrically by a decimal amount (distance = a half-persistence difference)."""
    T = []
    for p in S:
        e = rng.choice([0.1, 0.05, 0.2, 0.3, 0.15])
        if rng.random() < 0.85:
            T.append([p[0] - e, p[1] + e])
    rng.shuffle(T)
    return T


def _size(rng, tier):
    if tier == "quick":
        return rng.choice([5, 8, 12, 20, 30, 30, 40, 45, 60])
    return rng.choice([50, 60, 80, 100, 100, 120, 150])


def _mono_case(rng, law, dist, nS, nT, nB=None, fam=None, form=None):
    if form == "f32":
        fam = "dyadic"
    elif form in INT_FORMS:
        fam = "integer"
    given = fam is not None
    fam = fam or rng.choice(FAMS)
    c = {"cls": law + ":" + dist, "law": law, "dist": dist, "fam": fam,
         "S": _dgm(rng, nS, fam), "T": _dgm(rng, nT, fam), "seed": rng.randrange(10 ** 6)}
    if form:
        c["form"] = form
        c["cls"] += "/form"
    if fam == "integer" and rng.random() < 0.6:
        c["T"] = _ijitter(rng, c["S"])   # the optimal matching pairs the points, every difference is -1, 0 or 1
    if fam in LATE or fam in TINY:
        c["cls"] += "/mag"
        if rng.random() < 0.5:
            # T a jitter of S of the size of the lifetimes, so that the optimal matching is not all-to-diagonal
            amp = LATE[fam][2] / 2 if fam in LATE else TINY[fam]
            c["T"] = _jitter(rng, c["S"], amp) or c["T"]
    if fam == "decimal" and law in ("translate", "BleW", "sym", "scale") and rng.random() < 0.7:
        c["T"] = _widen(rng, c["S"])
    if law == "translate":
        c["c"] = rng.choice([1.0, -3.5, 17.25, 1e3, -250.0, rng.uniform(-50, 50), 2.0 ** 17, 1e5, 1e6, -1e6])
        if form == "f32":
            c["c"] = rng.choice([1.0, -3.5, 17.25, 1e3, -250.0, 2.0 ** 17])
        if form in INT_FORMS:
            c["c"] = rng.choice([1.0, 17.0, 250.0, 1e3])
    if law == "scale":
        c["c"] = rng.choice([0.5, 2.0, 3.0, 0.1, 1e3, 2.0 ** -20, 7.3, rng.uniform(0.01, 20), 2.0 ** -30, 1e-9, 1e-8, 1e6])
        if form == "f32":
            c["c"] = rng.choice([0.5, 2.0, 3.0, 2.0 ** -20, 1e3, 2.0 ** -30])
        if form in INT_FORMS:
            c["c"] = rng.choice([2.0, 3.0, 10.0])
    if law == "diagpad":
        lo, hi = (min(p[0] for p in c["S"]), max(p[1] for p in c["S"])) if (fam in LATE or fam in TINY) else (-5, 15)
        c["DS"] = [rng.uniform(lo, hi) for _ in range(rng.randint(0, 4))]
        c["DT"] = [rng.uniform(lo, hi) for _ in range(rng.randint(0 if c["DS"] else 1, 4))]
        if form == "f32" or form in INT_FORMS:
            c["DS"] = [float(rng.randint(0, 15)) for _ in c["DS"]]
            c["DT"] = [float(rng.randint(0, 15)) for _ in c["DT"]]
    if law == "triangle":
        c["B"] = _dgm(rng, nB if nB is not None else nS, fam if given else rng.choice([fam, rng.choice(FAMS)]))
        if rng.random() < 0.3:
            # S and T share births and deaths but pair them differently; S itself made consistent first
            c["S"] = _repair(rng, c["S"])
            c["T"] = _repair(rng, c["S"])
            if rng.random() < 0.5:
                c["B"] = []
    if law == "empty":
        c["T"] = []
        c["side"] = rng.choice(["right", "left"])
    if law == "BleW":
        c["dist"] = "BW"; c["cls"] = "BleW" + c["cls"][len("BleW:B"):]
    return c


def _brute_case(rng, dist, form=None, fams=None):
    nS, nT = rng.randint(0, 3), rng.randint(0, 3)
    if dist == "B":
        grid = "integer" if form in INT_FORMS else "dyadic"
        S, T = _dgm(rng, nS, grid), _dgm(rng, nT, grid)
        if rng.random() < 0.45 and S and T:
            T[0] = list(S[0])
            if rng.random() < 0.5 and len(S) >= 2 and len(T) >= 2:
                # a chain through the shared point: a -> m (shared) -> c, one grid step each
                m = S[0]
                st = rng.choice([0.25, 0.5, 1.0]) if grid == "dyadic" else 1.0
                S[1] = [m[0] - st, m[1] - st]
                T[1] = [m[0] + st, m[1] + st]
        if rng.random() < 0.2 and S:
            S[-1] = [S[-1][0], S[-1][0]]
        if rng.random() < 0.25 and len(S) >= 2:
            S = _repair(rng, S)
            T = _repair(rng, S)
        if grid == "integer" and S and rng.random() < 0.6:
            T = _ijitter(rng, S)
        s = 0 if form in INT_FORMS else rng.choice([0, 0, 0, 3, -3])
        S = [[b * 2.0 ** s, d * 2.0 ** s] for b, d in S]
        T = [[b * 2.0 ** s, d * 2.0 ** s] for b, d in T]
    else:
        fam = rng.choice(fams or ["uniform", "dyadic", "neardiag", "straddle"])
        S, T = _dgm(rng, nS, fam), _dgm(rng, nT, fam)
        if rng.random() < 0.25 and len(S) >= 2:
            S = _repair(rng, S)
            T = _repair(rng, S)
        if (fam in LATE or fam in TINY) and S and rng.random() < 0.5:
            T = _jitter(rng, S, LATE[fam][2] / 2 if fam in LATE else TINY[fam])
    c = {"cls": "brute" + dist, "law": "brute", "dist": dist, "S": S, "T": T, "seed": rng.randrange(10 ** 6) if form else 0}
    if fams:
        c["cls"] += "/mag"
    if form:
        c["form"] = form
        c["cls"] += "/form"
    return c


def _histories(rng, n):
    """Call histories: the steps are ordinary cases over a few diagrams, run in one interpreter on shared array
    objects.  pairwise: the loop of a distance matrix; sweep: one pair under several rescalings / shifts /
    paddings; fault: a call that persim rejects (or that raises half-way because a warning is an error) between
    clean calls on the same objects."""
    hs = []
    for _ in range(n):
        kind = rng.choice(["pairwise", "sweep", "fault"])
        dist = rng.choice(["B", "W"])
        fam = rng.choice(FAMS + ["late1e3", "tiny1e-9"])
        form = rng.choice([None, None] + FORMS_ANY)
        k = rng.choice([4, 6, 9, 14, 22])
        D = [_dgm(rng, max(1, k + rng.randint(-2, 2)), fam) for _ in range(3)]

        def step(law, S, T, d=dist, **kw):
            c = _mono_case(rng, law, d, 1, 1, fam=fam, form=form)
            c["cls"] = "step:" + c["cls"].split("/")[0]
            c["S"], c["T"] = [list(p) for p in S], [list(p) for p in T]
            if law == "triangle":
                c["B"] = [list(p) for p in kw["B"]]
            if law == "empty":
                c["T"] = []
            return c
        if kind == "pairwise":
            steps = [step("triangle", D[0], D[1], B=D[2]), step("sym", D[1], D[2]), step("empty", D[0], []),
                     step("perm", D[0], D[0]), step("BleW", D[0], D[2]), step("sym", D[0], D[1])]
        elif kind == "sweep":
            steps = [step("scale", D[0], D[1]), step("translate", D[0], D[1]), step("scale", D[0], D[1]),
                     step("diagpad", D[0], D[1]), step("perminv", D[0], D[1]), step("sym", D[0], D[1])]
        else:
            bad = {"fault": True, "cls": "step:fault", "law": "fault", "dist": dist, "S": [list(p) for p in D[0]],
                   "T": [list(p) for p in D[1]], "bad": rng.choice(["onecol", "infwarn", "ragged", "threedim"]), "seed": 0}
            if form:
                bad["form"] = form
            steps = [step("sym", D[0], D[1]), bad, step("sym", D[0], D[1]), step("empty", D[0], []),
                     dict(bad, S=bad["T"], T=bad["S"]), step("perm", D[1], D[1]), step("triangle", D[0], D[1], B=D[2])]
        hs.append(history.make(kind, steps))
    return hs


def generate(rng, tier):
    cases = []
    if tier == "quick":
        reps, big = 10, []
    else:
        reps, big = 30, [200, 250, 300]
    for _ in range(reps):
        for law in LAWS:
            for dist in ("B", "W"):
                if law == "BleW" and dist == "W":
                    continue
                n = _size(rng, tier)
                nT = max(1, n + rng.randint(-n // 3, n // 3))
                cases.append(_mono_case(rng, law, dist, n, nT))
    for n in big:
        for law in ("sym", "triangle", "perm", "BleW"):
            cases.append(_mono_case(rng, law, "B", n, n - 17))
        cases.append(_mono_case(rng, "empty", "W", n, 0))
    # tiny decimal-grid pairs, one the symmetric widening of the other: the bottleneck value is a
    # half-persistence difference up to one rounding; a wrong rounding direction shows on a few percent
    for _ in range(120 if tier == "quick" else 1200):
        law = rng.choice(["BleW", "BleW", "translate", "scale", "sym"])
        c = _mono_case(rng, law, "B", 1, 1)
        b = rng.randint(-30, 60) / 10.0
        S = [[b, round(b + rng.randint(1, 40) / 10.0, 10)]]
        e = rng.choice([0.1, 0.05, 0.2, 0.3, 0.15, 0.25, 0.4])
        T = [[S[0][0] - e, S[0][1] + e]]
        if rng.random() < 0.5:
            S, T = T, S
        c["S"], c["T"], c["fam"] = S, T, "decimal-widened"
        if law == "translate":
            c["c"] = rng.choice([1.0, 0.1, 0.3, 2.5, -0.7])
        if law == "scale":
            c["c"] = rng.choice([0.5, 2.0, 3.0, 0.1, 10.0])
        cases.append(c)
    # one size above 180 points per side in every run (costs that switch algorithm by size)
    for law, dist in (("perm", "W"), ("translate", "W"), ("perm", "B")):
        n = rng.choice([185, 190, 200])
        c = _mono_case(rng, law, dist, n, n - rng.choice([0, 1]))
        if law == "translate":
            c["c"] = rng.choice([1e3, 1e5, -2.5e4])
        cases.append(c)
    nb = 140 if tier == "quick" else 900
    for _ in range(nb):
        cases.append(_brute_case(rng, "B"))
    for _ in range(nb // 3):
        cases.append(_brute_case(rng, "W"))
    # magnitudes and container forms: every law for both distances, small sizes (the relation does not need size)
    small = [3, 5, 8, 12, 20, 30] if tier == "quick" else [5, 12, 30, 50, 80]
    for _ in range(1 if tier == "quick" else 12):
        for law in LAWS:
            for dist in ("B", "W"):
                if law == "BleW" and dist == "W":
                    continue
                n = rng.choice(small)
                cases.append(_mono_case(rng, law, dist, n, max(1, n + rng.randint(-n // 3, n // 3)), fam=rng.choice(MAGS)))
                for _ in range(2):
                    n = rng.choice(small)
                    cases.append(_mono_case(rng, law, dist, n, max(1, n + rng.randint(-n // 3, n // 3)), form=rng.choice(FORMS)))
    # the closed forms against the empty diagram and B <= W at every magnitude, at a size of a hundred or two
    for fam in (MAGS if tier != "quick" else rng.sample(MAGS, 3)):
        n = rng.choice([90, 130, 200])
        cases.append(_mono_case(rng, "empty", "W", n, 0, fam=fam))
        cases.append(_mono_case(rng, "BleW", "B", n // 3, n // 3 - 3, fam=fam))
    for _ in range(60 if tier == "quick" else 500):
        cases.append(_brute_case(rng, "B", form=rng.choice(FORMS)))
    for _ in range(12 if tier == "quick" else 120):
        cases.append(_brute_case(rng, "W", fams=MAGS, form=rng.choice([None] + FORMS_ANY)))
    return cases + _histories(rng, 8 if tier == "quick" else 100)


def corpus():
    z = {"seed": 1, "fam": "corpus"}
    return [
        dict(z, law="brute", dist="B", S=[[0.0, 2.0], [1.0, 5.0]], T=[[0.0, 3.0]]),
        dict(z, law="brute", dist="B", S=[], T=[]),
        dict(z, law="brute", dist="B", S=[[-1.0, -0.5], [-2.0, 1.0]], T=[]),
        dict(z, law="brute", dist="W", S=[[0.0, 1.0], [2.0, 5.0]], T=[[0.0, 2.0]]),
        dict(z, law="sym", dist="B", S=[[0.0, 1.0], [0.0, 3.0], [2.0, 4.0]], T=[[0.0, 2.0], [1.0, 1.5]]),
        dict(z, law="sym", dist="W", S=[[0.0, 1.0], [0.0, 3.0], [2.0, 4.0]], T=[[0.0, 2.0], [1.0, 1.5]]),
        dict(z, law="empty", dist="W", S=[[0.0, 1.0], [0.0, 3.0], [2.0, 4.0]], T=[], side="right"),
        dict(z, law="empty", dist="B", S=[[0.0, 1.0], [0.0, 3.0], [2.0, 4.0]], T=[], side="left"),
        dict(z, law="BleW", dist="BW", S=[[0.0, 1.0], [0.0, 3.0], [2.0, 4.0]], T=[[0.0, 2.0], [1.0, 1.5]]),
        # magnitudes: short bars born late, a diagram in tiny units
        dict(z, law="empty", dist="W", S=[[1000.0, 1000.004], [1000.5, 1000.507], [1000.25, 1000.2515]], T=[], side="left"),
        dict(z, law="brute", dist="W", S=[[1000.0, 1000.004], [1000.5, 1000.507]], T=[[1000.001, 1000.006]]),
        dict(z, law="BleW", dist="BW", S=[[1e-9, 3e-9], [2e-9, 2.5e-9]], T=[[1.5e-9, 3.5e-9]]),
        # containers: [birth, death, dimension] rows, unsigned integers
        dict(z, law="brute", dist="B", S=[[0.0, 2.0], [1.0, 5.0]], T=[[0.0, 3.0]], form="extra"),
        dict(z, law="empty", dist="B", S=[[0.0, 2.0], [1.0, 5.0], [2.0, 3.0]], T=[], side="right", form="extra2"),
        dict(z, law="brute", dist="B", S=[[3.0, 9.0], [10.0, 12.0]], T=[[4.0, 8.0], [9.0, 13.0]], form="u16"),
        dict(z, law="sym", dist="W", S=[[3.0, 9.0], [10.0, 12.0]], T=[[4.0, 8.0], [9.0, 13.0], [1.0, 2.0]], form="i32"),
    ]


def search_generate(rng, n):
    out = []
    while len(out) < n:
        law = rng.choice(LAWS + ["brute", "brute"])
        dist = rng.choice(["B", "W"])
        if law == "brute":
            out.append(_brute_case(rng, dist))
        else:
            k = rng.choice([2, 3, 5, 8, 12, 40])
            out.append(_mono_case(rng, law, dist, k, max(1, k - rng.randint(0, 2)),
                                  fam=rng.choice([None, None, rng.choice(MAGS)]), form=rng.choice([None, None] + FORMS)))
    return out


# --------------------------------------------------------------------------- the calls of a case

def _shuffled(l, seed):
    l = [list(p) for p in l]
    random.Random(seed).shuffle(l)
    return l


def _padded(l, xs, seed):
    l = [list(p) for p in l]
    r = random.Random(seed)
    for x in xs:
        l.insert(r.randint(0, len(l)), [x, x])
    return l


def calls_of(c):
    """The list of (distance, X, Y) evaluations the relation of case c needs."""
    law, d, S, T, sd = c["law"], c["dist"], c["S"], c["T"], c.get("seed", 0)
    if law == "brute":
        return [(d, S, T)]
    if law == "sym":
        return [(d, S, T), (d, T, S)]
    if law == "perm":
        return [(d, S, _shuffled(S, sd)), (d, S, S)]
    if law == "perminv":
        return [(d, S, T), (d, _shuffled(S, sd), _shuffled(T, sd + 1))]
    if law == "translate":
        k = c["c"]
        return [(d, S, T), (d, [[b + k, e + k] for b, e in S], [[b + k, e + k] for b, e in T])]
    if law == "scale":
        k = c["c"]
        return [(d, S, T), (d, [[b * k, e * k] for b, e in S], [[b * k, e * k] for b, e in T])]
    if law == "diagpad":
        return [(d, S, T), (d, _padded(S, c["DS"], sd), _padded(T, c["DT"], sd + 1))]
    if law == "empty":
        return [(d, S, [])] if c.get("side") == "right" else [(d, [], S)]
    if law == "BleW":
        return [("B", S, T), ("W", S, T)]
    if law == "triangle":
        return [(d, S, T), (d, S, c["B"]), (d, c["B"], T)]
    raise ValueError(law)


def _build(np, X, eff):
    """The argument object for the diagram X (list of [birth, death]) in the effective form eff.  Whatever the
    form, columns 0 and 1 of the result are bit-equal to X (the narrow types fall back to float64 otherwise)."""
    A = np.array(X, dtype=float).reshape(-1, 2)
    n = A.shape[0]
    if eff == "list":
        return [[float(b), float(d)] for b, d in X]
    if eff == "tuples":
        return [(float(b), float(d)) for b, d in X]
    if eff == "F":
        return np.asfortranarray(A)
    if eff == "strided":
        big = np.full((2 * n + 1, 5), 7.7e5)
        big[1::2, 1:3] = A
        return big[1::2, 1:3]
    if eff == "revstride":
        return np.ascontiguousarray(A[::-1])[::-1]
    if eff == "ro":
        A.setflags(write=False)
        return A
    if eff in ("extraB", "extra2B"):
        r = random.Random(1000003 * n + len(eff))
        cols = [[r.choice([0.0, 1.0, 2.0, r.uniform(-30, 30)]) for _ in range(n)] for _ in range(1 if eff == "extraB" else 2)]
        return np.column_stack([A] + [np.array(col, dtype=float).reshape(n) for col in cols])
    if eff == "extraW":
        return np.column_stack([A, np.full(n, 1.0)])
    if eff == "extra2W":
        return np.column_stack([A, np.full(n, 1.0), np.full(n, -2.5)])
    if eff in ("f32", "i64", "i32", "u16"):
        dt = {"f32": np.float32, "i64": np.int64, "i32": np.int32, "u16": np.uint16}[eff]
        if n == 0 or (eff == "u16" and (A.min() < 0 or A.max() > 60000)) or (eff != "f32" and np.abs(A).max() > 2e9):
            return A if n else np.zeros((0, 2), dtype=dt)
        with np.errstate(all="ignore"):
            Z = A.astype(dt)
        return Z if (Z.astype(float) == A).all() else A
    return A


def _args(np, memo, d, X, Y, form):
    """The two argument objects of one call.  Equal-valued diagrams in the same form are ONE object for the whole
    memo (a case, or all steps of a history)."""
    eff = form or "f64"
    if eff in ("extra", "extra2"):
        # wasserstein's point-to-point cost reads every column: constant extra columns there, and none against
        # an empty diagram (see ASSUMPTIONS)
        eff = (eff + d) if (d == "B" or (len(X) and len(Y))) else "f64"
    return [history.intern(memo, ["arr", eff, Z], lambda Z=Z: _build(np, Z, eff)) for Z in (X, Y)]


def _fault_call(np, fn, c, memo):
    """A call persim cannot answer (or that raises half-way): whatever it does, only the later steps are judged."""
    import warnings
    ax, ay = _args(np, memo, c["dist"], c["S"], c["T"], c.get("form"))
    bad = c.get("bad")
    try:
        if bad == "onecol":
            by = np.array(c["T"], dtype=float).reshape(-1, 2)[:, :1]
        elif bad == "ragged":
            by = [list(p) for p in c["T"]] + [[1.0]]
        elif bad == "threedim":
            by = np.array(c["T"], dtype=float).reshape(-1, 2)[None, :, :]
        else:  # infwarn: the infinite bar is announced by a warning, which this caller treats as an error
            by = np.array([list(p) for p in c["T"]] + [[0.5, float("inf")]], dtype=float)
        with warnings.catch_warnings():
            warnings.simplefilter("error")
            v = fn[c["dist"]](ax, by)
        return {"fault": "returned", "val": repr(v)[:60]}
    except BaseException as e:
        if isinstance(e, (KeyboardInterrupt, SystemExit)):
            raise
        return {"fault": type(e).__name__, "msg": str(e)[:120]}


def impl_call(c, memo):
    """All evaluations of one case; argument objects interned in memo (shared with the other steps of a history)."""
    import numpy as np
    from persim import bottleneck, wasserstein
    fn = {"B": bottleneck, "W": wasserstein}
    if c.get("fault"):
        return _fault_call(np, fn, c, memo)
    try:
        vals = []
        for d, X, Y in calls_of(c):
            ax, ay = _args(np, memo, d, X, Y, c.get("form"))
            vals.append(float(fn[d](ax, ay)))
        return {"vals": vals}
    except BaseException as e:  # RecursionError etc. are the point of the size monitor
        if isinstance(e, (KeyboardInterrupt, SystemExit)):
            raise
        return {"error": type(e).__name__, "msg": str(e)[:200]}


def impl_run(cases):
    return [history.run(c, impl_call) if history.is_hist(c) else impl_call(c, {}) for c in cases]


# --------------------------------------------------------------------------- the spec side

def _pms(m, n):
    """All partial matchings between range(m) and range(n), as lists of pairs."""
    for k in range(min(m, n) + 1):
        for rows in itertools.combinations(range(m), k):
            for cols in itertools.permutations(range(n), k):
                yield list(zip(rows, cols))


def brute_bottleneck(S, T):
    S = [(Fraction(b), Fraction(d)) for b, d in S]
    T = [(Fraction(b), Fraction(d)) for b, d in T]
    best = None
    for pm in _pms(len(S), len(T)):
        cs = [Fraction(0)]
        cs += [max(abs(S[i][0] - T[j][0]), abs(S[i][1] - T[j][1])) for i, j in pm]
        cs += [(S[i][1] - S[i][0]) / 2 for i in range(len(S)) if i not in {a for a, _ in pm}]
        cs += [(T[j][1] - T[j][0]) / 2 for j in range(len(T)) if j not in {b for _, b in pm}]
        v = max(cs)
        best = v if best is None or v < best else best
    return best


def brute_wasserstein(S, T, arg=False):
    best, bm = None, None
    r2 = math.sqrt(2.0)
    for pm in _pms(len(S), len(T)):
        cs = [math.hypot(S[i][0] - T[j][0], S[i][1] - T[j][1]) for i, j in pm]
        cs += [(S[i][1] - S[i][0]) / r2 for i in range(len(S)) if i not in {a for a, _ in pm}]
        cs += [(T[j][1] - T[j][0]) / r2 for j in range(len(T)) if j not in {b for _, b in pm}]
        v = math.fsum(cs)
        if best is None or v < best:
            best, bm = v, pm
    return (best, bm) if arg else best


def _tols(c, v):
    """Per-call tolerance: 1e-9 relative to the value plus 1e-9 times the coordinate scale of that call."""
    ts = []
    for (_, X, Y), x in zip(calls_of(c), v):
        m = max([0.0] + [max(abs(p[0]), abs(p[1])) for p in X + Y])
        ts.append(TOL * (abs(x) + m) + 1e-300)
    return ts


def _close(a, b, tol):
    return a == a and b == b and abs(a - b) <= tol


def predicate(c, o):
    if history.is_hist(c):
        return history.predicate(c, o, predicate)
    if "error" in o:
        return False, "exception: %s %s" % (o["error"], o.get("msg", ""))
    v = o["vals"]
    if any(not (x == x) or x in (float("inf"), float("-inf")) for x in v):
        return False, "nonfinite: %s %s" % (c["law"], v)
    law = c["law"]
    t = _tols(c, v)
    tag = "%s[%s]" % (law, c["dist"])
    if any(x < -ti for x, ti in zip(v, t)):
        return False, "negative: %s %s" % (tag, v)
    if law == "brute":
        if c["dist"] == "B":
            want = brute_bottleneck(c["S"], c["T"])
            if Fraction(v[0]) != want:
                return False, "brute[B]: value %r differs from min-max over all partial matchings %s" % (v[0], want)
            return True, ""
        want = brute_wasserstein(c["S"], c["T"])
        if not _close(v[0], want, t[0]):
            return False, "brute[W]: value %r differs from min-sum over all partial matchings %r" % (v[0], want)
        return True, ""
    if law == "sym":
        ok = _close(v[0], v[1], t[0] + t[1])
    elif law == "perm":
        ok = _close(v[0], 0.0, t[0]) and _close(v[1], 0.0, t[1])
    elif law in ("perminv", "translate", "diagpad"):
        ok = _close(v[0], v[1], t[0] + t[1])
    elif law == "scale":
        ok = _close(c["c"] * v[0], v[1], c["c"] * t[0] + t[1])
    elif law == "empty":
        pers = [float(d) - float(b) for b, d in c["S"]]
        want = (max([0.0] + pers) / 2.0) if c["dist"] == "B" else math.fsum(pers) / math.sqrt(2.0)
        ok = _close(v[0], want, t[0])
        if not ok:
            return False, "%s: %r differs from %r" % (tag, v[0], want)
    elif law == "BleW":
        ok = v[0] <= v[1] + t[0] + t[1]
    elif law == "triangle":
        ok = v[0] <= v[1] + v[2] + sum(t)
    else:
        return False, "unknown law %s" % law
    return (True, "") if ok else (False, "%s: relation fails on %s" % (tag, v))


def nontrivial(c, o):
    if history.is_hist(c):
        return history.nontrivial(c, o, nontrivial)
    if "error" in o:
        return False
    v = o["vals"]
    if c["law"] == "perm":
        return len({tuple(p) for p in c["S"]}) >= 2
    if c["law"] == "brute":
        return (len(c["S"]) >= 1 and len(c["T"]) >= 1) or v[0] > 0
    return v[0] > 0


# --------------------------------------------------------------------------- the Coq side
HEADER = """From Coq Require Import QArith List.
From Persim Require Import Spec.BottleneckS Model.MetricBruteM Corr.MetricCorr.
Import ListNotations.
Open Scope Q_scope.
"""
HEADER_W = """From Coq Require Import Reals List Arith Bool Lra.
From Interval Require Import Tactic.
From Persim Require Import Spec.PartialMatching Spec.WassersteinS Lib.PMatchLemmas Corr.MetricCorrW.
Import ListNotations.
Open Scope R_scope.
"""
_cache = {}


def _coq_dgmR(X):
    return core.coq_list(["(%s, %s)" % (core.coq_R(float(b)), core.coq_R(float(d))) for b, d in X])


def _w_lemma(c, v):
    """forall w, is_wasserstein S T w -> v - tol <= w <= v + tol, closed by the tactic w_case with the
    minimising matching found by the Python enumeration (checked, not trusted, by Coq)."""
    t = Fraction(_tols(c, [v])[0]) + Fraction(1, 10 ** 12)
    _, pm = brute_wasserstein(c["S"], c["T"], arg=True)
    st = "forall w, is_wasserstein %s %s w -> (%s <= w <= %s)%%R" % (
        _coq_dgmR(c["S"]), _coq_dgmR(c["T"]), core.coq_R(Fraction(v) - t), core.coq_R(Fraction(v) + t))
    ms = core.coq_list(["(%d, %d)" % (i, j) for i, j in sorted(pm)])
    return st, "w_case (%s : list (nat * nat))%%nat." % ms


def _coq_dgm(X):
    return core.coq_list(["(%s, %s)" % (core.coq_Q(float(b)), core.coq_Q(float(d))) for b, d in X])


def coq_jobs(cases, outs):
    return []   # the brute-force twin is evaluated by coq_judge through core.eval_cases


def coq_judge(cases, outs, results):
    verdicts = [None] * len(cases)
    terms, idx = [], []
    for i, (c, o) in enumerate(zip(cases, outs)):
        if c.get("law") == "brute" and c["dist"] == "B" and "error" not in o and o["vals"][0] == o["vals"][0] \
                and abs(o["vals"][0]) != float("inf"):
            t = "brute_agrees %s %s %s" % (_coq_dgm(c["S"]), _coq_dgm(c["T"]), core.coq_Q(o["vals"][0]))
            if t in _cache:
                verdicts[i] = _cache[t]
            else:
                terms.append(t); idx.append(i)
    if terms:
        toks, _ = core.eval_cases(PID, HEADER, terms, chunk=100)
        for i, t, tok in zip(idx, terms, toks):
            if tok == "true":
                verdicts[i] = "agree"
            elif tok == "false":
                verdicts[i] = "disagree:implementation's bottleneck value differs from bottleneck_brute (vm_compute)"
            else:
                verdicts[i] = "disagree:brute-force twin could not be evaluated (%s)" % tok
            _cache[t] = verdicts[i]
    lem, lidx = [], []
    for i, (c, o) in enumerate(zip(cases, outs)):
        if c.get("law") == "brute" and c["dist"] == "W" and "error" not in o and o["vals"][0] == o["vals"][0] \
                and abs(o["vals"][0]) != float("inf"):
            st = _w_lemma(c, o["vals"][0])
            if st[0] in _cache:
                verdicts[i] = _cache[st[0]]
            else:
                lem.append(st); lidx.append(i)
    if lem:
        oks, _ = core.prove_lemmas(PID, HEADER_W, lem, chunk=6, tag="w")
        for i, st, good in zip(lidx, lem, oks):
            verdicts[i] = "agree" if good else \
                "disagree:interval certificate 'spec minimum within 1e-9 of the implementation's Wasserstein value' not provable"
            _cache[st[0]] = verdicts[i]
    for i, (c, o) in enumerate(zip(cases, outs)):
        if verdicts[i] is None:
            # no Coq execution for the relations at size: the verdict is the relation itself
            okp, detail = predicate(c, o)
            verdicts[i] = "agree" if okp else "disagree:" + detail.split(":")[0]
    return verdicts


# --------------------------------------------------------------------------- shrinking

def shrink_candidates(c):
    if history.is_hist(c):
        yield from history.shrink(c)
        return
    keys = [k for k in ("S", "T", "B") if c.get(k)]
    for k in keys:
        n = len(c[k])
        if n > 3:
            for part in (c[k][: n // 2], c[k][n // 2:]):
                d = dict(c); d[k] = part; yield d
    for k in keys:
        n = len(c[k])
        if n <= 12:
            for j in range(n):
                d = dict(c); d[k] = c[k][:j] + c[k][j + 1:]; yield d
        else:
            for j in range(0, n, max(1, n // 8)):
                d = dict(c); d[k] = c[k][:j] + c[k][j + max(1, n // 8):]; yield d
    for k in ("DS", "DT"):
        if c.get(k):
            d = dict(c); d[k] = c[k][:-1]; yield d
    if c.get("form"):
        # the same relation on plain float64 arrays: then the container is not what matters
        d = dict(c); del d["form"]; yield d
