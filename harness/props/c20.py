"""C20 - plots draw exactly the data and matchings they are given.

Model: coq/Model/SceneM.v (plot_diagrams, bottleneck_matching, wasserstein_matching and the 2-D
landscape plots as functions to an abstract scene whose line artists carry the axes they were
drawn on).  Tie: every case is drawn by the real code on an Agg figure with TWO axes (the one
passed as ``ax`` and another one that is pyplot's current axes), the artists of both axes are
collected, and the scene is compared inside Coq (vm_compute, Corr/SceneCorr.v) with the model run
on the same exact rationals; matchings come from persim.bottleneck / persim.wasserstein
(matching=True).  The predicate below is the property text evaluated on the collected artists,
independently of the model.

Not modelled: rasterisation, colours / sizes / style sheets, the 3-D landscape plots (only
"returns a figure" is checked by the predicate)."""
import math
import re
import sys
from fractions import Fraction

from .. import core, history

PID = "C20"
THEOREMS = [
    "points_within_limits", "points_within_limits_lifetime", "inf_line_inside",
    "inf_points_on_inf_line", "scatter_per_plotted_diagram", "scene_reflects_options",
    "foot_is_perpendicular_projection", "foot_is_rotation", "one_segment_per_row",
    "max_row_marked", "all_artists_on_given_axes", "matching_axes_legacy_refuted",
    "matching_keeps_diagram_scene", "wasserstein_phantom_point_legacy_refuted",
    "landscape_one_polyline_per_depth", "limits_are_padded_min_max", "linspace_nodes",
]
RULE = ("seeded generator over kinds {plot_diagrams, bottleneck_matching, wasserstein_matching, "
        "plot_landscape_simple exact / approx, 3-D smoke} x classes {single array, list, infinite deaths, "
        "only infinite deaths, empty diagram among others, all empty, constant (zero range), points below the "
        "diagonal, scales 2^-10..2^10, random doubles} x options {plot_only (incl. [] and out of range; as list, tuple or list of numpy integers), "
        "lifetime, diagonal, legend, labels list / single string, xy_range (list or tuple), title} x input dtype {float64, float32, "
        "int64, int32, nested list; matching plots: integer-dtype diagrams with odd birth+death matched to the diagonal} x {the same array object at two positions of the list} x {two calls in a row on the same "
        "array objects, both judged on the caller's ORIGINAL data} x axes {other axes current, "
        "given axes current, ax=None}; call histories in one process (harness/history.py; argument arrays interned, so equal "
        "diagrams of different steps are the same ndarray objects) x {overlay: 2-3 plot_diagrams calls on the SAME axes with "
        "different value ranges (rescaled by 2^-3..2^6, shifted), most steps with infinite deaths, lifetime / xy_range / legend / "
        "title / labels varying per step, the axes mode (other current / given current / ax=None) varying per step; the same "
        "diagrams re-plotted on the same axes with other options; a rejected call (plot_only out of range, nothing finite) "
        "followed by clean calls on the same axes; a diagram plot followed by bottleneck and wasserstein matching plots on the "
        "same axes; several 2-D landscape plots on the same axes, title / labels given in some steps only; a loop over the two panels of one figure (each call given "
        "another axes of the same figure, diagram / matching / landscape plots mixed); a fresh figure per "
        "step with the same array objects passed to plot_diagrams, bottleneck_matching and wasserstein_matching}: every step is "
        "judged by the property on the artists THAT call added (identified by object identity against a snapshot taken before "
        "the call) and on the state of the axes after it - infinite deaths on a horizontal line present on the axes strictly "
        "inside the limits in force after the call, limits containing the call's finite points, title / axis labels as "
        "requested (an option not given leaves what an earlier call set), a legend created iff requested and listing at least "
        "the call's own labels; coordinates on a dyadic grid exact in float32 (exact family) or random "
        "doubles (tolerance family); a case is non-trivial when at least two distinct finite points, an "
        "infinite death, a matching segment or a landscape polyline is drawn, or an error branch is taken; a history "
        "is non-trivial when at least two of its steps are; distinct = distinct JSON input")
TRUSTED_BASE = [
    "Coq 8.16.1 kernel, vm_compute (no native_compute)",
    "Q/Z/list theorems closed under the global context; the rotation lemma over R uses the stdlib axioms "
    "of the classical reals (ClassicalDedekindReals.sig_forall_dec, sig_not_dec, functional_extensionality_dep)",
    "hand-written model Model/SceneM.v of persim/visuals.py and persim/landscapes/visuals.py (2-D plots)",
    "matplotlib (Agg): Axes.lines / Axes.collections / get_offsets / get_xydata / get_xlim report what was drawn; "
    "the arguments of set_xlim / set_ylim are recorded by wrapping the two methods on the axes instance",
    "harness: generator, float->exact-rational printer, artist collector, string-table encoding of labels; call "
    "histories (harness/history.py): the steps of a history that draw on the same axes are told apart by artist identity "
    "(snapshot of Axes.collections / Axes.lines / the Legend object before each call)",
]
ASSUMPTIONS = [
    "float32 rounding of the per-diagram copies and of the limit arithmetic is bounded by 1e-6 x scale, double "
    "rounding of rotated feet by 1e-9 x scale (scale = max(1, 2 max|coordinate|)); not proved",
    "a plot with no finite coordinate and no xy_range has no axes range to derive: the code raises ValueError "
    "and the predicate accepts exactly that",
    "lifetime mode is checked for containment only on diagrams with birth <= death (as in the theorem)",
    "matching plots are exercised on finite diagrams (the distance functions drop infinite points, so row "
    "indices would refer to the filtered arrays)",
    "rows of a returned matching that refer to the point (0,0) with which the distance functions pad an empty diagram "
    "are not matched pairs of the given diagrams: for them the predicate only asks that what is drawn starts at "
    "the real point and ends on the diagonal (persim.bottleneck pairs real points with that padding point)",
    "nested-list diagrams are outside the documented input type (ndarray): any exception is accepted for "
    "them, a drawn scene is judged like any other",
    "a single label string combined with plot_only (characters get indexed) is outside the model",
    "landscape polylines are compared with the landscape object's own critical pairs / values (their "
    "correctness is C03 / C08)",
    "a call on axes that already hold a plot is judged on what it adds and on the limits / labels / title in force after it: "
    "artists of earlier calls may stay as they are (their points need not lie inside the new limits), the legend of an "
    "overlay must list at least the labels of the call that created it (and the infinity entry if that call drew infinite "
    "deaths), any horizontal line on the axes strictly inside the limits counts as an infinity line (minus one line at 0 "
    "per lifetime-mode call drawn there: the horizons); the other panel of the figure may hold what earlier steps "
    "drew THERE, the call must not add to it or relabel it; the model is compared with the artists the call added",
]
COQ_DEPS = ["Corr/SceneCorr.vo"]
INF = float("inf")

# ------------------------------------------------------------------------------ generation

def _grid(rng, scale):
    return rng.randint(-40, 160) / 8.0 * scale


def _dgm(rng, n, scale, exact=True, below=False, n_inf=0):
    out = []
    for _ in range(n):
        if exact:
            b = _grid(rng, scale)
            ln = rng.randint(0, 96) / 8.0 * scale
        else:
            b = rng.uniform(-5, 20) * scale
            ln = rng.uniform(0, 12) * scale
        d = b + ln
        if below and rng.random() < 0.5:
            b, d = d, b
        out.append([b, d])
    for _ in range(n_inf):
        b = _grid(rng, scale) if exact else rng.uniform(-5, 20) * scale
        out.insert(rng.randint(0, len(out)), [b, "inf"])
    return out


STRS = ["alpha", "beta", "gamma", "dgmA", "dgmB", "A title", "x axis", "y axis", "H"]


def _gen_pd(rng):
    cls = rng.choice(["single", "multi", "multi", "inf", "inf", "only_inf", "with_empty", "all_empty",
                      "constant", "below", "scale", "doubles", "plot_only", "plot_only", "bad_index",
                      "xy_range", "xy_range", "lifetime", "lifetime", "labels", "one_label", "int_array",
                      "alias", "alias", "twice", "twice", "twice"])
    scale = rng.choice([2.0 ** -10, 2.0 ** 10, 4.0]) if cls == "scale" else 1.0
    exact = cls != "doubles"
    nd = 1 if cls in ("single", "constant") else rng.randint(1, 4)
    c = {"kind": "pd", "cls": "pd/" + cls, "plot_only": None, "title": None, "xy_range": None, "labels": None,
         "diagonal": rng.random() < 0.7, "lifetime": rng.random() < 0.3, "legend": rng.random() < 0.6,
         "single": False, "axes": rng.choice(["other", "other", "other", "given", "gca"])}
    dg = []
    for _ in range(nd):
        n = rng.randint(1, 6)
        n_inf = rng.randint(1, 2) if cls in ("inf", "only_inf") or rng.random() < 0.15 else 0
        if cls == "only_inf":
            n = 0
        dg.append(_dgm(rng, n, scale, exact=exact, below=(cls == "below"), n_inf=n_inf))
    if cls == "with_empty":
        dg.insert(rng.randint(0, len(dg)), [])
    if cls == "all_empty":
        dg = [[] for _ in range(nd)]
    if cls == "constant":
        v = _grid(rng, 1.0)
        dg = [[[v, v]] * rng.randint(1, 3)]
    if cls == "int_array":
        dg = [[[float(rng.randint(-5, 20)), 0.0] for _ in range(rng.randint(1, 5))] for _ in range(nd)]
        for d in dg:
            for p in d:
                p[1] = p[0] + rng.randint(0, 12)
        c["int_arrays"] = True
    if cls == "below":
        c["lifetime"] = False
    if cls == "lifetime":
        c["lifetime"] = True
    # input dtype class; the same array OBJECT at two positions; two calls in a row on the same objects
    c["dtype"] = rng.choice(["f64"] * 5 + ["f32"] * 3 + ["i64", "i32", "list"])
    if cls in ("alias", "twice"):
        c["dtype"] = rng.choice(["f32", "f32", "f32", "f64"])
        c["lifetime"] = rng.random() < 0.6
        if rng.random() < 0.5 and dg and cls == "twice":
            dg[0].append([_grid(rng, 1.0), "inf"])
    if cls == "alias" or (dg and rng.random() < 0.1):
        j = rng.randrange(len(dg))
        dg.append([list(p) for p in dg[j]])
        c["alias"] = [[len(dg) - 1, j]]
    if cls == "twice" or rng.random() < 0.15:
        c["second"] = {"lifetime": rng.random() < 0.6, "diagonal": rng.random() < 0.7}
    if cls == "single" or (nd == 1 and rng.random() < 0.5):
        c["single"] = len(dg) == 1
    if cls in ("plot_only", "bad_index") or rng.random() < 0.15:
        k = rng.randint(0, len(dg))
        po = [rng.randrange(len(dg)) for _ in range(k)]
        if cls == "bad_index":
            po.append(len(dg) + rng.randint(0, 2))
        c["plot_only"] = po
        c["single"] = False
    if cls == "xy_range" or rng.random() < 0.15:
        lo = rng.randint(-80, 0) / 4.0
        lo2 = rng.choice([lo, rng.randint(-80, 0) / 4.0])
        c["xy_range"] = [lo * scale, (lo + rng.randint(1, 200) / 4.0) * scale,
                         lo2 * scale, (lo2 + rng.randint(1, 200) / 4.0) * scale]
    # containers: plot_only as a tuple / a list of numpy integers, xy_range as a tuple
    if c["plot_only"] is not None and rng.random() < 0.3:
        c["po_kind"] = rng.choice(["tuple", "npint"])
    if c["xy_range"] is not None and rng.random() < 0.25:
        c["xyr_kind"] = "tuple"
    if cls == "labels" or rng.random() < 0.2:
        c["labels"] = [rng.choice(STRS[:5]) for _ in range(len(dg))]
    if cls == "one_label" and not c["plot_only"]:
        c["labels"] = rng.choice(STRS[:5])
    if rng.random() < 0.4:
        c["title"] = rng.choice(["A title", "", "H"])
    c["dgms"] = dg
    return c


def _gen_match(rng, kind):
    cls = rng.choice(["generic", "generic", "generic", "one_empty", "other_empty", "both_empty", "diag_heavy",
                      "doubles", "ties", "scale", "identical", "perturbed", "int_odd", "int_odd", "int_mixed"])
    scale = rng.choice([2.0 ** -8, 2.0 ** 8]) if cls == "scale" else 1.0
    exact = cls != "doubles"
    n1, n2 = rng.randint(1, 5), rng.randint(1, 5)
    if cls == "one_empty":
        n1 = 0
    if cls == "other_empty":
        n2 = 0
    if cls == "both_empty":
        n1 = n2 = 0
    d1 = _dgm(rng, n1, scale, exact=exact)
    d2 = _dgm(rng, n2, scale, exact=exact)
    if cls == "diag_heavy":
        # points far apart from each other but close to the diagonal: everything goes to the diagonal
        d1 = [[float(4 * k), 4 * k + 0.5] for k in range(n1)]
        d2 = [[float(4 * k + 2), 4 * k + 2.25] for k in range(n2)]
    if cls == "ties":
        d1 = [[float(k), k + 2.0] for k in range(n1)]
        d2 = [[float(k) + 0.5, k + 2.5] for k in range(n2)]
    if cls == "identical":          # every row is a cross pairing of cost 0; argmax picks row 0
        d2 = [list(p) for p in d1]
    if cls == "perturbed":          # cross pairings with small positive costs
        d2 = [[p[0] + rng.randint(-2, 2) / 16.0, p[1] + rng.randint(-2, 2) / 16.0] for p in d1]
    extra = {"dtype": rng.choice(["f64", "f64", "f32"])}
    if cls == "int_odd":
        # integer-dtype diagrams, odd birth+death, far apart but close to the diagonal: every point goes to the
        # diagonal and its foot ((b+d)/2, (b+d)/2) is a half-integer
        d1 = [[float(6 * k + o), float(6 * k + o + 1)] for k, o in ((k, rng.randint(0, 1)) for k in range(n1))]
        d2 = [[float(6 * k + 3), float(6 * k + 3 + rng.choice([1, 3]))] for k in range(n2)]
        extra["dtype"] = rng.choice(["i64", "i32"])
    if cls == "int_mixed":
        # integer coordinates, a mix of cross pairings and diagonal pairings with odd and even sums
        d1 = [[float(b), float(b + rng.randint(1, 9))] for b in (rng.randint(-5, 20) for _ in range(n1))]
        d2 = [[float(b), float(b + rng.randint(1, 9))] for b in (rng.randint(-5, 20) for _ in range(n2))]
        extra["dtype"] = rng.choice(["i64", "i32"])
    if cls == "ties" and rng.random() < 0.5:
        extra["dtype"] = rng.choice(["i64", "i32"])
    if cls == "identical" and rng.random() < 0.5:
        extra["same_object"] = True     # dgm2 IS dgm1
    return {**extra, "kind": kind, "cls": kind + "/" + cls, "d1": d1, "d2": d2, "labels": rng.choice([["dgm1", "dgm2"], ["dgmA", "dgmB"]]),
            "axes": rng.choice(["other", "other", "other", "other", "given", "gca"])}


def _gen_land(rng, kind):
    n = rng.randint(1, 5)
    dg = []
    for _ in range(n):
        b = rng.randint(0, 16) / 2.0
        dg.append([b, b + rng.randint(1, 12) / 2.0])
    c = {"kind": kind, "cls": kind, "dgm": dg, "depth_range": None, "title": rng.choice([None, "A title", ""]),
         "labels": rng.choice([None, ["x axis", "y axis"]]), "axes": rng.choice(["other", "other", "given", "gca"])}
    if rng.random() < 0.4:
        c["depth_range"] = sorted(set(rng.randrange(n + 1) for _ in range(rng.randint(0, 3))))
    if kind == "la":
        c["start"] = 0.0
        c["stop"] = 16.0
        c["num_steps"] = rng.choice([5, 9, 17, 33])
    return c


def _rescale(c, f, off):
    """the same plot_diagrams case on another value range: v -> v * f + off (f a power of two, off an integer: the
    dyadic grid stays exact in single precision)"""
    c["dgms"] = [[[p[0] * f + off, p[1] if p[1] == "inf" else p[1] * f + off] for p in d] for d in c["dgms"]]
    if c.get("xy_range"):
        c["xy_range"] = [v * f + off for v in c["xy_range"]]
    return c


def _pd_step(rng, force_inf=False, allow_error=False):
    """a plot_diagrams call drawn on the axes shared by the steps of a history"""
    while True:
        c = _gen_pd(rng)
        if c["cls"] in ("pd/scale", "pd/doubles", "pd/int_array") or c.get("dtype") in ("list", "i64", "i32"):
            continue
        pl = _plotted(c)
        if not allow_error and (pl is None or _nothing_to_plot(pl[0], c["xy_range"])):
            continue
        break
    c.pop("second", None)
    if force_inf and c["dgms"] and c["cls"] not in ("pd/all_empty",):
        k = rng.randrange(len(c["dgms"]))
        if c.get("alias"):
            k = c["alias"][0][1]
        c["dgms"][k] = c["dgms"][k] + [[_grid(rng, 1.0), "inf"]]
        for a, b in c.get("alias") or []:
            c["dgms"][a] = [list(p) for p in c["dgms"][b]]
    _rescale(c, 2.0 ** rng.choice([-3, -1, 0, 0, 1, 2, 4, 6]), float(rng.choice([0, 0, 0, 16, -64, 512])))
    c["shared"] = True
    c["cls"] = "step:" + c["cls"]
    return c


def _match_step(rng, kind, shared):
    c = _gen_match(rng, kind)
    c["shared"] = bool(shared)
    c["cls"] = "step:" + c["cls"]
    return c


def _land_step(rng, kind):
    c = _gen_land(rng, kind)
    c["shared"] = True
    c["cls"] = "step:" + c["cls"]
    return c


def _histories(rng, n):
    """Call histories (harness/history.py).  "shared": True steps draw on ONE pair of axes kept for the whole history
    (overlays); the other steps get a fresh figure each.  Argument arrays are interned, so equal diagrams of different
    steps are the same ndarray objects.  Every step must satisfy the property on the artists it added."""
    hs = []
    for _ in range(n):
        kind = rng.choice(["overlay", "overlay", "overlay", "overlay", "replot", "error_then_clean", "pd_then_matching",
                           "matchings", "landscapes", "landscapes", "shared_arrays", "subplots", "subplots"])
        steps = []
        if kind == "subplots":
            # a loop over the panels of one figure: each call is given another axes of the same figure
            t = rng.randrange(2)
            for _k in range(rng.choice([2, 3, 3, 4])):
                r = rng.random()
                st = (_pd_step(rng, force_inf=rng.random() < 0.8) if r < 0.7 else
                      _match_step(rng, rng.choice(["bn", "ws"]), True) if r < 0.85 else _land_step(rng, rng.choice(["le", "la"])))
                st["target"] = t
                steps.append(st)
                t = 1 - t if rng.random() < 0.8 else t
        elif kind == "overlay":
            # diagrams of different value ranges drawn onto the same axes, most of them with infinite deaths
            for _k in range(rng.choice([2, 2, 3])):
                steps.append(_pd_step(rng, force_inf=rng.random() < 0.8))
        elif kind == "replot":
            # the same diagrams (same objects) drawn again on the same axes with other options
            a = _pd_step(rng, force_inf=rng.random() < 0.7)
            a["dtype"] = rng.choice(["f32", "f32", "f64"])
            b = dict(a, lifetime=not a["lifetime"] if rng.random() < 0.6 else a["lifetime"],
                     legend=rng.random() < 0.6, diagonal=rng.random() < 0.7, title=rng.choice([None, "A title", "H", ""]),
                     axes=rng.choice(["other", "given", "gca"]))
            vals = [x for d in a["dgms"] for p in d for x in p if x != "inf"]
            if vals and rng.random() < 0.5:
                lo, hi = min(vals), max(vals)
                w = (hi - lo) or 1.0
                b["xy_range"] = [lo - w / 4, hi + w / 2, lo - w / 4, hi + w]
            steps = [a, b]
            if rng.random() < 0.4:
                steps.append(dict(a, axes=rng.choice(["other", "given", "gca"])))
        elif kind == "error_then_clean":
            # a rejected call (index out of range / nothing finite to derive a range from), then clean calls
            while True:
                e = _pd_step(rng, allow_error=True)
                if _plotted(e) is None or _nothing_to_plot(_plotted(e)[0], e["xy_range"]):
                    break
            steps = [_pd_step(rng, force_inf=True)] if rng.random() < 0.5 else []
            steps += [e, _pd_step(rng, force_inf=rng.random() < 0.7), _pd_step(rng, force_inf=rng.random() < 0.7)]
        elif kind == "pd_then_matching":
            m = _match_step(rng, rng.choice(["bn", "ws"]), True)
            a = _pd_step(rng, force_inf=rng.random() < 0.6)
            if rng.random() < 0.5 and m["d1"] and m["dtype"] in ("f64", "f32"):
                # the diagram plotted first is one of the two that get matched (same object)
                a = dict(a, dgms=[[list(p) for p in m["d1"]]], dtype=m["dtype"], plot_only=None, labels=None, alias=None,
                         single=rng.random() < 0.5, xy_range=None)
                a.pop("int_arrays", None)
            steps = [a, m]
            if rng.random() < 0.4:
                steps.append(_pd_step(rng, force_inf=True))
        elif kind == "matchings":
            # both matchings of the same two diagrams (same objects), on the same axes or on fresh ones
            sh = rng.random() < 0.6
            m = _match_step(rng, "bn", sh)
            m2 = dict(m, kind="ws", cls=m["cls"].replace("bn/", "ws/"), axes=rng.choice(["other", "given", "gca"]))
            steps = [m, m2] if rng.random() < 0.5 else [m2, m]
            if rng.random() < 0.4:
                steps.append(dict(_match_step(rng, rng.choice(["bn", "ws"]), sh), d1=m["d2"], dtype=m["dtype"], same_object=False))
        elif kind == "landscapes":
            for _k in range(rng.choice([2, 2, 3])):
                steps.append(_land_step(rng, rng.choice(["le", "la"])))
        else:
            # a pairwise comparison loop: fresh figures, the same array objects in every call
            m = _match_step(rng, "bn", False)
            dt = rng.choice(["f32", "f32", "f64"])
            m["dtype"] = dt if m["dtype"] in ("f64", "f32") else m["dtype"]
            steps = []
            if m["d1"] and m["d2"] and m["dtype"] in ("f64", "f32"):
                a = _pd_step(rng)
                a = dict(a, dgms=[[list(p) for p in m["d1"]], [list(p) for p in m["d2"]]], dtype=m["dtype"], plot_only=None,
                         labels=None, alias=None, single=False, xy_range=None, shared=False, lifetime=rng.random() < 0.7)
                a.pop("int_arrays", None)
                steps.append(a)
            steps += [m, dict(m, kind="ws", cls=m["cls"].replace("bn/", "ws/"))]
            if rng.random() < 0.5:
                steps.append(dict(m, d1=m["d2"], d2=m["d1"], same_object=False))
        hs.append(history.make(kind, steps))
    return hs


def generate(rng, tier):
    mult = 1 if tier == "quick" else 20
    cases = []
    for _ in range(120 * mult):
        cases.append(_gen_pd(rng))
    for _ in range(45 * mult):
        cases.append(_gen_match(rng, "bn"))
    for _ in range(45 * mult):
        cases.append(_gen_match(rng, "ws"))
    for _ in range(12 * mult):
        cases.append(_gen_land(rng, "le"))
    for _ in range(12 * mult):
        cases.append(_gen_land(rng, "la"))
    for _ in range(1 if tier == "quick" else 4):
        cases.append({"kind": "l3", "cls": "l3", "dgm": [[0.0, 2.0], [1.0, 4.0]], "approx": bool(rng.random() < 0.5)})
    return cases + _histories(rng, 40 if tier == "quick" else 700)


def search_generate(rng, n):
    out = []
    while len(out) < n:
        out += generate(rng, "quick")
    return out[:n]


def _corpus_files():
    import json
    d = core.VERIF / "corpus" / PID
    out = []
    if d.is_dir():
        for p in sorted(d.glob("*.json")):
            c = json.loads(p.read_text())
            out += c if isinstance(c, list) else [c]
    return out


def corpus():
    base = {"kind": "pd", "plot_only": None, "title": None, "xy_range": None, "labels": None, "diagonal": True,
            "lifetime": False, "legend": True, "single": False, "axes": "other"}
    m = lambda **kw: dict(base, **kw)
    return [
        # witness of matching_axes_legacy_refuted: a dgm2 point matched to the diagonal, other axes current
        {"kind": "bn", "d1": [[0.0, 1.0]], "d2": [[0.0, 1.0], [4.0, 6.0]], "labels": ["dgm1", "dgm2"], "axes": "other"},
        {"kind": "ws", "d1": [[0.0, 1.0]], "d2": [[0.0, 1.0], [4.0, 6.0]], "labels": ["dgm1", "dgm2"], "axes": "other"},
        {"kind": "bn", "d1": [[0.0, 1.0], [2.0, 5.0], [1.0, 1.5]], "d2": [[0.0, 1.25], [3.0, 4.0], [6.0, 9.0]],
         "labels": ["dgm1", "dgm2"], "axes": "other"},
        {"kind": "ws", "d1": [], "d2": [[0.0, 1.25], [3.0, 4.0]], "labels": ["dgm1", "dgm2"], "axes": "other"},
        # a row (-1, -1) draws nothing
        {"kind": "ws", "d1": [[0.0, 2.0]], "d2": [[0.0, 2.0]], "labels": ["dgm1", "dgm2"], "axes": "other",
         "matching": [[0, 0, 0.0], [-1, -1, 0.0]]},
        # the suite's literal diagrams, every option once
        m(dgms=[[[0, 1], [1, 1], [2, 4], [3, 5]]], single=True),
        m(dgms=[[[0, 1], [1, 1], [2, 4], [3, 5]], [[0.5, 3], [2, 4], [4, 5], [10, 15]]]),
        m(dgms=[[[0, 1], [1, 1], [2, 4], [3, 5]], [[0.5, 3], [2, 4], [4, 5], [10, 15]]], plot_only=[1]),
        m(dgms=[[[0, 1], [1, 1], [2, 4], [3, "inf"]]], lifetime=True, legend=False, title="A title"),
        m(dgms=[[[0, 1], [1, 1], [2, 4], [3, "inf"]], [[0, "inf"]]], xy_range=[-1.0, 8.0, -2.0, 7.0], labels=["alpha", "beta"]),
        m(dgms=[[[0, 1], [1, 1], [2, 4], [3, "inf"]]], xy_range=[-1.0, 8.0, -2.0, 7.0], lifetime=True, diagonal=False),
        m(dgms=[[[2, 2]]]), m(dgms=[[]]), m(dgms=[[[1, "inf"]]], axes="gca"),
        # float32 input: the code must work on copies (same object twice in one call; two calls in a row)
        m(dgms=[[[1, 3], [2, 7]], [[1, 3], [2, 7]]], alias=[[1, 0]], dtype="f32", lifetime=True),
        m(dgms=[[[1, 3], [2, 7]]], dtype="f32", lifetime=True, second={"lifetime": True}),
        m(dgms=[[[1, 3], [2, "inf"]]], dtype="f32", second={"lifetime": False}),
        m(dgms=[[[1, 3], [2, "inf"]]], dtype="f32", single=True, lifetime=True, second={"lifetime": False}),
        # integer-dtype diagrams: the foot of (10, 11) is (10.5, 10.5), not a truncated integer
        {"kind": "bn", "d1": [[10, 11]], "d2": [[20, 23]], "labels": ["dgm1", "dgm2"], "axes": "other", "dtype": "i64"},
        {"kind": "ws", "d1": [[10, 11], [0, 3]], "d2": [[20, 21]], "labels": ["dgm1", "dgm2"], "axes": "other", "dtype": "i32"},
        # overlays: a second diagram plot of another value range on axes that already show one, both with infinite deaths
        history.make("overlay", [
            m(dgms=[[[0, 0.5], [0.125, 0.875], [0, "inf"]], [[0.25, 0.625]]], labels=["alpha", "beta"], shared=True),
            m(dgms=[[[0, 4], [1, 9], [0, "inf"]], [[2, 6.5], [3, "inf"]]], labels=["gamma", "dgmA"], shared=True)]),
        history.make("overlay", [
            m(dgms=[[[0, 4], [1, 9], [0, "inf"]]], shared=True, lifetime=True, title="A title"),
            m(dgms=[[[0, 0.5], [0.125, "inf"]]], shared=True, axes="gca", legend=False),
            m(dgms=[[[0, 0.5], [0.125, "inf"]]], shared=True, xy_range=[-1.0, 3.0, -1.0, 2.0], lifetime=True, title="H")]),
        # a diagram plot, then the matching plots of the same diagrams on the same axes
        history.make("pd_then_matching", [
            m(dgms=[[[0, 1], [2, 5], [1, "inf"]]], shared=True),
            {"kind": "bn", "d1": [[0, 1], [2, 5]], "d2": [[0, 1.25], [6, 9]], "labels": ["dgm1", "dgm2"], "axes": "other", "shared": True},
            {"kind": "ws", "d1": [[0, 1], [2, 5]], "d2": [[0, 1.25], [6, 9]], "labels": ["dgmA", "dgmB"], "axes": "gca", "shared": True}]),
        # two landscapes compared on one axes; title / labels only in the first call
        history.make("landscapes", [
            {"kind": "le", "dgm": [[0, 4], [1, 3]], "depth_range": None, "title": "A title", "labels": ["x axis", "y axis"],
             "axes": "other", "shared": True},
            {"kind": "le", "dgm": [[2, 6]], "depth_range": None, "title": None, "labels": None, "axes": "other", "shared": True}]),
    ] + _corpus_files()


# ------------------------------------------------------------------------------ implementation

def _f(x):
    return INF if x == "inf" else float(x)


def _arr(np, d, as_int=False, dtype="f64"):
    a = np.array([[_f(b), _f(e)] for b, e in d], dtype=float).reshape(-1, 2)
    if (as_int or dtype in ("i64", "i32")) and np.all(np.isfinite(a)) and np.all(a == np.round(a)):
        # integer-typed diagrams are cast by the code like any other (feet of odd birth+death are half-integers)
        return a.astype(np.int32 if dtype == "i32" else np.int64)
    if dtype == "f32":
        return a.astype(np.float32)     # the code's own working type: a missing copy would edit the caller's array
    if dtype == "list":
        return a.tolist()
    return a


def _get_arr(np, memo, d, as_int=False, dtype="f64"):
    """the caller's array for diagram ``d``; inside a history equal diagrams are THE SAME object"""
    if memo is None:
        return _arr(np, d, as_int, dtype)
    return history.intern(memo, ["arr", d, bool(as_int), dtype], lambda: _arr(np, d, as_int, dtype))


def _build_arrs(np, c, memo=None):
    """the caller's arrays of a plot_diagrams case: input dtype class, and the SAME object at several positions"""
    arrs = [_get_arr(np, memo, d, c.get("int_arrays", False), c.get("dtype", "f64")) for d in c["dgms"]]
    for k, j in c.get("alias") or []:
        arrs[k] = arrs[j]
    return arrs


def _collect_axes(ax):
    import matplotlib.collections as mc
    cols = [c for c in ax.collections if isinstance(c, mc.PathCollection)]
    lines = []
    for l in ax.lines:
        xy = l.get_xydata()
        lines.append({"xy": [[float(a), float(b)] for a, b in xy], "label": str(l.get_label()),
                      "ls": str(l.get_linestyle()), "lw": float(l.get_linewidth()),
                      "color": [round(float(v), 6) for v in __import__("matplotlib").colors.to_rgba(l.get_color())]})
    leg = ax.get_legend()
    return {
        "scatter": [{"label": str(c.get_label()), "xy": [[float(a), float(b)] for a, b in c.get_offsets()]} for c in cols],
        "lines": lines,
        "rest": (len(ax.collections) - len(cols)) + len(ax.patches) + len(ax.images) + len(ax.texts) + len(ax.tables),
        "xlim": [float(v) for v in ax.get_xlim()], "ylim": [float(v) for v in ax.get_ylim()],
        "xlabel": ax.get_xlabel(), "ylabel": ax.get_ylabel(), "title": ax.get_title(),
        "legend": None if leg is None else [t.get_text() for t in leg.get_texts()],
    }


def _wrap_limits(ax, st, idx):
    """records the arguments of the first set_xlim / set_ylim call persim itself makes on this axes during the current call"""
    for name in ("set_xlim", "set_ylim"):
        def wrap(orig, name=name):
            def w(*a, **k):
                # only calls made by persim itself (matplotlib re-enters these methods when autoscaling)
                if "persim" in sys._getframe(1).f_code.co_filename and name not in st["req"][idx]:
                    v = a[0] if len(a) == 1 else list(a)
                    st["req"][idx][name] = [float(x) for x in v]
                return orig(*a, **k)
            return w
        setattr(ax, name, wrap(getattr(ax, name)))


def _new_figure():
    import matplotlib.pyplot as plt
    fig, axes = plt.subplots(1, 2)
    st = {"fig": fig, "axes": list(axes), "req": [{}, {}], "lifetime_calls": [0, 0]}
    for idx, ax in enumerate(st["axes"]):
        _wrap_limits(ax, st, idx)
    return st


def _rest(ax):
    import matplotlib.collections as mc
    return (len([c for c in ax.collections if not isinstance(c, mc.PathCollection)]) + len(ax.patches) + len(ax.images)
            + len(ax.texts) + len(ax.tables))


def _artists(ax):
    import matplotlib.collections as mc
    return [c for c in ax.collections if isinstance(c, mc.PathCollection)], list(ax.lines)


def _one(c, arrs=None, memo=None):
    import numpy as np
    import matplotlib.pyplot as plt
    import persim
    from persim import visuals as V
    plt.rcdefaults()
    kind = c["kind"]
    if kind == "l3":
        from persim.landscapes import PersLandscapeExact, PersLandscapeApprox, plot_landscape
        dg = [_arr(np, c["dgm"])]
        L = PersLandscapeApprox(dgms=dg, hom_deg=0, num_steps=20) if c["approx"] else PersLandscapeExact(dgms=dg, hom_deg=0)
        try:
            r = plot_landscape(L, num_steps=10)
            return {"l3": type(r).__name__, "n_axes": len(getattr(r, "axes", []))}
        finally:
            plt.close("all")
    shared = bool(c.get("shared")) and memo is not None
    if shared:
        # the axes of the history: they keep whatever the earlier steps drew
        if "__fig" not in memo:
            memo["__fig"] = _new_figure()
        st = memo["__fig"]
    else:
        st = _new_figure()
    # a step of a history may address either panel of the shared figure ("target": a loop over subplots)
    t = int(c.get("target", 0)) if shared else 0
    fig, ax_given, ax_other = st["fig"], st["axes"][t], st["axes"][1 - t]
    st["req"] = [{}, {}]
    out = {}
    try:
        mode = c.get("axes", "other")
        plt.sca(ax_other if mode == "other" else ax_given)
        ax_arg = None if mode == "gca" else ax_given
        # snapshot: what is on the two axes before the call (the objects are kept alive, so identities stay unique)
        before = _artists(ax_given), _artists(ax_other), ax_given.get_legend()
        seen = {id(a) for grp in before[:2] for lst in grp for a in lst}
        before_other_legend = ax_other.get_legend()
        if shared:
            out["prev"] = {"title": ax_given.get_title(), "xlabel": ax_given.get_xlabel(), "ylabel": ax_given.get_ylabel(),
                           "n_scatter": len(before[0][0]), "n_lines": len(before[0][1]),
                           "other": {"title": ax_other.get_title(), "xlabel": ax_other.get_xlabel(),
                                     "ylabel": ax_other.get_ylabel(), "rest": _rest(ax_other)}}
        if kind == "pd":
            if arrs is None:
                arrs = _build_arrs(np, c, memo)
            po, xyr = c["plot_only"], c["xy_range"]
            if po is not None and c.get("po_kind"):
                po = tuple(po) if c["po_kind"] == "tuple" else [np.int64(i) for i in po]
            if xyr is not None and c.get("xyr_kind") == "tuple":
                xyr = tuple(xyr)
            V.plot_diagrams(arrs[0] if c["single"] else arrs, plot_only=po, title=c["title"],
                            xy_range=xyr, labels=c["labels"], diagonal=c["diagonal"],
                            lifetime=c["lifetime"], legend=c["legend"], show=False, ax=ax_arg)
            if c["lifetime"]:
                st["lifetime_calls"][t] += 1
        elif kind in ("bn", "ws"):
            d1 = _get_arr(np, memo, c["d1"], dtype=c.get("dtype", "f64"))
            d2 = _get_arr(np, memo, c["d2"], dtype=c.get("dtype", "f64"))
            if c.get("same_object"):
                d2 = d1
            if c.get("matching") is not None:
                M = np.array(c["matching"], dtype=float).reshape(-1, 3)
            elif kind == "bn":
                _, M = persim.bottleneck(d1, d2, matching=True)
            else:
                _, M = persim.wasserstein(d1, d2, matching=True)
            out["matching"] = [[int(r[0]), int(r[1]), float(r[2])] for r in np.asarray(M, dtype=float).reshape(-1, 3)]
            fn = V.bottleneck_matching if kind == "bn" else V.wasserstein_matching
            fn(d1, d2, np.asarray(M), labels=list(c["labels"]), ax=ax_arg)
        elif kind in ("le", "la"):
            from persim.landscapes import PersLandscapeExact, PersLandscapeApprox, plot_landscape_simple
            dg = [_get_arr(np, memo, c["dgm"])]
            dr = c["depth_range"]
            if kind == "le":
                L = PersLandscapeExact(dgms=dg, hom_deg=0)
                L.compute_landscape()
                out["funcs"] = [[[float(x), float(y)] for x, y in f] for f in L.critical_pairs]
            else:
                L = PersLandscapeApprox(dgms=dg, hom_deg=0, start=c["start"], stop=c["stop"], num_steps=c["num_steps"])
                L.compute_landscape()
                out["values"] = [[float(v) for v in f] for f in L.values]
                out["start"], out["stop"] = float(L.start), float(L.stop)
            r = plot_landscape_simple(L, title=c["title"], labels=c["labels"], ax=ax_arg,
                                      depth_range=(dr if dr is None else list(dr)))
            out["returns_axes"] = bool(r is ax_given)
        out["given"] = _collect_axes(ax_given)
        out["other"] = _collect_axes(ax_other)
        out["requested"] = dict(st["req"][t])
        if shared:
            (gc, gl), (oc, ol) = _artists(ax_given), _artists(ax_other)
            leg = ax_given.get_legend()
            out["prev"]["lifetime_calls"] = st["lifetime_calls"][t]
            out["new"] = {"scatter": [k for k, a in enumerate(gc) if id(a) not in seen],
                          "lines": [k for k, a in enumerate(gl) if id(a) not in seen],
                          "other_scatter": [k for k, a in enumerate(oc) if id(a) not in seen],
                          "other_lines": [k for k, a in enumerate(ol) if id(a) not in seen],
                          "legend": bool(leg is not None and leg is not before[2]),
                          "other_legend": bool(ax_other.get_legend() is not before_other_legend)}
        return out
    except Exception as e:
        res = {"error": type(e).__name__, "msg": str(e)[:200]}
        if "matching" in out:
            res["matching"] = out["matching"]
        return res
    finally:
        if not shared:
            plt.close(fig)
            plt.close("all")


def impl_call(c, memo):
    """one step of a call history (also: a single case, with an empty memo)"""
    if c["kind"] != "pd":
        return _one(c, None, memo)
    import numpy as np
    try:
        arrs = _build_arrs(np, c, memo)
    except Exception as e:
        return {"error": type(e).__name__, "msg": str(e)[:200]}
    o = _one(c, arrs, memo)
    if c.get("second") and "error" not in o:
        o["second"] = _one(_second(c), arrs, memo)
    return o


def _second(c):
    c2 = dict(c, **c["second"])
    c2.pop("second", None)
    return c2


def _run_case(c):
    """one call, or - for plot_diagrams cases with "second" - two calls in a row on the SAME array objects (each on
    its own fresh figure); the inputs a case describes are the caller's ORIGINAL data for both calls.  A history
    (harness/history.py) runs its steps one after the other with interned arrays and, for the steps marked "shared",
    on one and the same pair of axes."""
    import matplotlib.pyplot as plt
    try:
        if history.is_hist(c):
            return history.run(c, impl_call)
        return impl_call(c, {} if c.get("shared") else None)
    finally:
        plt.close("all")


def impl_run(cases):
    import matplotlib
    matplotlib.use("Agg")
    return [_run_case(c) for c in cases]


# ------------------------------------------------------------------------------ the spec (Python)

def _scale(vals):
    m = max([abs(v) for v in vals if v not in (INF, -INF)] + [0.0])
    return max(1.0, 2.0 * m)


def _case_values(c, o):
    vals = []
    if c["kind"] == "pd":
        vals = [_f(x) for d in c["dgms"] for p in d for x in p] + list(c["xy_range"] or [])
    elif c["kind"] in ("bn", "ws"):
        vals = [float(x) for d in (c["d1"], c["d2"]) for p in d for x in p]
    elif c["kind"] in ("le", "la"):
        vals = [float(x) for p in c["dgm"] for x in p] + [c.get("start", 0.0), c.get("stop", 0.0)]
    return vals


def _tols(c, o):
    s = _scale(_case_values(c, o))
    if c.get("dtype") == "f32":      # the caller's arrays are single precision already
        return 1e-6 * s, 1e-6 * s
    return 1e-6 * s, 1e-9 * s


def _plotted(c):
    """diagrams and legend labels the call asks for (None: the call must raise)"""
    dg = c["dgms"]
    labels = c["labels"]
    if labels is None:
        labels = ["$H_{%d}$" % i for i in range(len(dg))]
    if c["plot_only"]:
        if any(i >= len(dg) for i in c["plot_only"]):
            return None
        dg = [dg[i] for i in c["plot_only"]]
        if isinstance(labels, list):
            if any(i >= len(labels) for i in c["plot_only"]):
                return None
            labels = [labels[i] for i in c["plot_only"]]
    if not isinstance(labels, list):
        labels = [labels] * len(dg)
    return dg, labels


def _clean_other(o, mode):
    """nothing may be drawn anywhere but on the axes that was given"""
    ot = o["other"]      # never the target: in modes "given" / "gca" the given axes IS the current one
    new = o.get("new")
    if new is not None:
        # a step of a history: the other panel may hold what earlier steps drew THERE; this call must not add to it
        po = (o.get("prev") or {}).get("other") or {}
        if (new["other_lines"] or new["other_scatter"] or new["other_legend"] or ot["rest"] != po.get("rest", 0)
                or any(ot[k] != po.get(k, "") for k in ("title", "xlabel", "ylabel"))):
            return False, "axes: %d line(s), %d collection(s) drawn on another axes than the given one" % (
                len(new["other_lines"]), len(new["other_scatter"]))
        return True, ""
    if ot["lines"] or ot["scatter"] or ot["rest"] or ot["title"] or ot["xlabel"] or ot["ylabel"] or ot["legend"] is not None:
        return False, "axes: %d line(s), %d collection(s) drawn on another axes than the given one" % (
            len(ot["lines"]), len(ot["scatter"]))
    return True, ""


def _pred_diagram_scene(c, o, dg, labels, lifetime, xy_range, title, legend, tp):
    g = o["given"]
    new, prev = o.get("new"), o.get("prev") or {}
    # on axes that already held a plot: the collections THIS call added (by identity); any line on the axes may
    # serve as the infinity line
    scatter = g["scatter"] if new is None else [g["scatter"][k] for k in new["scatter"]]
    if len(scatter) != len(dg):
        return False, "collections: %d scatter collections %sfor %d plotted diagrams" % (
            len(scatter), "" if new is None else "added ", len(dg))
    has_inf = any(p[1] == "inf" for d in dg for p in d)
    (xl, xu), (yl, yu) = g["xlim"], g["ylim"]
    horiz = [l for l in g["lines"] if len(l["xy"]) == 2 and abs(l["xy"][0][1] - l["xy"][1][1]) <= tp]
    # one horizontal line at 0 per lifetime-mode call is a horizon, not an infinity line
    n_horizon = prev.get("lifetime_calls", 1 if lifetime else 0)
    for l in [l for l in horiz if abs(l["xy"][0][1]) <= tp][:n_horizon]:
        horiz = [h for h in horiz if h is not l]
    inf_levels = [l["xy"][0][1] for l in horiz if yl < l["xy"][0][1] < yu]
    for d, col, lab in zip(dg, scatter, labels):
        if col["label"] != lab:
            return False, "labels: collection labelled %r, requested %r" % (col["label"], lab)
        if len(col["xy"]) != len(d):
            return False, "offsets: %d offsets for %d points" % (len(col["xy"]), len(d))
        for (b, e), (x, y) in zip(d, col["xy"]):
            b = float(b)
            if abs(x - b) > tp:
                return False, "offsets: birth %r drawn at x=%r" % (b, x)
            if e == "inf":
                if not any(abs(y - L) <= tp for L in inf_levels):
                    return False, "infinity: infinite death drawn at y=%r, no horizontal line strictly inside ylim %r there" % (y, g["ylim"])
            else:
                want = float(e) - b if lifetime else float(e)
                if abs(y - want) > tp:
                    return False, "offsets: point (%r,%r) drawn at y=%r, expected %r" % (b, e, y, want)
                if xy_range is None and (not lifetime or float(e) >= b):
                    if not (xl - tp <= x <= xu + tp and yl - tp <= y <= yu + tp):
                        return False, "limits: point (%r,%r) outside xlim %r / ylim %r" % (x, y, g["xlim"], g["ylim"])
    if has_inf and not inf_levels:
        return False, "infinity: no horizontal infinity line strictly inside the axes"
    if xy_range is not None:
        if abs(xl - xy_range[0]) > tp or abs(xu - xy_range[1]) > tp:
            return False, "limits: xlim %r is not the requested %r" % (g["xlim"], xy_range[:2])
        if not lifetime and (abs(yl - xy_range[2]) > tp or abs(yu - xy_range[3]) > tp):
            return False, "limits: ylim %r is not the requested %r" % (g["ylim"], xy_range[2:])
    want_title = title if title is not None else prev.get("title", "")      # no title requested: an earlier one stays
    if g["title"] != want_title:
        return False, "title: %r, requested %r" % (g["title"], title)
    if dg and (g["xlabel"] != "Birth" or g["ylabel"] != ("Lifetime" if lifetime else "Death")):
        return False, "axis-labels: %r / %r" % (g["xlabel"], g["ylabel"])
    made = (g["legend"] is not None) if new is None else new["legend"]      # a legend (re)built by this call
    if made != bool(legend):
        return False, "legend: %s=%r, requested %r" % ("present" if new is None else "created by this call", made, legend)
    if legend:
        want = sorted([l for l in labels if not l.startswith("_")] + (["$\\infty$"] if has_inf else []))
        if new is None:
            if sorted(g["legend"]) != want:
                return False, "legend: entries %r, expected %r" % (sorted(g["legend"]), want)
        else:
            have = list(g["legend"] or [])
            for w in want:          # the entries of earlier calls on these axes may be listed as well
                if w not in have:
                    return False, "legend: entries %r do not list %r of this call" % (sorted(g["legend"] or []), want)
                have.remove(w)
    return True, ""


def _foot(p):
    m = (p[0] + p[1]) / 2.0
    return [m, m]


def _seg_close(a, b, ts):
    def pc(p, q):
        return abs(p[0] - q[0]) <= ts and abs(p[1] - q[1]) <= ts
    return len(a) == 2 and ((pc(a[0], b[0]) and pc(a[1], b[1])) or (pc(a[0], b[1]) and pc(a[1], b[0])))


def _nothing_to_plot(dgs, xy_range):
    return xy_range is None and not any(x != "inf" for d in dgs for p in d for x in p)


def _pred_pd(c, o, tp, mode):
    if c.get("dtype") == "list" and "error" in o:
        return True, ""          # diagrams are documented as ndarrays; nested lists may be rejected (any exception)
    pl = _plotted(c)
    if pl is None:
        ok = o.get("error") == "IndexError"
        return ok, "" if ok else "error: plot_only index out of range, got %r" % (o.get("error"),)
    dg, labels = pl
    if "error" in o:
        if _nothing_to_plot(dg, c["xy_range"]) and o["error"] == "ValueError":
            return True, ""
        return False, "error: unexpected %s: %s" % (o["error"], o.get("msg"))
    ok, why = _pred_diagram_scene(c, o, dg, labels, c["lifetime"], c["xy_range"], c["title"], c["legend"], tp)
    if not ok:
        return ok, why
    return _clean_other(o, mode)


def _new_lines(o):
    """the lines a call added to the given axes (all of them on fresh axes)"""
    g = o["given"]
    return list(g["lines"]) if o.get("new") is None else [g["lines"][k] for k in o["new"]["lines"]]


def predicate(c, o):
    if history.is_hist(c):
        return history.predicate(c, o, predicate)
    kind = c["kind"]
    if kind == "l3":
        if "error" in o or o.get("l3") != "Figure":
            return False, "landscape3d: did not return a figure: %r" % (o,)
        return True, ""
    tp, ts = _tols(c, o)
    mode = c.get("axes", "other")
    if kind == "pd":
        ok, why = _pred_pd(c, o, tp, mode)
        if ok and c.get("second") and "error" not in o:
            ok2, why2 = _pred_pd(_second(c), o.get("second") or {"error": "missing", "msg": "no second scene"}, tp, mode)
            if not ok2:
                return False, "second-call " + why2
        return ok, why
    if kind in ("bn", "ws"):
        d1, d2 = c["d1"], c["d2"]
        if "error" in o:
            if _nothing_to_plot([d1, d2], None) and o["error"] == "ValueError":
                return True, ""
            return False, "error: unexpected %s: %s" % (o["error"], o.get("msg"))
        ok, why = _pred_diagram_scene(c, o, [d1, d2], list(c["labels"]), False, None, None, True, tp)
        if not ok:
            return ok, why
        want = []            # (segment, cost)
        dummy = []           # rows that refer to the point (0,0) the distance functions pad an empty diagram with
        for i, j, cost in o["matching"]:
            if i >= len(d1) or j >= len(d2):
                dummy.append((d1[i] if 0 <= i < len(d1) else d2[j] if 0 <= j < len(d2) else None, cost))
                continue
            if i >= 0 and j >= 0:
                want.append(([d1[i], d2[j]], cost))
            elif i >= 0:
                want.append(([d1[i], _foot(d1[i])], cost))
            elif j >= 0:
                want.append(([d2[j], _foot(d2[j])], cost))
        lines = _new_lines(o)
        used = [False] * len(lines)
        styles = []
        for seg, cost in want:
            hit = None
            for k, l in enumerate(lines):
                if not used[k] and _seg_close(l["xy"], [[float(v) for v in p] for p in seg], ts):
                    hit = k
                    break
            if hit is None:
                okc, whyc = _clean_other(o, mode)
                if not okc:
                    return False, whyc
                return False, "segment: no line on the given axes joins %r" % (seg,)
            used[hit] = True
            styles.append((cost, (lines[hit]["ls"], lines[hit]["lw"], tuple(lines[hit]["color"]))))
        pending = []
        for p, cost in dummy:
            # not a matched pair of the given diagrams: whatever is drawn for it must start at the real point
            # (if any) and end on the diagonal
            for k, l in enumerate(lines):
                xy = l["xy"]
                if used[k] or len(xy) != 2:
                    continue
                ok_line = False
                for a, b in ((xy[0], xy[1]), (xy[1], xy[0])):      # a = real end (if any), b = end on the diagonal
                    if abs(b[0] - b[1]) > ts:
                        continue
                    if p is None:
                        ok_line = ok_line or (abs(a[0] - b[0]) <= ts and abs(a[1] - b[1]) <= ts)
                    else:
                        ok_line = ok_line or (abs(a[0] - p[0]) <= ts and abs(a[1] - p[1]) <= ts)
                if ok_line:
                    used[k] = True
                    pending.append((cost, (l["ls"], l["lw"], tuple(l["color"]))))
                    break
        extra = len(lines) - sum(used)
        if extra != 1:      # the diagonal of plot_diagrams
            return False, "segment: %d lines besides the %d matching segments (expected the diagonal only)" % (extra, len(want))
        if kind == "bn":
            drawn = styles + pending
            top = max(r[2] for r in o["matching"])
            top_styles = [st for cost, st in drawn if cost >= top]
            rest_styles = {st for cost, st in drawn if cost < top}
            # the bottleneck pair (a row of maximal cost) is marked: its style is not shared by any cheaper pair
            if top_styles and rest_styles and all(st in rest_styles for st in top_styles):
                return False, "marked: no max-cost segment is styled differently from the cheaper ones"
        return _clean_other(o, mode)
    if kind in ("le", "la"):
        if "error" in o:
            return False, "error: unexpected %s: %s" % (o["error"], o.get("msg"))
        if kind == "le":
            funcs = o["funcs"]
        else:
            funcs = []
            for v in o["values"]:
                n = len(v)
                funcs.append([[o["start"] + (o["stop"] - o["start"]) * k / max(1, n - 1), v[k]] for k in range(n)])
        dr = c["depth_range"] or list(range(len(funcs)))
        want = [(k, f) for k, f in enumerate(funcs) if k in dr]
        g = o["given"]
        prev = o.get("prev") or {}
        drawn = _new_lines(o)
        if len(drawn) != len(want):
            return False, "polylines: %d lines for %d selected depths" % (len(drawn), len(want))
        for (k, f), l in zip(want, drawn):
            if len(f) != len(l["xy"]) or any(abs(p[0] - q[0]) > ts or abs(p[1] - q[1]) > ts for p, q in zip(f, l["xy"])):
                return False, "polylines: depth %d drawn through %r, landscape is %r" % (k, l["xy"][:4], f[:4])
        if g["title"] != (c["title"] or prev.get("title", "")):      # nothing requested: what an earlier call set stays
            return False, "title: %r, requested %r" % (g["title"], c["title"])
        wl = c["labels"] or [prev.get("xlabel", ""), prev.get("ylabel", "")]
        if g["xlabel"] != wl[0] or g["ylabel"] != wl[1]:
            return False, "axis-labels: %r / %r, requested %r" % (g["xlabel"], g["ylabel"], wl)
        return _clean_other(o, mode)
    return False, "unknown kind"


def nontrivial(c, o):
    if history.is_hist(c):
        return history.nontrivial(c, o, nontrivial)
    if "error" in o:
        return True
    k = c["kind"]
    if k == "pd":
        sc = o["given"]["scatter"]
        if o.get("new") is not None:
            sc = [sc[i] for i in o["new"]["scatter"]]
        pts = {(x, y) for col in sc for x, y in col["xy"]}
        return len(pts) >= 2 or any(p[1] == "inf" for d in c["dgms"] for p in d)
    if k in ("bn", "ws"):
        return any(i != -1 or j != -1 for i, j, _ in o.get("matching", []))
    if k in ("le", "la"):
        return len(_new_lines(o)) >= 1
    return True


def finding_of(c, o, detail):
    return None


# ------------------------------------------------------------------------------ the model (Coq)

HEADER = """From Coq Require Import QArith List Bool ZArith.
From Persim Require Import Model.SceneM Corr.SceneCorr.
Import ListNotations.
Open Scope Q_scope.
"""
Q = core.coq_Q


def _strs(c):
    t = []
    def add(s):
        if isinstance(s, str) and s not in t:
            t.append(s)
    lab = c.get("labels")
    for s in (lab if isinstance(lab, list) else [lab]):
        add(s)
    add(c.get("title"))
    return t


def _nat(n):
    return "%d%%nat" % n


def _opt(x, f):
    return "None" if x is None else "(Some %s)" % f(x)


def _pt(p):
    return "(%s, %s)" % (Q(float(p[0])), Q(float(p[1])))


def _pts(ps):
    return core.coq_list([_pt(p) for p in ps])


def _label(s, table):
    m = re.fullmatch(r"\$H_\{(\d+)\}\$", s)
    if m:
        return "(LDefault %s)" % _nat(int(m.group(1)))
    return "(LUser %s)" % _nat(table.index(s) if s in table else 999)


def _iline(l):
    m = re.fullmatch(r"\$\\lambda_\{(\d+)\}\$", l["label"])
    if l["label"] == "$\\infty$":
        tag = "TInf"
    elif m:
        tag = "(TDepth %s)" % _nat(int(m.group(1)))
    elif l["lw"] == 2.0 and l["ls"] == "-":
        tag = "TMax"
    else:
        tag = "TPlain"
    return "(mkIL %s %s)" % (tag, _pts(l["xy"]))


def _ires(c, o, table, land=False):
    if "error" in o:
        return {"ValueError": "IValueError", "IndexError": "IIndexError"}.get(o["error"], "IOther")
    g, ot, req = o["given"], o["other"], o.get("requested", {})
    mode = c.get("axes", "other")
    new, prev = o.get("new"), o.get("prev") or {}
    g_scatter, g_lines, g_title, g_legend = g["scatter"], g["lines"], g["title"], g["legend"] is not None
    xl = g["xlabel"]
    yl = g["ylabel"]
    if new is not None:
        # a step of a history on axes that already held a plot: the model is compared with what THIS call added
        # (artists by identity, a legend object it created, a title / axis labels it changed)
        g_scatter = [g["scatter"][k] for k in new["scatter"]]
        g_lines = [g["lines"][k] for k in new["lines"]]
        g_legend = new["legend"]
        if not c.get("title") and g_title == prev.get("title", ""):
            g_title = ""
        if land and not c.get("labels") and (xl, yl) == (prev.get("xlabel", ""), prev.get("ylabel", "")):
            xl = yl = ""
    scat = core.coq_list(["(%s, %s)" % (_label(s["label"], table), _pts(s["xy"])) for s in g_scatter])
    other_lines = ot["lines"]
    rest = ot["rest"] + len(ot["scatter"]) + (1 if ot["legend"] is not None else 0) + (1 if ot["title"] else 0)
    if new is not None:
        po = prev.get("other") or {}
        other_lines = [ot["lines"][k] for k in new["other_lines"]]
        rest = (abs(ot["rest"] - po.get("rest", 0)) + len(new["other_scatter"]) + (1 if new["other_legend"] else 0)
                + sum(1 for k in ("title", "xlabel", "ylabel") if ot[k] != po.get(k, "")))
    xlim = req.get("set_xlim", g["xlim"])
    ylim = req.get("set_ylim", g["ylim"])
    if land:
        lab = c["labels"] or []
        xlc = "None" if xl == "" else "(Some (XUser %s))" % _nat(0 if lab and xl == lab[0] else 999)
        ylc = "None" if yl == "" else "(Some (YUser %s))" % _nat(1 if lab and yl == lab[1] else 999)
    else:
        xlc = "None" if xl == "" else ("(Some Birth)" if xl == "Birth" else "(Some (XUser 999%nat))")
        ylc = "None" if yl == "" else {"Death": "(Some Death)", "Lifetime": "(Some Lifetime)"}.get(yl, "(Some (YUser 999%nat))")
    title = "None" if g_title == "" else "(Some %s)" % _nat(table.index(g_title) if g_title in table else 999)
    return "(IOk (mkI %s %s %s %s %s %s %s %s %s %s))" % (
        scat, core.coq_list([_iline(l) for l in g_lines]), core.coq_list([_iline(l) for l in other_lines]),
        _nat(rest), _pt(xlim), _pt(ylim), xlc, ylc, title, "true" if g_legend else "false")


def _coq_dgm(d):
    return core.coq_list(["(%s, %s)" % (Q(float(b)), "PInf" if e == "inf" else "Fin " + Q(float(e))) for b, e in d])


def _term(c, o):
    kind = c["kind"]
    if kind == "l3":
        return None
    tp, ts = _tols(c, o)
    tp, ts = Q(Fraction(tp)), Q(Fraction(ts))
    table = _strs(c)
    if kind == "pd":
        lab = c["labels"]
        if lab is None:
            la = "LabNone"
        elif isinstance(lab, list):
            la = "(LabList %s)" % core.coq_list([_nat(table.index(s)) for s in lab])
        else:
            la = "(LabOne %s)" % _nat(table.index(lab))
        po = _opt(c["plot_only"], lambda l: core.coq_list([_nat(i) for i in l]))
        title = "None" if c["title"] in (None, "") else "(Some %s)" % _nat(table.index(c["title"]))
        xy = _opt(c["xy_range"], lambda r: "(%s, %s, %s, %s)" % tuple(Q(float(v)) for v in r))
        b = lambda v: "true" if v else "false"
        opts = "(mkOpts %s %s %s %s %s %s %s)" % (po, title, xy, la, b(c["diagonal"]), b(c["lifetime"]), b(c["legend"]))
        return "judge_pd %s %s %s %s" % (tp, opts, core.coq_list([_coq_dgm(d) for d in c["dgms"]]), _ires(c, o, table))
    if kind in ("bn", "ws"):
        if "matching" not in o:
            return None
        rows = core.coq_list(["(%s, %s, %s)" % (core.coq_Z(i), core.coq_Z(j), Q(float(d))) for i, j, d in o["matching"]])
        return "judge_%s %s %s %s %s %s %s %s %s" % (kind, tp, ts, _nat(table.index(c["labels"][0])),
                                                    _nat(table.index(c["labels"][1])), _pts(c["d1"]), _pts(c["d2"]),
                                                    rows, _ires(c, o, table))
    if kind in ("le", "la"):
        if "error" in o:
            return None
        dr = _opt(c["depth_range"], lambda l: core.coq_list([_nat(i) for i in l]))
        title = "None" if c["title"] in (None, "") else "(Some %s)" % _nat(table.index(c["title"]))
        labs = "None" if not c["labels"] else "(Some (0%nat, 1%nat))"
        if kind == "le":
            m = "(plot_landscape_exact_simple %s %s %s %s)" % (dr, title, labs, core.coq_list([_pts(f) for f in o["funcs"]]))
        else:
            m = "(plot_landscape_approx_simple %s %s %s %s %s %s)" % (
                dr, title, labs, Q(o["start"]), Q(o["stop"]),
                core.coq_list([core.coq_list([Q(v) for v in f]) for f in o["values"]]))
        return "judge_land %s %s %s" % (ts, m, _ires(c, o, table, land=True))
    return None


CODES = {1: "scatter count / labels", 2: "scatter offsets", 3: "lines on the given axes", 4: "lines on the other axes",
         5: "xlim", 6: "ylim", 7: "axis labels", 8: "title", 9: "legend", 10: "error / success mismatch",
         11: "artists on the other axes"}


def coq_jobs(cases, outs):
    return []


def _verdict_of(t):
    t = t.replace("%nat", "").strip()
    if t == "0":
        return "agree"
    if t == "100":
        return "legacy:C20-matching-axes"
    if t in ("101", "102"):
        return "legacy:C20-wasserstein-phantom-point"
    if t.isdigit():
        return "disagree:model and drawn scene differ in %s" % CODES.get(int(t), t)
    return "disagree:model run failed (%s)" % t[:60]


def coq_judge(cases, outs, results):
    verdicts = ["skip:not-modelled (3-D plot: returns a figure)"] * len(cases)
    terms, idx = [], []
    for i, (c, o) in enumerate(zip(cases, outs)):
        if c.get("dtype") == "list" and "error" in o:
            verdicts[i] = "skip:nested-list diagrams rejected by the code"
            continue
        if history.is_hist(c):
            # every step is run through the model as well (steps on shared axes: the artists the step added)
            houts = o.get("hist") or []
            if len(houts) != len(c["seq"]):
                verdicts[i] = "disagree:history: harness error"
                continue
            steps = [(s, so, "step %d: " % k) for k, (s, so) in enumerate(zip(c["seq"], houts))
                     if not s.get("fault") and not (s.get("dtype") == "list" and "error" in so)]
        else:
            steps = [(c, o, "")]
        calls = []
        for cc, oo, tag in steps:
            calls.append((cc, oo, tag))
            if cc["kind"] == "pd" and cc.get("second") and "error" not in oo:
                calls.append((_second(cc), oo.get("second") or {"error": "missing"}, tag + "second call: "))
        try:
            ts = [(_term(cc, oo), tag) for cc, oo, tag in calls]
        except Exception as e:  # a label / title the case did not ask for, ...
            verdicts[i] = "disagree:cannot encode the drawn scene (%r)" % (e,)
            continue
        if any(t is None for t, _ in ts):
            if c.get("kind") != "l3":
                verdicts[i] = "disagree:no scene to compare (%s)" % (o.get("error"),)
            continue
        verdicts[i] = "agree"
        for t, tag in ts:
            idx.append((i, tag))
            terms.append(t)
    toks, _ = core.eval_cases(PID, HEADER, terms, chunk=12)
    for (i, tag), t in zip(idx, toks):
        v = _verdict_of(t)
        if v != "agree" and verdicts[i] == "agree":
            verdicts[i] = v if not tag else v.replace(":", ":" + tag, 1)
    return verdicts


# ------------------------------------------------------------------------------ shrinking

def shrink_candidates(c):
    if history.is_hist(c):
        yield from history.shrink(c)
        # the same history with one step made smaller
        for i, st in enumerate(c["seq"]):
            for n, st2 in enumerate(shrink_candidates(st)):
                if n >= 12:
                    break
                d = dict(c); d["seq"] = c["seq"][:i] + [st2] + c["seq"][i + 1:]; yield d
        return
    k = c["kind"]
    if k == "pd":
        for key in ("second", "alias", "po_kind", "xyr_kind"):
            if c.get(key):
                d = dict(c); d[key] = None; yield d
        if c.get("dtype", "f64") != "f64":
            d = dict(c); d["dtype"] = "f64"; yield d
        if len(c["dgms"]) > 1 and not c["plot_only"] and not isinstance(c["labels"], list) and not c.get("alias"):
            for i in range(len(c["dgms"])):
                d = dict(c); d["dgms"] = c["dgms"][:i] + c["dgms"][i + 1:]; yield d
        for i, dg in enumerate(c["dgms"]):
            if len(dg) > 1 and not c.get("alias"):
                for j in range(len(dg)):
                    d = dict(c); d["dgms"] = [list(x) for x in c["dgms"]]; d["dgms"][i] = dg[:j] + dg[j + 1:]; yield d
        for key, val in (("title", None), ("labels", None), ("xy_range", None), ("plot_only", None),
                         ("lifetime", False), ("diagonal", True), ("legend", True)):
            if c[key] != val and not (key == "plot_only" and c["single"]):
                d = dict(c); d[key] = val; yield d
    elif k in ("bn", "ws") and c.get("matching") is None:
        for key in ("d1", "d2"):
            for j in range(len(c[key])):
                d = dict(c); d[key] = c[key][:j] + c[key][j + 1:]; yield d
    elif k in ("le", "la"):
        for j in range(len(c["dgm"])):
            if len(c["dgm"]) > 1:
                d = dict(c); d["dgm"] = c["dgm"][:j] + c["dgm"][j + 1:]; d["depth_range"] = None; yield d
        for key in ("title", "labels", "depth_range"):
            if c[key] is not None:
                d = dict(c); d[key] = None; yield d
