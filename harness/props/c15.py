"""C15 - sliced Wasserstein (persim/sliced_wasserstein.py).  Model: coq/Model/SlicedM.v over Q,
parametric in the direction list; executed by vm_compute on rational directions k/2^46 that a per-run
`interval` lemma (one per M) certifies to lie within 1e-12 of (cos theta_i, sin theta_i),
theta_i = (1/2 + i/M) pi.

Tolerance rule.  The code stores each direction in float32 (unit roundoff 6e-8) and computes the
diagonal projection through a float32 cos(pi/4); every projected value <u, p> is therefore off by at
most 6e-8 (|b|+|d|), every projected diagonal point by at most 1.8e-7 (|b|+|d|); sorting and the L1
distance are 1-Lipschitz in the l1 norm of the entries, the average over directions keeps the bound:
|impl - exact| <= 2.4e-7 * S,  S = sum over both diagrams of (|b|+|d|).  The check uses
TOL = 1e-6 * S + 1e-300 (4x that bound; tighter than the design's 1e-5 relative)."""
import math
from fractions import Fraction

from .. import core, history

PID = "C15"
THEOREMS = [
    "sw_is_average_of_slices", "sw_symmetric", "sw_reorder_invariant", "sw_reorder_zero", "sw_scale_linear",
    "sw_translate_invariant", "sw_legacy_refuted", "sw_legacy_agrees_on_nonnegative",
    "sorted_matching_optimal", "sw_slice_is_1d_transport_cost", "sw_diag_neutral", "sw_triangle",
    "sw_le_twice_dominating_cost", "sw_le_2W1_partial", "sw_le_twice_W1_l1",
    "sw_le_twice_wasserstein", "sw_le_twice_any_matching_cost",
]
RULE = ("seeded generator over classes {generic, neg (negative coordinates), mixed (b+d of both signs), reorder, near, "
        "diag (diagonal points mixed in), scale (x 2^-10..2^20), empty, one_empty, single, dyadic (small dyadic grid), repaired, "
        "multi (bit-identical shared points with different multiplicities), intdtype (int32/int64 arrays, compared with float64), "
        "narrow (diagrams held as uint8/int8/uint16/int16/uint32/int32/float16/float32 arrays whose values sit in one region of the dtype's "
        "range: high = all coordinates above 0.55 max, so that b + d does not fit the dtype; low = below 0.55 min (signed) or the bottom fifth; "
        "small; full; (dtype, region) dealt from a shuffled deck of 24 combinations, 18 per quick run; shift and factor keep every coordinate inside the dtype; compared with the spec on the points and with the float64 copy), "
        "tiny (whole diagrams x 1e-8..1e-30: every persistence below any absolute threshold), farshort (|coordinates| T = 1e3..1e6 of "
        "either sign, persistence 7e-6..1e-2 of T, mostly 1-3 points against 0-2; either living at T and shifted back to the origin or "
        "living at the origin and shifted to T), layout (Fortran-ordered arrays, strided views into a larger array, read-only arrays), "
        "big (17..65 against 9..50 points, M <= 10; 2 cases in quick)} x "
        "M in {1,2,5,50,49,98,103,107} + 4 values drawn from 1..130 per run; 0-5 points per diagram; repaired = same births, same deaths, different pairing; every case also carries a third diagram, a shift (often into "
        "negative coordinates), a scale factor (2, 0.5, 3, random, 1024, 1e-9, 1e-12, 1e6), a permutation and diagonal points for the metamorphic relations; "
        "besides sw(F,G), the values sw(F,H), sw(H,G) and sw(F,G) asked once more after all other calls are compared with the averaged 1-D "
        "transport cost. One case in four passes M as a numpy integer scalar (int64/int32). Call histories (harness/history.py; 14 in quick, 210 in thorough): all steps in one process on shared "
        "ndarray objects (equal-valued diagrams are the same object, within a step and across steps), every step judged by the same spec "
        "predicate: pairwise (d(A,B), d(B,C), d(A,C), d(C,empty), d(C,B) for diagrams at different places along the diagonal, in half of them also d(B,B) with "
        "one object as both arguments), msweep (one pair "
        "under several M and back), fault (rejected or interrupted calls between clean calls on the same objects: a 3-column second argument, which "
        "raises after the first has been projected; M = 0; M given as a float equal to the integer, as numpy float64/float32, as a string, None, M + 0.5, -M; "
        "a list of lists; a call under warnings-as-errors; an object array whose last entry raises after k uses, i.e. in the middle of the loop over the "
        "directions; every second fault history is fault-first on a fresh M: the process meets its M (131..260 quick, ..400 thorough, used by no other case) "
        "for the first time in a call rejected because M came as a float), edit (the caller overwrites a shared argument in place between calls: same "
        "object, new points / rows swapped), layout (pairwise on strided views / Fortran order). Returned values are scribbled over (history.scribble). Plain cases build fresh arrays for every call. "
        "Non-trivial: both diagrams non-empty, not reorderings of each other, and the value is > 0 (a history: at least two such steps); distinct = distinct JSON input")
TRUSTED_BASE = [
    "Coq 8.16.1 kernel, vm_compute (model execution) ; no native_compute",
    "Q/Z/list development: theorems closed under the global context",
    "coq-interval for the per-run direction lemmas (cos/sin enclosures) incl. stdlib real-number axioms and "
    "primitive-float/int63 specification axioms",
    "hand-written model Model/SlicedM.v of sliced_wasserstein.py lines 27-56",
    "harness: generator, float->exact-rational printer, direction printer (same text in lemma and case files), "
    "tolerance rule TOL (module docstring), verdict parser; fault injection of the fault histories (_fault_call, _Bomb); call histories (harness/history.py): the steps of a history are "
    "judged by the Python spec predicate only, not by the Coq model",
]
ASSUMPTIONS = [
    "numpy semantics of np.dot on a float32 direction and a float64 point (float64 result), sorted(), "
    "scipy cityblock are as modelled",
    "binary32/64 rounding of the implementation is bounded by TOL = 1e-6 * sum(|b|+|d|), argued in the docstring, not proved",
    "any (n,2) ndarray of finite numbers is a legitimate diagram argument whatever its memory layout or flags (Fortran order, "
    "strided view, read-only; the pinned code accepts them all) and whatever its real dtype (8/16/32/64-bit integers, float16/32/64: the "
    "distance is a function of the points, not of the width they are stored in; with float32 projections the error stays below "
    "6e-7 * S, inside TOL), M may be a Python int or a numpy integer scalar, and a call must leave its arguments usable for later "
    "calls; a rejected or interrupted call must not influence later valid calls (the property quantifies over all calls)",
    "the bound sliced <= 2 * W1 is proved for the rational model against the real-valued Euclidean W1 of "
    "Spec/WassersteinS.v (sw_le_twice_wasserstein: directions in the closed unit disc, points on or above the "
    "diagonal; uses the stdlib classical-reals axioms); for the floating-point implementation it is monitored on "
    "every generated case (own W1 and persim.wasserstein)",
]
COQ_DEPS = ["Corr/SlicedCorr.vo"]
MS_FIXED = [1, 2, 5, 50, 49, 98, 103, 107]     # 49, 98, 103, 107: (1.5 - 0.5) / (1/M) rounds up in binary64
MS_FIXED_THOROUGH = MS_FIXED + [3, 10, 20, 196, 197, 206, 214]


def _Ms(tier):
    """The values of M of this run: the fixed ones plus random ones in 1..130 drawn from VERIF_SEED
    (needed before generate() is called, for the per-run direction lemmas)."""
    import os
    import random
    r = random.Random("C15-M-%s-%s" % (os.environ.get("VERIF_SEED", "0") or "0", tier))
    extra = r.sample(range(1, 131), 4 if tier == "quick" else 14)
    return sorted(set((MS_FIXED if tier == "quick" else MS_FIXED_THOROUGH) + extra))
DEN = 2 ** 46


# ---------------------------------------------------------------------------------- generator
def _pt(rng, kind):
    if kind == "dyadic":
        b = rng.randint(-16, 16) / 4.0
        return [b, b + rng.randint(1, 12) / 4.0]
    b = rng.choice([rng.uniform(0, 2), rng.uniform(0, 10), float(rng.randint(0, 4)), rng.uniform(0, 1) * 0.125])
    if kind == "neg":
        b -= rng.choice([5.0, 12.0, 100.0])
    elif kind == "mixed":
        b -= rng.choice([0.5, 1.0, 2.0, 5.0])
    ln = rng.choice([rng.uniform(0.05, 3), rng.uniform(0.001, 0.1), float(rng.randint(1, 3))])
    return [b, b + ln]


def _dgm(rng, n, kind, sc=1.0):
    return [[x * sc for x in _pt(rng, kind)] for _ in range(n)]


def _farshort(rng):
    """Short-lived features of a filtration whose values sit far from zero: |coordinates| ~ T in 1e3..1e6 (either
    sign), persistence rel * T with rel from 7e-6 (0.45 * persistence, the value of one point against the empty
    diagram, still exceeds the tolerance 1e-6 * 2T of that point) up to 1e-2.  Variant far: the diagrams live at
    T and the shift brings them back to the origin; variant near: they live at the origin and the shift is T."""
    T = rng.choice([1e3, 1.2e3, 1e4, 1e5, 1e6, rng.uniform(1e3, 1e6)]) * rng.choice([1, -1])
    rel = rng.choice([rng.uniform(7e-6, 1e-5), rng.uniform(7e-6, 1e-5), rng.uniform(1e-5, 1e-4), rng.uniform(1e-4, 1e-2)])
    far = rng.random() < 0.5
    w, at = abs(T) * rel, (T if far else 0.0)

    def dg(n):
        out = []
        for _ in range(n):
            b = at + rng.uniform(-20, 20) * w
            out.append([b, b + rng.uniform(0.9, 1.0) * w])
        return out
    F, G, H = dg(rng.randint(1, 3)), dg(rng.choice([0, 0, 1, 2])), dg(rng.randint(0, 2))
    if rng.random() < 0.5:
        F, G = G, F
    return F, G, H, [at + rng.uniform(-20, 20) * w], (-T if far else T)


# narrow dtypes: name -> (smallest, largest, grid) of the values generated (all exactly representable, also as float64)
NARROW = {"uint8": (0, 255, 1), "int8": (-128, 127, 1), "uint16": (0, 65535, 1), "int16": (-32768, 32767, 1),
          "uint32": (0, 2 ** 32 - 1, 1), "int32": (-2 ** 31, 2 ** 31 - 1, 1),
          "float16": (-65504, 65504, 32), "float32": (-2 ** 24, 2 ** 24, 1)}


_INTS = ["uint8", "int8", "uint16", "int16", "uint32", "int32"]
NARROW_DECK = ([(dt, r) for dt in _INTS for r in ("high", "full", "low")] +
               [("float16", "high"), ("float16", "full"), ("float16", "small"), ("float32", "full"), ("uint8", "small"), ("int16", "small")])


def _narrow(rng, combo=None):
    """Diagrams stored in a narrow dtype (8/16/32-bit integers, signed or not, float16, float32) whose values sit in a
    chosen REGION of the dtype's range: high (all coordinates > 0.55 max: b + d, and 2 b, do not fit the dtype), low
    (signed: < 0.55 min; unsigned: the bottom fifth), small (around zero), full (anywhere).  The value is a function of
    the points, so it must be that of the same points held as float64.  Shift and factor keep every translated / scaled
    coordinate inside the dtype (high / low / full: even multiples of the grid and factor 1/2).  generate() deals the
    (dtype, region) combinations from a shuffled deck (NARROW_DECK, 24 cards, 18 narrow cases in quick)."""
    dtype, region = combo or rng.choice(NARROW_DECK)
    lo, hi, g = NARROW[dtype]
    if region == "high":
        a, z = int(0.55 * hi), hi
    elif region == "low":
        a, z = (lo, int(0.55 * lo)) if lo < 0 else (0, hi // 5)
    elif region == "small":
        a, z = (lo // 5 if lo < 0 else 0), hi // 5
    else:
        a, z = lo, hi
    halve = region != "small" and not (region == "low" and lo == 0)
    if halve:
        g *= 2
    a, z = -((-a) // g), z // g          # in grid units, inside [a, z]

    def pt():
        b = rng.randint(a, z - 1)
        d = rng.randint(b + 1, z) if rng.random() < 0.7 else min(z, b + rng.randint(1, 5))
        return [float(b * g), float(d * g)]
    F = [pt() for _ in range(rng.randint(1, 4))]
    G = [pt() for _ in range(rng.choice([0, 1, 2, 3, 4]))]
    H = [pt() for _ in range(rng.randint(0, 3))]
    xs = [float(rng.randint(a, z) * g) for _ in range(rng.randint(1, 2))]
    vals = [x for X in (F, G) for p in X for x in p] + xs
    g0 = NARROW[dtype][2]
    tmin, tmax = -((min(vals) - lo) // g0) * g0, ((hi - max(vals)) // g0) * g0      # every shift in between stays in range
    shift = float(rng.choice([tmin if -tmin > tmax else tmax] * 3 + [tmin, tmax, rng.randint(int(tmin // g0), int(tmax // g0)) * g0]))
    factor = 0.5 if halve else float(rng.choice([2, 3]))
    return dtype, F, G, H, xs, shift, factor


def _case(rng, cls, Ms, combo=None):
    kind = cls if cls in ("neg", "mixed", "dyadic") else rng.choice(["pos", "pos", "mixed", "neg"])
    sc = rng.choice([2.0 ** -10, 2.0 ** -3, 2.0 ** 7, 2.0 ** 20, 1e3]) if cls == "scale" else 1.0
    if cls == "tiny":       # whole diagrams at a tiny scale: every persistence far below 1e-8 (absolute thresholds)
        sc = rng.choice([1e-8, 1e-9, 1e-10, 1e-12, 1e-15, 1e-30])
    n, m = rng.randint(1, 5), rng.randint(1, 5)
    if cls == "big":        # more points than any small buffer / block (not a multiple of a power of two)
        n, m = rng.choice([17, 33, 49, 65]), rng.choice([9, 21, 34, 50])
    F, G = _dgm(rng, n, kind, sc), _dgm(rng, m, kind, sc)
    if cls == "reorder":
        G = F[:]
        rng.shuffle(G)
    elif cls == "near":
        eps = rng.choice([1e-9, 1e-6, 1e-3])
        G = [[b + rng.uniform(-eps, eps), d + rng.uniform(-eps, eps)] for b, d in F]
        rng.shuffle(G)
    elif cls == "empty":
        F, G = [], []
    elif cls == "one_empty":
        if rng.random() < 0.5:
            F = []
        else:
            G = []
    elif cls == "single":
        F, G = F[:1], G[:1]
    elif cls == "repaired":
        # same multiset of births, same multiset of deaths, different pairing (e.g. {(0,3),(1,2)} vs {(0,2),(1,3)})
        n = rng.randint(2, 5)
        if rng.random() < 0.5:
            bs = [rng.randint(-8, 8) / 4.0 for _ in range(n)]
            ds = [max(bs) + rng.randint(1, 16) / 4.0 for _ in range(n)]
        else:
            off = rng.choice([0.0, -5.0, -20.0])
            bs = [rng.uniform(0, 2) + off for _ in range(n)]
            ds = [max(bs) + rng.uniform(0.05, 3) for _ in range(n)]
        if len(set(bs)) < 2:
            bs[0] -= 1.0
        if len(set(ds)) < 2:        # (separately: raising ds[0] of two distinct deaths could make them equal -> endless loop below)
            ds[0] += 1.0
        d2 = ds[:]
        while d2 == ds:
            rng.shuffle(d2)
        F = [[b, d] for b, d in zip(bs, ds)]
        G = [[b, d] for b, d in zip(bs, d2)]
        rng.shuffle(G)
    elif cls == "diag":
        for X in (F, G):
            for _ in range(rng.randint(1, 2)):
                x = rng.choice([0.0, 1.5, rng.uniform(-3, 3)])
                X.insert(rng.randint(0, len(X)), [x, x])
    H = _dgm(rng, rng.randint(0, 4), kind, sc)
    xs = [rng.uniform(-3, 4) * sc for _ in range(rng.randint(1, 3))]
    shift = rng.choice([10.0, -10.0, -3.0, rng.uniform(-50, 50), -1000.0]) * sc
    factor = rng.choice([2.0, 0.5, 3.0, rng.uniform(0.1, 10), 1024.0, 1e-9, 1e-12, 1e6])
    dtype, layout = "float64", "C"
    if cls == "farshort":
        F, G, H, xs, shift = _farshort(rng)
    elif cls == "layout":
        layout = rng.choice(LAYOUTS)
    if cls == "multi":
        # bit-identical shared points with DIFFERENT multiplicities in the two diagrams (SW({p,p},{p}) > 0)
        p = _pt(rng, kind)
        k1, k2 = rng.choice([(2, 1), (1, 2), (3, 1), (2, 3), (3, 2), (2, 0)])
        F = [list(p) for _ in range(k1)] + (_dgm(rng, rng.randint(0, 2), kind) if rng.random() < 0.5 else [])
        G = [list(p) for _ in range(k2)]
        if rng.random() < 0.4:          # further shared points with equal multiplicity
            q = _pt(rng, kind)
            F.append(list(q)); G.append(list(q))
        rng.shuffle(F); rng.shuffle(G)
    elif cls == "intdtype":
        # integer-dtype arrays (int32 / int64): the value must be that of the same points as float64;
        # b + d is odd for most points, so the diagonal image (b+d)/2 is not an integer
        dtype = rng.choice(["int32", "int64"])
        lo = rng.choice([0, -6, -40])
        ipt = lambda: (lambda b: [float(b), float(b + rng.choice([1, 1, 3, 2, 5]))])(rng.randint(lo, lo + 8))
        F = [ipt() for _ in range(rng.randint(1, 4))]
        G = [ipt() for _ in range(rng.randint(0, 4))]
        H = [ipt() for _ in range(rng.randint(0, 3))]
        xs = [float(rng.randint(lo, lo + 8)) for _ in range(rng.randint(1, 2))]
        shift = float(rng.choice([10, -10, -3, -1000, 7]))
        factor = float(rng.choice([2, 3, 1024]))
    elif cls == "narrow":
        dtype, F, G, H, xs, shift, factor = _narrow(rng, combo)
    perm = list(range(len(F)))
    rng.shuffle(perm)
    return {"cls": cls, "F": F, "G": G, "H": H, "M": rng.choice(Ms), "perm": perm, "shift": shift, "factor": factor,
            "diag": [[x, x] for x in xs], "diag_pos": [rng.random() for _ in xs], "dtype": dtype, "layout": layout,
            # the number of directions as a Python int or as a numpy integer scalar (an integer all the same)
            "Mas": rng.choice(["int"] * 6 + ["int64", "int32"])}


CLASSES = ["generic", "generic", "neg", "mixed", "mixed", "reorder", "near", "diag", "scale", "empty",
           "one_empty", "single", "dyadic", "dyadic", "repaired", "repaired", "multi", "multi", "intdtype", "intdtype",
           "tiny", "tiny", "farshort", "farshort", "farshort", "layout", "layout", "narrow", "narrow", "narrow"]
LAYOUTS = ["F", "view", "ro"]      # Fortran order / strided view into a larger array / read-only array


def generate(rng, tier):
    n_cases = 180 if tier == "quick" else 2670
    Ms = _Ms(tier)
    deck, cases = [], []
    for i in range(n_cases):
        cls, combo = CLASSES[i % len(CLASSES)], None
        if cls == "narrow":
            if not deck:
                deck = NARROW_DECK[:]
                rng.shuffle(deck)
            combo = deck.pop()
        cases.append(_case(rng, cls, Ms, combo))
    for i, M in enumerate(Ms):          # every M of the run on a case with a non-zero first slice
        c = _case(rng, ["generic", "mixed", "repaired"][i % 3], [M])
        cases.append(c)
    small = [M for M in Ms if M <= 10]
    cases += [_case(rng, "big", small) for _ in range(2 if tier == "quick" else 24)]
    return cases + _histories(rng, 14 if tier == "quick" else 210, Ms, tier)


FAULTS_M = ["Mfloat", "Mnpfloat", "Mfloat", "Mnpfloat32"]           # the number of directions as a float EQUAL to the integer
FAULTS = ["G3", "M0", "Mstr", "Mnone", "Mfrac", "Mneg", "list", "werr", "bomb", "bomb", "Mfloat", "Mnpfloat"]


def _histories(rng, n, Ms, tier="quick"):
    """Call histories in one process; equal-valued diagrams of different calls (and of the calls inside one step)
    are THE SAME ndarray objects.  pairwise: the loop d(A,B), d(B,C), d(A,C), d(C,empty), d(C,B) over diagrams that sit
    at different places along the diagonal (+ d(B,B): one object as both arguments); msweep: one pair under several M and back; fault: rejected / interrupted
    calls between clean calls on the same objects (kinds, see _fault_call: a 3-column second argument - the first has
    been projected already; M = 0; M a float equal to the integer, a numpy float, a string, None, M + 0.5, -M; a list
    of lists; a call under warnings-as-errors; `bomb`, an object array whose last entry raises after a few uses, i.e.
    in the middle of the loop over the directions).  Every second fault history is fault-FIRST on a FRESH M: its M
    (131..260 in quick, ..400 in thorough, not used by any other case of the run) is seen by the process for the first
    time in a call that is rejected because M came as a float.  edit: the caller overwrites a shared argument in
    place between calls (same object, new points).  layout: pairwise on strided views / Fortran-ordered arrays."""
    hs = []
    kinds = ["pairwise", "msweep", "fault", "edit", "layout", "fault", "pairwise"]
    fresh = [M for M in range(131, 261 if tier == "quick" else 401) if M not in Ms]
    rng.shuffle(fresh)
    n_fault = 0
    for i in range(n):
        kind = kinds[i % len(kinds)]
        kd = rng.choice(["pos", "mixed", "neg"])
        offs = rng.sample([0.0, 12.0, -6.0, 3.0, -40.0, 100.0], 3)
        A, B, C = [[[b + t, d + t] for b, d in _dgm(rng, rng.randint(1, 5), kd)] for t in offs]
        M = rng.choice(Ms)
        first = False
        if kind == "fault":
            n_fault += 1
            first = n_fault % 2 == 1 and bool(fresh)
            if first:
                M = fresh.pop()
        layout = rng.choice(["F", "view"]) if kind == "layout" else "C"

        def step(F, G, H, M=M):
            c = _case(rng, "generic", [M])
            perm = list(range(len(F)))
            rng.shuffle(perm)
            c.update(cls="step", F=F, G=G, H=H, perm=perm, layout=layout)
            return c

        def fault(fk, F, G, H):
            c = dict(step(F, G, H), fault=True, fk=fk)
            if fk == "G3":
                c["G3"] = [[b, d, 0.0] for b, d in G] or [[0.0, 1.0, 0.0]]
            elif fk == "M0":
                c["M"] = 0
            elif fk == "bomb":          # raises after `fuse` uses: 1 = the diagonal projection, then one per direction
                c["fuse"] = rng.choice([0, 1, 2, rng.randint(1, max(1, M - 1)), max(1, M - 1)])
                c["bomb_in"] = rng.choice(["F", "G"])
            return c
        if kind in ("pairwise", "layout"):
            steps = [step(A, B, C), step(B, C, A), step(A, C, B), step(C, [], B), step(C, B, A)]
            if rng.random() < 0.5:
                steps = steps[:3]
            if rng.random() < 0.5:      # the diagonal of the pairwise loop: ONE object as both arguments
                steps.insert(rng.randint(1, len(steps)), step(B, B, A))
        elif kind == "msweep":
            M2, M3 = rng.choice(Ms), rng.choice(Ms)
            steps = [step(A, B, C), step(A, B, C, M2), step(B, A, [], M3), step(A, B, C)]
        elif kind == "edit":
            # the caller edits a shared argument in place between calls (same object, new points / rows swapped)
            t2 = rng.choice(offs)
            A2 = [[b + t2, d + t2] for b, d in _dgm(rng, len(A), kd)]
            A3 = [list(p) for p in A2[::-1]]
            A3[0][1] += rng.choice([0.5, 2.0, 1e-3])
            steps = [step(A, B, C), dict(step(A2, B, C), edit=[A, A2]), dict(step(B, A3, C), edit=[A2, A3]), step(A3, C, B)]
        elif first:
            steps = [fault(rng.choice(FAULTS_M), A, B, C), step(A, B, C), fault(rng.choice(FAULTS), A, B, C), step(B, A, C),
                     fault("bomb", A, C, B), step(A, C, B)]
        else:
            steps = [step(A, B, C), fault("G3", A, B, C), step(A, B, C), fault("M0", A, B, C), step(B, A, C),
                     fault(rng.choice(FAULTS), A, C, B), fault(rng.choice(FAULTS_M), A, B, C), step(A, C, B)]
        hs.append(history.make(kind, steps))
    return hs


def corpus():
    # the witnesses of sw_legacy_refuted (pinned tree: 14.4 vs 1.04 after shifting by +10) live in corpus/C15/*.json
    import json
    base = {"H": [[0.0, 1.0]], "perm": [1, 0], "shift": -10.0, "factor": 2.0, "diag": [[0.25, 0.25]], "diag_pos": [0.5]}
    cs = [
        dict(base, F=[[1.0, 3.0], [2.0, 2.5]], G=[[1.5, 2.0]], M=50),
        dict(base, F=[[0.5, 1.0], [0.6, 1.1]], G=[[0.6, 1.2]], M=50),
        dict(base, F=[[0.5, 1.0]], G=[[0.5, 1.1]], M=1, perm=[0]),
    ]
    d = core.VERIF / "corpus" / PID
    if d.is_dir():
        for f in sorted(d.glob("*.json")):
            j = json.loads(f.read_text())
            cs.append({k: j[k] for k in ("F", "G", "H", "M", "perm", "shift", "factor", "diag", "diag_pos", "dtype") if k in j})
    return cs


def search_generate(rng, n):
    Ms = _Ms("quick")
    return [_case(rng, CLASSES[i % len(CLASSES)], Ms) for i in range(n)]


# ---------------------------------------------------------------------------------- implementation
def _with_diag(X, diag, pos):
    X = [list(p) for p in X]
    for p, u in zip(diag, pos):
        X.insert(int(u * (len(X) + 1)) % (len(X) + 1), list(p))
    return X


def _mk(np, X, dtype, layout):
    dt = np.dtype(dtype or "float64")
    a = np.array(X, dtype=float).reshape(-1, 2).astype(dt)
    if layout == "F":
        a = np.asfortranarray(a)
    elif layout == "view":          # rows 1,3,5,.. and columns 1,4 of a larger array filled with 777
        big = np.full((2 * len(a) + 1, 5), 777, dtype=dt)
        big[1::2, 1::3] = a
        a = big[1::2, 1::3]
    elif layout == "ro":
        a.setflags(write=False)
    return a


class _Bomb(object):
    """A number-like entry of an object array that raises once it has been used `fuse` times (pinned code: one use for
    the diagonal projection, then one per direction), i.e. a call that is interrupted in the middle of its loop."""

    def __init__(self, v, fuse):
        self.v, self.fuse, self.n = float(v), fuse, 0

    def _tick(self):
        self.n += 1
        if self.n > self.fuse:
            raise RuntimeError("injected fault after %d uses" % self.fuse)

    def __mul__(self, o):
        self._tick()
        return self.v * o
    __rmul__ = __mul__

    def __add__(self, o):
        self._tick()
        return self.v + o
    __radd__ = __add__

    def __sub__(self, o):
        self._tick()
        return self.v - o

    def __rsub__(self, o):
        self._tick()
        return o - self.v

    def __float__(self):
        self._tick()
        return self.v


def _fault_call(np, sw, c, arr):
    """A call that is expected to be rejected (or interrupted); its only role is what it leaves behind."""
    import warnings
    F, G, M = c["F"], c["G"], c["M"]
    fk = c.get("fk") or ("G3" if "G3" in c else "M0")
    Fa, Ga = arr(F), arr(G)
    if fk == "G3":
        Ga = np.array(c["G3"], dtype=float).reshape(-1, 3)
    elif fk == "Mfloat":
        M = float(M)
    elif fk == "Mnpfloat":
        M = np.float64(M)
    elif fk == "Mnpfloat32":
        M = np.float32(M)
    elif fk == "Mstr":
        M = str(M)
    elif fk == "Mnone":
        M = None
    elif fk == "Mfrac":
        M = M + 0.5
    elif fk == "Mneg":
        M = -M
    elif fk == "list":
        Fa = [list(p) for p in F]
    elif fk == "bomb":
        X = [list(p) for p in (F if c.get("bomb_in") == "F" else G)] or [[0.0, 1.0]]
        a = np.empty((len(X), 2), dtype=object)
        for i, p in enumerate(X):
            a[i, 0], a[i, 1] = p[0], p[1]
        a[-1, 1] = _Bomb(X[-1][1], int(c.get("fuse", 1)))
        if c.get("bomb_in") == "F":
            Fa = a
        else:
            Ga = a
    if fk == "werr":
        with warnings.catch_warnings():
            warnings.simplefilter("error")
            return sw(Fa, Ga, M=M)
    return sw(Fa, Ga, M=M)


def impl_call(c, memo=None):
    """The calls of one case.  memo is None: every call gets freshly built arrays; memo is a dict (histories):
    equal-valued diagrams are the same ndarray objects, within the step and across the steps of the history."""
    import numpy as np
    from persim import sliced_wasserstein
    try:
        from persim import wasserstein
    except Exception:  # pragma: no cover
        wasserstein = None

    def f(x):
        x = float(x)
        return x if x == x and abs(x) != float("inf") else repr(x)
    dtype, layout = c.get("dtype", "float64"), c.get("layout", "C")

    def sw(*a, **k):
        r = sliced_wasserstein(*a, **k)
        v = f(r)
        history.scribble(r)         # whatever came back belongs to the caller
        return v

    def arr(X):
        if memo is None:
            return _mk(np, X, dtype, layout)
        return history.intern(memo, ["arr", X, dtype, layout], lambda: _mk(np, X, dtype, layout))

    def call():
        F, G, H = c["F"], c["G"], c["H"]
        M = {"int64": np.int64, "int32": np.int32}.get(c.get("Mas"), int)(c["M"])
        if memo is not None and c.get("edit") and layout != "ro":
            # the caller overwrites one of its (shared) arrays in place: same object, new points
            old, new = c["edit"]
            a = arr(old)
            a[...] = np.array(new, dtype=float).reshape(-1, 2)
            for k in [k for k, v in memo.items() if v is a]:
                del memo[k]
            history.intern(memo, ["arr", new, dtype, layout], lambda: a)
        if c.get("fault"):
            return {"fault": _fault_call(np, sw, c, arr)}
        t, k = c["shift"], c["factor"]
        sh = lambda X: [[b + t, d + t] for b, d in X]
        scl = lambda X: [[b * k, d * k] for b, d in X]
        o = {"v": sw(arr(F), arr(G), M=M),
             "sym": sw(arr(G), arr(F), M=M),
             "perm": sw(arr(F), arr([F[i] for i in c["perm"]]), M=M),
             "dg": sw(arr(_with_diag(F, c["diag"], c["diag_pos"])),
                      arr(_with_diag(G, c["diag"][::-1], c["diag_pos"])), M=M),
             "sh": sw(arr(sh(F)), arr(sh(G)), M=M),
             "sc": sw(arr(scl(F)), arr(scl(G)), M=M),
             "FH": sw(arr(F), arr(H), M=M),
             "HG": sw(arr(H), arr(G), M=M)}
        # the first call once more, after all the others (in a history: on the same objects)
        o["v2"] = sw(arr(F), arr(G), M=M)
        if dtype != "float64":
            o["vf"] = sw(np.array(F, dtype=float).reshape(-1, 2), np.array(G, dtype=float).reshape(-1, 2), M=M)
        try:
            o["w1"] = f(wasserstein(np.array(F, dtype=float).reshape(-1, 2), np.array(G, dtype=float).reshape(-1, 2))) if wasserstein else None
        except Exception:
            o["w1"] = None
        return o
    return core.guarded(call)


def impl_run(cases):
    return [history.run(c, impl_call) if history.is_hist(c) else impl_call(c) for c in cases]


# ---------------------------------------------------------------------------------- the spec, in Python
def _S(*dgms):
    return sum(abs(x) for X in dgms for p in X for x in p)


def _tol(*dgms):
    return 1e-6 * _S(*dgms) + 1e-300


def _ot1(a, b):
    """1-D optimal transport cost between two equal-size multisets = integral of |F_a - F_b| (CDF form)."""
    ev = sorted([(x, 1) for x in a] + [(x, -1) for x in b])
    tot, h, prev = 0.0, 0, None
    for x, s in ev:
        if prev is not None:
            tot += abs(h) * (x - prev)
        h += s
        prev = x
    return tot


def _spec(F, G, M):
    parts = []
    for i in range(M):
        th = (0.5 + i / M) * math.pi
        c, s = math.cos(th), math.sin(th)
        pr = lambda p: c * p[0] + s * p[1]
        dg = lambda p: c * ((p[0] + p[1]) / 2) + s * ((p[0] + p[1]) / 2)
        V1 = [pr(p) for p in F] + [dg(p) for p in G]
        V2 = [pr(p) for p in G] + [dg(p) for p in F]
        parts.append(_ot1(V1, V2))
    return math.fsum(parts) / M


def _w1(F, G):
    import numpy as np
    from scipy.optimize import linear_sum_assignment
    n, m = len(F), len(G)
    if n + m == 0:
        return 0.0
    C = np.zeros((n + m, n + m))
    for i, (b, d) in enumerate(F):
        for j, (x, y) in enumerate(G):
            C[i, j] = math.hypot(b - x, d - y)
        C[i, m:] = abs(d - b) / math.sqrt(2)
    for j, (x, y) in enumerate(G):
        C[n:, j] = abs(y - x) / math.sqrt(2)
    r, cidx = linear_sum_assignment(C)
    return float(C[r, cidx].sum())


def _num(x):
    return isinstance(x, (int, float)) and x == x and abs(x) != float("inf")


def predicate(c, o):
    if history.is_hist(c):
        return history.predicate(c, o, predicate)
    if "error" in o:
        return False, "exception: %s" % o
    F, G, H, M = c["F"], c["G"], c["H"], c["M"]
    for k in ("v", "sym", "perm", "dg", "sh", "sc", "FH", "HG") + (("v2",) if "v2" in o else ()):
        if not _num(o[k]):
            return False, "nan: value %s = %s is not a finite number" % (k, o[k])
        if o[k] < 0:
            return False, "negative: value %s = %r" % (k, o[k])
    tol = _tol(F, G)
    ref = _spec(F, G, M)
    if abs(o["v"] - ref) > tol:
        return False, "value: %r differs from the averaged 1-D transport cost %r (tolerance %.3g)" % (o["v"], ref, tol)
    # the property holds for every pair of diagrams and every call: also for (F,H), (H,G), and for (F,G) asked again
    for k, X, Y in (("FH", F, H), ("HG", H, G), ("v2", F, G)):
        if k in o:
            r = ref if k == "v2" else _spec(X, Y, M)
            if abs(o[k] - r) > _tol(X, Y):
                return False, "value: %s = %r differs from the averaged 1-D transport cost %r (tolerance %.3g)" % (k, o[k], r, _tol(X, Y))
    if "vf" in o and (not _num(o["vf"]) or abs(o["vf"] - o["v"]) > 2 * tol):
        return False, "dtype: %s arrays give %r, the same points as float64 give %r" % (c.get("dtype"), o["v"], o["vf"])
    if abs(o["sym"] - o["v"]) > 2 * tol:
        return False, "symmetry: sw(G,F) = %r, sw(F,G) = %r" % (o["sym"], o["v"])
    if o["perm"] > _tol(F, F):
        return False, "reorder: sw(F, reordered F) = %r, not 0" % o["perm"]
    t, k = c["shift"], c["factor"]
    shF, shG = [[b + t, d + t] for b, d in F], [[b + t, d + t] for b, d in G]
    if abs(o["sh"] - o["v"]) > tol + _tol(shF, shG):
        return False, "translation: sw of the diagrams shifted by %r is %r, unshifted %r" % (t, o["sh"], o["v"])
    if abs(o["sc"] - k * o["v"]) > 2 * k * tol:
        return False, "scaling: sw(%r F, %r G) = %r but %r * sw(F,G) = %r" % (k, k, o["sc"], k, k * o["v"])
    dF, dG = _with_diag(F, c["diag"], c["diag_pos"]), _with_diag(G, c["diag"][::-1], c["diag_pos"])
    if abs(o["dg"] - o["v"]) > tol + _tol(dF, dG):
        return False, "diagonal: adding diagonal points changed %r to %r" % (o["v"], o["dg"])
    if o["v"] > o["FH"] + o["HG"] + tol + _tol(F, H) + _tol(H, G):
        return False, "triangle: d(F,G) = %r > d(F,H) + d(H,G) = %r + %r" % (o["v"], o["FH"], o["HG"])
    w = _w1(F, G)
    if o["v"] > 2 * w * (1 + 1e-9) + tol:
        return False, "w1bound: sw = %r exceeds 2 * W1 = %r" % (o["v"], 2 * w)
    if _num(o.get("w1")) and o["v"] > 2 * o["w1"] * (1 + 1e-6) + tol:
        return False, "w1bound: sw = %r exceeds 2 * persim.wasserstein = %r" % (o["v"], 2 * o["w1"])
    return True, ""


def nontrivial(c, o):
    if history.is_hist(c):
        return history.nontrivial(c, o, nontrivial)
    if not c["F"] or not c["G"] or "error" in o:
        return False
    return sorted(map(tuple, c["F"])) != sorted(map(tuple, c["G"])) and _num(o.get("v")) and o["v"] > 0


# ---------------------------------------------------------------------------------- the model, inside Coq
def _dirs(M):
    out = []
    for i in range(M):
        th = (0.5 + i / M) * math.pi
        # truncated towards 0 (error < 2^-46 = 1.4e-14), so that cos^2 + sin^2 <= 1 holds for the rationals
        out.append((Fraction(math.trunc(math.cos(th) * DEN), DEN), Fraction(math.trunc(math.sin(th) * DEN), DEN)))
    return out


def _coq_dirs(M):
    return core.coq_list(["(%s, %s)" % (core.coq_Q(c), core.coq_Q(s)) for c, s in _dirs(M)])


def _defs(Ms):
    return "\n".join("Definition D%d : list dir := %s." % (M, _coq_dirs(M)) for M in Ms)


HEADER = """From Coq Require Import QArith Qabs List.
From Persim Require Import Model.SlicedM Corr.SlicedCorr.
Import ListNotations.
Open Scope Q_scope.
"""
HEADER_DIRS = """From Coq Require Import QArith List Reals.
From Interval Require Import Tactic.
From Persim Require Import Model.SlicedM Corr.SlicedCorr.
Import ListNotations.
"""

_state = {"dirs_ok": {}}


SLICE = 16


def _prove_dirs(Ms):
    """Kernel-checked lemmas per M: every rational direction is within 1e-12 of (cos, sin)(theta_i) (interval;
    stated on consecutive slices of <= 16 directions, `dirs_ok_from start M slice`, printed from the same list
    as D_M, so that the slices compile in parallel) and D_M lies in the closed unit disc (vm_compute; premise
    of sw_le_2W1_partial)."""
    Ms = [M for M in Ms if M not in _state["dirs_ok"]]
    if not Ms:
        return []
    jobs, owner = [], {}
    for M in Ms:
        ds = ["(%s, %s)" % (core.coq_Q(c), core.coq_Q(s_)) for c, s_ in _dirs(M)]
        for k in range(0, M, SLICE):
            name = "dirs_%d_%d" % (M, k)
            body = HEADER_DIRS + "Lemma %s_ok : dirs_ok_from %d %d %s.\nProof. dirs_case. Qed.\n" % (
                name, k, M, core.coq_list(ds[k:k + SLICE]))
            if k == 0:
                body += _defs([M]) + ("\nLemma dirs_%d_disc : forall u, In u D%d -> Persim.Proofs.SlicedP.in_disc u.\n"
                                      "Proof. disc_case. Qed.\n" % (M, M))
            jobs.append((name, body))
            owner[name] = M
    res = core.run_coq_jobs(PID + "_dirs", jobs, timeout=600)
    probs = []
    for M in Ms:
        _state["dirs_ok"][M] = True
    for name, M in owner.items():
        if not res[name].ok:
            _state["dirs_ok"][M] = False
            probs.append("direction lemma %s failed: %s" % (name, (res[name].err or "")[-300:]))
    return probs


def extra_obligations(tier):
    Ms = _Ms(tier)
    probs = _prove_dirs(Ms)
    return {"obligations": len(Ms), "discharged": sum(1 for M in Ms if _state["dirs_ok"].get(M)), "problems": probs,
            "Ms": Ms, "direction_lemmas": ["dirs_%d_<start>_ok (slices of %d) / dirs_%d_disc" % (M, SLICE, M) for M in Ms]}


def _coq_dgm(X):
    return "(" + core.coq_list(["(%s, %s)" % (core.coq_Q(float(b)), core.coq_Q(float(d))) for b, d in X]) + " : list pt)"


def coq_jobs(cases, outs):
    return []


def coq_judge(cases, outs, results):
    verdicts = ["disagree:not-expressible (nan/inf or exception where the model returns a number)"] * len(cases)
    terms, idx = [], []
    Ms = sorted({c["M"] for c in cases if not history.is_hist(c)})
    _prove_dirs(Ms)      # replayed cases may carry an M that is not among this run's
    for i, (c, o) in enumerate(zip(cases, outs)):
        if history.is_hist(c):
            verdicts[i] = "skip:history (every step is judged by the spec predicate)"
            continue
        if "error" in o or not _num(o.get("v")):
            continue
        if not _state["dirs_ok"].get(c["M"]):
            verdicts[i] = "disagree:direction lemma for M=%d not proved" % c["M"]
            continue
        idx.append(i)
        terms.append("sw_check D%d %s %s %s %s" % (c["M"], _coq_dgm(c["F"]), _coq_dgm(c["G"]),
                                                  core.coq_Q(float(o["v"])), core.coq_Q(Fraction(_tol(c["F"], c["G"])))))
    toks, _ = core.eval_cases(PID, HEADER + _defs(Ms) + "\n", terms, chunk=25)
    for i, t in zip(idx, toks):
        if t == "Agree":
            verdicts[i] = "agree"
        elif t == "Legacy":
            verdicts[i] = "legacy:C15-sliced-sign"
        elif t == "Disagree":
            verdicts[i] = "disagree:|model - impl| > 1e-6 * sum(|b|+|d|) for both the intended and the legacy model"
        else:
            verdicts[i] = "disagree:model evaluation failed (%s)" % t
    return verdicts


def shrink_candidates(c):
    if history.is_hist(c):
        yield from history.shrink(c)
        return
    for key in ("F", "G", "H"):
        X = c[key]
        for j in range(len(X)):
            d = dict(c)
            d[key] = X[:j] + X[j + 1:]
            if key == "F":
                d["perm"] = list(range(len(d["F"])))[::-1]
            yield d
    if len(c["diag"]) > 1:
        d = dict(c); d["diag"] = c["diag"][:1]; d["diag_pos"] = c["diag_pos"][:1]; yield d
    for M in (1, 2, 5):
        if M < c["M"]:
            d = dict(c); d["M"] = M; yield d
