"""C03 - the exact persistence landscape equals the k-th-largest-tent definition.

Model: coq/Model/SweepM.v (line-by-line model over Q of PersLandscapeExact.compute_landscape,
``sweep true`` = pinned code with the repeated-bar shortcut, ``sweep false`` = shortcut-free, plus the
hom_deg / trailing-infinite-bar glue ``exact_landscape``).  Theorems: coq/Properties/C03.v.
Tie: every generated diagram is run through the implementation (critical_pairs as exact rationals)
and through the model inside Coq (vm_compute, Corr/SweepCorr.v: check_case, which also compares the
guarded hook trace with the model's shortcut_trace; agree_verdict_certifies_output proves that a
VAgree answer certifies the output); independently the DEFINITION (k-th largest tent) is evaluated in
exact integer arithmetic on the implementation's output at a set of abscissae that determines both
piecewise-linear functions completely (predicate), and once more inside Coq with land / pl_eval
(Corr/SweepCorr.v: spec_twin); the two spec evaluations must agree with each other.
Beyond single eager constructions the generator exercises (i) object usages: an object built with compute=False
and put through partial accesses first (one depth, a slice, a norm) must afterwards hold the COMPLETE landscape, and
every depth handed out on the way must be the definition's; (ii) call histories in one process on shared argument
objects (harness/history.py): the same list of diagrams passed to several constructors, diagrams that differ below
print precision, calls that raise half-way followed by clean ones; (iii) interrupted computations: the sweep over a
well-formed diagram is stopped half-way by an exception (out of a progress message of compute_landscape(verbose=True), or at
an arbitrary line), the caller catches it and goes on using the same object.  Usage cases go through the Coq model like any
other case (their final critical_pairs); history steps are judged by the spec predicate only.
Known finding C03-dup-shortcut: attributed only if the hook trace says the shortcut fired AND the
output equals the Legacy model (finding_of).
"""
import json
import math
from fractions import Fraction

from .. import core, history

PID = "C03"
THEOREMS = [
    "pl_eval_is_linear_interpolation", "pl_eval_zero_outside",
    "sweep_correct", "sweep_correct_every_real_t", "sweep_is_kth_largest_tent_at_every_real_t",
    "landscape_value_is_determined", "exact_landscape_correct_every_real_t",
    "real_reading_extends_rational", "sweep_depths_beyond_zero", "pass_spec", "exact_landscape_correct",
    "sweep_order_independent", "sweep_shortcut_agrees", "sweep_legacy_correct_when_shortcut_silent",
    "sweep_legacy_correct_when_shortcut_silent_every_real_t",
    "sweep_legacy_total", "exact_landscape_never_out_of_fuel", "hook_trace_empty_iff_shortcut_silent",
    "agree_verdict_certifies_output",
    "sweep_legacy_refuted", "sweep_legacy_refuted_no_input_repeats", "empty_diagram_legacy_refuted",
    "hom_deg_selects", "hom_deg_out_of_range", "trailing_inf_removed", "empty_diagram_no_depths",
]
RULE = ("exact family: bars with integer / half-integer endpoints (scaled by 2^k, k in -40..30, translated), "
        "1-8 bars, classes {single, nested, overlapping, disjoint, touching, equal_births, equal_deaths, repeated, "
        "collision (bars the sweep itself creates collide with input bars), random, scale, trailing_inf, homdeg, "
        "homdeg_oob, empty, repr (int array / nested list input), translated (offsets 2^20..2^30, 1e6, 1e7, 1e9), "
        "tinygap (gaps / overlaps of 0..2 between bars at coordinates 1e6..1e9)}, input order shuffled with probability 1/2 "
        "(thorough: 9-12 bars in 15% of the cases, plus every multiset of <= 3 integer bars in [0,6]); "
        "tolerance family 'offgrid': random doubles with ties made by copying coordinates, compared within "
        "2^-46 x largest magnitude; "
        "object usages ('usage', 130 quick / 5000 thorough, any of the classes above): the object is built with "
        "compute=False (80%) or eagerly and then put through 1-4 calls, the first of which usually asks for a PART of the "
        "landscape (compute_landscape_by_depth(k), P[k], P[a:b]; else compute_landscape, -P, 2*P, P+P, sup_norm, p_norm); "
        "in 30% of the usages the sequence starts with 1-2 INTERRUPTED computations (and may contain another one later): "
        "'interrupt_print' = compute_landscape(verbose=True) while builtins.print raises on its N-th call (N in 1..3n+2 for "
        "n bars; KeyboardInterrupt / BrokenPipeError / RuntimeError), 'interrupt_line' = compute_landscape() while a "
        "sys.settrace hook raises at the N-th line executed inside compute_landscape (N in 1..55n); the exception is caught, "
        "the object (built with compute=False in 90% of these) is used again; an N beyond the end lets the call complete; "
        "in 30% of them N counts from the END of an uninterrupted run (last 1-3 messages / 1-10 lines, the run length "
        "measured on another lazily built object on the same diagram objects); "
        "calls that raise are recorded and not judged; judged are the critical_pairs / max_depth read off the object "
        "AFTER the calls and a final compute_landscape() (complete landscape, all depths) and every depth a call handed out "
        "on the way; "
        "call histories in one process on SHARED argument objects (harness/history.py; 32 quick / 650 thorough, 3-9 steps, "
        "every step judged by the same predicate): 'reuse' one list of 2-3 diagrams (ndarray / list / tuple rows) handed to "
        "several constructors, every degree in turn, lazily and eagerly, the first degree again at the end, optionally an "
        "out-of-range degree in between; 'near' a diagram, then copies that differ in ONE coordinate of one (middle) row by "
        "2^-40..2^-24 (relative to 64) or by 1/2, 1, then the first one again, also as two degrees of one list; "
        "'fault' a construction that raises half-way through the sweep (a row with three entries) or at once "
        "(degree out of range) between clean calls on the same objects; 'interrupt' a lazily built object on a well-formed "
        "diagram whose sweep is interrupted (as above) and which is then used again, followed by eager / lazy / again "
        "interrupted constructions on THE SAME diagram objects and on a two-degree list that contains them (usage steps of "
        "the other kinds start with an interruption with probability 0.15); 'default_arg' 3-4 lazily built objects on different "
        "diagrams one after the other, then the first diagram eagerly; history steps are drawn only from diagrams on which "
        "the repeated-bar shortcut (open finding C03-dup-shortcut) is silent, so a failing step is never attributed to it; "
        "non-trivial = the selected diagram has >= 2 finite bars of which at least two have intersecting supports "
        "and the property predicate passes (a history: at least two such steps); distinct = distinct JSON input")
TRUSTED_BASE = [
    "Coq 8.16.1 kernel, vm_compute (no native_compute)",
    "Q/nat/list development, closed under the global context (no axioms); the six real-t theorems "
    "(sweep_correct_every_real_t, sweep_is_kth_largest_tent_at_every_real_t, exact_landscape_correct_every_real_t, "
    "sweep_legacy_correct_when_shortcut_silent_every_real_t, landscape_value_is_determined, "
    "real_reading_extends_rational) use the stdlib "
    "axioms of the classical reals ClassicalDedekindReals.sig_forall_dec and "
    "FunctionalExtensionality.functional_extensionality_dep",
    "hand-written model Model/SweepM.v of exact.py lines 124-125 and 257-364",
    "harness: generator, float -> exact rational printer, exception -> outcome mapping, verdict parser; "
    "the interruption injector (_interrupted: builtins.print replaced / sys.settrace line hook, both restored afterwards); "
    "call histories (harness/history.py) are judged by the spec predicate only (no model run); the generation-time filter "
    "'shortcut silent' of history steps uses the Python transliteration reference_sweep of Model/SweepM.v",
]
ASSUMPTIONS = [
    "inputs of the exact family are dyadic rationals on which every float operation of the sweep ((b+d)/2, "
    "(d-b)/2, comparisons) is exact in binary64, so implementation and Q model are compared exactly; for the "
    "off-grid family binary64 rounding of (b+d)/2 and (d-b)/2 is bounded by the stated tolerance, not proved",
    "numpy semantics of list(array), sorted with key [b,-d], list == list on numpy scalars as modelled",
    "an infinite bar that is not the last row of the diagram is outside the property (the code keeps it)",
    "the landscape of a lazily built object (compute=False) is what critical_pairs holds after compute_landscape() has "
    "been called on it; P[k], P[a:b] and compute_landscape_by_depth(k) hand out the critical points of the 0-based depth "
    "k, i.e. of the definition's (k+1)-th largest tent; whether such a call raises (compute_landscape_by_depth raises "
    "TypeError on a not-yet-computed object in the pinned code) is not part of the property",
    "an exception that escapes compute_landscape (injected through builtins.print or a sys.settrace hook) and is caught by "
    "the caller leaves an object whose landscape is still what compute_landscape() yields when called again; what the "
    "interrupted call itself returned or printed is not judged",
]
COQ_DEPS = ["Corr/SweepCorr.vo", "Proofs/SweepCorrP.vo"]
FID_DUP = "C03-dup-shortcut"
FID_EMPTY = "C03-empty-diagram"

# ------------------------------------------------------------------------------------ thorough tier: coqchk

def extra_obligations(tier):
    """thorough tier: re-check the compiled property file and everything it depends on with the standalone
    checker coqchk; the only axioms it may report are the allow-listed ones of the standard library."""
    if tier != "thorough":
        return {"obligations": 0, "discharged": 0, "problems": []}
    import re
    import subprocess
    try:
        r = subprocess.run(["timeout", "900", "coqchk", "-silent", "-o", "-R", str(core.COQ), "Persim",
                            "Persim.Properties.C03"], capture_output=True, text=True, cwd=str(core.COQ))
    except Exception as e:  # noqa
        return {"obligations": 1, "discharged": 0, "problems": ["coqchk could not be run: %r" % (e,)]}
    out = r.stdout + r.stderr
    problems = []
    if r.returncode != 0:
        problems.append("coqchk failed: " + out[-600:])
    m = re.search(r"\* Axioms:(.*?)\n\s*\n\* ", out, re.S)
    axioms = [a.strip() for a in m.group(1).split("\n") if a.strip()] if m else []
    if m is None and r.returncode == 0:
        problems.append("coqchk output not understood")
    for a in axioms:
        if a != "<none>" and not core.axiom_allowed(a.replace("Coq.Logic.", "").replace("Coq.Reals.", "")):
            problems.append("coqchk reports a non-allow-listed axiom: " + a)
    for key in ("relying on type-in-type", "relying on unsafe (co)fixpoints", "whose positivity is assumed"):
        mm = re.search(re.escape(key) + r":\s*(\S+)", out)
        if mm is None or mm.group(1) != "<none>":
            problems.append("coqchk: %s: %s" % (key, mm.group(1) if mm else "?"))
    return {"obligations": 1, "discharged": 0 if problems else 1, "problems": problems, "coqchk_axioms": axioms}


# ------------------------------------------------------------------------------------ generator


def _h(rng, lo, hi):
    """half-integer in [lo, hi]"""
    return rng.randint(2 * lo, 2 * hi) / 2.0


def _random_bars(rng, n, span=12, maxlen=9):
    out = []
    for _ in range(n):
        b = _h(rng, 0, span)
        out.append([b, b + rng.randint(1, 2 * maxlen) / 2.0])
    return out


def _class_bars(rng, cls, n):
    if cls == "single":
        return _random_bars(rng, 1)
    if cls == "nested":
        b, d = 0.0, 2.0 * n + rng.randint(2, 6)
        out = []
        for _ in range(n):
            out.append([b, d])
            b += rng.choice([0.0, 0.5, 1.0]); d -= rng.choice([0.0, 0.5, 1.0])
            if d - b < 0.5:
                break
        return out
    if cls == "overlapping":
        b, out = _h(rng, 0, 3), []
        for _ in range(n):
            ln = rng.randint(3, 10) / 2.0
            out.append([b, b + ln])
            b += rng.randint(1, int(2 * ln) - 1) / 2.0
        return out
    if cls == "disjoint":
        b, out = _h(rng, 0, 3), []
        for _ in range(n):
            ln = rng.randint(1, 6) / 2.0
            out.append([b, b + ln])
            b += ln + rng.randint(1, 4) / 2.0
        return out
    if cls == "touching":
        b, out = _h(rng, 0, 3), []
        for _ in range(n):
            ln = rng.randint(1, 6) / 2.0
            out.append([b, b + ln])
            b += ln if rng.random() < 0.7 else rng.randint(1, int(2 * ln)) / 2.0
        return out
    if cls == "equal_births":
        out = _random_bars(rng, n)
        b = out[0][0]
        for x in out[: max(2, n - rng.randint(0, 2))]:
            ln = x[1] - x[0]; x[0] = b; x[1] = b + ln
        return out
    if cls == "equal_deaths":
        out = _random_bars(rng, n)
        d = max(x[1] for x in out)
        for x in out[: max(2, n - rng.randint(0, 2))]:
            if x[0] < d:
                x[1] = d
        return out
    if cls == "repeated":
        out = _random_bars(rng, max(1, n - 2), span=6, maxlen=6)
        while len(out) < max(2, n):
            out.append(list(rng.choice(out)))
        return out
    if cls == "collision":
        out = _random_bars(rng, max(2, n - 2), span=6, maxlen=6)
        pairs = [(p, q) for p in out for q in out if p[0] <= q[0] < p[1] < q[1]]
        for _ in range(rng.randint(1, 2)):
            if pairs:
                p, q = rng.choice(pairs)
                out.append([q[0], p[1]])        # the residual bar (b', d) the sweep will create
        return out[:8]
    return _random_bars(rng, n, span=rng.choice([4, 8, 12]), maxlen=rng.choice([4, 9]))


def _offgrid_bars(rng, n):
    """random doubles (not on a dyadic grid); ties are created by COPYING coordinates, which is exact"""
    sc = rng.choice([1.0, 1.0, 1e-3, 37.5, 1e6])
    out = []
    for _ in range(n):
        b = rng.uniform(0, 10) * sc
        out.append([b, b + rng.uniform(0.01, 6) * sc])
    for _ in range(rng.randint(0, 3)):
        kind = rng.choice(["eqb", "eqd", "rep", "coll", "touch"])
        p, q = rng.choice(out), rng.choice(out)
        if kind == "eqb" and p[0] < q[1]:
            out.append([p[0], q[1]])
        elif kind == "eqd" and q[0] < p[1]:
            out.append([q[0], p[1]])
        elif kind == "rep":
            out.append(list(p))
        elif kind == "coll" and p[0] <= q[0] < p[1] < q[1]:
            out.append([q[0], p[1]])
        elif kind == "touch":
            out.append([p[1], p[1] + rng.uniform(0.01, 3) * sc])
    return out[:8]


OFFSETS = [2.0 ** 20, 2.0 ** 25, 2.0 ** 30, 1e6, 1e7, -(2.0 ** 22), 1e9]


def _tinygap_bars(rng, n):
    """coordinates of size 1e6 .. 1e9 with gaps / overlaps |b' - d| in {0, 1/2, 1, 2}: a comparison that is
    tolerant relative to the coordinate size (np.isclose, rtol) confuses Cases I/II/III here.  Still exact:
    quarter-integers below 2^32."""
    base = rng.choice([1e6, 1e7, 2.0 ** 24, 1e9, 2.0 ** 30])
    long_bars = rng.random() < 0.5
    b, out = (0.0 if long_bars and rng.random() < 0.5 else base), []
    for _ in range(n):
        ln = float(rng.choice([base, base / 2, 2 * base])) if long_bars else rng.randint(2, 16) / 2.0
        out.append([b, b + ln])
        g = rng.choice([-2.0, -1.0, -0.5, 0.0, 0.0, 0.5, 1.0, 2.0])
        b = b + ln + g
        if rng.random() < 0.25:            # a short bar around the junction as well
            out.append([b - rng.choice([0.5, 1.0, 2.0]), b + rng.choice([0.5, 1.0, 3.0])])
    for _ in range(rng.randint(0, 2)):     # near-copies: endpoints differ by 0 .. 1 from an existing bar
        p = rng.choice(out)
        q = [p[0] + rng.choice([0.0, 0.0, 0.5, -0.5, 1.0]), p[1] + rng.choice([0.0, 0.0, 0.5, -0.5, -1.0])]
        if q[0] < q[1]:
            out.append(q)
    return out[:10]


CLASSES = ["single", "nested", "overlapping", "disjoint", "touching", "equal_births", "equal_deaths",
           "repeated", "repeated", "collision", "collision", "random", "random", "random", "scale",
           "trailing_inf", "homdeg", "homdeg_oob", "empty", "repr", "offgrid", "offgrid",
           "translated", "translated", "tinygap", "tinygap"]


def _one_case(rng, cls=None, big=False):
    cls = cls or rng.choice(CLASSES)
    n = rng.randint(1, 8) if rng.random() < 0.75 else rng.randint(2, 5)
    if big and rng.random() < 0.15:
        n = rng.randint(9, 12)
    if cls == "tinygap":
        bars = _tinygap_bars(rng, min(n, 6))
        if rng.random() < 0.5:
            rng.shuffle(bars)
        return {"cls": cls, "dgms": [bars], "hom_deg": 0, "repr": "float"}
    if cls == "offgrid":
        bars = _offgrid_bars(rng, min(n, 6))
        if rng.random() < 0.3:             # large coordinates, small features (kept >= 2000 x tolerance)
            off = rng.choice([1e6, 12345678.9, 3.3e8])
            m = max(abs(v) for b, d in bars for v in (b, d))
            if min(d - b for b, d in bars) > 1e-3 * m:
                off = off * max(1.0, m / 10.0)
                bars = [[b + off, d + off] for b, d in bars]
                bars = [[b, d] for b, d in bars if d - b > 1e-9 * off]
        rng.shuffle(bars)
        if rng.random() < 0.2:
            bars.append([rng.uniform(0, 1), "inf"])
        return {"cls": cls, "dgms": [bars], "hom_deg": 0, "repr": "float", "tol": True}
    base = cls if cls in ("single", "nested", "overlapping", "disjoint", "touching", "equal_births",
                          "equal_deaths", "repeated", "collision") else rng.choice(
        ["random", "random", "repeated", "collision", "overlapping", "equal_births", "equal_deaths", "touching"])
    bars = _class_bars(rng, base, n)
    if rng.random() < 0.5:
        rng.shuffle(bars)
    if cls == "translated":
        t = rng.choice(OFFSETS)
        bars = [[b + t, d + t] for b, d in bars]
    elif cls == "scale":
        s = 2.0 ** rng.choice([-40, -30, -20, -7, -1, 1, 6, 20, 30])   # below / above np.isclose's atol 1e-8
        t = float(rng.choice([0, 0, -3, -40, 17]))
        bars = [[(b + t) * s, (d + t) * s] for b, d in bars]
    elif rng.random() < 0.15:
        t = float(rng.choice([-2, -7.5, 5, 2.0 ** 21, 1e6]))
        bars = [[b + t, d + t] for b, d in bars]
    rep = "float"
    dgms, h = [bars], 0
    if cls == "trailing_inf":
        bars.append([_h(rng, 0, 4), "inf"])
    elif cls == "homdeg":
        k = rng.randint(2, 3)
        dgms = [_random_bars(rng, rng.randint(1, 4)) for _ in range(k)]
        h = rng.randrange(k)
        dgms[h] = bars
        if rng.random() < 0.4:
            dgms[0] = dgms[0] + [[0.0, "inf"]]
    elif cls == "homdeg_oob":
        dgms = [bars] + [_random_bars(rng, 2) for _ in range(rng.randint(0, 1))]
        h = len(dgms) + rng.randint(0, 1)
    elif cls == "empty":
        dgms = [[], _random_bars(rng, 2)] if rng.random() < 0.5 else [_random_bars(rng, 2), []]
        h = 0 if not dgms[0] else 1
    elif cls == "repr":
        rep = rng.choice(["list", "tuple", "int", "float32", "float32"])
        if rep == "float32":
            # a binary32 diagram at a large offset: end points on a 1/64 .. 1/8 grid near 2^17 (exactly representable), so
            # that mid-points and intersections are NOT representable in binary32
            off = rng.choice([131072.0, 65536.0, -131072.0, 262144.0])
            q = rng.choice([64.0, 32.0, 16.0]) if abs(off) <= 131072.0 else 32.0
            bars = [[off + math.floor(b * 8) / q, off + (math.floor(b * 8) + max(1, math.ceil((d - b) * 8))) / q] for b, d in bars]
            dgms = [bars]
        if rep == "int":
            bars = [[float(math.floor(b)), float(math.floor(b) + max(1, math.ceil(d - b)))] for b, d in bars]
            dgms = [bars]
    return {"cls": cls, "dgms": dgms, "hom_deg": h, "repr": rep}


# ---- object usages: the landscape is obtained from ONE object through a sequence of calls ------------------

INTERRUPT_EXC = ["KeyboardInterrupt", "KeyboardInterrupt", "BrokenPipeError", "RuntimeError"]


def _interrupt_op(rng, n):
    """the sweep is interrupted half-way on a WELL-FORMED diagram: compute_landscape(verbose=True) with builtins.print
    replaced by a function that raises on its N-th call (a Ctrl-C / a broken pipe while progress messages scroll by; the
    pinned sweep prints about 3 messages per bar), or compute_landscape() with an exception raised at the N-th line
    executed inside compute_landscape (sys.settrace: a Ctrl-C at an arbitrary point; about 50 lines per bar).  An N
    beyond the end of the run means the call completes.  A negative N counts from the end of an uninterrupted run (measured
    at run time on another lazily built object on the same diagram objects): the last messages / closing lines."""
    n = max(1, n)
    tail = rng.random() < 0.3           # N < 0: the |N|-th event before the END of an uninterrupted run (the closing lines)
    if rng.random() < 0.6:
        return ["interrupt_print", -rng.randint(1, 3) if tail else rng.randint(1, 3 * n + 2), rng.choice(INTERRUPT_EXC)]
    return ["interrupt_line", -rng.randint(1, 10) if tail else rng.randint(1, 55 * n), rng.choice(INTERRUPT_EXC)]


def _ops(rng, n, interrupt=0.0):
    """a short sequence of calls on one PersLandscapeExact object.  The first call usually asks for a PART of
    the landscape (one depth, a slice); the later ones are the calls that rely on the stored landscape.  With
    probability `interrupt` the sequence starts with 1-2 interrupted computations (_interrupt_op) and possibly has
    another one later."""
    if interrupt and rng.random() < interrupt:
        pre = [_interrupt_op(rng, n) for _ in range(rng.choice([1, 1, 2]))]
        rest = _ops(rng, n)
        if rng.random() < 0.3:
            rest.insert(rng.randint(0, len(rest)), _interrupt_op(rng, n))
        return pre + (rest if rng.random() < 0.85 else [])

    def k():
        return rng.choice([0, 0, 1, 1, 2, rng.randint(0, max(0, n))])

    def one(partial):
        r = rng.random()
        if r < (0.35 if partial else 0.2):
            return ["by_depth", k()]
        if r < (0.55 if partial else 0.35):
            return ["getitem", k()]
        if r < (0.65 if partial else 0.45):
            a = rng.randint(0, max(0, n - 1))
            return ["slice", a, a + rng.randint(1, 3)]
        return rng.choice([["compute"], ["neg"], ["mul", 2.0], ["sup_norm"], ["p_norm", 2], ["add_self"], ["compute"]])
    return [one(True)] + [one(False) for _ in range(rng.randint(0, 3))]


USAGE_BASES = ["nested", "overlapping", "disjoint", "touching", "equal_births", "equal_deaths", "repeated", "collision",
               "random", "random", "random", "scale", "trailing_inf", "homdeg", "homdeg", "homdeg_oob", "empty",
               "repr", "repr", "offgrid", "translated", "tinygap"]


def _usage_case(rng, big=False):
    """an ordinary case plus 'lazy' (constructed with compute=False) and 'ops'; the observed landscape is the
    object's critical_pairs AFTER the calls, and every depth a call handed out on the way is observed as well"""
    c = _one_case(rng, cls=rng.choice(USAGE_BASES), big=big)
    h = c["hom_deg"]
    n = len(c["dgms"][h]) if h < len(c["dgms"]) else 2
    c["base_cls"] = c["cls"]
    c["cls"] = "usage"
    c["lazy"] = rng.random() < 0.8
    c["ops"] = _ops(rng, n, interrupt=0.3)
    if c["ops"][0][0].startswith("interrupt") and rng.random() < 0.9:
        c["lazy"] = True                  # an eagerly built object has nothing left to interrupt
    return c


# ---- call histories: several constructions / usages in ONE process on SHARED diagram objects ----------------

def _shortcut_silent(c):
    """generation-time filter for history steps: the selected diagram is in the property's domain and the
    repeated-bar shortcut of the pinned code (open finding C03-dup-shortcut) stays silent on it, so that on the
    unchanged tree every step of a history satisfies the property and any failing step is a new effect"""
    bars, exc = _selected(c)
    if exc == "IndexError":
        return True
    if exc or not bars or any(d <= b for b, d in bars):
        return False
    return not reference_sweep(bars, shortcut=True)[1]


def _silent_case(rng, classes, tries=60):
    for _ in range(tries):
        c = _one_case(rng, cls=rng.choice(classes))
        if _shortcut_silent(c) and len(_selected(c)[0] or []) >= 2:
            return c
    return {"cls": "random", "dgms": [[[0.0, 4.0], [1.0, 6.0], [2.0, 3.0]]], "hom_deg": 0, "repr": "float"}


def _as_usage(rng, c, lazy=None, interrupt=0.15):
    c = dict(c)
    h = c["hom_deg"]
    c["lazy"] = (rng.random() < 0.8) if lazy is None else lazy
    c["ops"] = _ops(rng, len(c["dgms"][h]) if h < len(c["dgms"]) else 2, interrupt=interrupt)
    if c["ops"][0][0].startswith("interrupt") and lazy is None and rng.random() < 0.9:
        c["lazy"] = True
    return c


SMALL_EXACT = ["nested", "overlapping", "touching", "equal_births", "equal_deaths", "collision", "random", "random"]


def _nudged(rng, bars):
    """a diagram that differs from `bars` in ONE coordinate of one bar (preferably a middle row) by a dyadic
    amount far below print precision (2^-40 .. 2^-24 for coordinates below 64, scaled up with the coordinates
    otherwise) or by a visible one; still exact in binary64 (every sum keeps <= 48 significant bits)"""
    out = [list(x) for x in bars]
    j = rng.randrange(len(out)) if len(out) < 3 or rng.random() < 0.3 else rng.randrange(1, len(out) - 1)
    m = max(abs(v) for r in out for v in r if v != "inf")
    unit = 2.0 ** max(0, math.ceil(math.log2(m + 1)) - 6)      # 1 for coordinates below 64
    delta = rng.choice([unit * 2.0 ** -40, unit * 2.0 ** -40, unit * 2.0 ** -33, unit * 2.0 ** -27, unit * 2.0 ** -24,
                        0.5, 1.0]) * rng.choice([1, -1])
    i = rng.randrange(2)
    if out[j][1] == "inf":
        i = 0
    out[j][i] = out[j][i] + delta
    if out[j][1] != "inf" and out[j][1] - out[j][0] <= 0:
        out[j][i] = out[j][i] - 2 * delta
    return out


def _history(rng):
    kind = rng.choice(["reuse", "reuse", "near", "near", "fault", "default_arg", "interrupt", "interrupt"])

    def plain(dgms, h, rep="float"):
        return {"cls": "step", "dgms": dgms, "hom_deg": h, "repr": rep}
    if kind == "reuse":
        # one list of diagrams (as ripser returns it) handed to several constructors: every degree in turn,
        # lazily and eagerly, the same degree again at the end -- all steps receive THE SAME list / ndarray objects
        k = rng.randint(2, 3)
        parts = [_silent_case(rng, SMALL_EXACT + ["translated", "tinygap", "scale", "trailing_inf"]) for _ in range(k)]
        dgms = [p["dgms"][p["hom_deg"]] for p in parts]
        rep = rng.choice(["float", "float", "list", "list", "tuple"])
        order = [rng.randrange(k) for _ in range(rng.randint(3, 5))]
        steps = []
        for i, h in enumerate(order + [order[0]]):
            s = plain(dgms, h, rep)
            if rng.random() < 0.6:
                s = _as_usage(rng, s)
            steps.append(s)
        if rng.random() < 0.3:
            steps.insert(rng.randint(1, len(steps) - 1), plain(dgms, k + rng.randint(0, 1), rep))   # IndexError expected
    elif kind == "near":
        # a diagram, then diagrams that differ from it in one coordinate by less than print precision (or look the
        # same in their first and last rows), then the first one again: a result remembered under a coarse key
        a = _silent_case(rng, SMALL_EXACT)
        A = a["dgms"][a["hom_deg"]]
        vs = []
        for _ in range(rng.randint(1, 3)):
            for _ in range(20):
                B = _nudged(rng, A)
                if _shortcut_silent(plain([B], 0)):
                    vs.append(B)
                    break
        steps = [plain([A], 0)]
        for B in vs:
            steps.append(plain([B], 0))
            if rng.random() < 0.5:
                steps.append(_as_usage(rng, plain([A, B], rng.randrange(2))))
        steps.append(_as_usage(rng, plain([A], 0)) if rng.random() < 0.5 else plain([A], 0))
        if vs and rng.random() < 0.5:
            steps.append(plain([vs[0], A], 0))
    elif kind == "fault":
        # a construction that raises half-way through the sweep (a row with three entries is unpacked only when
        # the sweep reaches it) or at once (degree out of range), followed by clean calls on the same objects
        a = _silent_case(rng, SMALL_EXACT + ["translated", "trailing_inf"])
        A = a["dgms"][a["hom_deg"]]
        fin = [r for r in A if r[1] != "inf"]
        bad = [list(r) for r in fin]
        j = rng.randrange(len(bad))
        bad.insert(j + 1, [bad[j][0] + 0.25, bad[j][1] + rng.choice([0.25, 3.0]), 1.0])
        rep = rng.choice(["float", "list"])
        steps = [plain([A], 0, rep) if rng.random() < 0.5 else _as_usage(rng, plain([A], 0, rep)),
                 {"cls": "step", "fault": True, "raw": bad, "dgms": [[]], "hom_deg": 0, "repr": "list",
                  "lazy": rng.random() < 0.5, "ops": [["by_depth", 0], ["getitem", 1]]},
                 _as_usage(rng, plain([A], 0, rep)),
                 plain([A], 1, rep),                                                    # IndexError expected
                 plain([A], 0, rep)]
        if rng.random() < 0.5:
            steps.append(_as_usage(rng, plain([_silent_case(rng, SMALL_EXACT)["dgms"][0]], 0)))
    elif kind == "interrupt":
        # the sweep over a WELL-FORMED diagram is interrupted half-way (an exception out of a progress message or at
        # an arbitrary line), the exception is caught and the SAME object is used again (compute_landscape(), P[k],
        # norms, arithmetic); then other objects are built from the same diagram objects, eagerly and lazily, some of
        # them interrupted as well, and a different diagram at the end.  Every landscape held or handed out after an
        # interruption must be the complete one of the definition.
        a = _silent_case(rng, SMALL_EXACT + ["translated", "trailing_inf", "tinygap"])
        A = a["dgms"][a["hom_deg"]]
        rep = rng.choice(["float", "float", "list", "tuple"])
        steps = [_as_usage(rng, plain([A], 0, rep), lazy=True, interrupt=1.0)]
        if rng.random() < 0.5:
            steps.insert(0, plain([A], 0, rep))
        steps.append(plain([A], 0, rep) if rng.random() < 0.5 else _as_usage(rng, plain([A], 0, rep), interrupt=0.0))
        for _ in range(rng.randint(1, 2)):
            steps.append(_as_usage(rng, plain([A], 0, rep), lazy=True, interrupt=1.0))
        b = _silent_case(rng, SMALL_EXACT)
        B = b["dgms"][b["hom_deg"]]
        steps.append(_as_usage(rng, plain([A, B], 1, rep), lazy=True, interrupt=0.7))
        steps.append(plain([A, B], rng.randrange(2), rep))
    else:
        # several lazily built objects one after the other (they share whatever the constructor's default
        # arguments and the class keep between instances), different diagrams
        steps = []
        for _ in range(rng.randint(3, 4)):
            a = _silent_case(rng, SMALL_EXACT + ["tinygap"])
            steps.append(_as_usage(rng, plain([a["dgms"][a["hom_deg"]]], 0), lazy=True))
        steps.append(plain(steps[0]["dgms"], 0))
    return history.make(kind, steps)


def generate(rng, tier):
    n_cases = 1500 if tier == "quick" else 60000
    cases = [_one_case(rng, big=(tier != "quick")) for _ in range(n_cases)]
    cases += [_usage_case(rng, big=(tier != "quick")) for _ in range(130 if tier == "quick" else 5000)]
    cases += [_history(rng) for _ in range(32 if tier == "quick" else 650)]
    if tier == "thorough":
        # bounded-exhaustive: every multiset of <= 3 bars on the integer grid 0..6 (in sorted order and reversed)
        grid = [[float(b), float(d)] for b in range(0, 6) for d in range(b + 1, 7)]
        import itertools
        for m in (1, 2, 3):
            for comb in itertools.combinations_with_replacement(grid, m):
                cases.append({"cls": "exhaustive", "dgms": [[list(x) for x in comb]], "hom_deg": 0, "repr": "float"})
                if m > 1:
                    cases.append({"cls": "exhaustive", "dgms": [[list(x) for x in reversed(comb)]], "hom_deg": 0, "repr": "float"})
    return cases


def search_generate(rng, n):
    return [(_usage_case(rng) if rng.random() < 0.15 else _one_case(rng)) for _ in range(n)]


def corpus():
    """Refutation witnesses of Properties/C03.v, the suite's examples, minimised failures of corpus/C03."""
    cs = [
        {"cls": "witness", "dgms": [[[1, 5], [1, 5], [3, 6]]], "hom_deg": 0, "repr": "int"},
        {"cls": "suite", "dgms": [[[1.0, 5.0], [2.0, 8.0], [3.0, 4.0], [5.0, 9.0], [6.0, 7.0]]], "hom_deg": 0, "repr": "float"},
        {"cls": "suite", "dgms": [[[0.0, 3.0], [1.0, 4.0]], [[1.0, 4.0]]], "hom_deg": 0, "repr": "float"},
        {"cls": "suite", "dgms": [[[0.5, 7.0], [3.0, 5.0], [4.125, 6.5]], [[1.0, 4.0]]], "hom_deg": 1, "repr": "float"},
        {"cls": "witness", "dgms": [[[0.0, "inf"]]], "hom_deg": 0, "repr": "float"},
        # fixed finding C03-float32-midpoints (3827d1a): critical points of a float32 diagram were rounded to binary32
        {"cls": "witness", "dgms": [[[131072.25, 131072.3125], [131072.34375, 131072.71875], [131072.625, 131072.6875],
                                     [131072.28125, 131072.46875], [131072.375, 131072.75], [131072.421875, 131072.640625]]],
         "hom_deg": 0, "repr": "float32"},
    ]
    d = core.VERIF / "corpus" / PID
    if d.is_dir():
        for p in sorted(d.glob("*.json")):
            try:
                c = json.loads(p.read_text())
                c = c.get("case", c)
                if "dgms" in c:
                    c = {k: c[k] for k in ("dgms", "hom_deg", "repr") if k in c}
                    c.setdefault("hom_deg", 0); c.setdefault("repr", "float"); c["cls"] = "witness"
                    cs.append(c)
            except Exception:
                pass
    return cs


# ------------------------------------------------------------------------------------ implementation

def _f(x):
    return float("inf") if x == "inf" else float(x)


class _Timeout(Exception):
    pass


def _alarm(signum, frame):
    raise _Timeout("compute_landscape did not return within %s s" % CASE_TIMEOUT_S)


CASE_TIMEOUT_S = 5      # the sweep on <= 9 bars takes well under a millisecond; a mutated loop may not terminate


_rt = {"n_timeouts": 0, "trace": None, "ready": False}


def _setup():
    import signal
    import sys
    from persim.landscapes import PersLandscapeExact  # noqa
    signal.signal(signal.SIGALRM, _alarm)
    mod = sys.modules["persim.landscapes.exact"]
    _rt.update(n_timeouts=0, trace=getattr(mod, "_verif_trace", None), ready=True)


def _container(rows, rep):
    import numpy as np
    if rep == "list":
        return [list(r) for r in rows]
    if rep == "tuple":
        return tuple(tuple(r) for r in rows)
    if rep == "int" and rows and all(float(v).is_integer() for r in rows for v in r):
        return np.array(rows, dtype=np.int64).reshape(-1, 2)
    if rep == "float32" and rows:
        # only when every coordinate is exactly representable in binary32 (the diagram is then the same diagram)
        a32 = np.array(rows, dtype=np.float32).reshape(-1, 2)
        if np.array_equal(a32.astype(float), np.array(rows, dtype=float).reshape(-1, 2)):
            return a32
    return np.array(rows, dtype=float).reshape(-1, 2)


def _build(c, memo):
    """the `dgms` argument.  Equal-valued diagrams (and equal-valued lists of diagrams) of different steps of one
    history are THE SAME objects (interned in memo); an ordinary case has a memo of its own."""
    rep = c.get("repr", "float")
    if c.get("raw") is not None:         # a malformed diagram, handed over as nested lists exactly as written
        return [history.intern(memo, ["raw", c["raw"]], lambda: [list(r) for r in c["raw"]])]

    def outer():
        return [history.intern(memo, ["dgm", d, rep], lambda d=d: _container([[_f(b), _f(e)] for b, e in d], rep))
                for d in c["dgms"]]
    return history.intern(memo, ["dgms", c["dgms"], rep], outer)


def _depth(d):
    return [[float(x), float(y)] for x, y in d]


_INJECTED = {"KeyboardInterrupt": KeyboardInterrupt, "BrokenPipeError": BrokenPipeError, "RuntimeError": RuntimeError}


def _interrupted(P, op, mk=None):
    """['interrupt_print', N, exc]: P.compute_landscape(verbose=True) while builtins.print is a function that prints
    nothing and raises exc on its N-th call; ['interrupt_line', N, exc]: P.compute_landscape() while a sys.settrace
    hook raises exc at the N-th line event of the frame(s) of compute_landscape in landscapes/exact.py.  The injected
    exception is caught here (as the user's try/except or the notebook would); print / the trace hook are restored."""
    import builtins
    import sys
    name, n, exc = op[0], int(op[1]), op[2]
    if n < 0:
        # the |n|-th event before the end: count the events of an uninterrupted run on a fresh lazily built object
        tr0 = _rt["trace"]
        n_tr0 = len(tr0) if tr0 is not None else 0
        total = _interrupted(mk(), [name, 10 ** 9, exc])["events"] if mk is not None else 0
        if tr0 is not None:
            del tr0[n_tr0:]             # the measuring run is not the observed one
        n = max(1, total + n + 1)
    st = {"left": n, "fired": False}

    def boom():
        st["left"] -= 1
        if st["left"] == 0:
            st["fired"] = True
            e = _INJECTED[exc]("injected by the harness: the computation is interrupted")
            e._verif_injected = True
            raise e
    rec = {}
    trace = _rt["trace"]
    n_trace = len(trace) if trace is not None else 0
    try:
        if name == "interrupt_print":
            real = builtins.print

            def quiet_print(*a, **k):
                boom()
            builtins.print = quiet_print
            try:
                P.compute_landscape(verbose=True)
            finally:
                builtins.print = real
        else:
            def local(frame, event, arg):
                if event == "line":
                    boom()
                return local

            def tracer(frame, event, arg):
                co = frame.f_code
                if co.co_name == "compute_landscape" and co.co_filename.replace("\\", "/").endswith("landscapes/exact.py"):
                    return local
                return None
            old = sys.gettrace()
            sys.settrace(tracer)
            try:
                P.compute_landscape()
            finally:
                sys.settrace(old)
    except _Timeout:
        raise
    except BaseException as e:  # noqa
        if not getattr(e, "_verif_injected", False) and not isinstance(e, Exception):
            raise                       # a real Ctrl-C / SystemExit of the harness process
        rec = {"error": type(e).__name__, "msg": str(e)[:120]}
        if trace is not None:
            del trace[n_trace:]         # hook entries of the abandoned sweep: the trace describes the sweep that is kept
    rec["interrupted"] = st["fired"]
    rec["events"] = n - st["left"]
    return rec


def _run_ops(P, ops, mk=None):
    """the calls of a usage case, in order; a call that raises is recorded and the sequence goes on.  Calls that
    hand out critical points report which depths (0-based) they claim to be."""
    res = []
    for op in ops:
        try:
            name = op[0]
            if name.startswith("interrupt"):
                res.append(_interrupted(P, op, mk))
            elif name == "by_depth":
                r = P.compute_landscape_by_depth(op[1])
                res.append({"idx": [op[1]], "ret": [_depth(r)]})
            elif name == "getitem":
                r = P[op[1]]
                res.append({"idx": [op[1]], "ret": [_depth(r)]})
            elif name == "slice":
                r = P[op[1]:op[2]]
                res.append({"idx": list(range(op[1], op[1] + len(r))), "ret": [_depth(d) for d in r]})
            else:
                if name == "compute":
                    P.compute_landscape()
                elif name == "neg":
                    -P
                elif name == "mul":
                    P * op[1]
                elif name == "sup_norm":
                    P.sup_norm()
                elif name == "p_norm":
                    P.p_norm(op[1])
                elif name == "add_self":
                    P + P
                res.append({})
        except _Timeout:
            raise
        except Exception as e:  # noqa
            res.append({"error": type(e).__name__, "msg": str(e)[:120]})
    return res


def impl_call(c, memo):
    """one case: build the argument, construct the landscape (eagerly, or lazily followed by the calls of
    c['ops'] and a final compute_landscape()), read critical_pairs / max_depth off the object"""
    import signal
    from persim.landscapes import PersLandscapeExact
    if not _rt["ready"]:
        _setup()
    trace = _rt["trace"]
    dg = _build(c, memo)
    if trace is not None:
        del trace[:]
    o = {}
    try:
        if _rt["n_timeouts"] >= 20:
            raise _Timeout("not run: 20 earlier cases of this batch did not terminate")
        signal.setitimer(signal.ITIMER_REAL, CASE_TIMEOUT_S if _rt["n_timeouts"] == 0 else 0.25)
        try:
            if "ops" in c:
                P = PersLandscapeExact(dgms=dg, hom_deg=c["hom_deg"], compute=not c.get("lazy", True))
                o["ops"] = _run_ops(P, c["ops"], mk=lambda: PersLandscapeExact(dgms=dg, hom_deg=c["hom_deg"], compute=False))
                P.compute_landscape()
            else:
                P = PersLandscapeExact(dgms=dg, hom_deg=c["hom_deg"])
        finally:
            signal.setitimer(signal.ITIMER_REAL, 0)
        cps = [[[float(x), float(y)] for x, y in depth] for depth in P.critical_pairs]
        bad = any(not math.isfinite(v) for depth in cps for p in depth for v in p)
        o.update({"cps": cps if not bad else [[[repr(x), repr(y)] for x, y in depth] for depth in cps],
                  "nonfinite": bad, "max_depth": int(P.max_depth)})
    except (Exception, _Timeout) as e:  # noqa
        _rt["n_timeouts"] += isinstance(e, _Timeout)
        o = {"error": type(e).__name__.lstrip("_"), "msg": str(e)[:200]}
    o["hook"] = trace is not None
    o["trace"] = [list(t) for t in trace] if trace is not None else None
    return o


def impl_run(cases):
    _setup()
    return [history.run(c, impl_call) if history.is_hist(c) else impl_call(c, {}) for c in cases]


# ------------------------------------------------------------------------------------ the SPEC (independent)

def _selected(c):
    """(bars as Fractions, expected-exception or None) according to the property text."""
    h = c["hom_deg"]
    if h >= len(c["dgms"]):
        return None, "IndexError"
    dg = list(c["dgms"][h])
    if dg and dg[-1][1] == "inf":
        dg = dg[:-1]
    if any(d == "inf" for _, d in dg):
        return None, "nonfinite"
    return [(Fraction(float(b)), Fraction(float(d))) for b, d in dg], None


def _kth_tents(bars_i, t):
    v = sorted((max(0, min(t - b, d - t)) for b, d in bars_i), reverse=True)
    return v


def _not_run(o):
    return o.get("error") == "Timeout" and str(o.get("msg", "")).startswith("not run")


def predicate(c, o):
    if history.is_hist(c):
        return history.predicate(c, o, predicate)
    if "ops" in c:
        return _predicate_usage(c, o)
    return _predicate_one(c, o)


def _predicate_usage(c, o):
    """the landscape read off the object after the calls must be the definition's, and so must every depth that
    a call handed out on the way (P[k], P[a:b], compute_landscape_by_depth(k); 0-based depth k = the definition's
    (k+1)-th largest tent).  Calls that raise are not judged."""
    ok, detail = _predicate_one(c, o)
    if not ok and isinstance(o.get("ops"), list):
        cut = [j for j, r in enumerate(o["ops"]) if isinstance(r, dict) and r.get("interrupted")]
        if cut:
            detail += (" [landscape held by the object after compute_landscape() was called again; call(s) %s of %s were "
                       "interrupted by an injected exception that the caller caught]" % (cut, json.dumps(c["ops"])))
    if not ok or "error" in o or _not_run(o):
        return ok, detail
    bars, exc = _selected(c)
    if exc or any(d <= b for b, d in bars):
        return True, ""
    rs = o.get("ops")
    if rs is None or len(rs) != len(c["ops"]):
        return False, "usage-harness: no record of the calls in %r" % (o,)
    for j, (op, r) in enumerate(zip(c["ops"], rs)):
        for idx, depth in zip(r.get("idx", []), r.get("ret", [])):
            if idx < 0 or (idx < len(o["cps"]) and depth == o["cps"][idx]):
                continue            # the very points of the final landscape, which has just been checked
            if any(not math.isfinite(v) for p in depth for v in p):
                return False, "usage-view: call %d %s returned non-finite critical points for depth %d" % (j, op, idx)
            cps2 = [list(d) for d in o["cps"]]
            while len(cps2) <= idx:
                cps2.append([])
            cps2[idx] = depth
            ok2, d2 = _predicate_one(c, {"cps": cps2, "max_depth": None})
            if not ok2:
                return False, ("usage-view: call %d %s on the %s object handed out, as depth %d (0-based), critical "
                               "points that are not the definition's: %s"
                               % (j, op, "lazily built" if c.get("lazy", True) else "computed", idx, d2))
    return True, ""


def _predicate_one(c, o):
    if _not_run(o):
        return True, ""        # not evaluated (circuit breaker after 20 non-terminating cases, each reported)
    bars, exc = _selected(c)
    if exc == "IndexError":
        if o.get("error") == "IndexError":
            return True, ""
        return False, "hom_deg-out-of-range: expected IndexError, got %s" % json.dumps(o)[:200]
    if exc == "nonfinite":
        return True, ""        # outside the property
    if "error" in o:
        return False, "exception: %s(%s) on a diagram with %d finite bars" % (o["error"], o.get("msg"), len(bars))
    if o.get("nonfinite"):
        return False, "nonfinite: critical pairs contain inf/nan"
    if any(d <= b for b, d in bars):
        return True, ""        # non-positive bar: outside the property
    cps = [[(Fraction(x), Fraction(y)) for x, y in depth] for depth in o["cps"]]
    # max_depth must be the number of depths held; reported only when the depths themselves are the definition's
    # (a wrong landscape is the more telling failure)
    md_ok = o.get("max_depth") is None or o["max_depth"] == len(cps)
    md_fail = (False, "max_depth: %r != number of depths %d" % (o.get("max_depth"), len(cps)))
    if c.get("tol"):
        r = _predicate_tol(bars, cps)
        return r if (not r[0] or md_ok) else md_fail
    # common denominator -> integers (x4 so that midpoints of midpoints stay integral)
    den = 1
    for b, d in bars:
        den = den * b.denominator // math.gcd(den, b.denominator)
        den = den * d.denominator // math.gcd(den, d.denominator)
    for depth in cps:
        for x, y in depth:
            den = den * x.denominator // math.gcd(den, x.denominator)
            den = den * y.denominator // math.gcd(den, y.denominator)
    S = den * 4
    bi = [(int(b * S), int(d * S)) for b, d in bars]
    ci = [[(int(x * S), int(y * S)) for x, y in depth] for depth in cps]
    for k, depth in enumerate(ci, 1):
        xs = [x for x, _ in depth]
        if any(x1 < x0 for x0, x1 in zip(xs, xs[1:])):
            return False, "order: abscissae of depth %d not ordered: %s" % (k, [float(Fraction(x, S)) for x in xs])
    # abscissae that determine both piecewise-linear functions: every breakpoint of the output, every
    # possible breakpoint of the definition (b, d, (b+d')/2), midpoints between neighbours, two outside
    ts = set()
    for depth in ci:
        ts.update(x for x, _ in depth)
    ends = set()
    for b, d in bi:
        ends.add(b); ends.add(d)
    ts.update(ends)
    ts.update((b + d) // 2 for b, _ in bi for _, d in bi)      # S is a multiple of 4: exact
    ts = sorted(ts)
    mids = [(u + v) // 2 for u, v in zip(ts, ts[1:])]
    span = (ts[-1] - ts[0] + S) if ts else S
    pts = sorted(set(ts + mids + ([ts[0] - span, ts[0] - 1, ts[-1] + 1, ts[-1] + span] if ts else [0, S])))
    n = len(bi)
    tents = {t: _kth_tents(bi, t) for t in pts}
    for k in range(1, max(n, len(ci)) + 2):
        depth = ci[k - 1] if k - 1 < len(ci) else []
        # (a) every critical point lies on the definition
        for x, y in depth:
            want = tents[x][k - 1] if k <= n else 0
            if y != want:
                return False, ("definition-mismatch: depth %d critical point (%s, %s) but k-th largest tent is %s"
                               % (k, Fraction(x, S), Fraction(y, S), Fraction(want, S)))
        # (b) linear interpolation (0 outside the critical points) equals the definition
        for t in pts:
            want = tents[t][k - 1] if k <= n else 0
            if not depth or t < depth[0][0] or t > depth[-1][0]:
                ok = (want == 0)
                got = 0
            else:
                ok, got = None, None
                for (x0, y0), (x1, y1) in zip(depth, depth[1:]):
                    if x0 <= t <= x1 and x0 < x1:
                        ok = ((want - y0) * (x1 - x0) == (y1 - y0) * (t - x0))
                        got = Fraction(y0) + Fraction((y1 - y0) * (t - x0), (x1 - x0))
                        break
                if ok is None:      # t is a (repeated) abscissa: handled by (a)
                    ok = True
            if not ok:
                return False, ("definition-mismatch: depth %d at t=%s: interpolated value %s, k-th largest tent %s"
                               % (k, Fraction(t, S), Fraction(got, S) if got is not None else None, Fraction(want, S)))
    return (True, "") if md_ok else md_fail


def _tol_of(bars):
    """absolute tolerance of the off-grid family: 2^-46 times the largest coordinate magnitude (64 ulp of slack
    for the single rounding in (b+d)/2 and (d-b)/2; the generator keeps every bar length and gap above
    2000 x this tolerance, so a wrong depth cannot hide inside it)"""
    m = max([abs(v) for b, d in bars for v in (b, d)] + [Fraction(1, 2 ** 20)])
    return m / 2 ** 46


def _predicate_tol(bars, cps):
    """the definition against the implementation's output for off-grid doubles, exact Fractions, within tol"""
    tol = _tol_of(bars)
    n = len(bars)
    for k, depth in enumerate(cps, 1):
        xs = [x for x, _ in depth]
        if any(x1 < x0 for x0, x1 in zip(xs, xs[1:])):
            return False, "order: abscissae of depth %d not ordered: %s" % (k, [float(x) for x in xs])
    ts = set(x for depth in cps for x, _ in depth)
    ts.update(v for b, d in bars for v in (b, d))
    ts.update((b + d) / 2 for b, _ in bars for _, d in bars)
    ts = sorted(ts)
    span = ts[-1] - ts[0] + 1 if ts else 1
    pts = sorted(set(ts + [(u + v) / 2 for u, v in zip(ts, ts[1:])] + ([ts[0] - span, ts[-1] + span] if ts else [Fraction(0)])))
    tents = {t: sorted((max(0, min(t - b, d - t)) for b, d in bars), reverse=True) for t in pts}
    for k in range(1, max(n, len(cps)) + 2):
        depth = cps[k - 1] if k - 1 < len(cps) else []
        for x, y in depth:
            want = tents[x][k - 1] if k <= n else 0
            if abs(y - want) > tol:
                return False, ("definition-mismatch: depth %d critical point (%s, %s) but k-th largest tent is %s (tol %.3g)"
                               % (k, float(x), float(y), float(want), float(tol)))
        for t in pts:
            want = tents[t][k - 1] if k <= n else 0
            got = 0
            if depth and depth[0][0] <= t <= depth[-1][0]:
                got = None
                for (x0, y0), (x1, y1) in zip(depth, depth[1:]):
                    if x0 <= t <= x1 and x0 < x1:
                        got = y0 + (y1 - y0) * (t - x0) / (x1 - x0)
                        break
                if got is None:
                    continue
            if abs(got - want) > 4 * tol:
                return False, ("definition-mismatch: depth %d at t=%s: interpolated value %s, k-th largest tent %s (tol %.3g)"
                               % (k, float(t), float(got), float(want), float(4 * tol)))
    return True, ""


def nontrivial(c, o):
    if history.is_hist(c):
        return history.nontrivial(c, o, nontrivial)
    bars, exc = _selected(c)
    if exc or not bars or len(bars) < 2 or "error" in o:
        return False
    return any(p is not q and max(p[0], q[0]) <= min(p[1], q[1]) for p in bars for q in bars)


# ------------------------------------------------------------------------------------ the model, run inside Coq

HEADER = """From Coq Require Import QArith List Bool.
From Persim Require Import Lib.PL Model.SweepM Corr.SweepCorr.
Import ListNotations.
Open Scope Q_scope.
"""


def _coq_dgm(dg):
    return core.coq_list(["(%s, %s)" % (core.coq_Q(Fraction(float(b))),
                                         "None" if d == "inf" else "Some " + core.coq_Q(Fraction(float(d))))
                          for b, d in dg])


def _coq_outcome(o):
    if "error" in o:
        return "ErrIndex" if o["error"] == "IndexError" else None
    if o.get("nonfinite"):
        return None
    return "Ok " + core.coq_list([core.coq_list(["(%s, %s)" % (core.coq_Q(Fraction(x)), core.coq_Q(Fraction(y)))
                                                 for x, y in depth]) for depth in o["cps"]])


_verdicts = {}       # canonical(case) -> verdict of the last Coq run


def _key(c):
    return core.default_canonical(c)


TWIN_LIMIT = 2500      # the in-Coq spec twin is evaluated on the first TWIN_LIMIT eligible cases of a run


def _terms(cases, outs):
    """(model terms, their case indices, twin terms, their case indices, early verdicts)"""
    early = {}
    terms, idx, tw_terms, tw_idx = [], [], [], []
    for i, (c, o) in enumerate(zip(cases, outs)):
        if history.is_hist(c):
            early[i] = "skip:history (every step is judged by the spec predicate)"
            continue
        oc = _coq_outcome(o)
        if _not_run(o):
            early[i] = "skip:not run (earlier cases of the batch did not terminate)"
            continue
        if oc is None:
            early[i] = "disagree:implementation outcome not expressible (%s)" % (o.get("error") or "inf/nan")
            continue
        tr = "None"
        if o.get("hook") and o.get("trace") is not None:
            if all(t and t[0] == "dup_shortcut" for t in o["trace"]):
                tr = "(Some %s)" % core.coq_list(["%d%%nat" % int(t[1]) for t in o["trace"]])
            else:
                tr = "(Some [0%nat])"       # malformed trace entry: can never equal the model's trace
        dg = core.coq_list([_coq_dgm(d) for d in c["dgms"]])
        if c.get("tol"):
            bars, exc = _selected(c)
            tol = _tol_of(bars) if bars else Fraction(1, 2 ** 40)
            terms.append("check_case_tol %s %s %d%%nat (%s) %s" % (core.coq_Q(tol), dg, c["hom_deg"], oc, tr))
        else:
            terms.append("check_case %s %d%%nat (%s) %s" % (dg, c["hom_deg"], oc, tr))
        idx.append(i)
        # the definition evaluated inside Coq (Corr/SweepCorr.v: spec_twin) on the implementation's output
        bars, exc = _selected(c)
        if (exc or "error" in o or o.get("nonfinite") or any(d <= b for b, d in bars) or c.get("tol")
                or len(tw_idx) >= TWIN_LIMIT):
            continue
        tw_terms.append("spec_twin %s (%s)" % (
            core.coq_list(["(%s, %s)" % (core.coq_Q(b), core.coq_Q(d)) for b, d in bars]), oc[3:]))
        tw_idx.append(i)
    return terms, idx, tw_terms, tw_idx, early


CHUNK, TW_CHUNK = 100, 60


def _chunks(n, size):
    return [list(range(a, min(n, a + size))) for a in range(0, n, size)]


def coq_jobs(cases, outs):
    terms, idx, tw_terms, tw_idx, _ = _terms(cases, outs)
    jobs = []
    for tag, ts, size in (("ev", terms, CHUNK), ("tw", tw_terms, TW_CHUNK)):
        for k, ch in enumerate(_chunks(len(ts), size)):
            jobs.append(("%s_%03d" % (tag, k),
                         HEADER + "\nEval vm_compute in (%s).\n" % core.coq_list(["(%s)" % ts[a] for a in ch], sep=";\n ")))
    return jobs


def _collect(results, tag, n, size):
    toks = ["ERROR"] * n
    for k, ch in enumerate(_chunks(n, size)):
        r = results.get("%s_%03d" % (tag, k))
        if r is None or not r.ok:
            if r is not None:
                core.log("[%s] coq job %s_%03d failed: %s" % (PID, tag, k, (r.err or r.out)[-600:]))
            continue
        lists = r.eval_lists()
        if len(lists) == 1 and len(lists[0]) == len(ch):
            for a, t in zip(ch, lists[0]):
                toks[a] = t
    return toks


def coq_judge(cases, outs, results):
    terms, idx, tw_terms, tw_idx, early = _terms(cases, outs)
    toks = _collect(results, "ev", len(terms), CHUNK)
    tw_toks = _collect(results, "tw", len(tw_terms), TW_CHUNK)
    twin = {i: t for i, t in zip(tw_idx, tw_toks)}
    verdicts = [early.get(i) for i in range(len(cases))]
    for i, t in zip(idx, toks):
        if t == "VAgree":
            v = "agree"
        elif t == "VLegacyDup":
            v = "legacy:" + FID_DUP
        elif t == "VLegacyEmpty":
            v = "legacy:" + FID_EMPTY
        elif t == "VDisagree":
            v = "disagree:critical_pairs differ from both the shortcut-free and the Legacy model"
        elif t == "VTraceMismatch":
            v = "disagree:hook trace %s differs from the Legacy model's shortcut_trace" % json.dumps(outs[i].get("trace"))
        else:
            v = "disagree:model run failed (%s)" % t
        if i in twin and not v.startswith("disagree"):
            try:
                okp = _predicate_one(cases[i], outs[i])[0]
            except Exception:
                okp = False
            if twin[i] not in ("true", "false"):
                v = "disagree:spec twin did not evaluate (%s)" % twin[i]
            elif (twin[i] == "true") != okp:
                v = "disagree:Coq spec twin says %s, Python predicate says %s" % (twin[i], okp)
        verdicts[i] = v
        _verdicts[_key(cases[i])] = v
    return verdicts


# ------------------------------------------------------------------------------------ known finding attribution

def reference_sweep(bars, shortcut=True):
    """Python transliteration of Model/SweepM.v (= exact.py 270-364) over Fractions.  Used only
    (a) to attribute the known finding when no Coq verdict exists for a case (search / shrink phase),
    (b) to recompute 'the shortcut fired' when the source hook is absent.  Returns (depths, fired)."""
    A = sorted([list(x) for x in bars], key=lambda x: [x[0], -x[1]])
    L, fired = [], []
    while A:
        b, d = A.pop(0)
        cur = [[b, 0], [(b + d) / 2, (d - b) / 2]]
        dup = 0
        if shortcut:
            j = 0
            while j < len(A):          # enumerate(A) while popping: index advances, list shrinks
                if A[j] == [b, d]:
                    dup += 1
                    A.pop(j)
                    j += 1
                else:
                    break
        while True:
            if all(d >= x[1] for x in A):
                cur.append([d, 0])
                L.append(cur)
                for _ in range(dup):
                    L.append(cur)
                if dup:
                    fired.append(dup)
                break
            for i, item in enumerate(A):
                if item[1] > d:
                    bp, dp = A.pop(i)
                    break
            if bp > d:
                cur.append([d, 0])
            if bp >= d:
                cur.append([bp, 0])
            else:
                cur.append([(bp + d) / 2, (d - bp) / 2])
                ind = len(A)
                for i in range(len(A)):
                    if bp <= A[i][0]:
                        ind = i
                        break
                if ind != len(A) and bp == A[ind][0]:
                    ind += sum(1 for it in A if it[0] == bp and d < it[1])
                A.insert(ind, [bp, d])
            cur.append([(bp + dp) / 2, (dp - bp) / 2])
            b, d = bp, dp
    return L, fired


def finding_of(c, o, detail):
    """A predicate failure is an instance of C03-dup-shortcut only if (i) the repeated-bar shortcut fired on
    this input (guarded hook trace; recomputed by the reference when the hook is absent) and (ii) the
    implementation's critical_pairs equal the Legacy model's.  Nothing else is ever attributed: the IndexError
    on an empty diagram (C03-empty-diagram, repaired in /repo) is a VIOLATION if it returns."""
    if history.is_hist(c):
        return None            # history steps are generated with the shortcut silent: a failing step is never the finding
    bars, exc = _selected(c)
    if exc:
        return None
    if "error" in o or o.get("nonfinite") or not detail.startswith("definition-mismatch"):
        return None
    ref, ref_fired = reference_sweep(bars, shortcut=True)
    fired = bool(o.get("trace")) if o.get("hook") else bool(ref_fired)
    if not fired:
        return None
    v = _verdicts.get(_key(c))
    if v is not None:
        legacy = (v == "legacy:" + FID_DUP)
    else:
        impl = [[[Fraction(x), Fraction(y)] for x, y in depth] for depth in o["cps"]]
        tol = _tol_of(bars) if c.get("tol") else 0
        legacy = (len(impl) == len(ref) and all(len(a) == len(b) for a, b in zip(impl, ref)) and
                  all(abs(p[0] - q[0]) <= tol and abs(p[1] - q[1]) <= tol
                      for a, b in zip(impl, ref) for p, q in zip(a, b)))
    return FID_DUP if legacy else None


def shrink_candidates(c):
    if history.is_hist(c):
        yield from history.shrink(c)
        if len(c["seq"]) == 1 and not c["seq"][0].get("fault"):
            yield c["seq"][0]           # a single failing step is not a history effect: report the step itself
        return
    if "ops" in c:
        ops = c["ops"]
        for j in range(len(ops)):
            d = dict(c); d["ops"] = ops[:j] + ops[j + 1:]; yield d
        if not ops:
            d = {k: v for k, v in c.items() if k not in ("ops", "lazy")}; yield d
    if c.get("fault") or c.get("raw") is not None:
        return
    dg = c["dgms"]
    h = c["hom_deg"]
    if len(dg) > 1:
        for i in range(len(dg)):
            if i != h:
                d = dict(c); d["dgms"] = dg[:i] + dg[i + 1:]; d["hom_deg"] = h - (1 if i < h else 0); yield d
    if h < len(dg):
        sel = dg[h]
        for j in range(len(sel)):
            d = dict(c); d["dgms"] = [list(x) for x in dg]; d["dgms"][h] = sel[:j] + sel[j + 1:]; yield d
        if c.get("repr", "float") != "float":
            d = dict(c); d["repr"] = "float"; yield d
        fin = [v for r in sel for v in r if v != "inf"]
        if fin:
            m = min(fin)
            if m != 0:
                d = dict(c); d["dgms"] = [list(x) for x in dg]
                d["dgms"][h] = [[b - m, e if e == "inf" else e - m] for b, e in sel]; yield d
            mx = max(abs(v) for v in fin)
            if mx > 64 or (0 < mx < 1):
                s = 2.0 ** (-math.floor(math.log2(mx)) + 3)
                d = dict(c); d["dgms"] = [list(x) for x in dg]
                d["dgms"][h] = [[b * s, e if e == "inf" else e * s] for b, e in sel]; yield d
