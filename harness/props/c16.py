"""C16 - persistent entropy.  Model: coq/Model/EntropyM.v (over R); per-case kernel-checked
interval certificates tie it to persim.persistent_entropy.persistent_entropy."""
import math
from fractions import Fraction

from .. import core, history

PID = "C16"
THEOREMS = [
    "entropy_is_shannon", "entropy_between_0_and_ln_n", "entropy_equal_lengths_is_ln_n",
    "entropy_reorder", "entropy_translate", "entropy_rescale", "entropy_normalised_in_unit",
    "entropy_of_list_is_vector", "entropy_inf_substituted", "entropy_inf_dropped",
    "entropy_nonpositive_bar_errors", "entropy_keep_inf_needs_value",
]
RULE = ("seeded generator over classes {single array, list of diagrams, equal lengths, infinite bars "
        "dropped / substituted, keep_inf without value, non-positive bar, scales 2^-300..2^300 (whole barcodes in tiny / huge units), integer-dtype arrays, exactly one remaining bar (valid or of non-positive length)} x flag "
        "combinations, caps of exactly 0 on barcodes born below 0; call histories in one process on shared array objects (cap sweeps over one barcode, barcodes reused "
        "across lists, rejected calls in between); a case is non-trivial when the call succeeds on a diagram with >= 2 finite bars "
        "of different lengths, or exercises an error / infinite-bar branch; distinct = distinct JSON input")
TRUSTED_BASE = [
    "Coq 8.16.1 kernel (vm_compute used by the Interval tactic's reflexive checker; no native_compute)",
    "stdlib axioms of the classical reals: ClassicalDedekindReals.sig_forall_dec, sig_not_dec, "
    "FunctionalExtensionality.functional_extensionality_dep, Classical_Prop.classic",
    "coq-interval (per-case certificates) incl. primitive-float/int63 specification axioms of the stdlib",
    "hand-written model Model/EntropyM.v of persistent_entropy.py lines 63-90, tied twice: per-case interval certificates and "
    "harness/src2coq.py (entropy_regen: regenerated obligations regen_shannon, regen_normalised; Step 1 pinned as text)",
    "harness: generator, float->exact-rational printer, exception->error-enum mapping; call histories (harness/history.py) "
    "are judged by the spec predicate only",
]
ASSUMPTIONS = [
    "numpy semantics of boolean masking, np.where, np.sum, np.log are as modelled",
    "binary64 rounding of the implementation is bounded by the 1e-10 absolute tolerance, not proved",
    "normalize=True with fewer than 2 finite bars is outside the property's quantifier (0/0)",
]
TOL = 1e-10
COQ_DEPS = ["Corr/EntropyCorr.vo", "Corr/RegenTac.vo"]


EXTRA_OBLIGATIONS_ASYNC = True    # compiled while the correspondence runs


def extra_obligations(tier):
    """Second tie (DESIGN 12.7): Step 2 of persistent_entropy.py (lengths, Shannon entropy, normalisation) is re-translated
    from the current source into real-valued Gallina functions that must be provably equal to Model/EntropyM.v's
    `shannon` / `entropy_val`; Step 1 (infinite bars, the list wrapper, the error branches) must still be the modelled text."""
    from .. import src2coq
    return src2coq.check_regen(PID, "entropy", src2coq.entropy_regen, core.REPO)


def _bars(rng, n, scale, equal=False):
    out = []
    c = rng.choice([0.5, 1.0, 3.0, 0.1])
    for _ in range(n):
        b = rng.choice([rng.uniform(-5, 5), float(rng.randint(-3, 6)), rng.uniform(0, 1)])
        ln = c if equal else rng.choice([rng.uniform(0.01, 4), float(rng.randint(1, 6)), rng.uniform(1e-3, 1e-1)])
        out.append([b * scale, (b + ln) * scale])
    return out


def generate(rng, tier):
    n_cases = 70 if tier == "quick" else 1200
    cases = []
    for i in range(n_cases):
        cls = rng.choice(["single", "single", "list", "equal", "inf_drop", "inf_subst", "inf_noval",
                          "badbar", "zerobar", "scale", "scale", "intdtype", "intdtype", "onebar", "onebar_bad", "onebar_bad"])
        scale = 1.0
        if cls == "scale":
            # incl. whole barcodes in tiny / huge units (total length far below any absolute epsilon)
            scale = rng.choice([1e-6, 1e-3, 1e3, 1e6, 2.0 ** 20, 2.0 ** -20, 2.0 ** -60, 1e-13, 1e-15, 2.0 ** -200, 2.0 ** -300,
                                2.0 ** 100, 2.0 ** 300, 1e-9, 1e-11])
        normalize = rng.random() < 0.4
        keep_inf, val_inf = False, None
        nd = 1 if cls != "list" else rng.randint(2, 4)
        dgms = []
        for _ in range(nd):
            n = rng.randint(2, 7)
            d = _bars(rng, n, scale, equal=(cls == "equal"))
            dgms.append(d)
        dtype = "float"
        if cls in ("onebar", "onebar_bad"):
            # exactly one bar is left after the infinite-bar step: a valid one gives 0, a bar of
            # non-positive length must still raise (normalize is outside the quantifier for n < 2)
            normalize = False
            b = rng.choice([rng.uniform(-3, 3), float(rng.randint(-2, 5))])
            ln = rng.choice([rng.uniform(0.1, 4), 1.0]) if cls == "onebar" else rng.choice([0.0, 0.0, -rng.uniform(0.1, 2), -1.0])
            dgms = [[[b, b + ln]]]
            r = rng.random()
            if r < 0.35:      # plus infinite bars that get dropped
                for _ in range(rng.randint(1, 2)):
                    dgms[0].insert(rng.randint(0, len(dgms[0])), [rng.uniform(-1, 1), "inf"])
            elif r < 0.5 and cls == "onebar_bad":   # a lone infinite bar substituted by a value <= its birth
                b0 = rng.uniform(0, 3)
                dgms = [[[b0, "inf"]]]
                keep_inf, val_inf = True, b0 - rng.choice([0.0, 0.5, 2.0])
            if rng.random() < 0.4:
                dgms.insert(rng.randint(0, 1), _bars(rng, rng.randint(2, 4), 1.0))
                nd = len(dgms)
        if cls == "intdtype":
            # integer-valued bars handed over as integer-dtype arrays (the result must still be real)
            dtype = rng.choice(["int64", "int32", "int64"])
            eq = rng.random() < 0.4
            dgms = [[[b, b + (2 if eq else rng.randint(1, 9))] for b in (rng.randint(-5, 20) for _ in range(rng.randint(2, 6)))]
                    for _ in range(nd)]
        if cls in ("inf_drop", "inf_subst", "inf_noval"):
            k = rng.randint(1, 2)
            for _ in range(k):
                d = dgms[0]
                d.insert(rng.randint(0, len(d)), [rng.uniform(-1, 1), "inf"])
            if cls == "inf_subst":
                keep_inf, val_inf = True, rng.choice([10.0, 7.5, 100.0])
                if rng.random() < 0.35:
                    # a cap of exactly 0 (falsy in Python) on a barcode whose infinite bars are born below 0
                    val_inf = rng.choice([0.0, 0, 0.0])
                    dgms[0] = [[b - 8.0, (d if d == "inf" else d - 8.0)] for b, d in dgms[0]]
            elif cls == "inf_noval":
                keep_inf, val_inf = True, None
        if cls == "badbar":
            d = dgms[-1]
            j = rng.randrange(len(d))
            d[j] = [d[j][1], d[j][0]]
        if cls == "zerobar":
            d = dgms[0]
            j = rng.randrange(len(d))
            d[j] = [d[j][0], d[j][0]]
        single = (len(dgms) == 1 and rng.random() < 0.6)
        cases.append({"cls": cls, "dgms": dgms, "single": single, "keep_inf": keep_inf,
                      "val_inf": val_inf, "normalize": normalize, "dtype": dtype})
    return cases + _histories(rng, 12 if tier == "quick" else 150)


def corpus():
    return [
        {"dgms": [[[0, 1], [0, 3], [2, 4]]], "single": True, "keep_inf": False, "val_inf": None, "normalize": False},
        {"dgms": [[[0, 1], [0, 3], [2, 4]], [[2, 5], [3, 8]], [[0, "inf"], [1, 2], [1, 4]]], "single": False,
         "keep_inf": True, "val_inf": 10, "normalize": False},
        {"dgms": [[[-1, 2]]], "single": True, "keep_inf": False, "val_inf": None, "normalize": False},
        {"dgms": [[[0, 1], [1, 1]]], "single": True, "keep_inf": False, "val_inf": None, "normalize": False},
        {"dgms": [[[0, 2], [3, 5]]], "single": True, "keep_inf": False, "val_inf": None, "normalize": False, "dtype": "int64"},
        {"dgms": [[[0, 2], [3, 5], [1, 3]], [[0, 1], [0, 3]]], "single": False, "keep_inf": False, "val_inf": None, "normalize": True, "dtype": "int64"},
        {"dgms": [[[1, 2], [1, 2], [1, 2], [1, 2], [3, "inf"]]], "single": True, "keep_inf": False, "val_inf": None, "normalize": True},
    ]


def _f(x):
    return float("inf") if x == "inf" else float(x)


def impl_call(c, memo):
    """One call; equal-valued diagrams of different calls are the same ndarray objects (interned in memo)."""
    import numpy as np
    from persim.persistent_entropy import persistent_entropy
    dt = {"int64": np.int64, "int32": np.int32}.get(c.get("dtype", "float"), float)
    arrs = [history.intern(memo, ["dgm", dg, c.get("dtype", "float")],
                           lambda dg=dg: np.array([[_f(b), _f(d)] for b, d in dg], dtype=float).reshape(-1, 2).astype(dt))
            for dg in c["dgms"]]
    arg = arrs[0] if c["single"] else arrs
    try:
        r = persistent_entropy(arg, keep_inf=c["keep_inf"], val_inf=c["val_inf"], normalize=c["normalize"])
        return {"vals": [float(v) for v in np.asarray(r).ravel()]}
    except Exception as e:
        return {"error": type(e).__name__, "msg": str(e)[:200]}


def impl_run(cases):
    return [history.run(c, impl_call) if history.is_hist(c) else impl_call(c, {}) for c in cases]


def _histories(rng, n):
    """Call histories on shared diagram objects: parameter sweeps over one barcode with infinite bars (different
    caps, then dropped), several barcodes reused in different lists, and rejected calls in between."""
    hs = []
    for _ in range(n):
        kind = rng.choice(["sweep", "sweep", "reuse", "fault"])
        base = _bars(rng, rng.randint(2, 5), 1.0)
        inf_d = [list(x) for x in base]
        for _ in range(rng.randint(1, 2)):
            inf_d.insert(rng.randint(0, len(inf_d)), [rng.uniform(-2, 1), "inf"])
        other = _bars(rng, rng.randint(2, 4), 1.0)
        def step(dgms, single, keep, val, norm=False):
            return {"cls": "step", "dgms": dgms, "single": single, "keep_inf": keep, "val_inf": val, "normalize": norm, "dtype": "float"}
        caps = rng.sample([10.0, 20.0, 7.5, 100.0, 50.0, 12.0], 3)
        if kind == "sweep":
            steps = [step([inf_d], True, True, caps[0]), step([inf_d], True, True, caps[1]), step([inf_d], True, False, None),
                     step([inf_d], rng.random() < 0.5, True, caps[2], rng.random() < 0.3), step([inf_d], True, True, caps[0])]
        elif kind == "reuse":
            steps = [step([inf_d, other], False, True, caps[0]), step([other, inf_d], False, False, None),
                     step([inf_d], True, True, caps[1]), step([base, inf_d, other], False, True, caps[2]), step([other], True, False, None, True)]
        else:
            bad = [list(x) for x in other]
            j = rng.randrange(len(bad)); bad[j] = [bad[j][1], bad[j][0]]
            steps = [step([inf_d], True, True, caps[0]), dict(step([inf_d, bad], False, True, caps[1]), fault=True),
                     dict(step([inf_d], True, True, None), fault=True), step([inf_d], True, True, caps[1]), step([inf_d, other], False, False, None)]
        hs.append(history.make(kind, steps))
    return hs

# ---- the spec, evaluated independently of the model ---------------------------------------
def _spec(c):
    if c["keep_inf"] and c["val_inf"] is None:
        return "ErrNoVal"
    vals = []
    for dg in c["dgms"]:
        ls = []
        for b, d in dg:
            if d == "inf":
                if not c["keep_inf"]:
                    continue
                d = c["val_inf"]
            ls.append(Fraction(float(d)) - Fraction(float(b)))
        if any(l <= 0 for l in ls):
            return "ErrBar"
        L = sum(ls)
        ps = [float(l / L) for l in ls]
        e = -math.fsum(p * math.log(p) for p in ps) if ls else 0.0
        if c["normalize"]:
            e = e / math.log(len(ls))
        vals.append((e, len(ls)))
    return vals


def predicate(c, o):
    if history.is_hist(c):
        return history.predicate(c, o, predicate)
    s = _spec(c)
    if isinstance(s, str):
        if "error" not in o:
            return False, "no-error: expected %s, got values %s" % (s, o.get("vals"))
        want = "born after dying" if s == "ErrBar" else "value to infinity"
        if want not in o.get("msg", ""):
            return False, "wrong-error: expected %s, got %s" % (s, o)
        return True, ""
    if "error" in o:
        return False, "unexpected-error: %s" % o
    if len(o["vals"]) != len(s):
        return False, "length: %d values for %d diagrams" % (len(o["vals"]), len(s))
    for (e, n), v in zip(s, o["vals"]):
        if not (v == v) or abs(v - e) > TOL:
            return False, "value: entropy %r differs from -sum p ln p = %r" % (v, e)
        if not c["normalize"] and n >= 1 and not (-1e-12 <= v <= math.log(n) + 1e-12):
            return False, "bounds: %r not in [0, ln %d]" % (v, n)
        if c["normalize"] and n >= 2 and not (-1e-12 <= v <= 1 + 1e-12):
            return False, "bounds: normalised %r not in [0,1]" % v
    return True, ""


def nontrivial(c, o):
    if history.is_hist(c):
        return history.nontrivial(c, o, nontrivial)
    if "error" in o or any(d == "inf" for dg in c["dgms"] for _, d in dg):
        return True
    return any(len({round(float(d) - float(b), 12) for b, d in dg}) >= 2 for dg in c["dgms"])


# ---- the model, run inside Coq --------------------------------------------------------------
HEADER = """From Coq Require Import Reals List Bool Lra.
From Interval Require Import Tactic.
From Persim Require Import Model.EntropyM Corr.EntropyCorr.
Import ListNotations.
Open Scope R_scope.
"""


def _coq_dgm(dg):
    return core.coq_list(["(%s, %s)" % (core.coq_R(float(b)), "PInf" if d == "inf" else "Fin " + core.coq_R(float(d)))
                          for b, d in dg])


def _stmt(c, o):
    call = "persistent_entropy %s %s %s %s" % (
        "true" if c["keep_inf"] else "false",
        "None" if c["val_inf"] is None else "(Some %s)" % core.coq_R(float(c["val_inf"])),
        "true" if c["normalize"] else "false",
        core.coq_list([_coq_dgm(dg) for dg in c["dgms"]]))
    if "error" in o:
        if "born after dying" in o.get("msg", ""):
            return "%s = ErrBar" % call
        if "value to infinity" in o.get("msg", ""):
            return "%s = ErrNoVal" % call
        return None
    if any(v != v or v in (float("inf"), float("-inf")) for v in o["vals"]):
        return None
    return "agrees (%s) %s %s" % (call, core.coq_list([core.coq_R(v) for v in o["vals"]]), core.coq_R(Fraction(1, 10 ** 10)))


_state = {}


def coq_jobs(cases, outs):
    # the per-case lemmas are compiled by coq_judge through core.prove_lemmas
    return []


def coq_judge(cases, outs, results):
    lemmas, idx, verdicts = [], [], ["disagree:not-expressible (nan/inf or unknown exception)"] * len(cases)
    for i, (c, o) in enumerate(zip(cases, outs)):
        if history.is_hist(c):
            verdicts[i] = "skip:history (every step is judged by the spec predicate)"
            continue
        st = _stmt(c, o)
        if st is not None:
            idx.append(i)
            lemmas.append((st, "entropy_case."))
    ok, wall = core.prove_lemmas(PID, HEADER, lemmas, chunk=8)
    for i, good in zip(idx, ok):
        verdicts[i] = "agree" if good else "disagree:interval certificate |model - impl| <= 1e-10 not provable"
    return verdicts


def shrink_candidates(c):
    if history.is_hist(c):
        yield from history.shrink(c)
        return
    if len(c["dgms"]) > 1:
        for i in range(len(c["dgms"])):
            d = dict(c); d["dgms"] = c["dgms"][:i] + c["dgms"][i + 1:]; yield d
    for i, dg in enumerate(c["dgms"]):
        if len(dg) > 1:
            for j in range(len(dg)):
                d = dict(c); d["dgms"] = [list(x) for x in c["dgms"]]; d["dgms"][i] = dg[:j] + dg[j + 1:]; yield d
    if c["normalize"]:
        d = dict(c); d["normalize"] = False; yield d
