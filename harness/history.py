"""Call histories for function-like properties (DESIGN.md section 12.8).

A *history case* is a composite case
    {"cls": "hist:<kind>", "hist": True, "seq": [step, step, ...]}
whose steps are ordinary cases of the property (plus, optionally, {"fault": True, ...} steps that are expected
to raise inside persim).  All steps of one history run in ONE interpreter, one after the other, with a shared
`memo`: the module's `impl_call(step, memo)` interns its argument objects in it, so that equal-valued
arguments of different steps are THE SAME ndarray / list objects (a pairwise-distance loop, a parameter sweep
over one diagram, an estimator reused after a failed call).  Every step's output must satisfy the property's
own predicate, so a history fails exactly when some call's result depends on what happened before it:
state kept between calls, an argument modified in place, a buffer left dirty by an exception, a cache keyed
too coarsely.  Nothing is compared with recorded outputs.

Helpers used by the property modules:
    is_hist(case)
    run(case, impl_call)                      -> {"hist": [out, ...]}
    predicate(case, out, pred1)               -> (ok, detail)   first failing step wins
    nontrivial(case, out, nontriv1)
    shrink(case)                              -> smaller histories (drop steps, then single steps)
    intern(memo, key, build)                  -> the one object for `key`
    make(rng, kind, steps)                    -> composite case
"""
import copy
import json


def is_hist(c):
    return bool(c.get("hist"))


def intern(memo, key, build):
    k = json.dumps(key, sort_keys=True, default=str)
    if k not in memo:
        memo[k] = build()
    return memo[k]


def make(kind, steps):
    return {"cls": "hist:" + kind, "hist": True, "seq": [copy.deepcopy(s) for s in steps]}


def run(c, impl_call):
    memo = {}
    outs = []
    for s in c["seq"]:
        try:
            outs.append(impl_call(s, memo))
        except Exception as e:  # noqa  (impl_call normally catches per call; this is the safety net)
            outs.append({"error": type(e).__name__, "msg": str(e)[:300]})
    return {"hist": outs}


def predicate(c, o, pred1):
    outs = o.get("hist")
    if outs is None or len(outs) != len(c["seq"]):
        return False, "history: harness error %r" % (o,)
    for i, (s, so) in enumerate(zip(c["seq"], outs)):
        if s.get("fault"):
            # a call that is expected to be rejected; all that is asked is that it does not crash the process
            continue
        try:
            ok, detail = pred1(s, so)
        except Exception as e:  # noqa
            ok, detail = False, "predicate raised %r" % (e,)
        if not ok:
            key = detail.split(":")[0]
            return False, "history-%s: step %d of %d (after %d earlier call(s) in the same process, arguments shared by identity): %s" % (
                key, i, len(outs), i, detail)
    return True, ""


def nontrivial(c, o, nontriv1):
    outs = o.get("hist") or []
    n = 0
    for s, so in zip(c["seq"], outs):
        if s.get("fault"):
            continue
        try:
            if nontriv1(s, so):
                n += 1
        except Exception:  # noqa
            pass
    return n >= 2


def shrink(c):
    seq = c["seq"]
    if len(seq) > 1:
        # drop one step (later steps first: the failing step is usually late, its cause early)
        for i in range(len(seq)):
            d = dict(c)
            d["seq"] = seq[:i] + seq[i + 1:]
            yield d
        # a single step on its own: then it is not a history effect at all
        for s in seq:
            if not s.get("fault"):
                yield s


def flatten(cases, outs):
    """(case, out) pairs of the individual steps of all histories (for running the model on them)."""
    res = []
    for c, o in zip(cases, outs):
        if is_hist(c):
            for s, so in zip(c["seq"], (o.get("hist") or [])):
                if not s.get("fault"):
                    res.append((s, so))
    return res


def scribble(obj, _depth=0):
    """Overwrites in place everything mutable that persim RETURNED (call it after the values have been read out):
    a caller is free to edit what it got back, so a later call whose result depends on it (a result cache that hands
    out its stored object, a view of internal state) shows as a predicate failure of that later step."""
    try:
        import numpy as np
    except Exception:  # pragma: no cover
        np = None
    if _depth > 4 or obj is None:
        return
    if np is not None and isinstance(obj, np.ndarray):
        if obj.flags.writeable and obj.size:
            try:
                if obj.dtype.kind == "f":
                    obj[...] = np.nan
                elif obj.dtype.kind in "iu":
                    obj[...] = 77
                elif obj.dtype.kind == "O":
                    for x in obj.flat:
                        scribble(x, _depth + 1)
            except Exception:
                pass
        return
    if isinstance(obj, list):
        for x in obj:
            scribble(x, _depth + 1)
        try:
            obj.append("scribbled")
        except Exception:
            pass
        return
    if isinstance(obj, (tuple, set, frozenset)):
        for x in obj:
            scribble(x, _depth + 1)
        return
    if isinstance(obj, dict):
        for x in list(obj.values()):
            scribble(x, _depth + 1)
