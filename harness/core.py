"""Shared machinery of the persim verification checks.

A check for property Cxx is driven by ``run_check(module, tier, seed)`` where
``module`` is ``harness.props.cxx``.  See DESIGN.md section 2 for the verdict logic.

Property-module interface (module-level names; * = required)

  PID*            "C16"
  THEOREMS*       names that must be stated in coq/Properties/Cxx.v, each followed by
                  ``Print Assumptions name.``  (these are the proof obligations)
  RULE*           text: how cases are generated and what counts as non-trivial
  TRUSTED_BASE*   list of strings
  ASSUMPTIONS     list of strings
  COQ_DEPS        extra make targets the generated case files need, e.g. ["Corr/EntropyCorr.vo"]
  HASHSEEDS       list of PYTHONHASHSEED values for the implementation runs (default ["0"])
  generate(rng, tier) -> list[case]*            JSON-able dicts; each should carry "cls"
  corpus() -> list[case]                        fixed cases that always run first
  impl_run(cases) -> list[out]*                 executed in a subprocess of /venv/bin/python with
                                                PYTHONPATH=$PERSIM_REPO and PERSIM_VERIF=1
  coq_jobs(cases, outs) -> list[(name, text)]   generated .v files (Require the built library)
  coq_judge(cases, outs, results) -> list[str]  per case: "agree" | "legacy:<finding-id>" |
                                                "disagree:<why>" | "skip:<why>"
                                                ``results`` maps job name -> CoqResult
  predicate(case, out) -> (ok, detail)*         the SPEC evaluated on the implementation's output,
                                                independent of the model
  nontrivial(case, out) -> bool*
  canonical(case) -> hashable                   default: JSON dump
  finding_of(case, out, detail) -> str|None     id of an OPEN known finding this failure is an
                                                instance of (call site + signature), else None
  shrink_candidates(case) -> iterable[case]     smaller variants, for the shrinker
  search_generate(rng, n) -> list[case]         stream used when hunting for a failing input
"""
from __future__ import annotations

import fcntl
import hashlib
import json
import os
import random
import re
import shutil
import subprocess
import sys
import time
from dataclasses import dataclass, field
from fractions import Fraction
from pathlib import Path

VERIF = Path(__file__).resolve().parent.parent
COQ = VERIF / "coq"
WORK = VERIF / ".work"
EVID = VERIF / "evidence"
REPLAY = Path(os.environ["VERIF_REPLAY_DIR"]) if os.environ.get("VERIF_REPLAY_DIR") else EVID / "replay"
REPO = os.environ.get("PERSIM_REPO", "/repo")
PY = os.environ.get("PERSIM_PY", "/venv/bin/python")
GUARD = "PERSIM_VERIF"
NPROC = int(os.environ.get("VERIF_JOBS", "16"))

# Axioms that the Coq standard library itself declares and that this development may
# depend on (named in DESIGN.md section 7).  Anything else under Print Assumptions fails.
ALLOWED_AXIOMS = {
    "ClassicalDedekindReals.sig_forall_dec",
    "ClassicalDedekindReals.sig_not_dec",
    "FunctionalExtensionality.functional_extensionality_dep",
    "functional_extensionality_dep",
    "Classical_Prop.classic",
    "classic",
    "sig_forall_dec",
    "sig_not_dec",
    "ProofIrrelevance.proof_irrelevance",
    "proof_irrelevance",
    "Eqdep.Eq_rect_eq.eq_rect_eq",
    "JMeq.JMeq_eq",
    "ClassicalEpsilon.constructive_indefinite_description",
    "constructive_indefinite_description",
    "ClassicalUniqueChoice.dependent_unique_choice",
    "Raxioms.completeness", "Rdefinitions.up",  # not present in 8.16, harmless
}
# primitive int / float: the primitives themselves and their specification axioms
ALLOWED_PREFIXES = (
    "PrimFloat.", "Uint63.", "PrimInt63.", "FloatAxioms.", "FloatOps.", "SpecFloat.",
    "Sint63.", "CarryType.", "Uint63Axioms.", "PArray.", "PrimArray.",
    "Coq.Floats.", "Coq.Numbers.Cyclic.Int63.",
    # short names printed when the module is imported
    "add_spec", "sub_spec", "mul_spec", "div_spec", "sqrt_spec", "opp_spec", "abs_spec",
    "eqb_spec", "ltb_spec", "leb_spec", "compare_spec", "classify_spec", "of_uint63_spec",
    "normfr_mantissa_spec", "frshiftexp_spec", "ldshiftexp_spec", "next_up_spec",
    "next_down_spec", "Prim2SF_valid", "SF2Prim_Prim2SF", "Prim2SF_SF2Prim",
    "of_int63_spec", "of_Z_spec", "to_Z_bounded", "lsl_spec", "lsr_spec", "land_spec", "lor_spec",
    "lxor_spec", "addc_def_spec", "addcarryc_def_spec", "subc_def_spec", "subcarryc_def_spec",
    "diveucl_def_spec", "diveucl_21_spec", "addmuldiv_def_spec", "mulc_spec", "mod_spec",
    "head0_spec", "tail0_spec", "of_to_Z", "eqb_correct", "eqb_refl", "ltb_spec", "leb_spec",
    "compare_def_spec", "is_zero_spec", "is_even_spec", "to_Z_rec_bounded",
)

FORBIDDEN_RE = re.compile(
    r"\b(Admitted|admit|Axiom|Axioms|Parameter|Parameters|Conjecture|Conjectures|"
    r"Admit\s+Obligations|bypass_check|Unset\s+Guard\s+Checking|Unset\s+Positivity\s+Checking|"
    r"Unset\s+Universe\s+Checking|type-in-type|impredicative-set)\b")


# --------------------------------------------------------------------------- utilities

def q_of_float(x: float) -> Fraction:
    return Fraction(float(x))


def coq_Q(x) -> str:
    """Coq Q literal for an exact rational / float."""
    f = x if isinstance(x, Fraction) else Fraction(x)
    if f.numerator < 0:
        return "((%d)#%d)" % (f.numerator, f.denominator)
    return "(%d#%d)" % (f.numerator, f.denominator)


def coq_Z(n: int) -> str:
    return "(%d)%%Z" % n if n < 0 else "%d%%Z" % n


def coq_list(items, sep="; ") -> str:
    return "[" + sep.join(items) + "]"


def coq_R(x) -> str:
    """Coq R term (rational) for an exact rational / float."""
    f = x if isinstance(x, Fraction) else Fraction(x)
    n, d = f.numerator, f.denominator
    s = "(%d)" % n if n < 0 else "%d" % n
    return "(%s/%d)%%R" % (s, d) if d != 1 else "(%s)%%R" % s


def sha(obj) -> str:
    return hashlib.sha256(json.dumps(obj, sort_keys=True, default=str).encode()).hexdigest()[:16]


def log(*a):
    print(*a, file=sys.stderr, flush=True)


# --------------------------------------------------------------------------- Coq side

@dataclass
class CoqResult:
    ok: bool
    out: str
    err: str
    wall: float
    rc: int = 0

    def eval_lists(self):
        """All ``= [...] : type`` results printed by Eval commands, as flat token lists."""
        return parse_eval_lists(self.out)


def parse_eval_lists(out: str):
    res = []
    flat = " ".join(out.split())
    for m in re.finditer(r"= \[(.*?)\]\s*: list", flat):
        body = m.group(1).strip()
        res.append([t.strip() for t in body.split(";")] if body else [])
    return res


def parse_eval_values(out: str):
    """Every ``= value : type`` printed by Eval, as strings (whitespace-normalised)."""
    flat = " ".join(out.split())
    return [m.group(1).strip() for m in re.finditer(r"= (.*?) : [A-Za-z(]", flat)]


def gen_coqproject():
    files = []
    for sub in ("Lib", "Spec", "Model", "Proofs", "Properties", "Corr"):
        d = COQ / sub
        if d.is_dir():
            files += sorted(str(p.relative_to(COQ)) for p in d.rglob("*.v"))
    text = "-R . Persim\n-arg -w -arg -notation-overridden,-deprecated-hint-without-locality,-deprecated-instance-without-locality,-ambiguous-paths\n" + "\n".join(files) + "\n"
    p = COQ / "_CoqProject"
    if not p.exists() or p.read_text() != text:
        p.write_text(text)
        return True
    return False


def ensure_build(timeout=3000, targets=None):
    """Full .vo build of coq/ (incremental), serialised by a file lock.
    With ``targets`` (development mode, VERIF_LENIENT_BUILD=1) only those .vo files and what they
    depend on are built, so that a half-written file of another property cannot block a check."""
    WORK.mkdir(exist_ok=True)
    with open(WORK / "build.lock", "w") as lk:
        fcntl.flock(lk, fcntl.LOCK_EX)
        changed = gen_coqproject()
        if changed or not (COQ / "Makefile").exists():
            r = subprocess.run(["coq_makefile", "-f", "_CoqProject", "-o", "Makefile"], cwd=COQ,
                               capture_output=True, text=True)
            if r.returncode != 0:
                return False, r.stdout + r.stderr
        cmd = ["timeout", str(timeout), "make", "-j%d" % NPROC]
        if targets:
            cmd += list(targets)
        r = subprocess.run(cmd, cwd=COQ, capture_output=True, text=True)
        return r.returncode == 0, (r.stdout[-4000:] + r.stderr[-8000:])


def coqc(path: Path, timeout=600, extra=()):
    t0 = time.time()
    try:
        r = subprocess.run(["timeout", str(timeout), "coqc", "-R", str(COQ), "Persim",
                            "-w", "-notation-overridden,-deprecated-hint-without-locality,-deprecated-instance-without-locality,-ambiguous-paths",
                            *extra, str(path)],
                           capture_output=True, text=True, cwd=path.parent)
        return CoqResult(r.returncode == 0, r.stdout, r.stderr, time.time() - t0, r.returncode)
    except Exception as e:  # pragma: no cover
        return CoqResult(False, "", repr(e), time.time() - t0, -1)


def run_coq_jobs(pid: str, jobs, timeout=600):
    """Write the generated files under .work/<pid>/ and compile them in parallel."""
    from concurrent.futures import ThreadPoolExecutor
    d = WORK / pid
    if d.exists():
        shutil.rmtree(d)
    d.mkdir(parents=True)
    paths = {}
    for name, text in jobs:
        p = d / (name + ".v")
        p.write_text(text)
        paths[name] = p
    with ThreadPoolExecutor(max_workers=NPROC) as ex:
        futs = {name: ex.submit(coqc, p, timeout) for name, p in paths.items()}
        res = {name: f.result() for name, f in futs.items()}
    # a job that was stopped by the time limit or killed (a loaded machine, memory pressure) says nothing about the
    # model: it is run again, alone and with a longer limit, before it may count as a failure
    again = [n for n, r in res.items() if not r.ok and (r.rc in (124, 137, -9, -15) or not (r.err or r.out).strip())]
    for n in again:
        log("[%s] coq job %s did not finish (rc %s after %.0fs): running it again on its own" % (pid, n, res[n].rc, res[n].wall))
        res[n] = coqc(paths[n], timeout * 3)
    return res


def prove_lemmas(pid, header, lemmas, chunk=12, timeout=600, tag="lem"):
    """Kernel-check one lemma per case.  ``lemmas`` is a list of (statement, proof-script) pairs.
    They are compiled in chunks (one coqc per chunk, all in parallel); a chunk that fails is
    re-run one lemma per file so that every case gets its own verdict.  Returns list[bool]."""
    def render(idx_list):
        body = [header]
        for i in idx_list:
            st, pr = lemmas[i]
            body.append("Lemma case_%d : %s.\nProof. %s Qed.\n" % (i, st, pr))
        return "\n".join(body)
    n = len(lemmas)
    verdict = [False] * n
    chunks = [list(range(i, min(n, i + chunk))) for i in range(0, n, chunk)]
    res = run_coq_jobs(pid, [("%s_%03d" % (tag, k), render(c)) for k, c in enumerate(chunks)], timeout=timeout)
    retry = []
    for k, c in enumerate(chunks):
        if res["%s_%03d" % (tag, k)].ok:
            for i in c:
                verdict[i] = True
        else:
            retry += c
    if retry:
        d = WORK / pid
        from concurrent.futures import ThreadPoolExecutor
        def one(i):
            pth = d / ("%s_one_%d.v" % (tag, i))
            pth.write_text(render([i]))
            r = coqc(pth, timeout)
            if not r.ok and (r.rc in (124, 137, -9, -15) or not (r.err or r.out).strip()):
                # stopped by the time limit / killed (loaded machine): says nothing about the lemma; once more, longer
                log("[%s] lemma %d did not finish (rc %s after %.0fs): running it again" % (pid, i, r.rc, r.wall))
                r = coqc(pth, timeout * 3)
            return i, r
        with ThreadPoolExecutor(max_workers=NPROC) as ex:
            for i, r in ex.map(one, retry):
                verdict[i] = r.ok
    wall = sum(r.wall for r in res.values())
    return verdict, wall


def eval_cases(pid, header, terms, chunk=300, timeout=600, tag="ev", ty=None):
    """Evaluate closed Coq terms of a small enum / bool / Z type with vm_compute, many per file.
    Returns (tokens, wall): tokens[i] is the printed normal form of terms[i] (whitespace-normalised),
    or "ERROR" if its file did not compile.  Terms must not print ';' inside a value."""
    n = len(terms)
    chunks = [list(range(i, min(n, i + chunk))) for i in range(0, n, chunk)]
    jobs = []
    for k, c in enumerate(chunks):
        body = header + "\nEval vm_compute in (%s).\n" % coq_list(["(%s)" % terms[i] for i in c], sep=";\n ")
        jobs.append(("%s_%03d" % (tag, k), body))
    res = run_coq_jobs(pid, jobs, timeout=timeout)
    toks = ["ERROR"] * n
    for k, c in enumerate(chunks):
        r = res["%s_%03d" % (tag, k)]
        if not r.ok:
            log("[%s] coq job %s_%03d failed: %s" % (pid, tag, k, (r.err or r.out)[-800:]))
            continue
        lists = r.eval_lists()
        if len(lists) == 1 and len(lists[0]) == len(c):
            for i, t in zip(c, lists[0]):
                toks[i] = t
        else:
            log("[%s] coq job %s_%03d: could not parse %d results" % (pid, tag, k, len(c)))
    return toks, sum(r.wall for r in res.values())


def dep_closure(targets):
    """.v files (relative to coq/) that the given .vo targets transitively depend on, from the
    dependency file written by coq_makefile."""
    dep = {}
    f = COQ / ".Makefile.d"
    if not f.exists():
        return None
    for line in f.read_text().replace("\\\n", " ").split("\n"):
        if ":" not in line:
            continue
        lhs, rhs = line.split(":", 1)
        vos = [t for t in lhs.split() if t.endswith(".vo")]
        ds = [t for t in rhs.split() if t.endswith(".vo") and not t.startswith("/")]
        for v in vos:
            dep[v] = ds
    seen, todo = set(), list(targets)
    while todo:
        t = todo.pop()
        if t in seen:
            continue
        seen.add(t)
        todo += dep.get(t, [])
    return sorted(t[:-1] for t in seen)


def scan_forbidden(files=None):
    """grep the development (or the given files) for Admitted / Axiom / ... (comments stripped)."""
    hits = []
    paths = sorted(COQ.rglob("*.v")) if files is None else [COQ / f for f in files if (COQ / f).exists()]
    for p in paths:
        text = p.read_text()
        text = strip_coq_comments(text)
        for i, line in enumerate(text.split("\n"), 1):
            if FORBIDDEN_RE.search(line):
                hits.append("%s:%d: %s" % (p.relative_to(VERIF), i, line.strip()))
        # Variable / Hypothesis outside a section
        depth = 0
        for i, line in enumerate(text.split("\n"), 1):
            s = line.strip()
            if re.match(r"(Section|Module\s+Type)\b", s):
                depth += 1
            elif re.match(r"End\b", s) and depth > 0:
                depth -= 1
            elif depth == 0 and re.match(r"(Variable|Variables|Hypothesis|Hypotheses|Context)\b", s):
                hits.append("%s:%d: %s (outside a section)" % (p.relative_to(VERIF), i, s))
    return hits


def strip_coq_comments(text: str) -> str:
    out, depth, i, n = [], 0, 0, len(text)
    instr = False
    while i < n:
        c2 = text[i:i + 2]
        if not instr and c2 == "(*":
            depth += 1; i += 2; continue
        if not instr and depth and c2 == "*)":
            depth -= 1; i += 2; continue
        ch = text[i]
        if depth == 0:
            if ch == '"':
                instr = not instr
            out.append(ch)
        elif ch == "\n":
            out.append(ch)
        i += 1
    return "".join(out)


def axiom_allowed(name: str) -> bool:
    if name in ALLOWED_AXIOMS:
        return True
    base = name.split(".")[-1]
    return any(name.startswith(p) or base.startswith(p) for p in ALLOWED_PREFIXES)


def check_property_file(pid: str, theorems):
    """Re-compile coq/Properties/<pid>.v from scratch, parse the Print Assumptions blocks.

    Returns (obligations, discharged, problems, axioms_by_theorem)."""
    src = COQ / "Properties" / (pid + ".v")
    problems = []
    if not src.exists():
        return len(theorems), 0, ["missing " + str(src)], {}
    text = strip_coq_comments(src.read_text())
    stated = re.findall(r"\b(?:Theorem|Lemma|Corollary)\s+([A-Za-z_][A-Za-z0-9_']*)", text)
    printed = re.findall(r"Print\s+Assumptions\s+([A-Za-z_][A-Za-z0-9_'.]*)\s*\.", text)
    for t in theorems:
        if t not in stated:
            problems.append("theorem %s is not stated in Properties/%s.v" % (t, pid))
        if t not in printed:
            problems.append("no Print Assumptions for %s" % t)
    d = WORK / (pid + "_prop")
    if d.exists():
        shutil.rmtree(d)
    d.mkdir(parents=True)
    dst = d / (pid + "_recheck.v")
    shutil.copy(src, dst)
    r = coqc(dst, timeout=900)
    if not r.ok:
        problems.append("Properties/%s.v does not compile: %s" % (pid, (r.err or r.out)[-1500:]))
        return len(theorems), 0, problems, {}
    # split output into assumption blocks, in order
    blocks, cur = [], None
    for line in r.out.split("\n"):
        if line.startswith("Closed under the global context"):
            blocks.append([]); cur = None
        elif line.startswith("Axioms:"):
            cur = []; blocks.append(cur)
        elif cur is not None:
            if line and not line[0].isspace():
                m = re.match(r"([A-Za-z_][A-Za-z0-9_'.]*)\s*:", line)
                if m:
                    cur.append(m.group(1))
                elif re.match(r"[A-Za-z_][A-Za-z0-9_'.]*$", line.strip()):
                    cur.append(line.strip())
                else:
                    cur = None
    if len(blocks) != len(printed):
        problems.append("expected %d Print Assumptions blocks, parsed %d" % (len(printed), len(blocks)))
        return len(theorems), 0, problems, {}
    by = dict(zip(printed, blocks))
    discharged = 0
    for t in theorems:
        if t in by and t in stated:
            bad = [a for a in by[t] if not axiom_allowed(a)]
            if bad:
                problems.append("theorem %s depends on non-allow-listed assumptions: %s" % (t, bad))
            else:
                discharged += 1
    return len(theorems), discharged, problems, by


# --------------------------------------------------------------------------- implementation side

def run_impl(modname: str, cases, hashseed="0", func="impl_run", timeout=1800, extra_env=None):
    """Run ``harness.props.<modname>.<func>(cases)`` in a fresh interpreter against $PERSIM_REPO."""
    env = dict(os.environ)
    env["PYTHONPATH"] = REPO + os.pathsep + str(VERIF)
    env[GUARD] = "1"
    env["PYTHONHASHSEED"] = str(hashseed)
    env["MPLBACKEND"] = "Agg"
    env["PYTHONWARNINGS"] = "ignore"
    env["OMP_NUM_THREADS"] = "1"
    env["OPENBLAS_NUM_THREADS"] = "1"
    if extra_env:
        env.update(extra_env)
    p = subprocess.run([PY, "-m", "harness.impl_runner", modname, func], input=json.dumps(cases),
                       capture_output=True, text=True, env=env, cwd=str(VERIF), timeout=timeout)
    if p.returncode != 0:
        raise RuntimeError("implementation runner failed (%s.%s): %s" % (modname, func, p.stderr[-3000:]))
    # the payload is the last line (the code under test may print)
    line = p.stdout.strip().split("\n")[-1]
    return json.loads(line)


def guarded(fn):
    """Call fn(); map exceptions to {"error": type, "msg": text}."""
    try:
        return fn()
    except Exception as e:  # noqa
        return {"error": type(e).__name__, "msg": str(e)[:300]}


# --------------------------------------------------------------------------- source fingerprints
def source_fingerprints(repo):
    """sha of the docstring-free AST of every persim/**/*.py (comments, blank lines, docstrings do not count)."""
    import ast
    out = {}
    root = Path(repo) / "persim"
    for f in sorted(root.rglob("*.py")):
        try:
            import warnings
            with warnings.catch_warnings():
                warnings.simplefilter("ignore")
                tree = ast.parse(f.read_text())
        except Exception:
            out[str(f.relative_to(repo))] = "unparsable"
            continue
        for node in ast.walk(tree):
            body = getattr(node, "body", None)
            if isinstance(body, list) and body and isinstance(body[0], ast.Expr) and isinstance(getattr(body[0], "value", None), ast.Constant) \
                    and isinstance(body[0].value.value, str):
                node.body = body[1:] or [ast.Pass()]
        out[str(f.relative_to(repo))] = hashlib.sha256(ast.unparse(tree).encode()).hexdigest()[:16]
    return out


def changed_sources(pid):
    """Files anchored by property `pid` (properties.jsonl) whose code differs from the tree the models were last
    validated against (harness/source_baseline.json).  None when there is no baseline."""
    b = VERIF / "harness" / "source_baseline.json"
    if not b.exists():
        return None
    base = json.loads(b.read_text())
    anchors = None
    for line in (VERIF / "properties.jsonl").read_text().splitlines():
        if line.strip():
            rec = json.loads(line)
            if rec.get("id") == pid:
                anchors = rec.get("anchors", {}).get("files", [])
    now = source_fingerprints(REPO)
    files = set(base) | set(now)
    if anchors:
        # everything a property's anchors import from persim may matter too: take the anchors plus the kernel / weight /
        # auxiliary modules next to them (cheap over-approximation: same directory)
        dirs = {str(Path(a).parent) for a in anchors}
        files = {f for f in files if f in anchors or str(Path(f).parent) in dirs}
    return sorted(f for f in files if base.get(f) != now.get(f))


# --------------------------------------------------------------------------- known findings

def load_findings(pid):
    p = VERIF / "known_findings.json"
    if not p.exists():
        return []
    data = json.loads(p.read_text())
    return [f for f in data.get("findings", []) if f.get("property") == pid]


# --------------------------------------------------------------------------- the driver

def write_replay(pid, payload):
    REPLAY.mkdir(parents=True, exist_ok=True)
    n = 0
    while (REPLAY / ("%s_%d.json" % (pid, n))).exists():
        n += 1
    p = REPLAY / ("%s_%d.json" % (pid, n))
    p.write_text(json.dumps(payload, indent=1, default=str))
    return p


def default_canonical(case):
    return json.dumps({k: v for k, v in case.items() if k not in ("cls", "_id")}, sort_keys=True, default=str)


def shrink(mod, case, fails, budget=200):
    """Greedy shrinking with the module's candidate generator."""
    gen = getattr(mod, "shrink_candidates", None)
    if gen is None:
        return case
    cur = case
    improved = True
    while improved and budget > 0:
        improved = False
        for cand in gen(cur):
            budget -= 1
            if budget <= 0:
                break
            try:
                if fails(cand):
                    cur = cand
                    improved = True
                    break
            except Exception:
                continue
    return cur


def run_check(mod, tier="quick", seed=0, replay=None):
    t0 = time.time()
    pid = mod.PID
    modname = mod.__name__.split(".")[-1]
    rng = random.Random(seed * 1000003 + int(hashlib.sha256(pid.encode()).hexdigest()[:6], 16))
    hashseeds = [str(h) for h in getattr(mod, "HASHSEEDS", ["0"])]
    if tier == "thorough":
        hashseeds = [str(h) for h in getattr(mod, "HASHSEEDS_THOROUGH", hashseeds)]
    canonical = getattr(mod, "canonical", default_canonical)
    findings = load_findings(pid)
    open_findings = {f["id"]: f for f in findings if f.get("status") == "open"}
    violations = []      # (kind, text, replay-payload)
    known_hits = {}      # finding id -> example
    notes = []

    # ---- 1. proof obligations -------------------------------------------------------------
    # Only this property's files (Properties/Cxx.vo, the runner files in COQ_DEPS and everything
    # they depend on) are rebuilt and scanned, so a broken file of another property cannot
    # take this check down with it.  ./setup.sh builds everything.
    tg = ["Properties/%s.vo" % pid] + list(getattr(mod, "COQ_DEPS", []))
    ok_build, build_log = ensure_build(targets=tg)
    forb = [] if os.environ.get("VERIF_LENIENT_BUILD") == "1" else scan_forbidden(dep_closure(tg))
    if ok_build:
        n_obl, n_dis, problems, axioms = check_property_file(pid, mod.THEOREMS)
    else:
        n_obl, n_dis, problems, axioms = len(mod.THEOREMS), 0, ["coq build failed: " + build_log[-2000:]], {}
    if forb:
        problems.append("forbidden declarations: " + "; ".join(forb[:10]))
    proof_ok = ok_build and not problems and n_dis == n_obl
    extra_obl = getattr(mod, "extra_obligations", None)   # regenerated obligations (C19's effect model, src2coq)
    extra_info = None
    extra_future = None

    def take_extra(info):
        nonlocal n_obl, n_dis, proof_ok, extra_info
        extra_info = info
        n_obl += info["obligations"]
        n_dis += info["discharged"]
        if info["obligations"] != info["discharged"]:
            proof_ok = False
            problems.extend(info.get("problems", []))
        log("[%s] obligations %d/%d%s" % (pid, n_dis, n_obl, "" if proof_ok else "  PROBLEMS: " + " | ".join(problems)[:1500]))

    if extra_obl is not None and ok_build:
        if getattr(mod, "EXTRA_OBLIGATIONS_ASYNC", False):
            # compiled while the correspondence runs; collected before the verdict
            from concurrent.futures import ThreadPoolExecutor
            extra_future = ThreadPoolExecutor(max_workers=1).submit(extra_obl, tier)
        else:
            take_extra(extra_obl(tier))
    if extra_future is None and extra_info is None:
        log("[%s] obligations %d/%d%s" % (pid, n_dis, n_obl, "" if proof_ok else "  PROBLEMS: " + " | ".join(problems)[:1500]))

    # ---- 2. correspondence ----------------------------------------------------------------
    if replay:
        rp = json.loads(Path(replay).read_text())
        cases = [rp["case"]] if "case" in rp else rp.get("cases", [])
        if rp.get("hashseed") is not None:
            hashseeds = [str(rp["hashseed"])]
        replay_env = rp.get("env")
    else:
        cases = list(getattr(mod, "corpus", lambda: [])())
        for c in cases:
            c.setdefault("cls", "corpus")
        cases += mod.generate(rng, tier)
    for i, c in enumerate(cases):
        c["_id"] = i
    if not replay:
        replay_env = None
    evaluations = 0
    disagreements = []   # (case, out, why, hashseed)
    failing = []         # (case, out, detail, hashseed)
    legacy_hits = []
    skipped = 0
    nontriv = set()
    cls_hist = {}
    samples = []
    coq_wall = 0.0
    have_coq = hasattr(mod, "coq_jobs")
    for hs in hashseeds:
        try:
            outs = run_impl(modname, cases, hashseed=hs, extra_env=replay_env)
        except Exception as e:
            violations.append(("harness", "implementation runner failed: %s" % e, {"error": str(e)}))
            break
        if have_coq:
            jobs = mod.coq_jobs(cases, outs)
            results = run_coq_jobs(pid, jobs, timeout=getattr(mod, "COQ_TIMEOUT", 900)) if jobs else {}
            coq_wall += sum(r.wall for r in results.values())
            verdicts = mod.coq_judge(cases, outs, results)
        else:
            verdicts = ["skip:no-model-run"] * len(cases)
        for c, o, v in zip(cases, outs, verdicts):
            evaluations += 1
            cls_hist[c.get("cls", "?")] = cls_hist.get(c.get("cls", "?"), 0) + 1
            try:
                okp, detail = mod.predicate(c, o)
            except Exception as e:
                okp, detail = False, "predicate raised %r" % (e,)
            if okp and mod.nontrivial(c, o):
                nontriv.add(canonical(c))
            if len(samples) < 4 and hs == hashseeds[0] and (c["_id"] % max(1, len(cases) // 4) == 0):
                samples.append({"case": c, "impl": o, "verdict": v})
            if not okp:
                failing.append((c, o, detail, hs))
            if v.startswith("disagree"):
                disagreements.append((c, o, v, hs))
            elif v.startswith("legacy"):
                legacy_hits.append((c, o, v, hs))
            elif v.startswith("skip"):
                skipped += 1
    # the same cases once more under other per-process configurations (predicate only): asserts stripped (python -O)
    for xenv in getattr(mod, "IMPL_ENVS", [{"PYTHONOPTIMIZE": "1"}]):
        if replay or not cases:
            break
        try:
            outs = run_impl(modname, cases, hashseed=hashseeds[0], extra_env=xenv)
        except Exception as e:
            violations.append(("harness", "implementation runner failed under %r: %s" % (xenv, e), {"error": str(e), "env": xenv}))
            break
        tag = ",".join("%s=%s" % kv for kv in sorted(xenv.items()))
        for c, o in zip(cases, outs):
            evaluations += 1
            try:
                okp, detail = mod.predicate(c, o)
            except Exception as e:
                okp, detail = False, "predicate raised %r" % (e,)
            if not okp:
                # the detail keeps its form (finding_of attributes known findings by it); the environment travels in the case
                failing.append((dict(c, _env=xenv), o, detail, hashseeds[0]))
    log("[%s] %d evaluations, %d disagreements, %d legacy-agreements, %d predicate failures, %d skipped"
        % (pid, evaluations, len(disagreements), len(legacy_hits), len(failing), skipped))

    if extra_future is not None:
        try:
            take_extra(extra_future.result())
        except Exception as e:  # fail closed
            take_extra({"obligations": 1, "discharged": 0, "problems": ["regenerated obligations could not be run: %r" % (e,)]})

    # ---- 3. verdict -----------------------------------------------------------------------
    shrink_hs = [hashseeds[0]]

    shrink_env = [None]

    def fails_now(case):
        o = run_impl(modname, [case], hashseed=shrink_hs[0], extra_env=shrink_env[0])[0]
        okp, _ = mod.predicate(case, o)
        return not okp

    reported = set()
    for c, o, detail, hs in failing:
        fid = None
        fo = getattr(mod, "finding_of", None)
        if fo is not None:
            fid = fo(c, o, detail)
        if fid is not None and fid in open_findings:
            known_hits.setdefault(fid, (c, o, detail))
            continue
        key = detail.split(":")[0]
        if key in reported:
            continue
        reported.add(key)
        small = c
        try:
            shrink_hs[0] = hs          # shrink under the hash seed / environment the failure was seen with
            shrink_env[0] = c.get("_env")
            small = shrink(mod, {k: v for k, v in c.items() if k != "_env"}, fails_now)
        except Exception:
            small = c
        try:
            so = run_impl(modname, [small], hashseed=hs, extra_env=c.get("_env"))[0]
            _, sdetail = mod.predicate(small, so)
        except Exception:
            so, sdetail = o, detail
        if c.get("_env"):
            detail = "%s [under %s]" % (detail, ",".join("%s=%s" % kv for kv in sorted(c["_env"].items())))
        violations.append(("input", detail, {
            "property": pid, "kind": "failing-input", "case": small, "original_case": c, "impl_output": so,
            "spec_detail": sdetail, "hashseed": hs, "env": c.get("_env"),
            "how_to_replay": "./check %s --replay <this file>" % pid}))

    broken = []
    if not proof_ok:
        broken.append("proof obligations: " + " | ".join(problems)[:2000])
    # a legacy agreement that is not an open finding is a regression of a repaired defect;
    # the predicate normally flags those inputs as failing already
    real_dis = [d for d in disagreements]
    for c, o, v, hs in legacy_hits:
        fid = v.split(":", 1)[1] if ":" in v else ""
        if fid in open_findings:
            known_hits.setdefault(fid, (c, o, v))
        else:
            real_dis.append((c, o, "disagree:agrees-with-refuted-legacy-model:" + fid, hs))
    if real_dis:
        broken.append("correspondence: %d disagreement(s), first: %s" % (len(real_dis), real_dis[0][2]))
    # The modelled source differs from the tree the models were validated against (harness/source_baseline.json): proofs
    # and correspondence may still hold, but the generators were tuned on the old code, so the failing-input search runs
    # anyway, with a larger stream.  It can only add a VIOLATION that comes with a concrete failing input.
    changed = None if replay else changed_sources(pid)
    escalate = bool(changed) and not [v for v in violations if v[0] == "input"]
    if escalate:
        log("[%s] source changed since the models were validated (%s): running the failing-input search" % (pid, ", ".join(changed)))
    if (broken or escalate) and not [v for v in violations if v[0] == "input"]:
        # search for a concrete failing input: the spec predicate on a fresh stream
        found = None
        sg = getattr(mod, "search_generate", None)
        n_search = 400 if tier == "quick" else 4000
        if escalate:
            n_search = int(os.environ.get("VERIF_ESCALATE_N", "1500" if tier == "quick" else "6000"))
        # rounds of fresh inputs until a failing one is found, the stream is used up, or (escalation) the time budget ends
        budget = float(os.environ.get("VERIF_SEARCH_SECONDS", "150" if tier == "quick" else "900"))
        t_search = time.time()
        rounds, searched = 0, 0
        while found is None:
            rounds += 1
            extra = sg(rng, n_search) if sg else mod.generate(rng, "thorough" if tier == "thorough" else "quick")
            pool = ([d[0] for d in real_dis] if rounds == 1 else []) + extra
            for i, c in enumerate(pool):
                c["_id"] = i
            for hs in hashseeds:
                try:
                    outs = run_impl(modname, pool, hashseed=hs)
                except Exception as e:
                    notes.append("search run failed: %s" % e)
                    break
                searched += len(pool)
                for c, o in zip(pool, outs):
                    try:
                        okp, detail = mod.predicate(c, o)
                    except Exception as e:
                        okp, detail = False, "predicate raised %r" % (e,)
                    if not okp:
                        fo = getattr(mod, "finding_of", None)
                        fid = fo(c, o, detail) if fo else None
                        if fid is not None and fid in open_findings:
                            known_hits.setdefault(fid, (c, o, detail))
                            continue
                        found = (c, o, detail, hs)
                        break
                if found:
                    break
            if found or rounds >= 6 or time.time() - t_search > budget or (notes and "search run failed" in notes[-1]):
                break
        notes.append("failing-input search: %d round(s), %d evaluations, %.0fs%s" % (
            rounds, searched, time.time() - t_search, " (source changed since baseline)" if escalate else ""))
        if found:
            c, o, detail, hs = found
            small = c
            try:
                small = shrink(mod, c, fails_now)
                so = run_impl(modname, [small], hashseed=hs)[0]
                _, sdetail = mod.predicate(small, so)
            except Exception:
                so, sdetail = o, detail
            violations.append(("input", detail, {
                "property": pid, "kind": "failing-input", "case": small, "original_case": c,
                "impl_output": so, "spec_detail": sdetail, "hashseed": hs, "also_broken": broken}))
        elif broken:
            first = None
            if real_dis:
                c, o, v, hs = real_dis[0]
                first = {"case": c, "impl_output": o, "verdict": v, "hashseed": hs}
            violations.append(("nofail", "; ".join(broken)[:300], {
                "property": pid, "kind": "no-failing-input-found", "broken": broken,
                "first_disagreement": first,
                "case": first["case"] if first else None,
                "hashseed": first["hashseed"] if first else None,
                "searched": searched}))

    # ---- 4. evidence + output ---------------------------------------------------------------
    for fid, (c, o, detail) in known_hits.items():
        print("KNOWN-FINDING: property=%s %s [%s] e.g. %s" % (
            pid, open_findings[fid].get("what", fid), fid, json.dumps({k: v for k, v in c.items() if k != "_id"})[:200]))
    exit_code = 0
    for kind, text, payload in violations:
        path = write_replay(pid, payload)
        tail = " no-failing-input-found" if kind == "nofail" else ""
        log("[%s] %s" % (pid, text))
        print("VIOLATION property=%s replay=%s%s" % (pid, path, tail))
        exit_code = 1
    ev = {
        "property_id": pid, "tier": tier, "seed": int(seed), "level": "proof",
        "coverage": {
            "obligations": n_obl, "discharged": n_dis,
            "checker_cmd": "cd /verif/coq && make (full .vo build) ; coqc -R /verif/coq Persim Properties/%s.v with Print Assumptions under every theorem; generated case files under .work/%s compiled by coqc (vm_compute / interval)" % (pid, pid),
            "trusted_base": list(mod.TRUSTED_BASE),
            "theorems": list(mod.THEOREMS),
            "axioms_by_theorem": {k: v for k, v in axioms.items()},
            "evaluations": evaluations, "distinct_nontrivial": len(nontriv),
            "rule": mod.RULE, "samples": samples[:4],
            "class_histogram": cls_hist,
            "hashseeds": hashseeds,
            "model_disagreements": len(disagreements), "legacy_agreements": len(legacy_hits),
            "predicate_failures": len(failing), "skipped_model_runs": skipped,
            "known_findings_seen": sorted(known_hits), "coq_case_wall_s": round(coq_wall, 1),
            "proof_problems": problems,
        },
        "assumptions": list(getattr(mod, "ASSUMPTIONS", [])),
        "wall_s": round(time.time() - t0, 2),
        "violations": len(violations),
    }
    ev["coverage"]["source_changed_since_baseline"] = changed
    if extra_info:
        ev["coverage"]["regenerated"] = {k: v for k, v in extra_info.items() if k != "problems"}
    if notes:
        ev["coverage"]["notes"] = notes
    if not replay and os.environ.get("VERIF_KEEP_EVIDENCE") != "1":
        EVID.mkdir(exist_ok=True)
        (EVID / (pid + ".json")).write_text(json.dumps(ev, indent=1, default=str))
    log("[%s] %s tier done in %.1fs: %s" % (pid, tier, time.time() - t0, "OK" if exit_code == 0 else "VIOLATION"))
    return exit_code
