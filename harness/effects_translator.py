"""C19 - translator from the current persim source tree to the effect IR of coq/Model/EffectIR.v.

FAIL-CLOSED: every Python construct and every call target that is not handled explicitly below
becomes an ``Opaque`` statement, and ``pure_ok`` rejects every program that contains one.

What is trusted here (DESIGN.md section 7, "C19's translator and its table"):
  * the SSA-like renaming of local variables (a re-assigned name gets a new IR variable; names
    assigned inside a loop / try region flow into one merge variable for the whole region);
  * the inlining of persim-internal calls (every candidate when a method is called on a receiver
    of unknown class; recursion is cut with Opaque);
  * the tables EXT_FUNCS / EXT_METHODS / ATTR_* of NumPy / SciPy / matplotlib / stdlib effect
    summaries and CALLABLE_VARS (user-supplied weight / kernel callables are assumed pure and are
    resolved to persim's own weight / kernel functions).

Object model (see EffectIR.v): a view is its base object (Alias); "x[i]", iteration and unpacking
give something that is a view of x OR an element of x (Alias + Load elem); containers and
instances hold references in fields (Store); ``self`` is the only unprotected parameter; every
other parameter, every module-level variable and every non-constant default value is protected.
For a method the body also contains the Alias/Load/Store statements (not the writes) of every
other method of the class with the same ``self``, their parameters protected as well: whatever an
earlier call stored into the estimator is known to the analysis ("ghost prelude").
"""
from __future__ import annotations

import ast
import os
import warnings
from pathlib import Path

ELEM = "<elem>"

# ------------------------------------------------------------------------------------------------
# effect summaries of external call targets.  Each summary is a string of space separated items:
#   fresh        result is a new object sharing nothing with the arguments
#   alias:N      result may be (a view of) positional argument N   (recv = receiver for methods)
#   elems        result is a new container holding the elements of every positional argument
#   elem:N       result is one of the elements of argument N
#   zip          result is a new container of new tuples holding elements of each argument
#   mut:N        writes into argument N
#   absorb:N:M   container N now holds argument M          absorbe:N:M  ... the elements of M
#   key          a key=/callable argument given as a persim function / lambda is called on elements
#   rand         draws from NumPy's global RNG
#   kwout        an out= keyword argument is written
PURE = "fresh"
EXT_FUNCS = {}


def _reg(summary, *names):
    for n in names:
        for m in n.split():
            EXT_FUNCS[m] = summary


_reg(PURE + " kwout",
     "numpy.array numpy.copy numpy.zeros numpy.ones numpy.linspace numpy.arange numpy.abs numpy.maximum "
     "numpy.minimum numpy.sqrt numpy.exp numpy.log numpy.cos numpy.sin numpy.arcsin numpy.sum numpy.max "
     "numpy.min numpy.any numpy.all numpy.isfinite numpy.isinf numpy.unique numpy.sort numpy.argmax "
     "numpy.argmin numpy.where numpy.outer numpy.dot numpy.multiply numpy.divide numpy.cumsum "
     "numpy.logical_and numpy.vstack numpy.concatenate numpy.column_stack numpy.meshgrid numpy.pad "
     "numpy.delete numpy.interp numpy.ceil numpy.prod numpy.tril_indices numpy.triu_indices_from "
     "numpy.iinfo numpy.issubdtype numpy.ma.masked_less numpy.float64 numpy.float32 "
     "numpy.int8 numpy.int16 numpy.int32 numpy.int64 numpy.uint numpy.integer numpy.mean numpy.floor "
     "numpy.power numpy.square numpy.isnan numpy.hstack numpy.stack numpy.zeros_like numpy.ones_like "
     "numpy.empty numpy.full numpy.argsort numpy.append numpy.clip numpy.nan_to_num "
     "numpy.expm1 numpy.log1p numpy.log2 numpy.log10 numpy.tan numpy.arctan numpy.sign numpy.hypot "
     "numpy.errstate numpy.count_nonzero numpy.isclose numpy.allclose numpy.array_equal numpy.amax numpy.amin")
_reg(PURE + " kwout",
     "numpy.add numpy.subtract numpy.negative numpy.absolute numpy.fabs numpy.true_divide numpy.floor_divide numpy.mod "
     "numpy.fmax numpy.fmin numpy.arctan2 numpy.logical_or numpy.logical_not numpy.greater numpy.less numpy.equal "
     "numpy.not_equal numpy.greater_equal numpy.less_equal numpy.rint numpy.trunc numpy.tanh numpy.cosh numpy.sinh "
     "numpy.arccos numpy.deg2rad numpy.rad2deg numpy.empty_like numpy.full_like numpy.eye numpy.identity numpy.diag "
     "numpy.tile numpy.repeat numpy.linalg.norm numpy.median numpy.percentile numpy.quantile numpy.nanmax numpy.nanmin "
     "numpy.nansum numpy.std numpy.var numpy.searchsorted numpy.digitize numpy.histogram numpy.round numpy.around "
     "numpy.isscalar numpy.ndim numpy.shape numpy.size numpy.lexsort numpy.take numpy.nonzero numpy.flatnonzero "
     "numpy.argwhere numpy.triu numpy.tril numpy.triu_indices numpy.tril_indices_from numpy.diff numpy.cross "
     "numpy.matmul numpy.einsum numpy.trace numpy.float16 numpy.bool_ numpy.complex128 numpy.finfo numpy.isreal")
_reg("fresh alias:0", "numpy.flip numpy.fliplr numpy.flipud numpy.real numpy.imag numpy.diagonal numpy.expand_dims "
     "numpy.moveaxis numpy.swapaxes numpy.broadcast_to numpy.rot90 numpy.asfarray numpy.array_split2")
_reg("elems", "numpy.split numpy.array_split numpy.hsplit numpy.vsplit numpy.atleast_3d")
_reg("fresh alias:0", "numpy.asarray numpy.reshape numpy.ravel numpy.squeeze numpy.atleast_2d numpy.atleast_1d "
     "numpy.transpose numpy.asanyarray numpy.ascontiguousarray")
_reg("elems", "numpy.broadcast_arrays")          # returns views of its arguments
_reg("fresh mut:0", "numpy.fill_diagonal")
_reg("fresh rand", "numpy.random.permutation numpy.random.choice numpy.random.rand numpy.random.randn "
     "numpy.random.randint numpy.random.random numpy.random.uniform numpy.random.normal numpy.random.seed")
_reg("fresh mut:0 rand", "numpy.random.shuffle")
_reg(PURE, "copy.deepcopy")
_reg("elems", "copy.copy")
_reg(PURE, "scipy.spatial.distance.cdist scipy.spatial.distance.cityblock scipy.optimize.linear_sum_assignment "
     "scipy.sparse.issparse scipy.sparse.csgraph.shortest_path scipy.sparse.csgraph.connected_components "
     "scipy.special.erfc scipy.stats.norm.cdf scipy.stats.multivariate_normal.pdf")
_reg(PURE, "bisect.bisect_left warnings.warn pprint.pformat os.environ.get os.getenv")
_reg("fresh purefn", "operator.itemgetter operator.attrgetter")
_reg("fresh elem:0", "<purefn>")
_reg(PURE, "hopcroftkarp.HopcroftKarp")          # reads the dict of sets it is given
_reg("elems", "itertools.chain.from_iterable2")  # placeholder, real entry below
_reg("chain", "itertools.chain.from_iterable")
_reg("zip", "itertools.zip_longest itertools.product builtins.zip")
_reg(PURE, "matplotlib.pyplot.gca matplotlib.pyplot.gcf matplotlib.pyplot.figure matplotlib.pyplot.plot "
     "matplotlib.pyplot.show matplotlib.pyplot.title matplotlib.pyplot.savefig matplotlib.pyplot.get_cmap "
     "matplotlib.pyplot.style.use matplotlib.colors.Normalize matplotlib.cm.ScalarMappable "
     "matplotlib.collections.LineCollection")
_reg("fresh nocall", "builtins.isinstance builtins.callable builtins.print builtins.repr builtins.str builtins.id")
_reg("global nocall", "builtins.type builtins.globals builtins.vars")
_reg(PURE, "builtins.len builtins.range builtins.int builtins.float builtins.abs "
     "builtins.bool builtins.all builtins.any "
     "builtins.sum builtins.round builtins.hasattr "
     "builtins.ValueError builtins.TypeError builtins.Exception builtins.NotImplementedError "
     "builtins.IndexError builtins.StopIteration builtins.AttributeError builtins.KeyError "
     "builtins.RuntimeError builtins.DeprecationWarning builtins.UserWarning")
_reg("elems key", "builtins.list builtins.tuple builtins.sorted builtins.set builtins.reversed builtins.frozenset "
     "builtins.iter builtins.filter")
_reg("enumerate", "builtins.enumerate")
_reg("fresh elems", "builtins.dict")
_reg("minmax key", "builtins.min builtins.max")
_reg("elem:0", "builtins.next")
_reg("getattr", "builtins.getattr")
_reg("fresh alias:0", "joblib.delayed")          # delayed(f) is f; Parallel(...)(gen) evaluates gen
_reg("parallel", "joblib.Parallel")

# methods called on a receiver whose class is not known.  The name alone selects the summary, so
# only names whose meaning is the same on list / dict / ndarray / matplotlib objects are listed.
EXT_METHODS = {}


def _regm(summary, names):
    for m in names.split():
        EXT_METHODS[m] = summary


_regm("fresh mut:recv absorb:recv:0", "append add")
_regm("fresh mut:recv absorbe:recv:0", "extend update")
_regm("fresh mut:recv absorb:recv:1", "insert setdefault")
_regm("elem:recv mut:recv", "pop popitem")
_regm("fresh mut:recv key", "sort")
_regm("fresh mut:recv", "reverse clear remove fill resize itemset put partition setflags byteswap_inplace")
_regm("fresh elems:recv", "copy")
_regm("fresh", "astype flatten dot min max sum mean any all argmin argmax argsort cumsum tolist "
      "format join split strip startswith endswith lower upper index count round std var prod nonzero "
      "conj conjugate tobytes item issubset isdisjoint")
_regm("fresh alias:recv", "reshape ravel squeeze transpose view swapaxes")
# scipy.sparse format conversions: the same matrix when it already has that format
_regm("fresh alias:recv", "tocsr tocsc tocoo tolil todok tobsr asformat")
_regm("fresh", "toarray todense")
_regm("fresh mut:recv", "eliminate_zeros sum_duplicates sort_indices prune setdiag")
_regm("elems:recv", "items keys values")
_regm("elem:recv", "get")
# matplotlib Axes / Figure / Axis methods: read their arguments
_regm("fresh", "plot scatter set_xlim set_ylim get_xlim get_ylim set_xlabel set_ylabel set_zlabel set_title "
      "set_aspect legend axis imshow matshow add_collection get_position get_xaxis get_yaxis set_ticks "
      "add_subplot margins view_init to_rgba maximum_matching cdf pdf")

ATTR_VIEW = {"T", "real", "imag", "flat", "data", "base"}            # x.attr is a view of x
ATTR_FRESH = {"shape", "size", "ndim", "dtype", "__name__", "inf", "pi", "newaxis", "nan", "e",
              "width", "height", "bbox_inches"}                         # immutable / new values
ATTR_STORE_MUTATES = {"shape", "dtype", "flags", "data", "real", "imag", "flat", "strides", "writeable"}

# variables holding user-supplied callables: (module, function, variable) -> persim functions that
# stand for them (assumption: user-supplied weight / kernel callables do not write their arguments)
CALLABLE_VARS = {
    ("images", "_transform", "weight"): [("images_weights", "persistence"), ("images_weights", "linear_ramp")],
    ("images", "_transform", "kernel"): [("images_kernels", "gaussian"), ("images_kernels", "uniform")],
}
# attributes of self that hold such callables (called as self.attr(...))
CALLABLE_ATTRS = {
    "weight": [("images_weights", "persistence"), ("images_weights", "linear_ramp")],
    "kernel": [("images_kernels", "gaussian"), ("images_kernels", "uniform")],
}
BINOP_DUNDER = {ast.Add: ("__add__", "__radd__"), ast.Sub: ("__sub__", "__rsub__"),
                ast.Mult: ("__mul__", "__rmul__"), ast.Div: ("__truediv__", "__rtruediv__")}
UFUNC1 = set("abs sqrt exp log cos sin arcsin ceil floor isfinite isinf isnan square expm1 log1p log2 log10 tan arctan sign "
             "imag real conj negative absolute fabs rint".split())
UFUNC2 = set("maximum minimum multiply divide power logical_and logical_or hypot add subtract true_divide floor_divide "
             "mod fmax fmin arctan2".split())
MANY_POS_OK = set("linspace meshgrid arange interp where delete pad full column_stack broadcast_arrays".split())
MAX_DEPTH = 12
GUARD_ENV = "PERSIM_VERIF"


# ------------------------------------------------------------------------------------------------
class FuncInfo:
    def __init__(self, module, node, cls=None):
        self.module, self.node, self.cls = module, node, cls
        self.name = node.name
        decos = [ast.unparse(d) for d in node.decorator_list]
        self.static = "staticmethod" in decos
        self.is_prop = "property" in decos
        self.setter_of = next((d.split(".")[0] for d in decos if d.endswith(".setter")), None)

    @property
    def qual(self):
        return "%s.%s%s" % (self.module.name, (self.cls.name + ".") if self.cls else "", self.name)


class ClassInfo:
    def __init__(self, module, node):
        self.module, self.node, self.name = module, node, node.name
        self.methods, self.props, self.setters = {}, {}, {}
        self.bases = [ast.unparse(b) for b in node.bases]
        for st in node.body:
            if isinstance(st, ast.FunctionDef):
                fi = FuncInfo(module, st, self)
                if fi.setter_of:
                    self.setters[fi.setter_of] = fi
                elif fi.is_prop:
                    self.props[st.name] = fi
                else:
                    self.methods[st.name] = fi


class ModuleInfo:
    def __init__(self, name, path, relpath):
        self.name, self.path, self.relpath = name, path, relpath
        with warnings.catch_warnings():
            warnings.simplefilter('ignore')
            self.tree = ast.parse(Path(path).read_text())
        self.funcs, self.classes, self.imports, self.globals, self.all = {}, {}, {}, set(), None
        self.pkg = "persim.landscapes" if "landscapes" in relpath else "persim"
        for st in self.tree.body:
            if isinstance(st, ast.FunctionDef):
                self.funcs[st.name] = FuncInfo(self, st)
            elif isinstance(st, ast.ClassDef):
                self.classes[st.name] = ClassInfo(self, st)
            elif isinstance(st, (ast.Import, ast.ImportFrom)):
                self.add_import(st, self.imports)
            elif isinstance(st, (ast.Assign, ast.AnnAssign, ast.AugAssign)):
                tg = st.targets if isinstance(st, ast.Assign) else [st.target]
                for t in tg:
                    for n in ast.walk(t):
                        if isinstance(n, ast.Name):
                            if n.id == "__all__" and isinstance(st, ast.Assign):
                                try:
                                    self.all = list(ast.literal_eval(st.value))
                                except Exception:
                                    pass
                            else:
                                self.globals.add(n.id)

    def add_import(self, st, table):
        if isinstance(st, ast.Import):
            for a in st.names:
                if a.asname:
                    table[a.asname] = ("ext", a.name)
                else:
                    table[a.name.split(".")[0]] = ("ext", a.name.split(".")[0])
        else:
            mod = st.module or ""
            if st.level:                      # relative import inside persim
                base = self.pkg.split(".")
                base = base[:len(base) - (st.level - 1)]
                full = ".".join(base + ([mod] if mod else []))
            else:
                full = mod
            for a in st.names:
                nm = a.asname or a.name
                if full == "persim" or full.startswith("persim."):
                    table[nm] = ("persim", full, a.name)
                else:
                    table[nm] = ("ext", full + "." + a.name)


class Index:
    def __init__(self, repo):
        self.repo = repo
        root = Path(repo) / "persim"
        self.modules = {}
        for p in sorted(root.rglob("*.py")):
            rel = str(p.relative_to(Path(repo)))
            if p.name in ("__init__.py", "_version.py"):
                continue
            self.modules[p.stem if p.parent == root else "landscapes." + p.stem] = ModuleInfo(p.stem, str(p), rel)
        self.method_names = {}
        self.prop_names = {}
        self.class_attrs = set()
        for m in self.modules.values():
            for c in m.classes.values():
                for st in c.node.body:
                    if isinstance(st, (ast.Assign, ast.AnnAssign, ast.AugAssign)):
                        for t in (st.targets if isinstance(st, ast.Assign) else [st.target]):
                            for n in ast.walk(t):
                                if isinstance(n, ast.Name):
                                    self.class_attrs.add(n.id)
        for m in self.modules.values():
            for c in m.classes.values():
                for n, fi in c.methods.items():
                    self.method_names.setdefault(n, []).append(fi)
                for n, fi in c.props.items():
                    self.prop_names.setdefault(n, []).append(fi)

    def module_by_full(self, full):
        # "persim.images_kernels" / "persim.landscapes.exact" / "persim"
        tail = full[len("persim"):].lstrip(".")
        return self.modules.get(tail)

    def find_module(self, short):
        for k, m in self.modules.items():
            if m.name == short:
                return m
        return None

    def find_class(self, name):
        for m in self.modules.values():
            if name in m.classes:
                return m.classes[name]
        return None

    def mro(self, cls):
        out, todo = [], [cls]
        while todo:
            c = todo.pop(0)
            if c in out:
                continue
            out.append(c)
            for b in c.bases:
                bc = self.find_class(b.split(".")[-1])
                if bc:
                    todo.append(bc)
        return out

    def lookup_method(self, cls, name, skip_self=False):
        for c in self.mro(cls)[1 if skip_self else 0:]:
            if name in c.methods:
                return c.methods[name]
        return None


class Val:
    __slots__ = ("v", "funcs", "ns")

    def __init__(self, v, funcs=(), ns=False):
        # ns: definitely not a Python sequence (a number / ndarray / bool), so + and * on it are numeric
        self.v, self.funcs, self.ns = v, tuple(funcs), ns


class Scope:
    def __init__(self, tr, module, func=None, cls=None, self_val=None, parent=None):
        self.tr, self.module, self.func, self.cls, self.self_val, self.parent = tr, module, func, cls, self_val, parent
        self.env = {}
        self.imports = {}
        self.sinks = []          # list of dict name -> merge variable (regions: loops, try)
        self.ret = tr.new("ret")
        self.ret_funcs = []
        self.self_name = None
        self.quiet = False


class Translator:
    """Translates one entry point."""

    def __init__(self, index):
        self.ix = index
        self.stmts = []
        self.nv = 0
        self.hints = {}
        self.fields = {ELEM: 1}
        self.prot, self.unprot = [], []
        self.opaque_reasons = []
        self.stack = []
        self.quiet = 0           # >0: ghost prelude, writes are dropped
        self.glob = None
        self.ext_targets = set()
        self.shared = {}
        self.late_getattr = []
        self.where = ''

    # ---- IR emission
    def new(self, hint="t"):
        self.nv += 1
        self.hints[self.nv] = "%s@%s" % (hint, self.where)
        return self.nv

    def field(self, name):
        if name not in self.fields:
            self.fields[name] = len(self.fields) + 1
        return self.fields[name]

    def emit(self, kind, *a):
        if self.quiet:
            # ghost prelude (statements of the OTHER methods of the class): writes are checked by those
            # methods' own obligations; here only their flows matter
            if kind in ("Mutate", "Opaque"):
                return
            if kind == "Rand":
                kind = "Fresh"
            elif kind == "Store":
                kind = "GStore"
        self.stmts.append((kind,) + a)

    def fresh(self, hint="t", funcs=(), ns=False):
        v = self.new(hint)
        self.emit("Fresh", v)
        return Val(v, funcs, ns)

    def opaque(self, why, vals=()):
        self.opaque_reasons.append(why)
        v = self.new("opaque")
        self.emit("Fresh", v)
        self.emit("Opaque", v)
        for x in vals:
            self.emit("Opaque", x.v)
        return Val(v)

    def protected_global(self):
        if self.glob is None:
            self.glob = self.new("module_state")
            self.prot.append(self.glob)
        return self.glob

    def elem_of(self, val, hint="el"):
        t = self.new(hint)
        self.emit("Alias", t, val.v)
        self.emit("Load", t, val.v, self.field(ELEM))
        return Val(t)

    def container(self, items, hint="box"):
        r = self.fresh(hint)
        for it in items:
            self.emit("Store", r.v, self.field(ELEM), it.v)
        return r

    # ---- names
    def lookup(self, sc, name):
        s = sc
        while s is not None:
            if name in s.env:
                return s.env[name]
            s = s.parent
        return None

    def resolve_global(self, sc, name):
        """A module-level / imported / builtin name, as a Val with ``funcs`` when callable."""
        s = sc
        while s is not None:
            if name in s.imports:
                return self.import_val(s.imports[name])
            s = s.parent
        m = sc.module
        if name in m.funcs:
            return self.fresh(name, [("func", m.funcs[name], None)])
        if name in m.classes:
            return self.fresh(name, [("class", m.classes[name])])
        if name in m.imports:
            return self.import_val(m.imports[name])
        if name in m.globals:
            return Val(self.protected_global())
        import builtins
        if hasattr(builtins, name):
            return self.fresh(name, [("ext", "builtins." + name)])
        return self.opaque("unknown name %s in %s" % (name, m.name))

    def import_val(self, ent):
        if ent[0] == "ext":
            return self.fresh(ent[1], [("ext", ent[1])])
        _, full, nm = ent
        mod = self.ix.module_by_full(full)
        if mod is not None:
            if nm in mod.funcs:
                return self.fresh(nm, [("func", mod.funcs[nm], None)])
            if nm in mod.classes:
                return self.fresh(nm, [("class", mod.classes[nm])])
            if nm in mod.globals:
                return Val(self.protected_global())
        sub = self.ix.module_by_full(full + "." + nm)
        if sub is not None:
            return self.fresh(nm, [("module", sub)])
        c = self.ix.find_class(nm)
        if c is not None:
            return self.fresh(nm, [("class", c)])
        return self.opaque("unresolved persim import %s.%s" % (full, nm))

    def bind(self, sc, name, val, hint=None):
        v = self.new(hint or name)
        self.emit("Alias", v, val.v)
        nv = Val(v, val.funcs, val.ns)
        sc.env[name] = nv
        s = sc
        for sink in sc.sinks:
            if name in sink:
                self.emit("Alias", sink[name].v, v)
                if val.funcs:
                    sink[name].funcs = tuple(set(sink[name].funcs) | set(val.funcs))
        return nv

    # ---- expressions
    def ev(self, sc, e):
        m = getattr(self, "ev_" + type(e).__name__, None)
        if m is None:
            return self.opaque("expression %s at %s:%d" % (type(e).__name__, sc.module.name, getattr(e, "lineno", 0)))
        return m(sc, e)

    def ev_Constant(self, sc, e):
        return self.fresh("const", ns=isinstance(e.value, (int, float, complex, bool)) or e.value is None)

    def ev_JoinedStr(self, sc, e):
        for v in e.values:
            if isinstance(v, ast.FormattedValue):
                self.ev(sc, v.value)
        return self.fresh("fstr")

    def ev_Name(self, sc, e):
        v = self.lookup(sc, e.id)
        if v is not None:
            return v
        return self.resolve_global(sc, e.id)

    def ev_Tuple(self, sc, e):
        items = []
        for x in e.elts:
            if isinstance(x, ast.Starred):
                items.append(self.elem_of(self.ev(sc, x.value)))
            else:
                items.append(self.ev(sc, x))
        return self.container(items, "seq")

    ev_List = ev_Tuple
    ev_Set = ev_Tuple

    def ev_Dict(self, sc, e):
        items = []
        for k, v in zip(e.keys, e.values):
            if k is None:
                items.append(self.elem_of(self.ev(sc, v)))
            else:
                self.ev(sc, k)
                items.append(self.ev(sc, v))
        return self.container(items, "dict")

    def ev_Compare(self, sc, e):
        self.ev(sc, e.left)
        for c in e.comparators:
            self.ev(sc, c)
        return self.fresh("cmp", ns=True)

    def ev_BoolOp(self, sc, e):
        vals = [self.ev(sc, x) for x in e.values]
        r = self.new("boolop")
        fs = set()
        for x in vals:
            self.emit("Alias", r, x.v)
            fs |= set(x.funcs)
        return Val(r, fs)

    def ev_IfExp(self, sc, e):
        self.ev(sc, e.test)
        a, b = self.ev(sc, e.body), self.ev(sc, e.orelse)
        r = self.new("ifexp")
        self.emit("Alias", r, a.v)
        self.emit("Alias", r, b.v)
        return Val(r, set(a.funcs) | set(b.funcs))

    def is_self(self, sc, e):
        return isinstance(e, ast.Name) and sc.self_name is not None and e.id == sc.self_name and self.lookup(sc, e.id) is sc.self_val

    def ev_UnaryOp(self, sc, e):
        if isinstance(e.op, ast.Not):
            self.ev(sc, e.operand)
            return self.fresh("not")
        v = self.ev(sc, e.operand)
        name = {ast.USub: "__neg__", ast.UAdd: "__pos__", ast.Invert: "__invert__"}[type(e.op)]
        if self.is_self(sc, e.operand) and sc.cls is not None:
            fi = self.ix.lookup_method(sc.cls, name)
            if fi is not None:
                return self.call_func(fi, [v], {}, None, None, e)
        return self.arith([v], seq=False)

    def arith(self, vals, seq=True):
        """Result of an arithmetic operator: a new object; for + and * (list concatenation / repetition)
        it holds the operands' elements.  Operators of persim's own landscape classes are entry points
        of their own."""
        r = self.fresh("arith", ns=True)
        if seq and any(v.ns for v in vals) and seq != "mult":
            seq = False          # list + number is a TypeError: numeric addition
        if seq == "mult" and all(v.ns for v in vals):
            seq = False
        if seq:
            r.ns = False
        for v in (vals if seq else []):
            t = self.new("opel")
            self.emit("Load", t, v.v, self.field(ELEM))
            self.emit("Store", r.v, self.field(ELEM), t)
        return r

    def ev_BinOp(self, sc, e):
        a, b = self.ev(sc, e.left), self.ev(sc, e.right)
        dn = BINOP_DUNDER.get(type(e.op))
        if dn and sc.cls is not None:
            if self.is_self(sc, e.left):
                fi = self.ix.lookup_method(sc.cls, dn[0])
                if fi is not None:
                    return self.call_func(fi, [a, b], {}, None, None, e)
            elif self.is_self(sc, e.right):
                fi = self.ix.lookup_method(sc.cls, dn[1])
                if fi is not None:
                    return self.call_func(fi, [b, a], {}, None, None, e)
        return self.arith([a, b], seq=(True if isinstance(e.op, ast.Add) else 'mult' if isinstance(e.op, ast.Mult) else False))

    def ev_Subscript(self, sc, e):
        base = self.ev(sc, e.value)
        self.ev_index(sc, e.slice)
        return self.elem_of(base, "sub")

    def ev_index(self, sc, s):
        if isinstance(s, ast.Slice):
            for p in (s.lower, s.upper, s.step):
                if p is not None:
                    self.ev(sc, p)
        elif isinstance(s, ast.Tuple):
            for x in s.elts:
                self.ev_index(sc, x)
        else:
            self.ev(sc, s)

    def ev_Starred(self, sc, e):
        return self.elem_of(self.ev(sc, e.value))

    def ev_Attribute(self, sc, e):
        # dotted external / module paths
        path = self.dotted(sc, e)
        if path is not None:
            return path
        base = self.ev(sc, e.value)
        return self.load_attr(sc, base, e.attr, e)

    def load_attr(self, sc, base, attr, node=None):
        if attr in ATTR_FRESH:
            return self.fresh(attr)
        if attr in ("__class__", "__dict__", "__globals__"):
            return Val(self.protected_global())
        r = self.new("attr_" + attr)
        self.emit("Load", r, base.v, self.field(attr))
        if attr in self.ix.class_attrs:
            self.emit("Alias", r, self.protected_global())     # class-level attribute: state shared by all instances
        if attr in ATTR_VIEW:
            self.emit("Alias", r, base.v)
        funcs = set()
        for fi in self.ix.prop_names.get(attr, []):      # property getter of a persim class
            rv = self.call_func(fi, [base], {}, None, None, node)
            self.emit("Alias", r, rv.v)
        return Val(r, funcs)

    def dotted(self, sc, e):
        """np.linalg.norm, plt.style.use, images_kernels.gaussian, np.inf ... -> Val, else None."""
        parts = []
        n = e
        while isinstance(n, ast.Attribute):
            parts.append(n.attr)
            n = n.value
        if not isinstance(n, ast.Name) or self.lookup(sc, n.id) is not None:
            return None
        root = self.resolve_global(sc, n.id) if (n.id in sc.module.imports or any(n.id in s.imports for s in self.scopes(sc))) else None
        if root is None or not root.funcs:
            return None
        kind = root.funcs[0]
        parts.reverse()
        if kind[0] == "ext":
            full = kind[1] + "." + ".".join(parts)
            if parts[-1] in ATTR_FRESH and full not in EXT_FUNCS:
                return self.fresh(full)
            return self.fresh(full, [("ext", full)])
        if kind[0] == "module":
            mod = kind[1]
            if len(parts) == 1:
                if parts[0] in mod.funcs:
                    return self.fresh(parts[0], [("func", mod.funcs[parts[0]], None)])
                if parts[0] in mod.classes:
                    return self.fresh(parts[0], [("class", mod.classes[parts[0]])])
                if parts[0] in mod.globals:
                    return Val(self.protected_global())
            return self.opaque("unresolved %s.%s" % (mod.name, ".".join(parts)))
        return None

    def scopes(self, sc):
        while sc is not None:
            yield sc
            sc = sc.parent

    def ev_Lambda(self, sc, e):
        return self.fresh("lambda", [("lambda", e, sc)])

    def comp(self, sc, e, elts):
        saved = dict(sc.env)
        for g in e.generators:
            it = self.ev(sc, g.iter)
            self.assign_target(sc, g.target, self.elem_of(it, "it"))
            for c in g.ifs:
                self.ev(sc, c)
        items = [self.ev(sc, x) for x in elts]
        r = self.container(items, "comp")
        sc.env = saved
        return r

    def ev_ListComp(self, sc, e):
        return self.comp(sc, e, [e.elt])

    ev_SetComp = ev_ListComp
    ev_GeneratorExp = ev_ListComp

    def ev_DictComp(self, sc, e):
        return self.comp(sc, e, [e.key, e.value])

    # ---- calls
    def ev_Call(self, sc, e):
        f = e.func
        # evaluate arguments
        def args():
            pos, star = [], []
            for a in e.args:
                if isinstance(a, ast.Starred):
                    star.append(self.elem_of(self.ev(sc, a.value), "star"))
                else:
                    pos.append(self.ev(sc, a))
            kw, dstar = {}, []
            for k in e.keywords:
                if k.arg is None:
                    dstar.append(self.elem_of(self.ev(sc, k.value), "dstar"))
                else:
                    kw[k.arg] = self.ev(sc, k.value)
            return pos, kw, star, dstar

        # super().m(...)
        if isinstance(f, ast.Attribute) and isinstance(f.value, ast.Call) and isinstance(f.value.func, ast.Name) \
                and f.value.func.id == "super" and sc_cls(sc) is not None:
            s = sc_self(sc)
            fi = self.ix.lookup_method(sc_cls(sc), f.attr, skip_self=True)
            pos, kw, star, dstar = args()
            if fi is None:
                return self.fresh("super_external")     # object.__init__ / sklearn mixin: nothing to do
            return self.call_func(fi, [s.self_val] + pos, kw, star, dstar, e)
        # Parallel(n_jobs=..)(generator)
        if isinstance(f, ast.Call):
            inner = self.ev(sc, f)
            pos, kw, star, dstar = args()
            if any(k == ("extres", "parallel") for k in inner.funcs):
                return self.container([self.elem_of(p) for p in pos], "parallel")
            if any(k[0] == "partial" for k in inner.funcs):   # delayed(f)(args)
                res = self.new("callres")
                for k in inner.funcs:
                    if k[0] == "partial":
                        r = self.apply(sc, k[1], pos, kw, star, dstar, e)
                        self.emit("Alias", res, r.v)
                return Val(res)
            return self.opaque("call of a call result at %s:%d" % (sc.module.name, e.lineno), pos + list(kw.values()))
        if isinstance(f, ast.Attribute):
            dv = self.dotted(sc, f)
            if dv is not None:
                pos, kw, star, dstar = args()
                return self.apply_all(sc, dv, pos, kw, star, dstar, e)
            # ClassName.method(...) (static / unbound)
            if isinstance(f.value, ast.Name) and self.lookup(sc, f.value.id) is None:
                c = sc.module.classes.get(f.value.id) or (self.ix.find_class(f.value.id) if f.value.id in sc.module.imports else None)
                if c is not None:
                    fi = self.ix.lookup_method(c, f.attr)
                    pos, kw, star, dstar = args()
                    if fi is None:
                        return self.opaque("no method %s.%s" % (c.name, f.attr), pos)
                    return self.call_func(fi, pos, kw, star, dstar, e)
            recv = self.ev(sc, f.value)
            pos, kw, star, dstar = args()
            return self.call_method(sc, recv, f.attr, pos, kw, star, dstar, e, self.is_self(sc, f.value))
        fv = self.ev(sc, f)
        pos, kw, star, dstar = args()
        if not fv.funcs and isinstance(f, ast.Name):
            key = (sc_module_name(sc), sc_func_name(sc), f.id)
            if key in CALLABLE_VARS:
                res = self.new("callres")
                for mn, fn in CALLABLE_VARS[key]:
                    mod = self.ix.find_module(mn)
                    if mod is None or fn not in mod.funcs:
                        return self.opaque("callable table target %s.%s missing" % (mn, fn), pos)
                    r = self.call_func(mod.funcs[fn], pos, kw, star, dstar, e)
                    self.emit("Alias", res, r.v)
                return Val(res)
        return self.apply_all(sc, fv, pos, kw, star, dstar, e)

    def apply_all(self, sc, fv, pos, kw, star, dstar, node):
        if not fv.funcs:
            return self.opaque("call of unknown callable %s at %s:%d" % (ast.unparse(node.func)[:40], sc.module.name, node.lineno),
                               pos + list(kw.values()))
        res = self.new("callres")
        funcs = set()
        for k in fv.funcs:
            r = self.apply(sc, k, pos, kw, star, dstar, node)
            self.emit("Alias", res, r.v)
            funcs |= set(r.funcs)
        return Val(res, funcs)

    def apply(self, sc, k, pos, kw, star, dstar, node):
        if k[0] == "func":
            return self.call_func(k[1], pos, kw, star, dstar, node, closure=k[2])
        if k[0] == "bound":
            return self.call_func(k[1], [k[2]] + pos, kw, star, dstar, node)
        if k[0] == "lambda":
            return self.call_lambda(k[1], k[2], pos, kw, star, dstar)
        if k[0] == "class":
            return self.instantiate(k[1], pos, kw, star, dstar, node)
        if k[0] == "ext":
            return self.call_ext(sc, k[1], EXT_FUNCS.get(k[1]), None, pos, kw, star, dstar, node)
        if k[0] == "partial":
            return self.apply(sc, k[1], pos, kw, star, dstar, node)
        return self.opaque("call of %r" % (k[0],), pos)

    def call_method(self, sc, recv, name, pos, kw, star, dstar, node, on_self):
        cands = []
        if on_self and sc_cls(sc) is not None:
            fi = self.ix.lookup_method(sc_cls(sc), name)
            if fi is not None:
                cands = [fi]
            elif name in CALLABLE_ATTRS:
                res = self.new("callres")
                for mn, fn in CALLABLE_ATTRS[name]:
                    mod = self.ix.find_module(mn)
                    if mod is None or fn not in mod.funcs:
                        return self.opaque("callable table target %s.%s missing" % (mn, fn), pos)
                    r = self.call_func(mod.funcs[fn], pos, kw, star, dstar, node)
                    self.emit("Alias", res, r.v)
                return Val(res)
        if not cands:
            cands = list(self.ix.method_names.get(name, []))
            if cands and name in EXT_METHODS:
                return self.opaque("method name %s is both a persim method and an external one (%s:%d)"
                                   % (name, sc.module.name, node.lineno), [recv] + pos)
        if cands:
            res = self.new("callres")
            fs = set()
            for fi in cands:
                if fi.static:
                    r = self.call_func(fi, pos, kw, star, dstar, node)
                else:
                    r = self.call_func(fi, [recv] + pos, kw, star, dstar, node)
                self.emit("Alias", res, r.v)
                fs |= set(r.funcs)
            return Val(res, fs)
        if name in EXT_METHODS:
            self.ext_targets.add("." + name)
            return self.call_ext(sc, "." + name, EXT_METHODS[name], recv, pos, kw, star, dstar, node)
        return self.opaque("unknown method .%s at %s:%d" % (name, sc.module.name, node.lineno), [recv] + pos + list(kw.values()))

    def call_ext(self, sc, name, summary, recv, pos, kw, star, dstar, node):
        if summary is None:
            return self.opaque("external call target %s not in the table (%s:%d)" % (name, sc.module.name, getattr(node, "lineno", 0)),
                               pos + list(kw.values()) + star + dstar + ([recv] if recv else []))
        self.ext_targets.add(name)
        allpos = pos + star
        if name.startswith("numpy.") and summary.split()[0] == "fresh":
            short = name.split(".")[-1]
            arity = 1 if short in UFUNC1 else 2 if short in UFUNC2 else None
            if arity is not None:
                for a in allpos[arity:]:          # positional out= of a ufunc
                    self.emit("Mutate", a.v)
                    summary = summary + " alias:%d" % allpos.index(a)
            elif len(allpos) > 3 and short not in MANY_POS_OK:
                return self.opaque("%s called with %d positional arguments (a positional out= is possible) at %s:%d"
                                   % (name, len(allpos), sc.module.name, getattr(node, "lineno", 0)), allpos)
        cp = next((k.value for k in getattr(node, "keywords", []) if k.arg == "copy"), None) if isinstance(node, ast.Call) else None
        if cp is not None and not (isinstance(cp, ast.Constant) and cp.value is True):
            # copy=False / copy=<expr>: the result may share memory with the argument
            summary = summary + (" alias:recv" if recv is not None else " alias:0")
            if name.endswith("nan_to_num"):
                summary += " mut:0"

        def arg(i):
            if i == "recv":
                return recv
            i = int(i)
            return allpos[i] if i < len(allpos) else None
        res = self.new("r_" + name.split(".")[-1])
        funcs = set()
        for item in summary.split():
            p = item.split(":")
            op = p[0]
            if op == "fresh":
                self.emit("Fresh", res)
            elif op == "rand":
                self.emit("Rand", res)
            elif op == "alias":
                a = arg(p[1])
                if a is not None:
                    self.emit("Alias", res, a.v)
                    if name == "joblib.delayed":
                        funcs |= {("partial", k) for k in a.funcs}
            elif op == "elems":
                self.emit("Fresh", res)
                srcs = [recv] if (len(p) > 1 and p[1] == "recv") else allpos + list(kw.values()) + dstar
                for a in srcs:
                    self.emit("Store", res, self.field(ELEM), self.elem_of(a).v)
            elif op == "chain":
                self.emit("Fresh", res)
                for a in allpos:
                    self.emit("Store", res, self.field(ELEM), self.elem_of(self.elem_of(a)).v)
            elif op == "elem":
                a = arg(p[1])
                if a is not None:
                    self.emit("Alias", res, self.elem_of(a).v)
                for a in allpos[1:]:            # next(it, default) / d.get(k, default)
                    self.emit("Alias", res, a.v)
                self.emit("Fresh", res)
            elif op == "zip":
                self.emit("Fresh", res)
                tup = self.fresh("ziptuple")
                self.emit("Store", res, self.field(ELEM), tup.v)
                for a in allpos:
                    self.emit("Store", tup.v, self.field(ELEM), self.elem_of(a).v)
                if "fillvalue" in kw:
                    self.emit("Store", tup.v, self.field(ELEM), kw["fillvalue"].v)
            elif op == "enumerate":
                self.emit("Fresh", res)
                tup = self.fresh("enumtuple")
                self.emit("Store", res, self.field(ELEM), tup.v)
                self.emit("Store", tup.v, self.field(ELEM), self.fresh("idx").v)
                for a in allpos[:1]:
                    self.emit("Store", tup.v, self.field(ELEM), self.elem_of(a).v)
            elif op == "minmax":
                self.emit("Fresh", res)
                for a in allpos:
                    self.emit("Alias", res, a.v)
                    if len(allpos) == 1:
                        self.emit("Alias", res, self.elem_of(a).v)
                if "default" in kw:
                    self.emit("Alias", res, kw["default"].v)
            elif op == "mut":
                a = arg(p[1])
                if a is not None:
                    self.emit("Mutate", a.v)
            elif op in ("absorb", "absorbe"):
                c, a = arg(p[1]), arg(p[2])
                if c is not None and a is not None:
                    self.emit("Store", c.v, self.field(ELEM), (a if op == "absorb" else self.elem_of(a)).v)
                if op == "absorbe" and c is not None:
                    for a in kw.values():
                        self.emit("Store", c.v, self.field(ELEM), a.v)
            elif op == "kwout":
                if "out" in kw:
                    self.emit("Mutate", kw["out"].v)
                    self.emit("Alias", res, kw["out"].v)
            elif op == "key":
                els = [self.elem_of(a) for a in ([recv] if recv is not None else allpos[:1])]
                for cb in [kw.get("key")] + ([allpos[0]] if name in ("builtins.filter", "builtins.map") else []):
                    if cb is None:
                        continue
                    for k in cb.funcs:
                        if k[0] in ("lambda", "func", "bound"):
                            self.apply(sc, k, els if name not in ("builtins.filter", "builtins.map") else [self.elem_of(a) for a in allpos[1:2]], {}, [], [], node)
                        elif k[0] != "ext":
                            self.opaque("callback %r given to %s" % (k[0], name))
                    if not cb.funcs:
                        self.opaque("unknown callback given to %s at %s:%d" % (name, sc.module.name, getattr(node, "lineno", 0)), [cb])
            elif op == "parallel":
                self.emit("Fresh", res)
                funcs.add(("extres", "parallel"))
            elif op == "getattr":
                nm = node.args[1] if isinstance(node, ast.Call) and len(node.args) >= 2 else None
                if isinstance(nm, ast.Constant) and isinstance(nm.value, str) and len(allpos) >= 2:
                    self.emit("Alias", res, self.load_attr(sc, allpos[0], nm.value, node).v)
                    for a in allpos[2:]:
                        self.emit("Alias", res, a.v)
                elif len(allpos) >= 2:
                    # attribute name computed at run time: any field of the object
                    for fname in list(self.fields):
                        if fname != ELEM:
                            self.emit("Load", res, allpos[0].v, self.field(fname))
                    self.late_getattr.append((res, allpos[0].v))
                    for a in allpos[2:]:
                        self.emit("Alias", res, a.v)
                else:
                    self.opaque("getattr with unexpected arguments")
            elif op == "purefn":
                funcs.add(("ext", "<purefn>"))
            elif op == "global":
                self.emit("Alias", res, self.protected_global())
            elif op == "nocall":
                pass
            else:
                self.opaque("bad summary item %s for %s" % (item, name))
        # any callable passed to an external function that is not a declared key= consumer
        if "key" not in summary.split() and "nocall" not in summary.split() and name not in ("joblib.delayed",):
            for a in allpos + list(kw.values()):
                if any(k[0] in ("lambda", "func", "bound") for k in a.funcs):
                    self.opaque("persim callable passed to external %s" % name, [a])
        ns = summary.split()[0] == "fresh" and all(i.split(":")[0] in ("fresh", "kwout", "nocall", "mut", "rand") for i in summary.split()) \
            and (name.startswith("numpy.") or name.startswith("scipy.") or name in ("builtins.len", "builtins.int", "builtins.float", "builtins.abs", "builtins.round", "builtins.bool"))
        return Val(res, funcs, ns)

    def instantiate(self, cls, pos, kw, star, dstar, node):
        obj = self.fresh("new_" + cls.name)
        init = self.ix.lookup_method(cls, "__init__")
        if init is not None:
            self.call_func(init, [obj] + pos, kw, star, dstar, node)
        return obj

    def call_lambda(self, lam, defsc, pos, kw, star, dstar):
        sc = Scope(self, defsc.module, defsc.func, defsc.cls, defsc.self_val, parent=defsc)
        sc.self_name = None
        self.bind_params(sc, lam.args, pos, kw, star, dstar, defsc)
        return self.ev(sc, lam.body)

    def bind_params(self, sc, a, pos, kw, star, dstar, defsc):
        params = list(a.posonlyargs) + list(a.args)
        defaults = [None] * (len(params) - len(a.defaults)) + list(a.defaults)
        pos = list(pos)
        kw = dict(kw)
        for p, d in zip(params, defaults):
            srcs = []
            if pos:
                srcs.append(pos.pop(0))
            elif p.arg in kw:
                srcs.append(kw.pop(p.arg))
            else:
                srcs += list(star) + list(dstar)
                if d is not None:
                    srcs.append(self.default_val(d))
                elif not srcs:
                    srcs.append(self.fresh("missing"))
            v = self.new(p.arg)
            fs = set()
            for s in srcs:
                self.emit("Alias", v, s.v)
                fs |= set(s.funcs)
            sc.env[p.arg] = Val(v, fs)
        for p, d in zip(a.kwonlyargs, a.kw_defaults):
            srcs = [kw.pop(p.arg)] if p.arg in kw else list(dstar) + ([self.default_val(d)] if d is not None else [])
            v = self.new(p.arg)
            for s in srcs:
                self.emit("Alias", v, s.v)
            sc.env[p.arg] = Val(v)
        if a.vararg:
            sc.env[a.vararg.arg] = self.container(pos + list(star), "varargs")
        elif pos:
            self.opaque("too many positional arguments")
        if a.kwarg:
            sc.env[a.kwarg.arg] = self.container(list(kw.values()) + list(dstar), "kwargs")
        elif kw:
            self.opaque("unexpected keyword arguments %s" % sorted(kw))

    def default_val(self, d):
        if isinstance(d, ast.Constant) or (isinstance(d, ast.UnaryOp) and isinstance(d.operand, ast.Constant)):
            return self.fresh("default")
        if isinstance(d, ast.Tuple) and all(isinstance(x, ast.Constant) for x in d.elts):
            return self.fresh("default")
        return Val(self.protected_global())      # mutable default: state shared between calls

    def call_func(self, fi, pos, kw, star, dstar, node, closure=None):
        if fi in self.stack or len(self.stack) >= MAX_DEPTH:
            return self.opaque("recursive / too deep call of %s" % fi.qual, pos)
        if self.quiet and closure is None and len(self.stack) >= 1:
            return self.call_shared(fi, pos, kw, star or [], dstar or [])
        self.stack.append(fi)
        try:
            self_val = None
            if fi.cls is not None and not fi.static and pos:
                self_val = pos[0]
            sc = Scope(self, fi.module, fi, fi.cls, self_val, parent=closure)
            self.bind_params(sc, fi.node.args, pos, kw, star or [], dstar or [], sc)
            if self_val is not None and fi.node.args.args:
                sc.self_name = fi.node.args.args[0].arg
                sc.env[sc.self_name] = self_val       # keep identity: ``self`` is never re-versioned
            self.block(sc, fi.node.body)
            return Val(sc.ret, sc.ret_funcs)
        finally:
            self.stack.pop()

    def call_shared(self, fi, pos, kw, star, dstar):
        """One context-insensitive instance per function, used only inside the ghost prelude."""
        inst = self.shared.get(fi)
        if inst is None:
            a = fi.node.args
            formals = {p.arg: Val(self.new("sh_" + p.arg)) for p in list(a.posonlyargs) + list(a.args) + list(a.kwonlyargs)}
            extra = Val(self.new("sh_extra"))
            inst = self.shared[fi] = [formals, extra, None]
            names = [p.arg for p in list(a.posonlyargs) + list(a.args)]
            fpos = [formals[n] for n in names]
            fkw = {p.arg: formals[p.arg] for p in a.kwonlyargs}
            self.stack.append(fi)
            try:
                self_val = fpos[0] if (fi.cls is not None and not fi.static and fpos) else None
                sc = Scope(self, fi.module, fi, fi.cls, self_val, parent=None)
                self.bind_params(sc, a, fpos, fkw, [extra] if a.vararg else [], [extra] if a.kwarg else [], sc)
                if self_val is not None:
                    sc.self_name = a.args[0].arg
                    sc.env[sc.self_name] = self_val
                self.block(sc, fi.node.body)
                inst[2] = Val(sc.ret, sc.ret_funcs)
            finally:
                self.stack.pop()
            # defaults flow into the formals as well
            params = list(a.posonlyargs) + list(a.args)
            for p, d in zip(params[len(params) - len(a.defaults):], a.defaults):
                self.emit("Alias", formals[p.arg].v, self.default_val(d).v)
            for p, d in zip(a.kwonlyargs, a.kw_defaults):
                if d is not None:
                    self.emit("Alias", formals[p.arg].v, self.default_val(d).v)
        formals, extra, ret = inst
        if ret is None:       # recursion inside the shared instance
            return self.fresh("shared_rec")
        names = [p.arg for p in list(fi.node.args.posonlyargs) + list(fi.node.args.args)]
        for i, v in enumerate(pos):
            self.emit("Alias", (formals[names[i]] if i < len(names) else extra).v, v.v)
        for k, v in kw.items():
            self.emit("Alias", (formals[k] if k in formals else extra).v, v.v)
        for v in list(star) + list(dstar):
            self.emit("Alias", extra.v, v.v)
            for f in formals.values():
                self.emit("Alias", f.v, v.v)
        return ret

    # ---- statements
    def block(self, sc, body):
        for st in body:
            self.where = "%s:%d" % (sc.module.name, st.lineno)
            m = getattr(self, "st_" + type(st).__name__, None)
            if m is None:
                self.opaque("statement %s at %s:%d" % (type(st).__name__, sc.module.name, st.lineno))
            else:
                m(sc, st)

    def st_Expr(self, sc, st):
        if isinstance(st.value, ast.Constant):
            return
        self.ev(sc, st.value)

    def st_Pass(self, sc, st):
        pass

    st_Break = st_Pass
    st_Continue = st_Pass

    def st_Import(self, sc, st):
        sc.module.add_import(st, sc.imports)

    st_ImportFrom = st_Import

    def st_Return(self, sc, st):
        if st.value is not None:
            v = self.ev(sc, st.value)
            fsc = sc
            self.emit("Alias", fsc.ret, v.v)
            fsc.ret_funcs = list(set(fsc.ret_funcs) | set(v.funcs))

    def st_Raise(self, sc, st):
        if st.exc is not None:
            self.ev(sc, st.exc)

    def st_Assert(self, sc, st):
        self.ev(sc, st.test)

    def st_Assign(self, sc, st):
        v = self.ev(sc, st.value)
        for t in st.targets:
            self.assign_target(sc, t, v)

    def st_AnnAssign(self, sc, st):
        if st.value is not None:
            self.assign_target(sc, st.target, self.ev(sc, st.value))

    def assign_target(self, sc, t, v):
        if isinstance(t, ast.Name):
            if t.id in sc.module.globals and self.lookup(sc, t.id) is None and getattr(sc, "declared_global", None) and t.id in sc.declared_global:
                self.opaque("assignment to module-level name %s" % t.id, [v])
            self.bind(sc, t.id, v)
        elif isinstance(t, (ast.Tuple, ast.List)):
            for x in t.elts:
                if isinstance(x, ast.Starred):
                    self.assign_target(sc, x.value, self.container([self.elem_of(v)], "rest"))
                else:
                    self.assign_target(sc, x, self.elem_of(v, "unpack"))
        elif isinstance(t, ast.Subscript):
            base = self.ev(sc, t.value)
            self.ev_index(sc, t.slice)
            self.emit("Mutate", base.v)
            self.emit("Store", base.v, self.field(ELEM), v.v)
        elif isinstance(t, ast.Attribute):
            base = self.ev(sc, t.value)
            if any(k[0] in ("module", "class", "ext", "func") for k in base.funcs):
                self.opaque("store into module / class / function attribute %s at %s:%d" % (ast.unparse(t), sc.module.name, t.lineno), [v])
            self.store_attr(sc, base, t.attr, v, t)
        else:
            self.opaque("assignment target %s" % type(t).__name__, [v])

    def store_attr(self, sc, base, attr, v, node):
        self.emit("Store", base.v, self.field(attr), v.v)
        if attr in ATTR_STORE_MUTATES:
            self.emit("Mutate", base.v)
        for m in self.ix.modules.values():
            for c in m.classes.values():
                if attr in c.setters:
                    self.call_func(c.setters[attr], [base, v], {}, None, None, node)

    def st_AugAssign(self, sc, st):
        r = self.ev(sc, st.value)
        t = st.target
        if isinstance(t, ast.Name):
            cur = self.ev_Name(sc, t)
            self.emit("Mutate", cur.v)                       # ndarray / list: in place
            if isinstance(st.op, (ast.Add, ast.Mult)):
                self.emit("Store", cur.v, self.field(ELEM), self.elem_of(r).v)   # list += list
            nv = self.bind(sc, t.id, cur)
            self.emit("Fresh", nv.v)                         # immutable: a new value
        elif isinstance(t, ast.Subscript):
            base = self.ev(sc, t.value)
            self.ev_index(sc, t.slice)
            self.emit("Mutate", base.v)
            el = self.elem_of(base)
            self.emit("Mutate", el.v)                        # x[i] += ... on a list of arrays
            self.emit("Store", base.v, self.field(ELEM), self.arith([el, r], seq=(True if isinstance(st.op, ast.Add) else 'mult' if isinstance(st.op, ast.Mult) else False)).v)
        elif isinstance(t, ast.Attribute):
            base = self.ev(sc, t.value)
            if any(k[0] in ("module", "class", "ext", "func") for k in base.funcs):
                self.opaque("store into module / class / function attribute %s at %s:%d" % (ast.unparse(t), sc.module.name, t.lineno))
            cur = self.load_attr(sc, base, t.attr, t)
            self.emit("Mutate", cur.v)
            self.store_attr(sc, base, t.attr, self.arith([cur, r], seq=(True if isinstance(st.op, ast.Add) else 'mult' if isinstance(st.op, ast.Mult) else False)), t)
        else:
            self.opaque("augmented assignment target")

    def assigned_names(self, body):
        names = set()
        for st in body:
            for n in ast.walk(st):
                if isinstance(n, ast.Name) and isinstance(n.ctx, ast.Store):
                    names.add(n.id)
                elif isinstance(n, (ast.FunctionDef, ast.ClassDef)):
                    names.add(n.name)
                elif isinstance(n, ast.ExceptHandler) and n.name:
                    names.add(n.name)
        return names

    def region(self, sc, bodies, pre=None):
        """Loop / try region: every name assigned inside gets one merge variable."""
        names = set()
        for b in bodies:
            names |= self.assigned_names(b)
        sink = {}
        for n in sorted(names):
            cur = self.lookup(sc, n)
            mv = Val(self.new("phi_" + n), cur.funcs if cur else ())
            if cur is not None:
                self.emit("Alias", mv.v, cur.v)
            sink[n] = mv
            sc.env[n] = mv
        sc.sinks.append(sink)
        if pre:
            pre()
        for b in bodies:
            self.block(sc, b)
        sc.sinks.pop()
        for n, mv in sink.items():
            sc.env[n] = mv
            for outer in sc.sinks:
                if n in outer:
                    self.emit("Alias", outer[n].v, mv.v)

    def st_For(self, sc, st):
        it = self.ev(sc, st.iter)
        tgt = ast.Module(body=[ast.Assign(targets=[st.target], value=ast.Constant(value=None))], type_ignores=[])
        self.region(sc, [tgt.body[:0], st.body, st.orelse], pre=lambda: self.assign_target(sc, st.target, self.elem_of(it, "it")))

    def st_While(self, sc, st):
        self.region(sc, [st.body, st.orelse], pre=lambda: self.ev(sc, st.test))
        self.ev(sc, st.test)

    def st_If(self, sc, st):
        if GUARD_ENV in ast.unparse(st.test):
            # add-only verification hook (DESIGN.md 2.3): dead code unless the harness sets the guard
            self.block(sc, st.orelse)
            return
        self.ev(sc, st.test)
        base = dict(sc.env)
        self.block(sc, st.body)
        env_a = sc.env
        sc.env = dict(base)
        self.block(sc, st.orelse)
        env_b = sc.env
        merged = {}
        for n in set(env_a) | set(env_b):
            a, b = env_a.get(n), env_b.get(n)
            if a is b:
                merged[n] = a
                continue
            mv = self.new("phi_" + n)
            fs = set()
            for x in (a, b):
                if x is not None:
                    self.emit("Alias", mv, x.v)
                    fs |= set(x.funcs)
            merged[n] = Val(mv, fs, all(x is not None and x.ns for x in (a, b)))
        sc.env = merged

    def st_Try(self, sc, st):
        def handlers():
            pass
        bodies = [st.body] + [h.body for h in st.handlers] + [st.orelse, st.finalbody]
        for h in st.handlers:
            if h.type is not None:
                self.ev(sc, h.type)
        self.region(sc, bodies, pre=lambda: [sc.env.__setitem__(h.name, self.fresh("exc")) for h in st.handlers if h.name])

    def st_With(self, sc, st):
        for item in st.items:
            v = self.ev(sc, item.context_expr)
            if item.optional_vars is not None:
                self.assign_target(sc, item.optional_vars, v)
        self.block(sc, st.body)

    def st_FunctionDef(self, sc, st):
        fi = FuncInfo(sc.module, st)
        fi.cls = None
        sc.env[st.name] = self.fresh(st.name, [("func", fi, sc)])
        for sink in sc.sinks:
            if st.name in sink:
                sink[st.name].funcs = tuple(set(sink[st.name].funcs) | {("func", fi, sc)})

    def st_Global(self, sc, st):
        self.opaque("global statement at %s:%d" % (sc.module.name, st.lineno))

    st_Nonlocal = st_Global

    def st_Delete(self, sc, st):
        self.opaque("del statement at %s:%d" % (sc.module.name, st.lineno))


def sc_cls(sc):
    while sc is not None:
        if sc.cls is not None:
            return sc.cls
        sc = sc.parent
    return None


def sc_self(sc):
    while sc is not None:
        if sc.self_val is not None:
            return sc
        sc = sc.parent
    return None


def sc_module_name(sc):
    return sc.module.name


def sc_func_name(sc):
    while sc is not None:
        if sc.func is not None and sc.parent is None:
            return sc.func.name
        if sc.func is not None:
            return sc.func.name
        sc = sc.parent
    return None


# ------------------------------------------------------------------------------------------------
def entry_points(ix):
    """The public entry points: for a module with ``__all__`` the functions and classes it exports
    (that is what persim/__init__.py and persim/landscapes/__init__.py re-export), for a module
    without ``__all__`` (images_kernels, images_weights, landscapes.auxiliary) every function without
    a leading underscore; plus images._transform (the joblib worker).  For a class: every method,
    property and setter except single-underscore helpers; abstract base classes are covered through
    their subclasses (super() calls are inlined)."""
    eps = []
    for key, m in ix.modules.items():
        for fn, fi in m.funcs.items():
            if m.all is not None:
                ok = fn in m.all or (m.name, fn) == ("images", "_transform")
            else:
                ok = not fn.startswith("_")
            if ok:
                eps.append(fi)
        for c in m.classes.values():
            if m.all is not None and c.name not in m.all:
                continue
            for group in (c.methods, c.props, c.setters):
                for mn, fi in group.items():
                    if mn.startswith("_") and not (mn.startswith("__") and mn.endswith("__")):
                        continue
                    eps.append(fi)
    return eps


def translate_entry(ix, fi):
    tr = Translator(ix)
    args = fi.node.args
    params = list(args.posonlyargs) + list(args.args) + list(args.kwonlyargs)
    pos = []
    self_val = None
    for i, p in enumerate(params):
        v = tr.new(p.arg)
        if i == 0 and fi.cls is not None and not fi.static:
            tr.unprot.append(v)
            self_val = Val(v)
            pos.append(self_val)
        else:
            tr.prot.append(v)
            funcs = ()
            pos.append(Val(v, funcs))
    kw = {}
    star, dstar = [], []
    if args.vararg:
        v = tr.new(args.vararg.arg); tr.prot.append(v); star = [Val(v)]
    if args.kwarg:
        v = tr.new(args.kwarg.arg); tr.prot.append(v); dstar = [Val(v)]
    npos = len(list(args.posonlyargs) + list(args.args))
    kw = {p.arg: pos[npos + i] for i, p in enumerate(args.kwonlyargs)}
    tr.call_func(fi, pos[:npos], kw, star, dstar, fi.node)
    # ghost prelude: alias flows of every other method of the class (and its bases) on the same self
    if self_val is not None:
        tr.quiet += 1
        for c in ix.mro(fi.cls):
            for group in (c.methods, c.props, c.setters):
                for mn, other in group.items():
                    if other is fi or other.static:
                        continue
                    oa = other.node.args
                    ops = [self_val]
                    for p in (list(oa.posonlyargs) + list(oa.args))[1:]:
                        v = tr.new("ghost_" + p.arg); tr.prot.append(v); ops.append(Val(v))
                    okw = {}
                    for p in oa.kwonlyargs:
                        v = tr.new("ghost_" + p.arg); tr.prot.append(v); okw[p.arg] = Val(v)
                    tr.call_func(other, ops, okw, [], [], other.node)
        tr.quiet -= 1
    for res, obj in tr.late_getattr:
        for fname, fid in list(tr.fields.items()):
            if fname != ELEM:
                tr.stmts.append(("Load", res, obj, fid))
    return tr


def coq_prog(name, tr):
    def st(s):
        k = s[0]
        if k == "Load":
            return "Load %d %d %d" % (s[1], s[2], s[3])
        if k in ("Store", "GStore"):
            return "%s %d %d %d" % (k, s[1], s[2], s[3])
        return "%s %s" % (k, " ".join(str(x) for x in s[1:]))
    # drop exact duplicates, keep order
    seen, body = set(), []
    for s in tr.stmts:
        if s not in seen:
            seen.add(s)
            body.append(s)
    lines = ["Definition %s : prog := {| p_prot := [%s]; p_unprot := [%s]; p_body := [" % (
        name, "; ".join(str(v) for v in tr.prot), "; ".join(str(v) for v in tr.unprot))]
    lines.append(";\n".join("  " + st(s) for s in body))
    lines.append("]%positive |}.")
    return "\n".join(lines), len(body)


def translate_tree(repo):
    """Returns (coq_text, entries) where entries = [{name, qual, file, line, n_stmts, opaque, rand, ...}]."""
    ix = Index(repo)
    entries, defs = [], []
    targets = set()
    for fi in entry_points(ix):
        tr = translate_entry(ix, fi)
        nm = "prog_" + "".join(ch if ch.isalnum() else "_" for ch in fi.qual)
        if fi.setter_of:
            nm += "_setter"
        text, n = coq_prog(nm, tr)
        defs.append(text)
        targets |= tr.ext_targets
        entries.append({"name": nm, "qual": fi.qual + (" (setter)" if fi.setter_of else ""), "file": fi.module.relpath,
                        "line": fi.node.lineno, "n_stmts": n, "opaque": sorted(set(tr.opaque_reasons)),
                        "has_rand": any(s[0] == "Rand" for s in tr.stmts),
                        "hints": tr.hints, "fields": tr.fields})
    header = ("From Coq Require Import List PArith.\nFrom Persim Require Import Model.EffectIR.\n"
              "Import ListNotations.\nOpen Scope positive_scope.\n\n")
    return header + "\n\n".join(defs) + "\n", entries, sorted(targets)


if __name__ == "__main__":
    import json
    import sys
    repo = sys.argv[1] if len(sys.argv) > 1 else os.environ.get("PERSIM_REPO", "/repo")
    text, entries, targets = translate_tree(repo)
    for e in entries:
        print("%-70s %5d stmts rand=%s %s" % (e["qual"], e["n_stmts"], e["has_rand"], "OPAQUE: " + "; ".join(e["opaque"]) if e["opaque"] else ""))
    print(len(entries), "entry points;", len(targets), "external call targets used")
