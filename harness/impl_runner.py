"""Subprocess entry point: python -m harness.impl_runner <module> <func>; cases on stdin (JSON),
outputs as one JSON line on stdout.  Runs with PYTHONPATH=$PERSIM_REPO so that ``persim`` is the
current working tree."""
import importlib
import json
import sys
import warnings


def main():
    warnings.simplefilter("ignore")
    modname, func = sys.argv[1], sys.argv[2]
    cases = json.loads(sys.stdin.read())
    mod = importlib.import_module("harness.props." + modname)
    outs = getattr(mod, func)(cases)
    sys.stdout.write("\n" + json.dumps(outs) + "\n")


if __name__ == "__main__":
    main()
