(* C10 - model of auxiliary.py:_p_norm (after fixes/C10_pnorm_crossing.patch) for REAL p, over R.
   The branch decisions of the code depend only on the ordinates, which are binary64 numbers, i.e.
   rationals: they are taken in Q (`shape_of`, executable), the arithmetic of the chosen branch is in R
   (`shape_R`: Rpower, exp, ln).  No proofs in this file. *)
From Coq Require Import QArith Qabs Qminmax Qreals Reals List Bool.
From Persim Require Import Lib.Kth Lib.PL Spec.PNormS.
Import ListNotations.

Inductive shape :=
| ShZero                      (* hi == 0 : `continue` *)
| ShCross (dx lo hi : Q)      (* the segment crosses the axis *)
| ShFlat (dx hi : Q)          (* s == 0 *)
| ShTri (dx hi : Q)           (* lo == 0 *)
| ShGen (dx lo hi : Q).       (* one-signed, sloped *)

Definition shape_of (a b : pt) : shape :=
  let '(x0, y0) := a in let '(x1, y1) := b in
  let lo := Qred (Qmin (Qabs y0) (Qabs y1)) in
  let hi := Qred (Qmax (Qabs y0) (Qabs y1)) in
  let dx := Qred (x1 - x0) in
  if Qeq_bool hi 0 then ShZero
  else if crosses y0 y1 then ShCross dx lo hi
  else if Qeq_bool ((hi - lo) / hi) 0 then ShFlat dx hi
  else if Qeq_bool lo 0 then ShTri dx hi
  else ShGen dx lo hi.

Definition shapes (L : landscape) : list shape :=
  flat_map (fun l => map (fun s => shape_of (fst s) (snd s)) (segments l)) L.

Open Scope R_scope.

Definition expm1 (x : R) : R := exp x - 1.
Definition log1p (x : R) : R := ln (1 + x).

(* the summand `result += ...` of each branch; hi > 0 in every branch but ShZero *)
Definition shape_R (p : R) (s : shape) : R :=
  match s with
  | ShZero => 0
  | ShCross dx lo hi =>
      Q2R dx * Rpower (Q2R hi) p * (Q2R hi + Q2R lo * Rpower (Q2R lo / Q2R hi) p) / ((p + 1) * (Q2R lo + Q2R hi))
  | ShFlat dx hi => Rpower (Q2R hi) p * Q2R dx
  | ShTri dx hi => Rpower (Q2R hi) p * Q2R dx / (p + 1)
  | ShGen dx lo hi =>
      let s := (Q2R hi - Q2R lo) / Q2R hi in
      Rpower (Q2R hi) p * Q2R dx * (- expm1 ((p + 1) * log1p (- s))) / ((p + 1) * s)
  end.

Definition sumR (l : list R) : R := fold_right Rplus 0 l.

(* result ** (1.0 / p); 0.0 ** x = 0.0 *)
Definition root (p s : R) : R := if Rle_dec s 0 then 0 else Rpower s (1 / p).

Definition p_norm_R (p : R) (L : landscape) : R := root p (sumR (map (shape_R p) (shapes L))).
