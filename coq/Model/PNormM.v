(* C10 - executable models over Q of persim/landscapes/auxiliary.py : _p_norm, of the callers
   PersLandscapeExact.p_norm / sup_norm (exact.py 381-400) and PersLandscapeApprox.p_norm /
   sup_norm / values_to_pairs (approximate.py 315-370).  p is a natural number here (the real-p
   model is Model/PNormRM.v).  The models return the p-th POWER of the norm (`result` just before
   the final `** (1/p)`), a rational; None stands for a division by zero (ZeroDivisionError / nan).
   No proofs in this file.

   Legacy   = the code at the pinned commit f8f9fe3 (lines 145-172), branch by branch.
   (intended) = the code after fixes/C10_pnorm_crossing.patch. *)
From Coq Require Import QArith Qabs Qminmax List Bool.
From Persim Require Import Lib.Kth Lib.PL Spec.PNormS.
Import ListNotations.
Open Scope Q_scope.

(* a / b, None when b == 0 *)
Definition odiv (a b : Q) : option Q := if Qeq_bool b 0 then None else Some (a / b).
Definition obind {A B} (o : option A) (f : A -> option B) : option B :=
  match o with Some x => f x | None => None end.

(* `result += ...` over all segments of all depths, result = 0.0 initially *)
Fixpoint oadd_all (acc : Q) (l : list (option Q)) : option Q :=
  match l with
  | [] => Some acc
  | None :: _ => None
  | Some v :: r => oadd_all (acc + v) r
  end.

(* ------------------------------------------------------------------ pinned code *)
Module Legacy.
  Definition seg (p : nat) (a b : pt) : option Q :=
    let '(x0, y0) := a in let '(x1, y1) := b in
    if Qeq_bool y0 y1 then Some (pw (Qabs y0) p * (x1 - x0))          (* horizontal segment *)
    else
      obind (odiv (y1 - y0) (x1 - x0)) (fun slope =>
      let b := y0 - slope * x0 in
      let ev x := odiv (pw (slope * x + b) (S p)) (slope * nQ (S p)) in
      if crosses y0 y1 then
        obind (odiv (- b) slope) (fun z =>
        obind (ev x1) (fun e1 => obind (ev x0) (fun e0 => obind (ev z) (fun ez =>
        Some (Qabs (e1 + e0 - 2 * ez))))))
      else
        obind (ev x1) (fun e1 => obind (ev x0) (fun e0 => Some (Qabs (e1 - e0))))).

  Definition norm_pow (p : nat) (L : landscape) : option Q :=
    oadd_all 0 (flat_map (fun l => map (fun s => seg p (fst s) (snd s)) (segments l)) L).
End Legacy.

(* ------------------------------------------------------------------ repaired code *)
Definition seg (p : nat) (a b : pt) : option Q :=
  let '(x0, y0) := a in let '(x1, y1) := b in
  let lo := Qmin (Qabs y0) (Qabs y1) in
  let hi := Qmax (Qabs y0) (Qabs y1) in
  if Qeq_bool hi 0 then Some 0
  else
    let dx := x1 - x0 in
    if crosses y0 y1 then
      obind (odiv lo hi) (fun r =>
      odiv (dx * pw hi p * (hi + lo * pw r p)) (nQ (S p) * (lo + hi)))
    else
      obind (odiv (hi - lo) hi) (fun s =>
      if Qeq_bool s 0 then Some (pw hi p * dx)                         (* horizontal segment *)
      else if Qeq_bool lo 0 then odiv (pw hi p * dx) (nQ (S p))
      else
        (* -expm1((p+1) * log1p(-s)) = 1 - (1-s)^(p+1) *)
        let gap := 1 - pw (1 - s) (S p) in
        odiv (pw hi p * dx * gap) (nQ (S p) * s)).

Definition norm_pow_m (p : nat) (L : landscape) : option Q :=
  oadd_all 0 (flat_map (fun l => map (fun s => seg p (fst s) (snd s)) (segments l)) L).

(* ------------------------------------------------------------------ callers *)
(* PersLandscapeExact.p_norm(p) ** p *)
Definition exact_p_norm_pow (p : nat) (critical_pairs : landscape) : option Q := norm_pow_m p critical_pairs.

(* PersLandscapeExact.sup_norm: max(np.abs(cvals), key=itemgetter(1))[1]; max() of an empty
   sequence raises ValueError (None) *)
Definition exact_sup_norm (critical_pairs : landscape) : option Q :=
  match concat critical_pairs with
  | [] => None
  | a :: r => Some (fold_left (fun m c => if Qlt_bool m (Qabs (snd c)) then Qabs (snd c) else m) r (Qabs (snd a)))
  end.

(* np.linspace(start, stop, n): start + i * step, step = (stop - start) / (n - 1) *)
Definition linspace (start stop : Q) (n : nat) : list Q :=
  match n with
  | O => []
  | S O => [start]
  | S m => map (fun i => start + nQ i * ((stop - start) / nQ m)) (seq 0 n)
  end.

(* PersLandscapeApprox.values_to_pairs: zip(grid, vals) for every depth *)
Definition values_to_pairs (start stop : Q) (n : nat) (values : list (list Q)) : landscape :=
  map (fun vals => combine (linspace start stop n) vals) values.

Definition approx_p_norm_pow (p : nat) (start stop : Q) (n : nat) (values : list (list Q)) : option Q :=
  norm_pow_m p (values_to_pairs start stop n values).

(* PersLandscapeApprox.sup_norm: np.max(np.abs(values)); np.max of an empty array raises *)
Definition approx_sup_norm (values : list (list Q)) : option Q :=
  match concat values with
  | [] => None
  | v :: r => Some (fold_left (fun m c => Qmax m (Qabs c)) r (Qabs v))
  end.
