(* Model of the input glue of persim/gromov_hausdorff.py lines 143-263 (C17) and an executable
   hop metric (Floyd-Warshall over option Z, None = inf) standing for
   scipy.sparse.csgraph.shortest_path(A, directed=False, unweighted=True).  No proofs here. *)
From Coq Require Import ZArith List Bool Arith Lia.
From Persim Require Import Spec.MGH Model.MGHM.
Import ListNotations.
Open Scope Z_scope.

(* ---------------------------------------------------------------- reading an adjacency matrix *)
(* directed=False: {i,j} is an edge iff A[i][j] or A[j][i] is a stored non-zero *)
Definition edge (A : mat) (i j : nat) : bool :=
  negb (ent A i j =? 0) || negb (ent A j i =? 0).

(* the edge set, as the boolean matrix of the undirected graph *)
Definition edges_of (A : mat) : list (list bool) :=
  let n := length A in map (fun i => map (fun j => edge A i j) (seq 0 n)) (seq 0 n).

(* an upper-triangular and a symmetric adjacency matrix of an edge relation e on 0..n-1 *)
Definition of_upper (n : nat) (e : nat -> nat -> bool) : mat :=
  map (fun i => map (fun j => if (i <? j)%nat && (e i j || e j i) then 1 else 0) (seq 0 n)) (seq 0 n).
Definition of_symmetric (n : nat) (e : nat -> nat -> bool) : mat :=
  map (fun i => map (fun j => if negb (i =? j)%nat && (e i j || e j i) then 1 else 0) (seq 0 n)) (seq 0 n).

(* ---------------------------------------------------------------- hop metric *)
Definition omat := list (list (option Z)).
Definition oent (D : omat) (i j : nat) : option Z := nth j (nth i D []) None.
Definition oadd (a b : option Z) : option Z :=
  match a, b with Some x, Some y => Some (x + y) | _, _ => None end.
Definition omin2 (a b : option Z) : option Z :=
  match a, b with
  | Some x, Some y => Some (Z.min x y)
  | Some x, None => Some x
  | None, b => b
  end.
Definition fw_init (A : mat) : omat :=
  let n := length A in
  map (fun i => map (fun j => if (i =? j)%nat then Some 0 else if edge A i j then Some 1 else None)
                    (seq 0 n)) (seq 0 n).
(* one round of Floyd-Warshall through vertex k, row by row *)
Definition fw_step (D : omat) (k : nat) : omat :=
  let rk := nth k D [] in
  map (fun ri => let dik := nth k ri None in
                 map (fun p => omin2 (fst p) (oadd dik (snd p))) (combine ri rk)) D.
Definition hop_metric (A : mat) : omat :=
  fold_left fw_step (seq 0 (length A)) (fw_init A).

(* ---------------------------------------------------------------- components *)
Definition has_inf (D : omat) : bool :=
  existsb (fun r => existsb (fun x => match x with None => true | Some _ => false end) r) D.

(* connected_components labels: the label of a vertex is the number of distinct components met
   among the smaller vertices (scipy labels components in order of their smallest vertex) *)
Definition reach (D : omat) (i j : nat) : bool :=
  match oent D i j with Some _ => true | None => false end.
Definition comp_root (D : omat) (i : nat) : nat :=
  match find (fun j => reach D i j) (seq 0 (length D)) with Some j => j | None => i end.
Definition comp_sizes (D : omat) : list (nat * nat) :=          (* (root, size), roots increasing *)
  let n := length D in
  map (fun r => (r, length (filter (fun i => (comp_root D i =? r)%nat) (seq 0 n))))
      (filter (fun r => (comp_root D r =? r)%nat) (seq 0 n)).
(* components[np.argmax(component_sizes)]: the first component of maximal size *)
Fixpoint first_max (best : nat * nat) (l : list (nat * nat)) : nat * nat :=
  match l with
  | [] => best
  | x :: t => if (snd best <? snd x)%nat then first_max x t else first_max best t
  end.
Definition largest_component (D : omat) : list nat :=
  match comp_sizes D with
  | [] => []
  | x :: t => let r := fst (first_max x t) in
              filter (fun i => (comp_root D i =? r)%nat) (seq 0 (length D))
  end.

(* ---------------------------------------------------------------- make_distance_matrix_from_adjacency_matrix *)
Inductive dm_result :=
| DMOk (warned : bool) (D : mat)      (* warned = the "disconnected graph" warning was issued *)
| DMValueError.                       (* determine_optimal_int_type(inf) raises ValueError *)

Definition oz (x : option Z) : Z := match x with Some z => z | None => 0 end.
Definition restrict_rows (D : omat) (vs : list nat) : omat := map (fun i => nth i D []) vs.
Definition restrict_both (D : omat) (vs : list nat) : omat :=
  map (fun i => map (fun j => oent D i j) vs) vs.

Definition finish (warned : bool) (D : omat) : dm_result :=
  if has_inf D then DMValueError else DMOk warned (map (map oz) D).

(* The part after shortest_path, as a function of its result D (so that theorems can treat
   shortest_path / connected_components as oracles). *)
(* intended behaviour: rows AND columns of the largest component *)
Definition make_dm_of (D : omat) : dm_result :=
  if has_inf D then finish true (restrict_both D (largest_component D)) else finish false D.
(* pinned code (line 211): rows only *)
Definition make_dm_legacy_of (D : omat) : dm_result :=
  if has_inf D then finish true (restrict_rows D (largest_component D)) else finish false D.

Definition make_dm (A : mat) : dm_result := make_dm_of (hop_metric A).
Definition make_dm_legacy (A : mat) : dm_result := make_dm_legacy_of (hop_metric A).

(* ---------------------------------------------------------------- gromov_hausdorff: pair / collection dispatch *)
(* the estimate call made for the pair (i, j): whatever its RNG draws are *)
Definition pair_est := nat -> nat -> mat -> mat -> option (Z * Z).

Inductive gh_out :=
| GHRaise                                   (* ValueError *)
| GHPair (warned : bool) (lb ub : Z)        (* doubled bounds *)
| GHColl (warned : bool) (lbs ubs : mat).

Fixpoint oall {A} (l : list (option A)) : option (list A) :=
  match l with
  | [] => Some []
  | None :: _ => None
  | Some x :: t => match oall t with Some r => Some (x :: r) | None => None end
  end.

Definition dms (mk : mat -> dm_result) (As : list mat) : option (list (bool * mat)) :=
  oall (map (fun A => match mk A with DMOk w D => Some (w, D) | DMValueError => None end) As).

(* lbs[i, j], ubs[i, j] for i < j from estimate; lower triangle copied from the transpose;
   diagonal left at the np.zeros value *)
Definition cell (est : pair_est) (Ds : list mat) (i j : nat) : option (Z * Z) :=
  if (i <? j)%nat then est i j (nth i Ds []) (nth j Ds [])
  else if (j <? i)%nat then est j i (nth j Ds []) (nth i Ds [])
  else Some (0, 0).

Definition collect (est : pair_est) (Ds : list mat) : option (list (list (Z * Z))) :=
  let n := length Ds in
  oall (map (fun i => oall (map (fun j => cell est Ds i j) (seq 0 n))) (seq 0 n)).

Definition gh_collection (mk : mat -> dm_result) (est : pair_est) (As : list mat) : gh_out :=
  if (length As <? 2)%nat then GHRaise else
  match dms mk As with
  | None => GHRaise
  | Some wds =>
    match collect est (map snd wds) with
    | None => GHRaise
    | Some cells => GHColl (existsb fst wds) (map (map fst) cells) (map (map snd) cells)
    end
  end.

Definition gh_pair (mk : mat -> dm_result) (est : pair_est) (AG AH : mat) : gh_out :=
  match mk AG, mk AH with
  | DMOk w1 DX, DMOk w2 DY =>
    match est 0%nat 1%nat DX DY with Some (l, u) => GHPair (w1 || w2) l u | None => GHRaise end
  | _, _ => GHRaise
  end.
