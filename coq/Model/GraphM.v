(* Model of the input glue of persim/gromov_hausdorff.py lines 143-263 (C17) and an executable
   hop metric (Floyd-Warshall over option Z, None = inf) standing for
   scipy.sparse.csgraph.shortest_path(A, directed=False, unweighted=True).  No proofs here. *)
From Coq Require Import ZArith List Bool Arith Lia.
From Persim Require Import Spec.MGH Model.MGHM.
Import ListNotations.
Open Scope Z_scope.

(* ---------------------------------------------------------------- reading an adjacency matrix *)
(* directed=False: {i,j} is an edge iff A[i][j] or A[j][i] is a stored non-zero *)
Definition edge (A : mat) (i j : nat) : bool :=
  negb (ent A i j =? 0) || negb (ent A j i =? 0).

(* the edge set, as the boolean matrix of the undirected graph *)
Definition edges_of (A : mat) : list (list bool) :=
  let n := length A in map (fun i => map (fun j => edge A i j) (seq 0 n)) (seq 0 n).

(* an upper-triangular and a symmetric adjacency matrix of an edge relation e on 0..n-1 *)
Definition of_upper (n : nat) (e : nat -> nat -> bool) : mat :=
  map (fun i => map (fun j => if (i <? j)%nat && (e i j || e j i) then 1 else 0) (seq 0 n)) (seq 0 n).
Definition of_symmetric (n : nat) (e : nat -> nat -> bool) : mat :=
  map (fun i => map (fun j => if negb (i =? j)%nat && (e i j || e j i) then 1 else 0) (seq 0 n)) (seq 0 n).

(* ---------------------------------------------------------------- hop metric *)
Definition omat := list (list (option Z)).
Definition oent (D : omat) (i j : nat) : option Z := nth j (nth i D []) None.
Definition oadd (a b : option Z) : option Z :=
  match a, b with Some x, Some y => Some (x + y) | _, _ => None end.
Definition omin2 (a b : option Z) : option Z :=
  match a, b with
  | Some x, Some y => Some (Z.min x y)
  | Some x, None => Some x
  | None, b => b
  end.
Definition fw_init (A : mat) : omat :=
  let n := length A in
  map (fun i => map (fun j => if (i =? j)%nat then Some 0 else if edge A i j then Some 1 else None)
                    (seq 0 n)) (seq 0 n).
Definition fw_step (n : nat) (D : omat) (k : nat) : omat :=
  map (fun i => map (fun j => omin2 (oent D i j) (oadd (oent D i k) (oent D k j))) (seq 0 n)) (seq 0 n).
Definition hop_metric (A : mat) : omat :=
  let n := length A in fold_left (fw_step n) (seq 0 n) (fw_init A).

(* ---------------------------------------------------------------- components *)
Definition has_inf (D : omat) : bool :=
  existsb (fun r => existsb (fun x => match x with None => true | Some _ => false end) r) D.

(* connected_components labels: the label of a vertex is the number of distinct components met
   among the smaller vertices (scipy labels components in order of their smallest vertex) *)
Definition reach (D : omat) (i j : nat) : bool :=
  match oent D i j with Some _ => true | None => false end.
Definition comp_root (D : omat) (i : nat) : nat :=
  match find (fun j => reach D i j) (seq 0 (length D)) with Some j => j | None => i end.
Definition comp_sizes (D : omat) : list (nat * nat) :=          (* (root, size), roots increasing *)
  let n := length D in
  map (fun r => (r, length (filter (fun i => (comp_root D i =? r)%nat) (seq 0 n))))
      (filter (fun r => (comp_root D r =? r)%nat) (seq 0 n)).
(* components[np.argmax(component_sizes)]: the first component of maximal size *)
Fixpoint first_max (best : nat * nat) (l : list (nat * nat)) : nat * nat :=
  match l with
  | [] => best
  | x :: t => if (snd best <? snd x)%nat then first_max x t else first_max best t
  end.
Definition largest_component (D : omat) : list nat :=
  match comp_sizes D with
  | [] => []
  | x :: t => let r := fst (first_max x t) in
              filter (fun i => (comp_root D i =? r)%nat) (seq 0 (length D))
  end.

(* ---------------------------------------------------------------- make_distance_matrix_from_adjacency_matrix *)
Inductive dm_result :=
| DMOk (warned : bool) (D : mat)      (* warned = the "disconnected graph" warning was issued *)
| DMValueError.                       (* determine_optimal_int_type(inf) raises ValueError *)

Definition oz (x : option Z) : Z := match x with Some z => z | None => 0 end.
Definition restrict_rows (D : omat) (vs : list nat) : omat := map (fun i => nth i D []) vs.
Definition restrict_both (D : omat) (vs : list nat) : omat :=
  map (fun i => map (fun j => oent D i j) vs) vs.

Definition finish (warned : bool) (D : omat) : dm_result :=
  if has_inf D then DMValueError else DMOk warned (map (map oz) D).

(* intended behaviour: rows AND columns of the largest component *)
Definition make_dm (A : mat) : dm_result :=
  let D := hop_metric A in
  if has_inf D then finish true (restrict_both D (largest_component D)) else finish false D.

(* pinned code (line 211): rows only *)
Definition make_dm_legacy (A : mat) : dm_result :=
  let D := hop_metric A in
  if has_inf D then finish true (restrict_rows D (largest_component D)) else finish false D.
