(* C07: an executable twin of the bottleneck SPEC (not of the code): the minimum of bcost over an
   explicit enumeration of all partial matchings (Lib/PMatchLemmas.v: all_pm).  Exponential;
   run by vm_compute only on diagrams with at most 3 points per side, to tie the spec that the
   metric laws are proved about to the implementation's values. *)
From Coq Require Import QArith Qminmax List.
From Persim Require Import Spec.PartialMatching Spec.BottleneckS Lib.PMatchLemmas.
Import ListNotations.
Open Scope Q_scope.

Definition minQl (x : Q) (l : list Q) : Q := fold_right Qmin x l.

Definition bottleneck_brute (S T : list qpoint) : Q :=
  minQl (bcost S T []) (map (bcost S T) (all_pm (length S) (length T))).
