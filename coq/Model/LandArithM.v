(* C09 - executable model over Q of the landscape arithmetic of persim:
     landscapes/auxiliary.py  union_vals, union_crit_pairs, pos_to_slope_interp,
                              slope_to_pos_interp, sum_slopes
     landscapes/exact.py      __neg__ __add__ __sub__ __mul__ __truediv__
     landscapes/approximate.py the same operators on grid values, with their checks
     landscapes/tools.py      snap_pl, lc_approx, average_approx
   The definitions follow the code's algorithm (merge loop with its three branches on
   explicit fuel, zip-longest over depths, padding, the order of the grid checks).
   No proofs in this file.

   Two variants of the exact sum:
     Legacy  - the pinned tree: slope_to_pos_interp always starts at ordinate 0;
     Fixed   - fixes/C09_first_ordinate.patch: it starts at the ordinate the sum has at its first
               critical point.  On well-formed operands (first ordinate 0) the two coincide. *)
From Coq Require Import QArith Qminmax List Bool ZArith.
From Persim Require Import Lib.Kth Lib.PL.
Import ListNotations.
Open Scope Q_scope.

Inductive res (A : Type) : Type :=
| Ok (x : A)
| ErrDegree        (* ValueError: homological degrees differ *)
| ErrStart         (* ValueError: Start values of grids do not coincide *)
| ErrStop          (* ValueError: Stop values of grids do not coincide *)
| ErrSteps         (* ValueError: Number of steps of grids do not coincide *)
| ErrDivZero       (* ValueError: Cannot divide by zero *)
| ErrEmpty         (* snap_pl / lc_approx of an empty list (min() of an empty sequence) *)
| ErrShape         (* row lengths that numpy cannot add / interpolate *)
| ErrFuel.         (* merge loop ran out of fuel: proved impossible *)
Arguments Ok {A} x.
Arguments ErrDegree {A}. Arguments ErrStart {A}. Arguments ErrStop {A}. Arguments ErrSteps {A}.
Arguments ErrDivZero {A}. Arguments ErrEmpty {A}. Arguments ErrShape {A}. Arguments ErrFuel {A}.

Inductive variant := Legacy | Fixed.

(* ------------------------------------------------------------------ auxiliary.py, exact part *)

(* pos_to_slope_interp: [(x_i, slope on [x_i, x_i+1])], last slope 0 *)
Fixpoint pos_to_slope (l : list pt) : list pt :=
  match l with
  | [] => []
  | (x0, y0) :: r =>
      match r with
      | [] => [(x0, 0)]
      | (x1, y1) :: _ => (x0, (y1 - y0) / (x1 - x0)) :: pos_to_slope r
      end
  end.

(* slope_to_pos_interp: output = [[l[0][0], ystart]]; then y1 = y0 + (x1 - x0) * m *)
Fixpoint s2p_go (x0 y0 m : Q) (l : list pt) : list pt :=
  match l with
  | [] => []
  | (x1, m1) :: r => let y1 := y0 + (x1 - x0) * m in (x1, y1) :: s2p_go x1 y1 m1 r
  end.
Definition slope_to_pos (ystart : Q) (l : list pt) : list pt :=
  match l with
  | [] => []
  | (x0, m0) :: r => (x0, ystart) :: s2p_go x0 ystart m0 r
  end.

(* sum_slopes: while len(a) > 0 or len(b) > 0 with its three branches, in the order of the code *)
Fixpoint sum_slopes_go (fuel : nat) (a b : list pt) (am bm : Q) : option (list pt) :=
  match a, b with
  | [], [] => Some []
  | _, _ =>
    match fuel with
    | O => None
    | S f =>
      match a, b with
      | [], [] => Some []
      | [], (bx, bm') :: b' =>                       (* len(a) == 0: next pair from b *)
          option_map (cons (bx, am + bm')) (sum_slopes_go f [] b' am bm')
      | (ax, am') :: a', [] =>                       (* len(b) == 0: next pair from a *)
          option_map (cons (ax, am' + bm)) (sum_slopes_go f a' [] am' bm)
      | (ax, am') :: a', (bx, bm') :: b' =>
          if Qlt_bool bx ax then                      (* a[0][0] > b[0][0] *)
            option_map (cons (bx, am + bm')) (sum_slopes_go f a b' am bm')
          else if Qlt_bool ax bx then                 (* a[0][0] < b[0][0] *)
            option_map (cons (ax, am' + bm)) (sum_slopes_go f a' b am' bm)
          else                                        (* abscissae coincide: pop both *)
            option_map (cons (ax, am' + bm')) (sum_slopes_go f a' b' am' bm')
      end
    end
  end.
Definition sum_slopes (a b : list pt) : option (list pt) :=
  sum_slopes_go (length a + length b) a b 0 0.

(* ordinate of the sum at its first critical point (Fixed variant only) *)
Definition first_ordinate (a b : list pt) : Q :=
  match a, b with
  | (xa, ya) :: _, (xb, yb) :: _ =>
      (if Qle_bool xa xb then ya else 0) + (if Qle_bool xb xa then yb else 0)
  | _, _ => 0
  end.
Definition ystart (v : variant) (a b : list pt) : Q :=
  match v with Legacy => 0 | Fixed => first_ordinate a b end.

(* one depth of union_crit_pairs *)
Definition add_depth_core (v : variant) (a b : list pt) : option (list pt) :=
  option_map (slope_to_pos (ystart v a b)) (sum_slopes (pos_to_slope a) (pos_to_slope b)).
(* an explicitly empty depth makes the code raise (a[0] / l[-1]: IndexError): None *)
Definition add_depth (v : variant) (a b : list pt) : option (list pt) :=
  match a, b with
  | [], _ | _, [] => None
  | _ :: _, _ :: _ => add_depth_core v a b
  end.

(* union_crit_pairs: itertools.zip_longest over the depths *)
Fixpoint union_crit_pairs (v : variant) (A B : list (list pt)) : option (list (list pt)) :=
  match A, B with
  | [], _ => Some B
  | _, [] => Some A
  | a :: A', b :: B' =>
      match add_depth v a b, union_crit_pairs v A' B' with
      | Some c, Some r => Some (c :: r)
      | _, _ => None
      end
  end.

(* ------------------------------------------------------------------ exact.py *)
Record exactL := mkE { e_deg : Z; e_cp : list (list pt) }.

Definition neg_cp (L : list (list pt)) : list (list pt) := map (map (fun p => (fst p, - snd p))) L.
Definition scale_cp (c : Q) (L : list (list pt)) : list (list pt) := map (map (fun p => (fst p, c * snd p))) L.

Definition e_neg (A : exactL) : exactL := mkE (e_deg A) (neg_cp (e_cp A)).
Definition e_add (v : variant) (A B : exactL) : res exactL :=
  if negb (Z.eqb (e_deg A) (e_deg B)) then ErrDegree
  else match union_crit_pairs v (e_cp A) (e_cp B) with
       | Some L => Ok (mkE (e_deg A) L)
       | None => ErrFuel
       end.
Definition e_sub (v : variant) (A B : exactL) : res exactL := e_add v A (e_neg B).   (* self + -other *)
Definition e_mul (c : Q) (A : exactL) : exactL := mkE (e_deg A) (scale_cp c (e_cp A)).
Definition e_div (A : exactL) (c : Q) : res exactL :=                                (* self * (1.0 / other) *)
  if Qeq_bool c 0 then ErrDivZero else Ok (e_mul (1 / c) A).

(* ------------------------------------------------------------------ approximate.py *)
Record approxL := mkA { a_deg : Z; a_start : Q; a_stop : Q; a_steps : nat; a_vals : list (list Q) }.

(* union_vals: np.pad the shallower operand with zero rows of its own width *)
Definition ncols (A : list (list Q)) : nat := length (hd [] A).
Definition pad_rows (A : list (list Q)) (k : nat) : list (list Q) := A ++ repeat (repeat 0 (ncols A)) k.
Definition union_vals (A B : list (list Q)) : list (list Q) * list (list Q) :=
  if Nat.ltb (length A) (length B) then (pad_rows A (length B - length A), B)
  else if Nat.ltb (length B) (length A) then (A, pad_rows B (length A - length B))
  else (A, B).

Fixpoint vadd (u w : list Q) : option (list Q) :=
  match u, w with
  | [], [] => Some []
  | x :: u', y :: w' => option_map (cons (x + y)) (vadd u' w')
  | _, _ => None
  end.
Fixpoint madd (A B : list (list Q)) : option (list (list Q)) :=
  match A, B with
  | [], [] => Some []
  | u :: A', w :: B' =>
      match vadd u w, madd A' B' with Some r, Some R => Some (r :: R) | _, _ => None end
  | _, _ => None
  end.

Definition a_neg (A : approxL) : approxL :=
  mkA (a_deg A) (a_start A) (a_stop A) (a_steps A) (map (map (fun x => (-1) * x)) (a_vals A)).
Definition a_mul (c : Q) (A : approxL) : approxL :=
  mkA (a_deg A) (a_start A) (a_stop A) (a_steps A) (map (map (fun x => c * x)) (a_vals A)).
Definition a_add (A B : approxL) : res approxL :=
  if negb (Z.eqb (a_deg A) (a_deg B)) then ErrDegree
  else if negb (Qeq_bool (a_start A) (a_start B)) then ErrStart
  else if negb (Qeq_bool (a_stop A) (a_stop B)) then ErrStop
  else if negb (Nat.eqb (a_steps A) (a_steps B)) then ErrSteps
  else let (A', B') := union_vals (a_vals A) (a_vals B) in
       match madd A' B' with
       | Some V => Ok (mkA (a_deg A) (a_start A) (a_stop A) (a_steps A) V)
       | None => ErrShape
       end.
Definition a_sub (A B : approxL) : res approxL := a_add A (a_neg B).
Definition a_div (A : approxL) (c : Q) : res approxL :=
  if Qeq_bool c 0 then ErrDivZero else Ok (a_mul (1 / c) A).

(* ------------------------------------------------------------------ tools.py *)
Definition QofN (n : nat) : Q := inject_Z (Z.of_nat n).

(* np.linspace(start, stop, n): start + i * ((stop - start) / (n - 1)) *)
Definition linspace (start stop : Q) (n : nat) : list Q :=
  map (fun i => start + QofN i * ((stop - start) / QofN (n - 1))) (seq 0 n).

(* np.interp(x, xp, fp): linear interpolation, fp[0] left of xp[0], fp[-1] right of xp[-1] *)
Fixpoint interp_go (x x0 y0 : Q) (r : list pt) : Q :=
  match r with
  | [] => y0
  | (x1, y1) :: r' =>
      if Qlt_bool x x1 then y0 + (y1 - y0) / (x1 - x0) * (x - x0) else interp_go x x1 y1 r'
  end.
Definition interp (pts : list pt) (x : Q) : Q :=
  match pts with
  | [] => 0
  | (x0, y0) :: r => if Qlt_bool x x0 then y0 else interp_go x x0 y0 r
  end.

Fixpoint min_list (l : list Q) : option Q :=
  match l with [] => None | x :: r => match min_list r with None => Some x | Some m => Some (Qmin x m) end end.
Fixpoint max_list (l : list Q) : option Q :=
  match l with [] => None | x :: r => match max_list r with None => Some x | Some m => Some (Qmax x m) end end.
Fixpoint max_nat_list (l : list nat) : option nat :=
  match l with [] => None | x :: r => match max_nat_list r with None => Some x | Some m => Some (Nat.max x m) end end.

Definition or_default {A} (o : option A) (d : option A) : option A := match o with Some x => Some x | None => d end.

(* one landscape snapped onto the grid *)
Definition snap_rows (grid : list Q) (A : approxL) : option (list (list Q)) :=
  let xp := linspace (a_start A) (a_stop A) (a_steps A) in
  if forallb (fun row => Nat.eqb (length row) (a_steps A)) (a_vals A)
  then Some (map (fun row => map (interp (combine xp row)) grid) (a_vals A))
  else None.

Fixpoint all_some {A} (l : list (option A)) : option (list A) :=
  match l with
  | [] => Some []
  | Some x :: r => option_map (cons x) (all_some r)
  | None :: _ => None
  end.

Definition snap_pl (pls : list approxL) (ostart ostop : option Q) (osteps : option nat) : res (list approxL) :=
  match or_default ostart (min_list (map a_start pls)),
        or_default ostop (max_list (map a_stop pls)),
        or_default osteps (max_nat_list (map a_steps pls)) with
  | Some start, Some stop, Some n =>
      let grid := linspace start stop n in
      match all_some (map (snap_rows grid) pls) with
      | Some rows => Ok (map (fun pr => mkA (a_deg (fst pr)) start stop n (snd pr)) (combine pls rows))
      | None => ErrShape
      end
  | _, _, _ => ErrEmpty
  end.

(* np.sum over the object array of coeff * landscape: left-to-right __add__ *)
Fixpoint sum_from (acc : approxL) (l : list approxL) : res approxL :=
  match l with
  | [] => Ok acc
  | x :: r => match a_add acc x with Ok s => sum_from s r | e => e end
  end.

Definition lc_approx (pls : list approxL) (coeffs : list Q) (ostart ostop : option Q) (osteps : option nat)
  : res approxL :=
  match snap_pl pls ostart ostop osteps with
  | Ok snapped =>
      if negb (Nat.eqb (length coeffs) (length snapped)) then ErrShape
      else match map (fun cp => a_mul (fst cp) (snd cp)) (combine coeffs snapped) with
           | [] => ErrEmpty
           | t :: r => sum_from t r
           end
  | ErrEmpty => ErrEmpty
  | ErrShape => ErrShape
  | _ => ErrShape
  end.

Definition average_approx (pls : list approxL) (ostart ostop : option Q) (osteps : option nat) : res approxL :=
  lc_approx pls (repeat (1 / QofN (length pls)) (length pls)) ostart ostop osteps.

(* ------------------------------------------------------------------ expression trees over exact landscapes
   (every sequence of operations on shared operands is such a tree over the leaves) *)
Inductive expr :=
| Leaf (i : nat) | EAdd (e1 e2 : expr) | ESub (e1 e2 : expr) | ENeg (e : expr)
| EScale (c : Q) (e : expr) | EDiv (e : expr) (c : Q).

Definition bind {A B} (r : res A) (f : A -> res B) : res B :=
  match r with
  | Ok x => f x
  | ErrDegree => ErrDegree | ErrStart => ErrStart | ErrStop => ErrStop | ErrSteps => ErrSteps
  | ErrDivZero => ErrDivZero | ErrEmpty => ErrEmpty | ErrShape => ErrShape | ErrFuel => ErrFuel
  end.

Fixpoint eval_expr (v : variant) (env : list exactL) (e : expr) : res exactL :=
  match e with
  | Leaf i => match nth_error env i with Some A => Ok A | None => ErrEmpty end
  | EAdd e1 e2 => bind (eval_expr v env e1) (fun A => bind (eval_expr v env e2) (fun B => e_add v A B))
  | ESub e1 e2 => bind (eval_expr v env e1) (fun A => bind (eval_expr v env e2) (fun B => e_sub v A B))
  | ENeg e1 => bind (eval_expr v env e1) (fun A => Ok (e_neg A))
  | EScale c e1 => bind (eval_expr v env e1) (fun A => Ok (e_mul c A))
  | EDiv e1 c => bind (eval_expr v env e1) (fun A => e_div A c)
  end.
