(* Line-by-line model over Q of PersLandscapeExact.compute_landscape (persim/landscapes/exact.py 257-364).
   sweep true = the pinned code incl. the repeated-bar shortcut; sweep false = without the shortcut. *)
From Coq Require Import QArith Qminmax List Bool Arith.
From Persim Require Import Lib.Kth Lib.PL.
Import ListNotations.
Open Scope Q_scope.


Definition bar_eqb (a b : bar) : bool := Qeq_bool (fst a) (fst b) && Qeq_bool (snd a) (snd b).

(* sorted(A, key = [b, -d]) : stable insertion sort *)
Definition key_le (a b : bar) : bool :=
  Qlt_bool (fst a) (fst b) || (Qeq_bool (fst a) (fst b) && Qle_bool (snd b) (snd a)).
Fixpoint ins (x : bar) (l : list bar) : list bar :=
  match l with [] => [x] | y :: r => if key_le y x then y :: ins x r else x :: l end.
Definition sort_bars (l : list bar) : list bar := fold_right ins [] (rev (rev l)).
(* note: fold_right ins inserts last element first; "key_le y x -> keep y before x" makes it stable
   for elements processed right-to-left *)

Fixpoint remove_nth {A} (n : nat) (l : list A) : list A :=
  match n, l with _, [] => [] | O, _ :: r => r | S k, x :: r => x :: remove_nth k r end.
Fixpoint insert_at {A} (n : nat) (x : A) (l : list A) : list A :=
  match n, l with O, _ => x :: l | S k, [] => [x] | S k, y :: r => y :: insert_at k x r end.

(* exact.py 288-293: `for j, itemj in enumerate(A): if itemj == [b, d]: duplicate += 1; A.pop(j) else: break`
   - popping while enumerating, so the index advances over a list that shrinks and a copy can be skipped *)
Fixpoint dup_loop (fuel j : nat) (A : list bar) (bd : bar) (dup : nat) : nat * list bar :=
  match fuel with O => (dup, A) | S f =>
    match nth_error A j with
    | None => (dup, A)
    | Some x => if bar_eqb x bd then dup_loop f (S j) (remove_nth j A) bd (S dup) else (dup, A)
    end end.

(* exact.py 308-312: the first item with item[1] > d, and its index *)
Fixpoint find_gt (d : Q) (A : list bar) (i : nat) : option (nat * bar) :=
  match A with [] => None | x :: r => if Qlt_bool d (snd x) then Some (i, x) else find_gt d r (S i) end.

(* exact.py 331-335: ind = first i with b' <= A[i][0], len(A) if none *)
Fixpoint first_ge_birth (bp : Q) (A : list bar) (i : nat) : nat :=
  match A with [] => i | x :: r => if Qle_bool bp (fst x) then i else first_ge_birth bp r (S i) end.

(* exact.py 337-347: if b' == A[ind][0], ind += #{items with birth b' and death > d} *)
Definition insert_pos (bp d : Q) (A : list bar) : nat :=
  let ind := first_ge_birth bp A 0 in
  if Nat.eqb ind (length A) then ind
  else match nth_error A ind with
       | Some x => if Qeq_bool bp (fst x)
                   then ind + length (filter (fun it => Qeq_bool (fst it) bp && Qlt_bool d (snd it)) A)
                   else ind
       | None => ind end.

(* exact.py 295-358: the while loop of one depth.  298-300 exit test `all(d >= _[1] for _ in A)`;
   315-316 Case I (b' > d: point (d,0)); 319-320 Case II (b' >= d: point (b',0)); 323-351 Case III (crossing
   point, re-insertion of (b',d)); 353-358 the peak of (b',d') and (b,d) := (b',d') *)
Fixpoint inner (fuel : nat) (acc : list pt) (b d : Q) (A : list bar) : option (list pt * list bar) :=
  match fuel with O => None | S f =>
    if forallb (fun x => Qle_bool (snd x) d) A then Some (acc ++ [(d, 0)], A)
    else match find_gt d A 0 with
         | None => None
         | Some (i, (bp, dp)) =>
             let A1 := remove_nth i A in
             let acc1 := if Qlt_bool d bp then acc ++ [(d, 0)] else acc in
             let '(acc2, A2) :=
               if Qle_bool d bp then (acc1 ++ [(bp, 0)], A1)
               else (acc1 ++ [(half (bp + d), half (d - bp))], insert_at (insert_pos bp d A1) (bp, d) A1) in
             inner f (acc2 ++ [(half (bp + dp), half (dp - bp))]) bp dp A2
         end end.

(* exact.py 272-360: `while A`: pop the first bar, the three initial points (283), the duplicate loop, the inner
   loop, `duplicate` copies of the finished depth (302-304) *)
Fixpoint outer (shortcut : bool) (fuel : nat) (A : list bar) : option (list (list pt)) :=
  match fuel with O => None | S f =>
    match A with
    | [] => Some []
    | (b, d) :: A0 =>
        let '(dup, A1) := if shortcut then dup_loop (length A0) 0 A0 (b, d) 0 else (O, A0) in
        match inner (S (length A1)) [(b, 0); (half (b + d), half (d - b))] b d A1 with
        | None => None
        | Some (L, A2) =>
            match outer shortcut f A2 with
            | None => None
            | Some Ls => Some (L :: repeat L dup ++ Ls)
            end end end end.

(* exact.py 270: A = sorted(A, key=lambda x: [x[0], -x[1]]);  364: critical_pairs without the -inf/+inf sentinels *)
Definition sweep (shortcut : bool) (bars : list bar) : option (list (list pt)) :=
  outer shortcut (S (length bars)) (sort_bars bars).


(* ---- the glue around the sweep: PersLandscapeExact.__init__ (exact.py 124-125) selects
   dgms[hom_deg]; compute_landscape (263-264) drops ONE trailing infinite bar. ---- *)
Definition ebar := (Q * option Q)%type.          (* death None = +inf *)
Inductive outcome :=
| Ok (L : list (list pt))
| ErrIndex            (* IndexError: hom_deg out of range, or (pinned code) A[-1] on an empty diagram *)
| ErrNonFinite        (* an infinite bar that is not the trailing one: outside the property *)
| ErrFuel.            (* fuel exhausted; never returned with the shortcut off (sweep_correct proves Some) *)

Definition is_inf (a : ebar) : bool := match snd a with None => true | Some _ => false end.
Definition strip_trailing_inf (A : list ebar) : list ebar :=
  match rev A with
  | x :: r => if is_inf x then rev r else A
  | [] => A
  end.
Fixpoint finite_bars (A : list ebar) : option (list bar) :=
  match A with
  | [] => Some []
  | (b, Some d) :: r => match finite_bars r with Some l => Some ((b, d) :: l) | None => None end
  | (_, None) :: _ => None
  end.

(* guard_empty = false is the pinned code (A[-1] raises IndexError on an empty diagram);
   guard_empty = true is the intended behaviour (no bars: no depths). *)
Definition exact_landscape (shortcut guard_empty : bool) (dgms : list (list ebar)) (h : nat) : outcome :=
  match nth_error dgms h with
  | None => ErrIndex
  | Some [] => if guard_empty then Ok [] else ErrIndex
  | Some dg =>
      match finite_bars (strip_trailing_inf dg) with
      | None => ErrNonFinite
      | Some bars => match sweep shortcut bars with Some L => Ok L | None => ErrFuel end
      end
  end.

(* does the repeated-bar shortcut fire (duplicate > 0) in some pass of the Legacy run?  Computable;
   this is what the guarded source hook ("dup_shortcut", duplicate) reports. *)
Fixpoint outer_fires (fuel : nat) (A : list bar) : bool :=
  match fuel with O => false | S f =>
    match A with
    | [] => false
    | (b, d) :: A0 =>
        let '(dup, A1) := dup_loop (length A0) 0 A0 (b, d) 0 in
        match dup with
        | S _ => true
        | O => match inner (S (length A1)) [(b, 0); (half (b + d), half (d - b))] b d A1 with
               | None => false
               | Some (_, A2) => outer_fires f A2
               end
        end
    end end.
Definition shortcut_fires (bars : list bar) : bool := outer_fires (S (length bars)) (sort_bars bars).

(* the trace the guarded hook records: one entry `duplicate` per pass in which duplicate > 0 *)
Fixpoint outer_trace (fuel : nat) (A : list bar) : list nat :=
  match fuel with O => [] | S f =>
    match A with
    | [] => []
    | (b, d) :: A0 =>
        let '(dup, A1) := dup_loop (length A0) 0 A0 (b, d) 0 in
        match inner (S (length A1)) [(b, 0); (half (b + d), half (d - b))] b d A1 with
        | None => []
        | Some (_, A2) => (match dup with O => [] | S _ => [dup] end) ++ outer_trace f A2
        end
    end end.
Definition shortcut_trace (bars : list bar) : list nat := outer_trace (S (length bars)) (sort_bars bars).
Definition landscape_trace (dgms : list (list ebar)) (h : nat) : list nat :=
  match nth_error dgms h with
  | Some (x :: r) => match finite_bars (strip_trailing_inf (x :: r)) with Some bars => shortcut_trace bars | None => [] end
  | _ => []
  end.
