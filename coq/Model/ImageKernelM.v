(* Glue C13 -> C04/C11: how persim/images.py hands the kernels of persim/images_kernels.py to
   _transform.  images.py:957-972 calls  self.kernel(mesh corners, mu = point, **kernel_params) ;
   in Model/ImageM.v the Gaussian is the Section variable
       Kgauss : sxx sxy syy mu_b mu_p x y |-> CDF value
   and any other callable is an `OtherKernel K`, K : mu_b mu_p x y |-> CDF value.
   The two adapters below plug the kernel MODELS of Model/KernelM.v into those slots
   (Corr/ImageCorr.v's run instances KgI / KuI are `gaussian_kernelM PhiI` / `uniform_kernelM`).
   No proofs in this file. *)
From Coq Require Import Reals.
From Persim Require Import Model.ImageM Model.KernelM.
Open Scope R_scope.

(* images_kernels.gaussian with kernel_params = {"sigma": [[sxx, sxy], [sxy, syy]]};
   thr is the constant of images_kernels.py:173 (-100 intended, 100 on the pinned tree) *)
Definition gaussian_kernelM_gen (thr : R) (Phi : R -> R) : R -> R -> R -> kernel :=
  fun sxx sxy syy mb mp x y => gaussian_cdf_gen thr Phi (mb, mp) (mk_sigma sxx sxy syy) x y.
Definition gaussian_kernelM (Phi : R -> R) : R -> R -> R -> kernel :=
  fun sxx sxy syy mb mp x y => gaussian_cdf Phi (mb, mp) (mk_sigma sxx sxy syy) x y.

(* images_kernels.uniform with kernel_params = {"width": width, "height": height} *)
Definition uniform_kernelM (width height : R) : kernel :=
  fun mb mp x y => uniform_cdf (mb, mp) width height x y.
