(* C12 / C18 - executable model of the configuration state machine of persim.PersistenceImager
   (persim/images.py: constructor 306-356, setters 406-471, _create_mesh 584-610, fit 612-652,
   fit_transform 720-744, and the shape of what _transform returns).

   One model text, parametrised by a record of numeric operations [Num], with two instances:
     QNum  exact rationals            - the theorems of Proofs/ImagerP.v are about this instance
     FNum  binary64 (PrimFloat)       - run bit for bit against the implementation by the tie,
                                        and used for the float refutation of the pinned setters.
   Two variants of constructor / setters:
     [Legacy]   the pinned code: the constructor truncates width/pixel_size and does not round the
                ranges up; the setters recompute resolution as int(width / pixel_size);
     intended   (fixes/C12_imager_geometry.patch) every path computes n = int(ceil(extent/ps)),
                width = n*ps and resolution = n.
   No proofs in this file. *)
From Coq Require Import ZArith QArith Qround List Bool.
From Coq Require Import PrimFloat FloatOps SpecFloat.
From Coq Require Uint63.
Import ListNotations.

Record Num := {
  T : Type;
  add : T -> T -> T;
  sub : T -> T -> T;
  mul : T -> T -> T;
  div : T -> T -> T;
  half : T -> T;              (* x / 2 *)
  of_int : Z -> T;            (* int -> float conversion of Python's mixed arithmetic *)
  ceil_int : T -> Z;          (* int(np.ceil(x)) *)
  trunc_int : T -> Z;         (* int(x): truncation toward zero *)
  ltb : T -> T -> bool;       (* x < y *)
  leb : T -> T -> bool;       (* x <= y *)
  is_zero : T -> bool         (* x == 0 *)
}.

(* ---------------------------------------------------------------- instance: exact rationals *)
Definition Qtrunc (x : Q) : Z := if Qle_bool 0 x then Qfloor x else Qceiling x.
Definition Qltb (x y : Q) : bool := negb (Qle_bool y x).

Definition QNum : Num := {|
  T := Q; add := Qplus; sub := Qminus; mul := Qmult; div := Qdiv;
  half := fun x => x * (1#2);
  of_int := inject_Z; ceil_int := Qceiling; trunc_int := Qtrunc;
  ltb := Qltb; leb := Qle_bool; is_zero := fun x => Qeq_bool x 0 |}.

(* ---------------------------------------------------------------- instance: binary64 *)
(* integer part through the specification view: value = m * 2^e *)
Definition fl_floor (x : float) : Z :=
  match Prim2SF x with
  | S754_zero _ => 0%Z
  | S754_finite s m e =>
      let v := (if s then - Z.pos m else Z.pos m)%Z in
      if (0 <=? e)%Z then (v * 2 ^ e)%Z else (v / 2 ^ (- e))%Z      (* Z division floors *)
  | _ => 0%Z
  end.
Definition fl_ceil (x : float) : Z := (- fl_floor (PrimFloat.opp x))%Z.
Definition fl_trunc (x : float) : Z := if PrimFloat.ltb x PrimFloat.zero then fl_ceil x else fl_floor x.
Definition fl_of_Z (z : Z) : float :=
  if (z <? 0)%Z then PrimFloat.opp (PrimFloat.of_uint63 (Uint63.of_Z (- z)))
  else PrimFloat.of_uint63 (Uint63.of_Z z).

Definition FNum : Num := {|
  T := float; add := PrimFloat.add; sub := PrimFloat.sub; mul := PrimFloat.mul; div := PrimFloat.div;
  half := fun x => PrimFloat.div x (fl_of_Z 2);
  of_int := fl_of_Z; ceil_int := fl_ceil; trunc_int := fl_trunc;
  ltb := PrimFloat.ltb; leb := PrimFloat.leb; is_zero := fun x => PrimFloat.eqb x PrimFloat.zero |}.

(* ---------------------------------------------------------------- the state machine *)
Section Imager.
Variable N : Num.
Notation num := (T N).

Record state := mkS {
  psz : num;                       (* _pixel_size *)
  blo : num; bhi : num;            (* _birth_range *)
  plo : num; phi : num;            (* _pers_range *)
  width : num; height : num;       (* _width, _height *)
  resw : Z; resh : Z;              (* _resolution *)
  bpnts : list num; ppnts : list num   (* _bpnts, _ppnts: the corner mesh *)
}.

Definition zrange (n : Z) : list Z := map Z.of_nat (seq 0 (Z.to_nat n)).

(* np.linspace(lo, hi, n, endpoint=False):  step = (hi-lo)/n ;  y_i = i*step + lo
   (when step == 0:  y_i = (i/n)*(hi-lo) + lo) *)
Definition linspace_open (lo hi : num) (n : Z) : list num :=
  let delta := sub N hi lo in
  let step := div N delta (of_int N n) in
  map (fun i => if is_zero N step
                then add N (mul N (div N (of_int N i) (of_int N n)) delta) lo
                else add N (mul N (of_int N i) step) lo) (zrange n).

(* _create_mesh, lines 584-610: symmetric padding of both ranges, then both meshes *)
Definition create_mesh (s : state) : state :=
  let db := sub N (width s) (sub N (bhi s) (blo s)) in
  let dp := sub N (height s) (sub N (phi s) (plo s)) in
  let blo' := sub N (blo s) (half N db) in
  let bhi' := add N (bhi s) (half N db) in
  let plo' := sub N (plo s) (half N dp) in
  let phi' := add N (phi s) (half N dp) in
  mkS (psz s) blo' bhi' plo' phi' (width s) (height s) (resw s) (resh s)
      (linspace_open blo' (add N bhi' (psz s)) (resw s + 1))
      (linspace_open plo' (add N phi' (psz s)) (resh s + 1)).

(* number of whole pixels needed to cover [lo, hi]: int(np.ceil((hi - lo) / ps)) *)
Definition num_pixels (ps lo hi : num) : Z := ceil_int N (div N (sub N hi lo) ps).

(* ---- pinned code *)
Definition ctor_legacy (bl bh pl ph ps : num) : state :=
  let w := sub N bh bl in
  let h := sub N ph pl in
  create_mesh (mkS ps bl bh pl ph w h (trunc_int N (div N w ps)) (trunc_int N (div N h ps)) [] []).

Definition legacy_res (s : state) (w h ps : num) : Z * Z :=
  (trunc_int N (div N w ps), trunc_int N (div N h ps)).

Definition set_birth_legacy (s : state) (lo hi : num) : state :=
  let w := mul N (of_int N (num_pixels (psz s) lo hi)) (psz s) in
  let r := legacy_res s w (height s) (psz s) in
  create_mesh (mkS (psz s) lo hi (plo s) (phi s) w (height s) (fst r) (snd r) (bpnts s) (ppnts s)).

Definition set_pers_legacy (s : state) (lo hi : num) : state :=
  let h := mul N (of_int N (num_pixels (psz s) lo hi)) (psz s) in
  let r := legacy_res s (width s) h (psz s) in
  create_mesh (mkS (psz s) (blo s) (bhi s) lo hi (width s) h (fst r) (snd r) (bpnts s) (ppnts s)).

Definition set_pixel_legacy (s : state) (p : num) : state :=
  let w := mul N (of_int N (num_pixels p (blo s) (bhi s))) p in
  let h := mul N (of_int N (num_pixels p (plo s) (phi s))) p in
  let r := legacy_res s w h p in
  create_mesh (mkS p (blo s) (bhi s) (plo s) (phi s) w h (fst r) (snd r) (bpnts s) (ppnts s)).

(* ---- intended code (fixes/C12_imager_geometry.patch) *)
Definition ctor (bl bh pl ph ps : num) : state :=
  let nb := num_pixels ps bl bh in
  let np := num_pixels ps pl ph in
  create_mesh (mkS ps bl bh pl ph (mul N (of_int N nb) ps) (mul N (of_int N np) ps) nb np [] []).

Definition set_birth (s : state) (lo hi : num) : state :=
  let nb := num_pixels (psz s) lo hi in
  create_mesh (mkS (psz s) lo hi (plo s) (phi s) (mul N (of_int N nb) (psz s)) (height s)
                   nb (resh s) (bpnts s) (ppnts s)).

Definition set_pers (s : state) (lo hi : num) : state :=
  let np := num_pixels (psz s) lo hi in
  create_mesh (mkS (psz s) (blo s) (bhi s) lo hi (width s) (mul N (of_int N np) (psz s))
                   (resw s) np (bpnts s) (ppnts s)).

Definition set_pixel (s : state) (p : num) : state :=
  let nb := num_pixels p (blo s) (bhi s) in
  let np := num_pixels p (plo s) (phi s) in
  create_mesh (mkS p (blo s) (bhi s) (plo s) (phi s) (mul N (of_int N nb) p) (mul N (of_int N np) p)
                   nb np (bpnts s) (ppnts s)).

(* ---- fit, lines 612-652.  A diagram is a non-empty list of (birth, death-or-persistence) pairs,
   a collection a non-empty list of diagrams (the code raises / produces nan otherwise). *)
Definition point := (num * num)%type.
Definition dgm := (point * list point)%type.
Definition coll := (dgm * list dgm)%type.

Definition skew_pt (skew : bool) (p : point) : point :=
  if skew then (fst p, sub N (snd p) (fst p)) else p.
Definition dgm_points (skew : bool) (d : dgm) : list point := map (skew_pt skew) (fst d :: snd d).

Definition nmin (a b : num) : num := if ltb N b a then b else a.   (* running minimum *)
Definition nmax (a b : num) : num := if ltb N a b then b else a.
Definition min_list (x : num) (l : list num) : num := fold_left nmin l x.
Definition max_list (x : num) (l : list num) : num := fold_left nmax l x.

(* the four extremes of one diagram: pers_dgm.min(axis=0), pers_dgm.max(axis=0) *)
Definition dgm_ext (skew : bool) (d : dgm) : num * num * num * num :=
  let p0 := skew_pt skew (fst d) in
  let rest := map (skew_pt skew) (snd d) in
  (min_list (fst p0) (map fst rest), max_list (fst p0) (map fst rest),
   min_list (snd p0) (map snd rest), max_list (snd p0) (map snd rest)).

(* the loop over diagrams: `if min_b < min_birth: min_birth = min_b` ... starting from +-inf,
   i.e. from the first diagram's extremes *)
Definition coll_ext (skew : bool) (c : coll) : num * num * num * num :=
  fold_left (fun acc d =>
               match acc, dgm_ext skew d with
               | (mnb, mxb, mnp, mxp), (a, b, c', d') => (nmin mnb a, nmax mxb b, nmin mnp c', nmax mxp d')
               end) (snd c) (dgm_ext skew (fst c)).

Definition fit_with (sb sp : state -> num -> num -> state) (s : state) (c : coll) (skew : bool) : state :=
  match coll_ext skew c with
  | (mnb, mxb, mnp, mxp) => sp (sb s mnb mxb) mnp mxp
  end.

Definition fit := fit_with set_birth set_pers.
Definition fit_legacy := fit_with set_birth_legacy set_pers_legacy.

(* ---- operations and histories *)
Inductive op :=
| SetBirth (lo hi : num)
| SetPers (lo hi : num)
| SetPixel (p : num)
| Fit (c : coll) (skew : bool).

Definition step (s : state) (o : op) : state :=
  match o with
  | SetBirth lo hi => set_birth s lo hi
  | SetPers lo hi => set_pers s lo hi
  | SetPixel p => set_pixel s p
  | Fit c k => fit s c k
  end.

Definition step_legacy (s : state) (o : op) : state :=
  match o with
  | SetBirth lo hi => set_birth_legacy s lo hi
  | SetPers lo hi => set_pers_legacy s lo hi
  | SetPixel p => set_pixel_legacy s p
  | Fit c k => fit_legacy s c k
  end.

Definition run (s : state) (h : list op) : state := fold_left step h s.
Definition run_legacy (s : state) (h : list op) : state := fold_left step_legacy h s.

(* ---- what transform returns: np.zeros(resolution) += block of shape (len(_bpnts)-1, len(_ppnts)-1);
   a mismatch is a broadcasting error (None) *)
Definition shape (s : state) : option (Z * Z) :=
  if (Z.of_nat (length (bpnts s)) - 1 =? resw s)%Z && (Z.of_nat (length (ppnts s)) - 1 =? resh s)%Z
  then Some (resw s, resh s) else None.

(* the pixel a point mass at x falls into along one axis: the last mesh interval
   [node_i, node_{i+1}) whose left end is <= x;  -1 if x is left of the mesh *)
Definition locate (mesh : list num) (x : num) : Z :=
  (Z.of_nat (length (filter (fun node => leb N node x) mesh)) - 1)%Z.

End Imager.

Arguments mkS {N}.
Arguments psz {N}. Arguments blo {N}. Arguments bhi {N}. Arguments plo {N}. Arguments phi {N}.
Arguments width {N}. Arguments height {N}. Arguments resw {N}. Arguments resh {N}.
Arguments bpnts {N}. Arguments ppnts {N}.
Arguments SetBirth {N}. Arguments SetPers {N}. Arguments SetPixel {N}. Arguments Fit {N}.
