(* Model of persim/persistent_entropy.py : persistent_entropy (lines 63-90), over R.
   No proofs here, so the model still loads when a proof breaks. *)
From Coq Require Import Reals List Bool.
Import ListNotations.
Open Scope R_scope.

(* a death time is a real number or +infinity *)
Inductive ext := Fin (x : R) | PInf.
Definition bar : Type := R * ext.
Definition fbar : Type := R * R.

(* keep_inf = False : dgm[dgm[:,1] != inf] *)
Definition drop_inf (d : list bar) : list fbar :=
  flat_map (fun b => match snd b with Fin x => [(fst b, x)] | PInf => [] end) d.
(* keep_inf = True, val_inf = v : np.where(dgm == inf, v, dgm) *)
Definition subst_inf (v : R) (d : list bar) : list fbar :=
  map (fun b => (fst b, match snd b with Fin x => x | PInf => v end)) d.

Definition lengths (d : list fbar) : list R := map (fun b => snd b - fst b) d.
Definition sumR (l : list R) : R := fold_right Rplus 0 l.

Fixpoint all_pos (l : list R) : bool :=
  match l with [] => true | x :: r => if Rlt_dec 0 x then all_pos r else false end.

(* E = -sum(p * log p), p = l / sum l *)
Definition shannon (l : list R) : R :=
  - sumR (map (fun x => (x / sumR l) * ln (x / sumR l)) l).
Definition entropy_val (normalize : bool) (l : list R) : R :=
  if normalize then shannon l / ln (INR (length l)) else shannon l.

Inductive res := Ok (v : list R) | ErrBar | ErrNoVal.

(* one diagram: Some value, or None when a bar has non-positive length *)
Definition entropy_one (normalize : bool) (d : list fbar) : option R :=
  if all_pos (lengths d) then Some (entropy_val normalize (lengths d)) else None.

Fixpoint collect (l : list (option R)) : option (list R) :=
  match l with
  | [] => Some []
  | None :: _ => None
  | Some x :: r => match collect r with Some v => Some (x :: v) | None => None end
  end.

Definition persistent_entropy (keep_inf : bool) (val_inf : option R) (normalize : bool)
           (dgms : list (list bar)) : res :=
  match (if keep_inf then
           match val_inf with
           | Some v => Some (map (subst_inf v) dgms)
           | None => None
           end
         else Some (map drop_inf dgms)) with
  | None => ErrNoVal
  | Some ds => match collect (map (entropy_one normalize) ds) with
               | Some v => Ok v
               | None => ErrBar
               end
  end.
