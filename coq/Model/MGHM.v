(* Model of persim/gromov_hausdorff.py lines 266-741 (estimate, find_lb, find_ub and helpers),
   over Z.  Follows the code's algorithm; no proofs in this file.

   Conventions
   * distance matrices are [mat] = list of rows; a principal submatrix K of DX is carried as the
     list [ks] of retained indices (np.delete of row r and column r = dropping the r-th index);
     the matrix itself, [submat DX ks], is what the row-selection oracle and the row
     distributions see.
   * the row to delete in find_largest_size_bounded_curvature is an ORACLE [pick K diam d]:
     theorems hold for every oracle, hence for every tie-break of np.argmin and for the int8
     wrap-around of [len(K) * diam_X] under NumPy 2.  [pick_exact] / [pick_int8] are the two
     concrete instances used by the correspondence.
   * np.random.permutation / np.random.choice are INPUTS: a list of samples (pi, y0).
   * loops carry explicit fuel derived from lengths; exhaustion gives None. *)
From Coq Require Import ZArith QArith List Bool Arith Lia.
From Persim Require Import Spec.MGH.
Import ListNotations.
Open Scope Z_scope.

(* ---------------------------------------------------------------- small numpy helpers *)
Definition diam (D : mat) : Z := zmaxl (concat D).                       (* np.max(DX) *)

Definition submat (D : mat) (ks : list nat) : mat :=
  map (fun a => map (fun b => ent D a b) ks) ks.

Fixpoint remove_nth {A} (r : nat) (l : list A) : list A :=
  match l, r with
  | [], _ => []
  | _ :: t, O => t
  | x :: t, S r' => x :: remove_nth r' t
  end.

Fixpoint argmin_from (best : Z) (besti i : nat) (l : list Z) : nat :=
  match l with
  | [] => besti
  | x :: t => if x <? best then argmin_from x i (S i) t else argmin_from best besti (S i) t
  end.
(* np.argmin: index of the first minimum *)
Definition argmin_first (l : list Z) : nat :=
  match l with [] => 0%nat | x :: t => argmin_from x 0%nat 1%nat t end.

Fixpoint set_nth (k : nat) (x : Z) (l : list Z) : list Z :=
  match l, k with
  | [], _ => []
  | _ :: t, O => x :: t
  | y :: t, S k' => y :: set_nth k' x t
  end.

(* ---------------------------------------------------------------- find_largest_size_bounded_curvature *)
(* np.any(K[np.triu_indices_from(K, 1)] < d) *)
Fixpoint has_small (D : mat) (ks : list nat) (d : Z) : bool :=
  match ks with
  | [] => false
  | a :: rest => existsb (fun b => ent D a b <? d) rest || has_small D rest d
  end.

Definition oracle := mat -> Z -> Z -> nat.        (* K, diam_X, d  |->  row_to_remove *)

Fixpoint largest_loop (pick : oracle) (D : mat) (diamX d : Z) (fuel : nat) (ks : list nat)
  : option (list nat) :=
  if has_small D ks d then
    match fuel with
    | O => None
    | S f => largest_loop pick D diamX d f (remove_nth (pick (submat D ks) diamX d) ks)
    end
  else Some ks.

Definition find_largest (pick : oracle) (D : mat) (diamX d : Z) : option (list nat) :=
  largest_loop pick D diamX d (length D) (seq 0 (length D)).

(* the sort key of the code, per column (axis=0):
   -sum(K < d) * (len(K) * diam_X) + sum(masked_less(K, d)).data *)
Definition col (K : mat) (c : nat) : list Z := map (fun r => nth c r 0) K.
Definition sortkey (W : Z) (K : mat) (d : Z) (c : nat) : Z :=
  let cl := col K c in
  - (Z.of_nat (length (filter (fun x => x <? d) cl))) * W
  + fold_right Z.add 0 (filter (fun x => d <=? x) cl).
Definition wrap8 (z : Z) : Z := (z + 128) mod 256 - 128.
Definition pick_with (W : mat -> Z -> Z) : oracle := fun K diamX d =>
  argmin_first (map (sortkey (W K diamX) K d) (seq 0 (length K))).
Definition pick_exact : oracle := pick_with (fun K diamX => Z.of_nat (length K) * diamX).
(* NumPy 2: python int * np.int8 is computed in int8 and wraps *)
Definition pick_int8 : oracle := pick_with (fun K diamX => wrap8 (Z.of_nat (length K) * diamX)).

(* ---------------------------------------------------------------- row distributions *)
Definition countZ (x : Z) (l : list Z) : Z := Z.of_nat (count_occ Z.eq_dec l x).
(* frequencies of the distances max_d, max_d - 1, ..., 1 in a row (distance 0 dropped) *)
Definition row_dist (maxd : Z) (row : list Z) : list Z :=
  map (fun k => countZ (maxd - Z.of_nat k) row) (seq 0 (Z.to_nat maxd)).
Definition dists (maxd : Z) (M : mat) : list (list Z) := map (row_dist maxd) M.

Fixpoint cumsum_from (acc : Z) (l : list Z) : list Z :=
  match l with [] => [] | x :: t => (acc + x) :: cumsum_from (acc + x) t end.
Definition zip_sub (b a : list Z) : list Z := map (fun p => fst p - snd p) (combine b a).
(* pairwise_distribution_less_thans[a, b] *)
Definition dist_less (a b : list Z) : bool :=
  let c := cumsum_from 0 (zip_sub b a) in
  forallb (fun x => 0 <=? x) c && existsb (fun x => 0 <? x) c.
(* find_unique_max_distributions; np.unique's sorting and de-duplication only change the order
   in which rows are tried, not the disjunction computed by the caller, and are not modelled *)
Definition max_dists (ds : list (list Z)) : list (list Z) :=
  filter (fun a => negb (existsb (dist_less a) ds)) ds.

(* ---------------------------------------------------------------- check_assignment_feasibility *)
Definition first_pos_from (l : list Z) (lo hi : nat) : option nat :=
  find (fun k => 0 <? nth k l 0) (seq lo (hi - lo)).

Definition next_j (ru : list Z) (d : nat) (i min_j : nat) : option nat :=
  first_pos_from ru min_j (S (Nat.min (i + (d - 1)) (length ru - 1))).

Definition next_i_and_j (rv ru : list Z) (d : nat) (min_i min_j : nat) : option nat * option nat :=
  match first_pos_from rv min_i (length rv) with
  | None => (None, Some min_j)
  | Some i => (Some i, next_j ru d i (Nat.max (i - (d - 1)) min_j))
  end.

Fixpoint feas_loop (fuel : nat) (rv ru : list Z) (d : nat) (i j : nat) : option bool :=
  match fuel with
  | O => None
  | S f =>
    if nth i rv 0 <=? nth j ru 0 then
      let ru' := set_nth j (nth j ru 0 - nth i rv 0) ru in
      let rv' := set_nth i 0 rv in
      match next_i_and_j rv' ru' d i j with
      | (None, _) => Some true
      | (Some _, None) => Some false
      | (Some i', Some j') => feas_loop f rv' ru' d i' j'
      end
    else
      let rv' := set_nth i (nth i rv 0 - nth j ru 0) rv in
      let ru' := set_nth j 0 ru in
      match next_j ru' d i j with
      | None => Some false
      | Some j' => feas_loop f rv' ru' d i j'
      end
  end.

Definition check_feas (v u : list Z) (d : Z) : option bool :=
  let rv := rev v in
  let ru := rev u in
  let dn := Z.to_nat d in
  match next_i_and_j rv ru dn 0 0 with
  | (None, _) => Some true
  | (Some _, None) => Some false
  | (Some i, Some j) => feas_loop (S (length rv + length ru)) rv ru dn i j
  end.

(* `not check_assignment_feasibility(...)`; fuel exhaustion never confirms a bound *)
Definition infeasible (v u : list Z) (d : Z) : bool :=
  match check_feas v u d with Some false => true | _ => false end.

(* ---------------------------------------------------------------- confirm_lb_using_bounded_curvature(_row) *)
Definition confirm_row (d maxd : Z) (K DY : mat) : bool :=
  existsb (fun v => forallb (fun u => infeasible v u d) (dists maxd DY))
          (max_dists (dists maxd K)).

Definition confirm (d maxd : Z) (K DY : mat) : bool :=
  (length DY <? length K)%nat || confirm_row d maxd K DY.

(* one `if d <= diam_X: K = ...; if len(K) > 2 and confirm(...)` block *)
Definition try_side (pick : oracle) (DX DY : mat) (diamX maxd d : Z) : option bool :=
  match find_largest pick DX diamX d with
  | None => None
  | Some ks => Some ((2 <? length ks)%nat && confirm d maxd (submat DX ks) DY)
  end.

(* ---------------------------------------------------------------- find_lb *)
Definition lb_step (pick : oracle) (DX DY : mat) (dX dY maxd d lb : Z) : option Z :=
  let s1 := if d <=? dX
            then match try_side pick DX DY dX maxd d with
                 | None => None | Some true => Some d | Some false => Some lb end
            else Some lb in
  match s1 with
  | None => None
  | Some lb1 =>
    if (lb1 <? d) && (d <=? dY)
    then match try_side pick DY DX dY maxd d with
         | None => None | Some true => Some d | Some false => Some lb1 end
    else Some lb1
  end.

Fixpoint lb_loop (pick : oracle) (DX DY : mat) (dX dY maxd : Z) (fuel : nat) (d lb : Z) : option Z :=
  if lb <? d then
    match fuel with
    | O => None
    | S f => match lb_step pick DX DY dX dY maxd d lb with
             | None => None
             | Some lb' => lb_loop pick DX DY dX dY maxd f (d - 1) lb'
             end
    end
  else Some lb.

Definition trivial_lb (DX DY : mat) : Z :=
  Z.max (Z.abs (diam DX - diam DY)) (if (length DX =? length DY)%nat then 0 else 1).

Definition find_lb (pick : oracle) (DX DY : mat) : option Z :=
  let dX := diam DX in
  let dY := diam DY in
  let maxd := Z.max dX dY in
  lb_loop pick DX DY dX dY maxd (Z.to_nat maxd) maxd (trivial_lb DX DY).

(* ---------------------------------------------------------------- construct_mapping, find_ub *)
(* np.max(np.abs(DX[x, mapped_xs] - DY[:, mapped_xs_images]), axis=1)[y] *)
Definition bottleneck (DX DY : mat) (x : nat) (xs ys : list nat) (y : nat) : Z :=
  zmaxl (map (fun p => Z.abs (ent DX x (fst p) - ent DY y (snd p))) (combine xs ys)).

Fixpoint cm_loop (DX DY : mat) (rest xs ys : list nat) (dist : Z) : list nat * Z :=
  match rest with
  | [] => (ys, dist)
  | x :: t =>
    let b := map (bottleneck DX DY x xs ys) (seq 0 (length DY)) in
    let y := argmin_first b in
    cm_loop DX DY t (xs ++ [x]) (ys ++ [y]) (Z.max (nth y b 0) dist)
  end.

(* pi: the sampled permutation; y0: np.random.choice(len(DY)).  Result: the images IN THE ORDER
   OF pi (mapped_xs_images) and the distortion. *)
Definition construct_mapping (DX DY : mat) (pi : list nat) (y0 : nat) : option (list nat * Z) :=
  match pi with
  | [] => None
  | x0 :: t => Some (cm_loop DX DY t [x0] [y0] 0)
  end.

Definition omin (x : Z) (c : option Z) : Z := match c with None => x | Some y => Z.min x y end.

(* find_ub_of_min_distortion: tries the samples in turn, stops as soon as goal is matched *)
Fixpoint ub_loop (DX DY : mat) (goal : Z) (cur : option Z) (samples : list (list nat * nat))
  : option Z :=
  match samples with
  | [] => cur
  | (pi, y0) :: rest =>
    match construct_mapping DX DY pi y0 with
    | None => None
    | Some (_, dist) =>
      let c := omin dist cur in
      if c <=? goal then Some c else ub_loop DX DY goal (Some c) rest
    end
  end.
Definition find_ub_of_min_distortion DX DY goal samples := ub_loop DX DY goal None samples.

(* how many samples the loop consumes (for the correspondence with the RNG log) *)
Fixpoint ub_used (DX DY : mat) (goal : Z) (cur : option Z) (samples : list (list nat * nat)) : nat :=
  match samples with
  | [] => 0%nat
  | (pi, y0) :: rest =>
    match construct_mapping DX DY pi y0 with
    | None => 1%nat
    | Some (_, dist) =>
      let c := omin dist cur in
      if c <=? goal then 1%nat else S (ub_used DX DY goal (Some c) rest)
    end
  end.

Definition find_ub (DX DY : mat) (s1 s2 : list (list nat * nat)) (double_lb : Z) : option Z :=
  match find_ub_of_min_distortion DX DY double_lb s1 with
  | None => None
  | Some u1 =>
    match find_ub_of_min_distortion DY DX u1 s2 with
    | None => None
    | Some u2 => Some (Z.max u1 u2)
    end
  end.

(* estimate returns (0.5 * double_lb, 0.5 * double_ub); the model keeps the doubled integers *)
Definition estimate2 (pick : oracle) (DX DY : mat) (s1 s2 : list (list nat * nat)) : option (Z * Z) :=
  match find_lb pick DX DY with
  | None => None
  | Some lb => match find_ub DX DY s1 s2 lb with None => None | Some ub => Some (lb, ub) end
  end.

(* what estimate returns: 0.5 * double_lb, 0.5 * double_ub *)
Definition half (z : Z) : Q := Qmult (inject_Z z) (1 # 2).
Definition estimate (pick : oracle) (DX DY : mat) (s1 s2 : list (list nat * nat)) : option (Q * Q) :=
  match estimate2 pick DX DY s1 s2 with
  | Some (lb, ub) => Some (half lb, half ub)
  | None => None
  end.
