(* C08 - executable model over Q of
     persim/landscapes/approximate.py  PersLandscapeApprox.__init__ (134-142) and compute_landscape (173-239),
     persim/landscapes/auxiliary.py    ndsnap_regular (134-142),
     persim/landscapes/tools.py        death_vector (20-40), vectorize (166-203),
     persim/landscapes/transformer.py  PersistenceLandscaper.fit / transform (84-130).
   Algorithm-shaped: the grid is built as np.linspace does, end points are snapped by argmin (first
   minimum), looked up again through the value->index dictionary, the two ramp loops append
   (node, value) events, every node's list is sorted descending and copied into a K x n matrix.
   No proofs in this file. *)
From Coq Require Import QArith Qabs Qminmax List Bool Arith ZArith.
From Persim Require Import Lib.Kth Lib.PL.
Import ListNotations.
Open Scope Q_scope.

(* ---- np.linspace(start, stop, n, retstep=True) ---- *)
Definition qnat (i : nat) : Q := inject_Z (Z.of_nat i).
(* Qred only normalises the representation of the same rational number (keeps vm_compute fast) *)
Definition step (start stop : Q) (n : nat) : Q := Qred ((stop - start) / (qnat n - 1)).
Definition node (start stop : Q) (n i : nat) : Q := Qred (start + qnat i * step start stop n).
Definition grid (start stop : Q) (n : nat) : list Q := map (node start stop n) (seq 0 n).
(* numpy additionally overwrites the last node by `stop`; in Q that is the same number. *)

(* ---- np.argmin: index of the FIRST minimum ---- *)
Fixpoint argmin_go (l : list Q) (i best : nat) (bv : Q) : nat :=
  match l with
  | [] => best
  | v :: r => if Qlt_bool v bv then argmin_go r (S i) i v else argmin_go r (S i) best bv
  end.
Definition argmin (l : list Q) : nat := match l with [] => O | v :: r => argmin_go r 1 0 v end.

(* ---- ndsnap_regular, one axis: best = argmin |ax - x| ; snapped = ax[best] ---- *)
Definition snap_idx (ax : list Q) (x : Q) : nat := argmin (map (fun g => Qabs (g - x)) ax).
Definition snap_val (ax : list Q) (x : Q) : Q := nth (snap_idx ax x) ax 0.

(* ---- dict_grid = dict(zip(grid_values, index)) ; dict_grid[v]  (later keys overwrite) ---- *)
Definition dict_get (ax : list Q) (v : Q) : option nat :=
  fold_left (fun acc j => if Qeq_bool (nth j ax 0) v then Some j else acc) (seq 0 (length ax)) None.
Definition ind (ax : list Q) (x : Q) : nat :=
  match dict_get ax (snap_val ax x) with Some i => i | None => O end.

(* ---- the two ramp loops of one bar (lines 198-220): the appends W[node].append(value), in order.
        mid_pt = ib + (id - ib) // 2  (Python floor division = Z.div for the divisor 2);
        range(ib, mid) has max(0, mid-ib) iterations, range(mid+1, id) has max(0, id-mid-1). ---- *)
Definition mid_pt (ib id : Z) : Z := (ib + (id - ib) / 2)%Z.
Definition bar_events (stp : Q) (ib id : Z) : list (Z * Q) :=
  let mid := mid_pt ib id in
  map (fun j => ((ib + Z.of_nat j)%Z, qnat j * stp)) (seq 1 (Z.to_nat (mid - ib)))
  ++ map (fun j => ((id - Z.of_nat j)%Z, qnat j * stp)) (seq 1 (Z.to_nat (id - (mid + 1)))).

Definition all_events (ax : list Q) (stp : Q) (bars : list bar) : list (Z * Q) :=
  flat_map (fun bd => bar_events stp (Z.of_nat (ind ax (fst bd))) (Z.of_nat (ind ax (snd bd)))) bars.

(* W[i] after all appends *)
Definition W (ev : list (Z * Q)) (i : nat) : list Q :=
  map snd (filter (fun e => Z.eqb (fst e) (Z.of_nat i)) ev).

(* sorted(W[i], reverse=True) for every node *)
Definition sorted_W (start stop : Q) (n : nat) (bars : list bar) : list (list Q) :=
  let ax := grid start stop n in
  let ev := all_events ax (step start stop n) bars in
  map (fun i => sort_desc (W ev i)) (seq 0 n).

(* K = max length ; L = zeros (K x n) ; L[k][i] = W[i][k] *)
Definition depth_of (Ws : list (list Q)) : nat := fold_right Nat.max O (map (@length Q) Ws).
Definition fill (Ws : list (list Q)) (K : nat) : list (list Q) :=
  map (fun k => map (fun w => nth k w 0) Ws) (seq 0 K).

(* ---- compute_landscape ---- *)
(* Legacy = the pinned tree: an empty L is replaced by the string array ['empty'] (lines 235-237). *)
Inductive lres := LVals (v : list (list Q)) | LEmptyMarker.
Definition approx_values_legacy (start stop : Q) (n : nat) (bars : list bar) : lres :=
  let Ws := sorted_W start stop n bars in
  let K := depth_of Ws in
  if Nat.eqb K 0 then LEmptyMarker else LVals (fill Ws K).
(* Intended (fixes/C08_empty_values.patch): an empty L becomes one row of zeros. *)
Definition approx_values (start stop : Q) (n : nat) (bars : list bar) : list (list Q) :=
  let Ws := sorted_W start stop n bars in
  let K := depth_of Ws in
  if Nat.eqb K 0 then [repeat 0 n] else fill Ws K.

(* values[k][i], rows / columns that are not there counting as zero *)
Definition val_at (v : list (list Q)) (k i : nat) : Q := nth i (nth k v []) 0.

(* ---- __init__ : select the degree, drop bars with an infinite coordinate, default grid ends ---- *)
Inductive ext := Fin (q : Q) | PInf.
Definition xbar := (ext * ext)%type.
Definition finite_bars (d : list xbar) : list bar :=
  flat_map (fun b => match b with (Fin x, Fin y) => [(x, y)] | _ => [] end) d.
(* min(dgm, key=itemgetter(0))[0] / max(dgm, key=itemgetter(1))[1] *)
Fixpoint qmin_list (l : list Q) : option Q :=
  match l with [] => None | x :: r => match qmin_list r with None => Some x | Some m => Some (if Qle_bool x m then x else m) end end.
Fixpoint qmax_list (l : list Q) : option Q :=
  match l with [] => None | x :: r => match qmax_list r with None => Some x | Some m => Some (if Qle_bool m x then x else m) end end.

Inductive res (A : Type) := Ok (a : A) | ErrIndex | ErrEmptyDiagram | ErrInfiniteGrid.
Arguments Ok {A} a. Arguments ErrIndex {A}. Arguments ErrEmptyDiagram {A}. Arguments ErrInfiniteGrid {A}.

Definition grid_ends (start stop : option Q) (bars : list bar) : option (Q * Q) :=
  match (match start with Some s => Some s | None => qmin_list (map fst bars) end),
        (match stop with Some s => Some s | None => qmax_list (map snd bars) end) with
  | Some s, Some e => Some (s, e)
  | _, _ => None
  end.

(* __init__ followed by compute_landscape; `core` is compute_landscape (intended or legacy) *)
Definition ctor_gen {X : Type} (core : Q -> Q -> nat -> list bar -> X)
  (start stop : option Q) (n : nat) (dgms : list (list xbar)) (hom_deg : nat) : res (Q * Q * X) :=
  match nth_error dgms hom_deg with
  | None => ErrIndex
  | Some d =>
      let bars := finite_bars d in
      match grid_ends start stop bars with
      | None => ErrEmptyDiagram
      | Some (s, e) => Ok (s, e, core s e n bars)
      end
  end.
Definition approx_ctor := ctor_gen approx_values.
Definition approx_ctor_legacy := ctor_gen approx_values_legacy.

(* ---- transformer: fit (grid ends from the RAW diagram of the degree, infinite bars included: the
        "TODO: remove infinities" of transformer.py) then transform (the approximate class's values,
        flattened on request).  An end stored by an earlier fit() is learned afresh (transformer.py _is_learned),
        so fit depends only on the start / stop the USER gave: the model of fit is stateless. ---- *)
Definition raw_births (d : list xbar) : list Q := flat_map (fun b => match fst b with Fin x => [x] | PInf => [] end) d.
Definition has_inf_death (d : list xbar) : bool := existsb (fun b => match snd b with PInf => true | _ => false end) d.
Definition raw_deaths (d : list xbar) : list Q := flat_map (fun b => match snd b with Fin x => [x] | PInf => [] end) d.
Definition fit_ends (start stop : option Q) (d : list xbar) : res (Q * Q) :=
  match (match start with Some s => Some s | None => qmin_list (raw_births d) end) with
  | None => ErrEmptyDiagram
  | Some s =>
      match stop with
      | Some e => Ok (s, e)
      | None => if has_inf_death d then ErrInfiniteGrid
                else match qmax_list (raw_deaths d) with Some e => Ok (s, e) | None => ErrEmptyDiagram end
      end
  end.
Definition landscaper_gen {X : Type} (core : Q -> Q -> nat -> list bar -> X) (post : X -> X)
  (start stop : option Q) (n : nat) (dgms : list (list xbar)) (hom_deg : nat) : res X :=
  match nth_error dgms hom_deg with
  | None => ErrIndex
  | Some d =>
      match fit_ends start stop d with
      | Ok (s, e) =>
          match ctor_gen core (Some s) (Some e) n dgms hom_deg with
          | Ok (_, _, v) => Ok (post v)
          | ErrIndex => ErrIndex | ErrEmptyDiagram => ErrEmptyDiagram | ErrInfiniteGrid => ErrInfiniteGrid
          end
      | ErrIndex => ErrIndex | ErrEmptyDiagram => ErrEmptyDiagram | ErrInfiniteGrid => ErrInfiniteGrid
      end
  end.
Definition flat (v : list (list Q)) : list (list Q) := [concat v].
Definition landscaper (flatten : bool) := landscaper_gen approx_values (if flatten then flat else fun v => v).
Definition landscaper_legacy (flatten : bool) := landscaper_gen approx_values_legacy (fun v => v).

(* ---- vectorize: np.interp of every depth's breakpoints at the grid nodes ---- *)
(* np.interp(x, xp, fp): fp[0] left of xp[0], fp[-1] from xp[-1] on, else on the segment
   xp[j] <= x < xp[j+1]:  fp[j] + (fp[j+1]-fp[j])/(xp[j+1]-xp[j]) * (x - xp[j]) *)
Fixpoint interp_go (x0 y0 : Q) (r : list pt) (x : Q) : Q :=
  match r with
  | [] => y0
  | (x1, y1) :: r' => if Qlt_bool x x1 then y0 + (y1 - y0) / (x1 - x0) * (x - x0) else interp_go x1 y1 r' x
  end.
Definition np_interp (cps : list pt) (x : Q) : Q :=
  match cps with [] => 0 | (x0, y0) :: r => if Qlt_bool x x0 then y0 else interp_go x0 y0 r x end.
Definition vectorize_values (cps : list (list pt)) (start stop : Q) (n : nat) : list (list Q) :=
  map (fun depth => map (np_interp depth) (grid start stop n)) cps.
(* defaults: smallest / largest abscissa of the first depth *)
Definition vectorize_ends (cps : list (list pt)) (start stop : option Q) : option (Q * Q) :=
  match cps with
  | [] => match start, stop with Some s, Some e => Some (s, e) | _, _ => None end
  | d0 :: _ =>
      match (match start with Some s => Some s | None => qmin_list (map fst d0) end),
            (match stop with Some s => Some s | None => qmax_list (map fst d0) end) with
      | Some s, Some e => Some (s, e) | _, _ => None end
  end.

(* ---- death_vector: sorted(dgms[0][:,1], reverse=True) ; deaths may be +inf ---- *)
Definition ext_le (a b : ext) : bool :=
  match a, b with _, PInf => true | PInf, Fin _ => false | Fin x, Fin y => Qle_bool x y end.
Fixpoint ins_ext (x : ext) (l : list ext) : list ext :=
  match l with [] => [x] | y :: r => if ext_le x y then y :: ins_ext x r else x :: l end.
Definition death_vector (d : list xbar) : list ext := fold_right ins_ext [] (map snd d).
