(* C18 - the two scikit-learn style transformers as state machines.

   PersistenceLandscaper (persim/landscapes/transformer.py): state = the constructor parameters
   start, stop (options), num_steps, hom_deg, flatten, plus what fit() remembers having learned;
   operations fit X / transform X / fit_transform X (= fit then transform, TransformerMixin).
     [Legacy]  pinned lines 97-100: start / stop are filled in only while they are None;
     intended  (fixes/C18_landscaper_refit.patch): an end is learned afresh unless the user fixed
               it; get_params() reports learned ends as None.
   What PersLandscapeApprox computes on the grid is C08's subject; here it is a section variable
   [approx] (any function of the grid parameters and the data).

   PersistenceImager (persim/images.py 612-744): the configuration machine of Model/ImagerM.v plus
   transform (a map of a per-diagram image function over the collection; the image function is a
   section variable, its values are C04's subject) and fit_transform = fit, then transform, on a
   private deep copy of the diagrams.
   No proofs in this file. *)
From Coq Require Import ZArith QArith List Bool.
From Persim Require Import Model.ImagerM.
Import ListNotations.

(* ------------------------------------------------------------------ landscaper *)
Definition bar := (Q * Q)%type.
Definition diagram := list bar.

Record lstate := mkL {
  l_hom : nat;
  l_start : option Q;            (* self.start *)
  l_stop : option Q;             (* self.stop *)
  l_steps : Z;
  l_flatten : bool;
  l_learned_start : option Q;    (* self._learned.get("start") *)
  l_learned_stop : option Q
}.

Inductive lerr := ErrIndex | ErrEmpty.
Inductive lres (A : Type) := LOk (a : A) | LErr (e : lerr).
Arguments LOk {A}. Arguments LErr {A}.

Definition lctor (hom : nat) (start stop : option Q) (steps : Z) (flatten : bool) : lstate :=
  mkL hom start stop steps flatten None None.

Definition qmin (a b : Q) : Q := if Qle_bool a b then a else b.   (* min keeps the first minimum *)
Definition qmax (a b : Q) : Q := if Qle_bool b a then a else b.
Definition min_birth (b : bar) (d : diagram) : Q := fold_left (fun m x => qmin m (fst x)) d (fst b).
Definition max_death (b : bar) (d : diagram) : Q := fold_left (fun m x => qmax m (snd x)) d (snd b).

(* X[self.hom_deg], then min / max over a non-empty diagram *)
Definition pick (s : lstate) (X : list diagram) : lres (bar * diagram) :=
  match nth_error X (l_hom s) with
  | None => LErr ErrIndex
  | Some [] => LErr ErrEmpty
  | Some (b :: d) => LOk (b, d)
  end.

(* pinned fit: lines 96-101.  An empty diagram only raises when min / max is actually evaluated. *)
Definition lfit_legacy (s : lstate) (X : list diagram) : lres lstate :=
  match nth_error X (l_hom s) with
  | None => LErr ErrIndex
  | Some d =>
      match l_start s, l_stop s, d with
      | Some _, Some _, _ => LOk s
      | _, _, [] => LErr ErrEmpty
      | st, sp, b :: r =>
          LOk (mkL (l_hom s)
                   (match st with None => Some (min_birth b r) | _ => st end)
                   (match sp with None => Some (max_death b r) | _ => sp end)
                   (l_steps s) (l_flatten s) None None)
      end
  end.

(* _is_learned(name): the value now stored is the one fit() put there *)
Definition is_learned (cur learned : option Q) : bool :=
  match cur, learned with
  | Some c, Some l => Qeq_bool l c
  | _, _ => false
  end.
Definition must_learn (cur learned : option Q) : bool :=
  match cur with None => true | _ => is_learned cur learned end.

Definition lfit (s : lstate) (X : list diagram) : lres lstate :=
  match nth_error X (l_hom s) with
  | None => LErr ErrIndex
  | Some d =>
      let ls := must_learn (l_start s) (l_learned_start s) in
      let lp := must_learn (l_stop s) (l_learned_stop s) in
      match ls || lp, d with
      | true, [] => LErr ErrEmpty
      | _, _ =>
          let b := hd (0, 0) d in
          let r := tl d in
          let st := if ls then Some (min_birth b r) else l_start s in
          let sp := if lp then Some (max_death b r) else l_stop s in
          LOk (mkL (l_hom s) st sp (l_steps s) (l_flatten s)
                   (if ls then st else None) (if lp then sp else None))
      end
  end.

(* get_params(): what clone() passes to the constructor *)
Definition lparams (s : lstate) : option Q * option Q :=
  (if is_learned (l_start s) (l_learned_start s) then None else l_start s,
   if is_learned (l_stop s) (l_learned_stop s) then None else l_stop s).

(* public attributes *)
Definition lpublic (s : lstate) : nat * option Q * option Q * Z * bool :=
  (l_hom s, l_start s, l_stop s, l_steps s, l_flatten s).

Section Landscaper.
Variable V : Type.
(* PersLandscapeApprox(dgms=X, start, stop, num_steps, hom_deg).values, or an exception *)
Variable approx : option Q -> option Q -> Z -> nat -> list diagram -> lres V.
Variable flat : V -> V.                      (* values.flatten() *)

Definition ltransform (s : lstate) (X : list diagram) : lres V :=
  match approx (l_start s) (l_stop s) (l_steps s) (l_hom s) X with
  | LOk v => LOk (if l_flatten s then flat v else v)
  | LErr e => LErr e
  end.

Inductive lop := LFit (X : list diagram) | LTransform (X : list diagram) | LFitTransform (X : list diagram)
                | LClone.   (* est = sklearn.base.clone(est): a new estimator built from get_params() *)

(* one call: new state (unchanged when the call raises) and what it returned *)
Definition lstep_with (fit : lstate -> list diagram -> lres lstate) (s : lstate) (o : lop)
  : lstate * lres (option V) :=
  match o with
  | LFit X => match fit s X with LOk s' => (s', LOk None) | LErr e => (s, LErr e) end
  | LTransform X => (s, match ltransform s X with LOk v => LOk (Some v) | LErr e => LErr e end)
  | LFitTransform X =>           (* TransformerMixin: self.fit(X).transform(X) *)
      match fit s X with
      | LOk s' => (s', match ltransform s' X with LOk v => LOk (Some v) | LErr e => LErr e end)
      | LErr e => (s, LErr e)
      end
  | LClone => (lctor (l_hom s) (fst (lparams s)) (snd (lparams s)) (l_steps s) (l_flatten s), LOk None)
  end.

Definition lstep := lstep_with lfit.
Definition lstep_legacy := lstep_with lfit_legacy.

Definition lrun_with fit (s : lstate) (h : list lop) : lstate := fold_left (fun s o => fst (lstep_with fit s o)) h s.
Definition lrun := lrun_with lfit.
Definition lrun_legacy := lrun_with lfit_legacy.

End Landscaper.

(* ------------------------------------------------------------------ imager *)
Section ImagerT.
Variable N : Num.
Variable I : Type.
(* _transform(dgm, skew, resolution, weight, ..., _bpnts, _ppnts): depends on the state only through the
   resolution and the two meshes (weight / kernel parameters are not touched by fit or transform) *)
Variable img : Z * Z -> list (T N) -> list (T N) -> bool -> dgm N -> I.

Definition image_of (s : state N) (skew : bool) (d : dgm N) : I :=
  img (resw s, resh s) (bpnts s) (ppnts s) skew d.

(* transform on a collection: the list of images, in order *)
Definition itransform (s : state N) (c : coll N) (skew : bool) : list I :=
  map (image_of s skew) (fst c :: snd c).

Inductive iop := IFit (c : coll N) (skew : bool) | ITransform (c : coll N) (skew : bool)
               | IFitTransform (c : coll N) (skew : bool).

Definition istep_with (fit : state N -> coll N -> bool -> state N) (s : state N) (o : iop)
  : state N * option (list I) :=
  match o with
  | IFit c k => (fit s c k, None)
  | ITransform c k => (s, Some (itransform s c k))
  | IFitTransform c k =>          (* deepcopy(pers_dgms); self.fit(copy); self.transform(copy) *)
      let s' := fit s c k in (s', Some (itransform s' c k))
  end.

Definition istep := istep_with (fit N).
Definition irun (s : state N) (h : list iop) : state N := fold_left (fun s o => fst (istep s o)) h s.

End ImagerT.

Arguments IFit {N}. Arguments ITransform {N}. Arguments IFitTransform {N}.
