(* The rotation arithmetic of bottleneck_matching / wasserstein_matching (visuals.py 202-230) over R;
   Proofs/SceneRotP.v shows that it computes the midpoint ((b+d)/2, (b+d)/2) used by Model/SceneM.v. *)
From Coq Require Import Reals.
Open Scope R_scope.

(* visuals.py 202-204: cp = cos(pi/4); sp = sin(pi/4); R = [[cp, -sp], [sp, cp]] *)
Definition cp : R := cos (PI / 4).
Definition sp : R := sin (PI / 4).
(* dgmRot = dgm.dot(R): a row vector (b, d) times R *)
Definition rot (p : R * R) : R * R := (fst p * cp + snd p * sp, fst p * (- sp) + snd p * cp).
(* diagElem = np.array([dgmRot[j, 0], 0]).dot(R.T);  R.T = [[cp, sp], [-sp, cp]] *)
Definition diag_elem (p : R * R) : R * R :=
  (fst (rot p) * cp + 0 * (- sp), fst (rot p) * sp + 0 * cp).

