(* Model of persim/wasserstein.py : wasserstein (lines 46-110).  No proofs in this file.

   The code is modelled in two layers:
   * a generic layer (any coordinate type / any cost type): filtering of non-finite deaths,
     the [(0,0)] placeholder, the (M+N)x(M+N) augmented matrix with its four blocks, reading the
     assignment returned by the solver, the matching rows;
   * the instance over R that the theorems are about: DUL = pairwise Euclidean distances, diagonal
     cost = SECOND coordinate of the diagram rotated by pi/4 (lines 79-92).
   The same generic layer is instantiated over rational enclosures in Model/WassEncM.v, which is how
   the model is executed by vm_compute.

   scipy.optimize.linear_sum_assignment is external code: a Section variable [lsa]; the assumption
   under which the theorems hold is [lsa_optimal_on] below (it returns an optimal assignment). *)
From Coq Require Import Reals List Bool Arith ZArith Permutation.
From Persim Require Import Spec.WassersteinS.
Import ListNotations.

(* ---------------------------------------------------------------------------------------- *)
(* generic layer                                                                             *)

(* a death time is a number or "not finite" (np.isfinite(S[:,1]) is False: +-inf or nan) *)
Definition xpt (A : Type) : Type := (A * option A)%type.

(* lines 47-55 / 56-66:  S = S[np.isfinite(S[:, 1]), :] *)
Definition finite_pts {A} (S : list (xpt A)) : list (A * A) :=
  flat_map (fun p => match snd p with Some d => [(fst p, d)] | None => [] end) S.
(* the warning of lines 51-55: some row was dropped *)
Definition dropped {A} (S : list (xpt A)) : bool := length (finite_pts S) <? length S.
(* lines 67-72:  if M == 0: S = np.array([[0, 0]]); M = 1 *)
Definition placeholder {A} (zero : A) (S : list (A * A)) : list (A * A) :=
  match S with [] => [(zero, zero)] | _ => S end.

(* matrix entries: a cost or np.inf *)
Inductive xcost (C : Type) : Type := CFin (c : C) | CInf.
Arguments CFin {C} c.
Arguments CInf {C}.

Section AugGen.
  Context {P C : Type} (cpair : P -> P -> C) (cdiag : P -> C) (zero : C).

  (* lines 87-88 / 90-91:  UR = np.inf*np.ones((M, M)); np.fill_diagonal(UR, v) *)
  Definition inf_diag (v : list C) : list (list (xcost C)) :=
    map (fun i => map (fun j => if Nat.eqb i j then CFin (nth i v zero) else CInf) (seq 0 (length v)))
        (seq 0 (length v)).

  (* lines 84-92:  D = zeros((M+N, M+N)); D[0:M,0:N] = DUL; D[0:M,N:N+M] = UR; D[M:N+M,0:N] = UL *)
  Definition aug_matrix_gen (S T : list P) : list (list (xcost C)) :=
    let DUL := map (fun p => map (cpair p) T) S in
    let UR := inf_diag (map cdiag S) in
    let UL := inf_diag (map cdiag T) in
    map (fun i => map CFin (nth i DUL []) ++ nth i UR []) (seq 0 (length S))
    ++ map (fun j => nth j UL [] ++ repeat (CFin zero) (length S)) (seq 0 (length T)).
End AugGen.

(* D[i, j] *)
Definition entry {C} (D : list (list (xcost C))) (i j : nat) : xcost C := nth j (nth i D []) CInf.
(* D[matchi, matchj] *)
Definition gather {C} (D : list (list (xcost C))) (mi mj : list nat) : list (xcost C) :=
  map (fun ij => entry D (fst ij) (snd ij)) (combine mi mj).

(* lines 98-108: rows (i, j, D[i,j]) with -1 for diagonal partners, (-1,-1) rows removed *)
Definition row (C : Type) : Type := (Z * Z * xcost C)%type.
Definition mk_row {C} (M N : nat) (D : list (list (xcost C))) (ij : nat * nat) : row C :=
  ((if M <=? fst ij then (-1)%Z else Z.of_nat (fst ij)),
   (if N <=? snd ij then (-1)%Z else Z.of_nat (snd ij)),
   entry D (fst ij) (snd ij)).
(* ret[:, 0] + ret[:, 1] != -2 *)
Definition keep_row {C} (r : row C) : bool := negb (Z.eqb (fst (fst r) + snd (fst r)) (-2)).
Definition matching_rows {C} (M N : nat) (D : list (list (xcost C))) (mi mj : list nat) : list (row C) :=
  filter keep_row (map (mk_row M N D) (combine mi mj)).

(* what the external solver is assumed to return: an assignment (a bijection between the row
   indices and the column indices of the square matrix, as two index arrays) *)
Definition is_assignment (K : nat) (mi mj : list nat) : Prop :=
  length mi = length mj /\ Permutation mi (seq 0 K) /\ Permutation mj (seq 0 K).

(* ---------------------------------------------------------------------------------------- *)
(* instance over R                                                                           *)
Open Scope R_scope.

Definition xadd (a b : xcost R) : xcost R :=
  match a, b with CFin x, CFin y => CFin (x + y) | _, _ => CInf end.
(* np.sum over a vector that may contain inf *)
Definition xsum (l : list (xcost R)) : xcost R := fold_right xadd (CFin 0) l.
Definition xle (a b : xcost R) : Prop :=
  match a, b with
  | CFin x, CFin y => x <= y
  | _, CInf => True
  | CInf, CFin _ => False
  end.

(* lines 79-83:  R = [[cp, -sp], [sp, cp]];  S = S[:, 0:2].dot(R) *)
Definition cp : R := cos (PI / 4).
Definition sp : R := sin (PI / 4).
Definition rotate (p : rpoint) : rpoint :=
  (fst p * cp + snd p * sp, fst p * (- sp) + snd p * cp).
(* np.fill_diagonal(UR, S[:, 1]) : the second rotated coordinate *)
Definition diag_entry (p : rpoint) : R := snd (rotate p).

Definition aug_matrix (S T : list rpoint) : list (list (xcost R)) :=
  aug_matrix_gen euclid diag_entry 0 S T.

Definition lsa_result := (list nat * list nat)%type.

(* "returns an optimal assignment": an assignment whose summed cost (with inf absorbing) is minimal
   among all assignments of the same matrix *)
Definition optimal_assignment (D : list (list (xcost R))) (r : lsa_result) : Prop :=
  is_assignment (length D) (fst r) (snd r) /\
  forall mi mj, is_assignment (length D) mi mj ->
                xle (xsum (gather D (fst r) (snd r))) (xsum (gather D mi mj)).

Record wres : Type := {
  w_dist : xcost R;                       (* matchdist *)
  w_rows : option (list (row R));         (* second return value when matching=True *)
  w_warn : bool * bool                    (* warnings "dgm1/dgm2 has points with non-finite death times" *)
}.

Section Model.
  Variable lsa : list (list (xcost R)) -> lsa_result.

  Definition wasserstein (matching : bool) (dgm1 dgm2 : list (xpt R)) : wres :=
    let S := placeholder 0 (finite_pts dgm1) in
    let T := placeholder 0 (finite_pts dgm2) in
    let D := aug_matrix S T in
    let mi := fst (lsa D) in
    let mj := snd (lsa D) in
    let matchdist := xsum (gather D mi mj) in
    {| w_dist := matchdist;
       w_rows := if matching then Some (matching_rows (length S) (length T) D mi mj) else None;
       w_warn := (dropped dgm1, dropped dgm2) |}.

  (* the assumption about the solver, at the one matrix it is called on *)
  Definition lsa_optimal_on (dgm1 dgm2 : list (xpt R)) : Prop :=
    let D := aug_matrix (placeholder 0 (finite_pts dgm1)) (placeholder 0 (finite_pts dgm2)) in
    optimal_assignment D (lsa D).
End Model.
