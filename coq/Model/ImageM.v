(* Model of persim/images.py : _transform (lines 920-974), the transform dispatch (lines 677-718)
   and persim/images_weights.py, over R.  No proofs here, so the model still loads when a
   proof breaks.

   External code is an argument:
     Phi    : images_kernels.norm_cdf (SciPy's erfc)            - the fast path's 1-D normal CDF
     Kgauss : images_kernels.gaussian  (model: Model/KernelM.v)  - sxx sxy syy mu_b mu_p x y |-> CDF
     pmap   : joblib's Parallel(n_jobs)(delayed(f)(x) for x in l)
   A kernel is a function  mu_b mu_p x y |-> CDF value at (x,y)  of the distribution centred at
   (mu_b, mu_p); a weight is a function  birth persistence |-> R.

   The mesh (the arrays _bpnts, _ppnts of pixel boundary coordinates) is an input; it has
   resolution+1 nodes per axis (np.linspace(..., resolution + 1) in _create_mesh; the state
   machine that produces it is C12's model), so the resolution is read off the mesh.
   An image is a list of rows; row index = birth index, column index = persistence index
   (pers_img[i, j], i along _bpnts, j along _ppnts). *)
From Coq Require Import Reals List Bool.
Import ListNotations.
Open Scope R_scope.

Definition point : Type := R * R.
Definition image : Type := list (list R).
Definition kernel : Type := R -> R -> R -> R -> R.
Definition weightfn : Type := R -> R -> R.

(* ---- images_weights.py -------------------------------------------------------------------- *)
(* linear_ramp, lines 38-44: the three branches in the order of the code *)
Definition linear_ramp (low high start stop : R) (b p : R) : R :=
  if Rlt_dec p start then low
  else if Rlt_dec stop p then high
  else (p - start) * (high - low) / (stop - start) + low.

(* persistence, line 69: pers ** n.  Two readings of the float exponent:
   an integral exponent k (1.0, 2.0, ...) is repeated multiplication, for every p;
   a real exponent n is exp (n ln p) for p > 0 and 0 at p = 0 (n > 0); for p < 0 NumPy
   returns nan, the model returns 0 and every theorem about it assumes 0 <= p. *)
Definition persistence_nat (k : nat) (b p : R) : R := p ^ k.
Definition persistence_real (n : R) (b p : R) : R :=
  if Rlt_dec 0 p then Rpower p n else 0.

(* ---- _transform ---------------------------------------------------------------------------- *)
(* lines 925-927: pers_dgm[:,1] = pers_dgm[:,1] - pers_dgm[:,0] on a private copy *)
Definition skew_point (pt : point) : point := (fst pt, snd pt - fst pt).
Definition to_birth_pers (skew : bool) (dgm : list point) : list point :=
  if skew then map skew_point dgm else dgm.

Definition zeros (nb np : nat) : image := repeat (repeat 0 np) nb.
Definition resolution_of (bp pp : list R) : nat * nat := (pred (length bp), pred (length pp)).

(* curr_img: a function evaluated at all mesh corners, (len bp) x (len pp), index [i][j] *)
Definition corner_grid (F : R -> R -> R) (bp pp : list R) : list (list R) :=
  map (fun x => map (fun y => F x y) pp) bp.

(* curr_img[1:,1:] - curr_img[:-1,1:] - curr_img[1:,:-1] + curr_img[:-1,:-1] for two
   consecutive rows r0 = curr_img[i], r1 = curr_img[i+1] *)
Fixpoint row_ie (r0 r1 : list R) : list R :=
  match r0, r1 with
  | a0 :: ((a1 :: _) as t0), b0 :: ((b1 :: _) as t1) => (b1 - a1 - b0 + a0) :: row_ie t0 t1
  | _, _ => []
  end.
Fixpoint grid_ie (g : list (list R)) : image :=
  match g with
  | r0 :: ((r1 :: _) as t) => row_ie r0 r1 :: grid_ie t
  | _ => []
  end.

(* pers_img += wts[i] * (...) *)
Fixpoint zip_with {A B C} (f : A -> B -> C) (l : list A) (m : list B) : list C :=
  match l, m with
  | a :: l', b :: m' => f a b :: zip_with f l' m'
  | _, _ => []
  end.
Definition img_axpy (img : image) (w : R) (c : image) : image :=
  zip_with (zip_with (fun a x => a + w * x)) img c.
Definition img_add (a b : image) : image := zip_with (zip_with Rplus) a b.

Section Transform.
  Variable Phi : R -> R.
  Variable Kgauss : R -> R -> R -> kernel.

  (* lines 943-954: the isotropic fast path, one point; `sigma` is overwritten by its square
     root (line 942) and divides the centred mesh; curr_img = ncdf_p[None,:] * ncdf_b[:,None] *)
  Definition fast_grid (variance : R) (bp pp : list R) (pt : point) : list (list R) :=
    let sd := sqrt variance in
    let ncdf_b := map (fun x => Phi ((x - fst pt) / sd)) bp in
    let ncdf_p := map (fun y => Phi ((y - snd pt) / sd)) pp in
    map (fun gb => map (fun gp => gp * gb) ncdf_p) ncdf_b.
  Definition fast_step (w : weightfn) (variance : R) (bp pp : list R) (img : image) (pt : point) : image :=
    img_axpy img (w (fst pt) (snd pt)) (grid_ie (fast_grid variance bp pp pt)).

  (* lines 957-972: the general path, one point: kernel CDF at every corner *)
  Definition general_step (w : weightfn) (K : kernel) (bp pp : list R) (img : image) (pt : point) : image :=
    img_axpy img (w (fst pt) (snd pt)) (grid_ie (corner_grid (K (fst pt) (snd pt)) bp pp)).

  (* kernel configuration as _transform sees it *)
  Inductive kernel_cfg :=
  | GaussScalar (variance : R)               (* kernel == gaussian, sigma an int/float *)
  | GaussMatrix (sxx sxy syy : R)            (* kernel == gaussian, sigma a 2x2 array ([1][0] is never read) *)
  | OtherKernel (K : kernel).                (* any other callable (uniform, user) *)

  Definition transform_general (w : weightfn) (K : kernel) (bp pp : list R) (pts : list point) : image :=
    fold_left (general_step w K bp pp) pts (zeros (pred (length bp)) (pred (length pp))).
  Definition transform_fast (w : weightfn) (variance : R) (bp pp : list R) (pts : list point) : image :=
    fold_left (fast_step w variance bp pp) pts (zeros (pred (length bp)) (pred (length pp))).

  (* _transform: skew on a copy, weights, dispatch on the kernel (lines 933-941), accumulate *)
  Definition transform_one (skew : bool) (w : weightfn) (k : kernel_cfg) (bp pp : list R)
             (dgm : list point) : image :=
    let pts := to_birth_pers skew dgm in
    match k with
    | GaussScalar s => transform_fast w s bp pp pts
    | GaussMatrix sxx sxy syy =>
        if Req_EM_T sxx syy then
          if Req_EM_T sxy 0 then transform_fast w sxx bp pp pts
          else transform_general w (Kgauss sxx sxy syy) bp pp pts
        else transform_general w (Kgauss sxx sxy syy) bp pp pts
    | OtherKernel K => transform_general w K bp pp pts
    end.

  (* ---- PersistenceImager.transform (lines 677-718) ---------------------------------------- *)
  Variable pmap : (list point -> image) -> list (list point) -> list image.

  Inductive dgms_arg := Single (d : list point) | Collection (ds : list (list point)).
  Inductive imgs_res := OneImage (i : image) | Images (l : list image) | ErrIndex.

  Definition transform (skew : bool) (n_jobs : option nat) (w : weightfn) (k : kernel_cfg)
             (bp pp : list R) (arg : dgms_arg) : imgs_res :=
    let f := transform_one skew w k bp pp in
    let run := match n_jobs with Some _ => pmap f | None => map f end in
    match arg with
    | Single [] | Collection [] =>              (* len(pers_dgms) == 0: np.zeros(self.resolution) *)
        OneImage (zeros (fst (resolution_of bp pp)) (snd (resolution_of bp pp)))
    | Single d =>                               (* _ensure_iterable wraps; pers_imgs[0] *)
        match run [d] with i :: _ => OneImage i | [] => ErrIndex end
    | Collection ds => Images (run ds)
    end.
End Transform.
