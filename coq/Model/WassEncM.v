(* Executable rational enclosure of the Wasserstein model (Model/WassM.v).  No proofs in this file.

   The only irrational ingredient of the model is sqrt (Euclidean distances; (d-b)/sqrt 2), so the
   generic layer of WassM is instantiated with costs that are rational intervals (lo, hi) obtained
   from Z.sqrt on scaled numerators.  The minimum over assignments is not searched for: the harness
   supplies certificates that are CHECKED here -
     * an assignment sigma (column of row i): its cost under the upper ends bounds the minimum from
       above;
     * dual potentials u, v with u_i + v_j <= lo_ij on every finite cell: by weak LP duality
       sum u + sum v bounds every assignment, hence the minimum, from below.
   Soundness (for every optimal-assignment oracle the model's value lies in the enclosure) is
   Proofs/WassEncP.v : wass_enclosure_sound.  A bad certificate yields None, never a wrong enclosure. *)
From Coq Require Import QArith ZArith List Bool Arith.
From Persim Require Import Model.WassM.
Import ListNotations.

Definition qpt : Type := (Q * Q)%type.
Definition ival : Type := (Q * Q)%type.      (* (lo, hi) *)

(* lo <= sqrt q <= hi, with hi - lo <= 1 / (den q * 2^p); exact when the scaled radicand is a square *)
Definition sqrt_bounds (p : positive) (q0 : Q) : ival :=
  let q := Qred q0 in
  let n := Qnum q in
  let d := Qden q in
  if (n <=? 0)%Z then (0, 0) else
  let e := Pos.pow 2 p in
  let X := (n * Zpos d * Zpos (e * e))%Z in
  let s := Z.sqrt X in
  (s # (d * e), (if (s * s =? X)%Z then s else s + 1)%Z # (d * e)).

Definition sq_dist (a b : qpt) : Q :=
  (fst a - fst b) * (fst a - fst b) + (snd a - snd b) * (snd a - snd b).
Definition euclid_iv (p : positive) (a b : qpt) : ival := sqrt_bounds p (sq_dist a b).
(* (d - b) / sqrt 2 = sign (d-b) * sqrt ((d-b)^2 / 2) *)
Definition diag_iv (p : positive) (a : qpt) : ival :=
  let t := snd a - fst a in
  let sb := sqrt_bounds p (t * t * (1#2)) in
  if Qle_bool 0 t then sb else (- snd sb, - fst sb).

Definition aug_iv (p : positive) (S T : list qpt) : list (list (xcost ival)) :=
  aug_matrix_gen (euclid_iv p) (diag_iv p) (0, 0) S T.

Definition qsum (l : list Q) : Q := fold_right Qplus 0 l.

(* sigma is a permutation of [0, K) *)
Definition perm_check (K : nat) (sigma : list nat) : bool :=
  (length sigma =? K) && forallb (fun j => existsb (Nat.eqb j) sigma) (seq 0 K).

(* dual feasibility against the lower ends *)
Definition dual_ok (D : list (list (xcost ival))) (u v : list Q) : bool :=
  let K := length D in
  (length u =? K) && (length v =? K) &&
  forallb (fun i => forallb (fun j =>
     match entry D i j with
     | CFin c => Qle_bool (nth i u 0 + nth j v 0) (fst c)
     | CInf => true
     end) (seq 0 K)) (seq 0 K).

Fixpoint sum_hi (l : list (xcost ival)) : option Q :=
  match l with
  | [] => Some 0
  | CFin c :: r => match sum_hi r with Some s => Some (snd c + s) | None => None end
  | CInf :: _ => None
  end.

Definition wass_enclosure (p : positive) (dgm1 dgm2 : list (xpt Q)) (sigma : list nat) (u v : list Q)
  : option (Q * Q) :=
  let S := placeholder 0 (finite_pts dgm1) in
  let T := placeholder 0 (finite_pts dgm2) in
  let D := aug_iv p S T in
  if perm_check (length D) sigma && dual_ok D u v then
    match sum_hi (gather D (seq 0 (length D)) sigma) with
    | Some hi => Some (Qred (qsum u + qsum v), Qred hi)
    | None => None
    end
  else None.
