(* Model of persim/heat.py (lines 12-55), over R.  No proofs here.

   evalHeatKernel(dgm1, dgm2, sigma):
       kSigma = 0
       for p in dgm1: for q in dgm2:
           qc = (q[1], q[0])
           kSigma += exp(-sum((p-q)**2)/(8 sigma)) - exp(-sum((p-qc)**2)/(8 sigma))
       return kSigma / (8 pi sigma)
   heat(dgm1, dgm2, sigma) = sqrt(k(1,1) + k(2,2) - 2 k(1,2))          (pinned tree: Legacy)
                           = sqrt(max(k(1,1) + k(2,2) - 2 k(1,2), 0))  (fixes/C14_heat_nan.patch)
   Over R both variants are the same function (Coq's sqrt is 0 on negative arguments); the
   pinned tree's defect (NaN) exists only in binary64, see Properties/C14.v. *)
From Coq Require Import Reals List.
Import ListNotations.
Open Scope R_scope.

Definition pt : Type := R * R.

(* np.sum((p - q) ** 2) *)
Definition sqdist (p q : pt) : R :=
  (fst p - fst q) * (fst p - fst q) + (snd p - snd q) * (snd p - snd q).
(* I2[j, 1::-1] : the point mirrored at the diagonal *)
Definition mirror (q : pt) : pt := (snd q, fst q).

Definition kterm (sigma : R) (p q : pt) : R :=
  exp (- sqdist p q / (8 * sigma)) - exp (- sqdist p (mirror q) / (8 * sigma)).

(* the double loop with its accumulator *)
Definition kloop (sigma : R) (F G : list pt) : R :=
  fold_left (fun acc p => fold_left (fun acc' q => acc' + kterm sigma p q) G acc) F 0.

Definition evalHeatKernel (sigma : R) (F G : list pt) : R := kloop sigma F G / (8 * PI * sigma).

Definition radicand (sigma : R) (F G : list pt) : R :=
  evalHeatKernel sigma F F + evalHeatKernel sigma G G - 2 * evalHeatKernel sigma F G.

(* pinned tree *)
Definition heat_legacy (sigma : R) (F G : list pt) : R := sqrt (radicand sigma F G).
(* intended (patched): radicand clamped at 0 *)
Definition heat (sigma : R) (F G : list pt) : R := sqrt (Rmax (radicand sigma F G) 0).

(* translation along the diagonal *)
Definition shift (c : R) (F : list pt) : list pt := map (fun p => (fst p + c, snd p + c)) F.
Definition on_diag (p : pt) : Prop := fst p = snd p.
