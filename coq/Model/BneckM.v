(* Model of persim/bottleneck.py : bottleneck (lines 50-135), over exact rationals with an
   explicit +infinity.  The model follows the code's algorithm: non-finite deaths dropped, empty
   diagram replaced by the placeholder [(0,0)], the (M+N)x(M+N) matrix with its four blocks,
   ds = sorted unique entries (contains +inf whenever an off block has an off-diagonal cell),
   the while loop with idx = len/2, the threshold graph D[i][j] <= d, the external maximum
   matching routine as an argument [oracle], the test "perfect and d <= bdist", the slices
   ds[0:idx] / ds[idx+1:], and the re-indexed matching rows of lines 120-133.
   No proofs here, so the model still runs when a proof breaks. *)
From Coq Require Import QArith Qminmax Qabs List Bool Arith ZArith.
From Persim Require Import Spec.PartialMatching Spec.BottleneckS.
Import ListNotations.
Open Scope Q_scope.

(* a cost / a death time: a rational or +infinity *)
Inductive cost := CFin (q : Q) | CInf.
Definition xpoint : Type := Q * cost.           (* (birth, death) as the caller passes it *)

Definition cle (a b : cost) : bool :=
  match a, b with
  | _, CInf => true
  | CInf, CFin _ => false
  | CFin x, CFin y => Qle_bool x y
  end.
Definition ceq (a b : cost) : bool := cle a b && cle b a.

(* lines 50-67: S = S[np.isfinite(S[:,1]), :] *)
Definition finite (S : list xpoint) : list qpoint :=
  flat_map (fun p => match snd p with CFin d => [(fst p, d)] | CInf => [] end) S.

(* lines 69-74: an empty diagram becomes the single diagonal point (0,0) *)
Definition prep (P : list qpoint) : list qpoint := match P with [] => [(0, 0)] | _ => P end.

(* lines 76-97: entry (i,j) of the (M+N)x(M+N) matrix D *)
Definition aug_cell (S T : list qpoint) (c : nat * nat) : cost :=
  let M := length S in
  let N := length T in
  let i := fst c in
  let j := snd c in
  if (i <? M)%nat then
    if (j <? N)%nat then CFin (linf (nth i S (0, 0)) (nth j T (0, 0)))           (* D[0:M, 0:N] = DUL *)
    else if (j - N =? i)%nat then CFin (diagB (nth i S (0, 0))) else CInf          (* D[0:M, N:] = UR *)
  else
    if (j <? N)%nat then
      (if (i - M =? j)%nat then CFin (diagB (nth j T (0, 0))) else CInf)           (* D[M:, 0:N] = UL *)
    else CFin 0.                                                                  (* zeros *)

Definition aug (S T : list qpoint) : list (list cost) :=
  let K := (length S + length T)%nat in
  map (fun i => map (fun j => aug_cell S T (i, j)) (seq 0 K)) (seq 0 K).

Definition entry (D : list (list cost)) (i j : nat) : cost := nth j (nth i D []) CInf.

(* line 101: ds = np.sort(np.unique(D.flatten())) *)
Fixpoint insc (x : cost) (l : list cost) : list cost :=
  match l with
  | [] => [x]
  | y :: r => if ceq x y then l else if cle x y then x :: l else y :: insc x r
  end.
Definition thresholds (D : list (list cost)) : list cost := fold_right insc [] (concat D).

(* lines 109-111: graph[i] = {j : D[i,j] <= d} *)
Definition graph (D : list (list cost)) (d : cost) : list (list nat) :=
  map (fun row => filter (fun j => cle (nth j row CInf) d) (seq 0 (length row))) D.

(* res = HopcroftKarp(graph).maximum_matching(): both directions are stored, so
   len(res) = 2 * number of matched edges; res["i"] is the column matched to row i *)
Definition matching := list (nat * nat).
Fixpoint lookup (i : nat) (m : matching) : option nat :=
  match m with
  | [] => None
  | (a, b) :: r => if (a =? i)%nat then Some b else lookup i r
  end.

Section Search.
  Variable oracle : list (list nat) -> matching.

  (* lines 104-118 *)
  Fixpoint bsearch (fuel : nat) (D : list (list cost)) (ds : list cost) (bdist : cost) (mt : matching)
    : option (cost * matching) :=
    match ds with
    | [] => Some (bdist, mt)                                    (* while len(ds) >= 1 *)
    | _ =>
      match fuel with
      | O => None
      | S f =>
        let idx := if (1 <? length ds)%nat then (length ds / 2)%nat else O in
        let d := nth idx ds CInf in
        let res := oracle (graph D d) in
        if ((2 * length res =? 2 * length D)%nat && cle d bdist)%bool
        then bsearch f D (firstn idx ds) d res                    (* bdist = d; ds = ds[0:idx] *)
        else bsearch f D (skipn (S idx) ds) bdist mt              (* ds = ds[idx+1:] *)
      end
    end.

  Definition search (A B : list qpoint) : option (cost * matching) :=
    let D := aug A B in
    let ds := thresholds D in
    bsearch (S (length ds)) D ds (last ds CInf) [].
End Search.

(* lines 120-133: rows [i, j, D[i,j]] with -1 for a diagonal partner, diagonal-diagonal rows skipped;
   None models the KeyError of matching["i"] *)
Definition mrow : Type := (Z * Z * cost)%type.
Fixpoint match_rows (D : list (list cost)) (M N : nat) (mt : matching) (rows : list nat) : option (list mrow) :=
  match rows with
  | [] => Some []
  | i :: rest =>
    match lookup i mt, match_rows D M N mt rest with
    | Some j, Some out =>
      let d := entry D i j in
      if (i <? M)%nat then
        Some ((Z.of_nat i, if (N <=? j)%nat then (-1)%Z else Z.of_nat j, d) :: out)
      else if (N <=? j)%nat then Some out
      else Some (((-1)%Z, Z.of_nat j, d) :: out)
    | _, _ => None
    end
  end.

(* bottleneck(dgm1, dgm2, matching=True) *)
Definition bottleneck_full (oracle : list (list nat) -> matching) (S T : list xpoint)
  : option (cost * list mrow) :=
  let S' := prep (finite S) in
  let T' := prep (finite T) in
  match search oracle S' T' with
  | None => None
  | Some (bdist, mt) =>
    match match_rows (aug S' T') (length S') (length T') mt (seq 0 (length S' + length T')) with
    | None => None
    | Some rows => Some (bdist, rows)
    end
  end.

(* bottleneck(dgm1, dgm2) *)
Definition bottleneck_model (oracle : list (list nat) -> matching) (S T : list xpoint) : option cost :=
  match search oracle (prep (finite S)) (prep (finite T)) with
  | None => None
  | Some (bdist, _) => Some bdist
  end.

(* ---- what is assumed of the external routine: it returns a maximum matching of the graph ---- *)
Definition is_matching (g : list (list nat)) (m : matching) : Prop :=
  NoDup (map fst m) /\ NoDup (map snd m) /\ forall p, In p m -> In (snd p) (nth (fst p) g []).
Definition max_matching_oracle (oracle : list (list nat) -> matching) : Prop :=
  forall g, is_matching g (oracle g) /\ forall m, is_matching g m -> (length m <= length (oracle g))%nat.
