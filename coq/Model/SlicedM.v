(* Model of persim/sliced_wasserstein.py (lines 27-56), over Q, parametric in the list of
   directions.  No proofs here.

   diag_theta = (cos pi/4, sin pi/4);  l_theta = <diag_theta, p> = (b + d)/sqrt 2
   PD_delta   = [x / sqrt 2] * 2           = ((b+d)/2, (b+d)/2)      (current tree; intended)
              = [sqrt(x**2 / 2)] * 2       = (|b+d|/2, |b+d|/2)      (pinned tree f8f9fe3; Legacy)
   theta = 0.5; step = 1/M
   for i in range(M):
       l_theta = (cos(theta pi), sin(theta pi))                      (dirs_i, supplied as rationals;
                                                                      a per-run interval lemma certifies
                                                                      them against theta_i = (1/2 + i/M) pi)
       V1 = [<l_theta, x> for x in PD1] + [<l_theta, x> for x in PD_delta2]
       V2 = [<l_theta, x> for x in PD2] + [<l_theta, x> for x in PD_delta1]
       sw += step * cityblock(sorted(V1), sorted(V2));  theta += step
   return sw

   Qred only normalises the representation of a rational (Qred q == q); it keeps numerators and
   denominators small when the model is executed by vm_compute. *)
From Coq Require Import QArith Qabs List.
Import ListNotations.
Open Scope Q_scope.

Definition pt : Type := Q * Q.
Definition dir : Type := Q * Q.      (* (cos, sin) *)

(* np.dot(l_theta, x) *)
Definition proj (u : dir) (p : pt) : Q := Qred (fst u * fst p + snd u * snd p).

(* projection of a point onto the diagonal *)
Definition dproj (p : pt) : pt := let m := (fst p + snd p) * (1#2) in (m, m).
Definition dproj_legacy (p : pt) : pt := let m := Qabs (fst p + snd p) * (1#2) in (m, m).

(* sorted(...) : insertion sort *)
Fixpoint insert (x : Q) (l : list Q) : list Q :=
  match l with
  | [] => [x]
  | y :: r => if Qle_bool x y then x :: l else y :: insert x r
  end.
Fixpoint isort (l : list Q) : list Q :=
  match l with [] => [] | x :: r => insert x (isort r) end.

(* scipy.spatial.distance.cityblock on two vectors of the same length *)
Fixpoint l1 (a b : list Q) : Q :=
  match a, b with
  | x :: a', y :: b' => Qred (Qabs (x - y) + l1 a' b')
  | _, _ => 0
  end.

Definition slice (dp : pt -> pt) (u : dir) (P1 P2 : list pt) : Q :=
  let V1 := map (proj u) P1 ++ map (proj u) (map dp P2) in
  let V2 := map (proj u) P2 ++ map (proj u) (map dp P1) in
  l1 (isort V1) (isort V2).

Definition step_of (dirs : list dir) : Q := 1 / inject_Z (Z.of_nat (length dirs)).

(* the loop over the M = length dirs directions with its accumulator *)
Definition sw_gen (dp : pt -> pt) (dirs : list dir) (P1 P2 : list pt) : Q :=
  fold_left (fun acc u => Qred (acc + step_of dirs * slice dp u P1 P2)) dirs 0.

Definition sw := sw_gen dproj.                 (* current tree / intended *)
Definition sw_legacy := sw_gen dproj_legacy.   (* pinned tree *)

Definition shift (t : Q) (P : list pt) : list pt := map (fun p => (fst p + t, snd p + t)) P.
Definition scale (c : Q) (P : list pt) : list pt := map (fun p => (c * fst p, c * snd p)) P.
Definition on_diag (p : pt) : Prop := fst p == snd p.
