(* Model of persim/visuals.py (plot_diagrams 7-166, bottleneck_matching 171-232,
   wasserstein_matching 235-288) and of the 2-D landscape plots of
   persim/landscapes/visuals.py (plot_landscape_exact_simple 264-318,
   plot_landscape_approx_simple 417-477), over Q.

   A plot is a function from (data, options) to an abstract SCENE: the artists that end up on
   matplotlib axes.  Every line artist carries the axes it was drawn on: [Given] (the `ax`
   argument) or [Current] (whatever pyplot's current axes happens to be: `plt.plot`).
   Not modelled: rasterisation, colours / marker sizes / style sheets, the float32 rounding of the
   copies (the tie compares within single precision), the 3-D plots.
   No proofs here, so the model still runs when a proof breaks. *)
From Coq Require Import QArith Qminmax List Bool ZArith.
Import ListNotations.
Open Scope Q_scope.

(* ---------------------------------------------------------------- data *)
Inductive ext := Fin (q : Q) | PInf.
Definition bar : Type := Q * ext.          (* (birth, death) *)
Definition dgm : Type := list bar.
Definition pt : Type := Q * Q.

Inductive axes := Given | Current.
Inductive lkind := Horizon | Diagonal | InfLine | Seg | SegMax | Poly (depth : nat).
Record line := mkLine { l_ax : axes; l_kind : lkind; l_pts : list pt }.

Inductive label := LDefault (i : nat)      (* "$H_{i}$" *)
                 | LUser (k : nat).        (* k-th string of the caller's table *)
Inductive labels_arg := LabNone | LabList (l : list nat) | LabOne (k : nat).
Inductive xlab := Birth | XUser (k : nat).
Inductive ylab := Death | Lifetime | YUser (k : nat).

Record opts := mkOpts {
  o_plot_only : option (list nat);
  o_title : option nat;
  o_xy_range : option (Q * Q * Q * Q);     (* x_down, x_up, y_down, y_up *)
  o_labels : labels_arg;
  o_diagonal : bool;
  o_lifetime : bool;
  o_legend : bool }.

Record scene := mkScene {
  s_scatter : list (label * list pt);      (* one PathCollection per plotted diagram, in order *)
  s_lines : list line;                     (* Line2D artists in drawing order *)
  s_xlim : pt;
  s_ylim : pt;
  s_xlabel : option xlab;
  s_ylabel : option ylab;
  s_title : option nat;
  s_legend : bool }.

Inductive res (A : Type) :=
  | Ok (s : A)
  | ErrEmpty        (* ValueError: zero-size array to reduction / argmax of an empty sequence *)
  | ErrIndex        (* IndexError: plot_only / matching index out of range *)
  | ErrNotModelled. (* a single label string indexed by plot_only *)
Arguments Ok {A} s. Arguments ErrEmpty {A}. Arguments ErrIndex {A}. Arguments ErrNotModelled {A}.

(* ---------------------------------------------------------------- plot_diagrams *)
Fixpoint collect {A} (l : list (option A)) : option (list A) :=
  match l with
  | [] => Some []
  | None :: _ => None
  | Some x :: r => match collect r with Some v => Some (x :: v) | None => None end
  end.

(* `if plot_only: xs = [xs[i] for i in plot_only]` (None and [] are both falsy) *)
Definition select {A} (po : option (list nat)) (l : list A) : option (list A) :=
  match po with
  | None | Some [] => Some l
  | Some idx => collect (map (nth_error l) idx)
  end.

(* concat_dgms[np.isfinite(concat_dgms)] *)
Definition finite_vals (ds : list dgm) : list Q :=
  flat_map (fun d => flat_map (fun b : bar => fst b :: match snd b with Fin x => [x] | PInf => [] end) d) ds.
Definition is_inf (e : ext) : bool := match e with PInf => true | Fin _ => false end.
Definition has_inf (ds : list dgm) : bool := existsb (fun d => existsb (fun b : bar => is_inf (snd b)) d) ds.

Definition qmin_list (v : Q) (l : list Q) : Q := fold_left Qmin l v.
Definition qmax_list (v : Q) (l : list Q) : Q := fold_left Qmax l v.

(* lines 95-109: x_r = max - min; buffer = x_r / 5; x_down = min - buffer / 2; x_up = max + buffer;
   (y_down, y_up) = (x_down, x_up); or the caller's four numbers *)
Definition limits (xy : option (Q * Q * Q * Q)) (fin : list Q) : option (Q * Q * Q * Q) :=
  match xy with
  | Some r => Some r
  | None =>
    match fin with
    | [] => None
    | v :: vs =>
      let mn := qmin_list v vs in
      let mx := qmax_list v vs in
      let buffer := (mx - mn) * (1#5) in
      let x_down := mn - buffer * (1#2) in
      let x_up := mx + buffer in
      Some (x_down, x_up, x_down, x_up)
    end
  end.

(* lines 118-120: y_down = -yr * 0.05; y_up = y_down + yr *)
Definition life_ydown (yr : Q) : Q := - (yr * (1#20)).
(* line 139: b_inf = y_down + yr * 0.95 *)
Definition inf_ordinate (y_down yr : Q) : Q := y_down + yr * (19#20).

(* one point of the scatter: lifetime conversion, then dgm[np.isinf(dgm)] = b_inf *)
Definition conv_point (lifetime : bool) (b_inf : Q) (b : bar) : pt :=
  match snd b with
  | Fin d => (fst b, if lifetime then d - fst b else d)
  | PInf => (fst b, b_inf)
  end.

Inductive lres := LOk (l : list label) | LIndex | LNotModelled.
(* lines 74-83: default labels are numbered BEFORE plot_only selects; a single string is repeated *)
Definition labels_for (la : labels_arg) (po : option (list nat)) (n_all n_sel : nat) : lres :=
  match la with
  | LabNone => match select po (map LDefault (seq 0 n_all)) with Some l => LOk l | None => LIndex end
  | LabList l => match select po (map LUser l) with Some l => LOk l | None => LIndex end
  | LabOne k => match po with None | Some [] => LOk (repeat (LUser k) n_sel) | _ => LNotModelled end
  end.

Definition plot_diagrams (o : opts) (dgms : list dgm) : res scene :=
  match select (o_plot_only o) dgms with
  | None => ErrIndex
  | Some ds =>
  match labels_for (o_labels o) (o_plot_only o) (length dgms) (length ds) with
  | LIndex => ErrIndex
  | LNotModelled => ErrNotModelled
  | LOk labs =>
  match limits (o_xy_range o) (finite_vals ds) with
  | None => ErrEmpty
  | Some (x_down, x_up, y_down0, y_up0) =>
    let yr := y_up0 - y_down0 in
    let lifetime := o_lifetime o in
    let y_down := if lifetime then life_ydown yr else y_down0 in
    let y_up := if lifetime then life_ydown yr + yr else y_up0 in
    let diagonal := if lifetime then false else o_diagonal o in
    let b_inf := inf_ordinate y_down yr in
    let lines :=
      (if lifetime then [mkLine Given Horizon [(x_down, 0); (x_up, 0)]] else []) ++
      (if diagonal then [mkLine Given Diagonal [(x_down, x_down); (x_up, x_up)]] else []) ++
      (if has_inf ds then [mkLine Given InfLine [(x_down, b_inf); (x_up, b_inf)]] else []) in
    let scat := combine labs (map (map (conv_point lifetime b_inf)) ds) in   (* zip(diagrams, labels) *)
    Ok (mkScene scat lines (x_down, x_up) (y_down, y_up)
                (match scat with [] => None | _ => Some Birth end)
                (match scat with [] => None | _ => Some (if lifetime then Lifetime else Death) end)
                (o_title o) (o_legend o))
  end end end.

(* ---------------------------------------------------------------- matchings *)
Definition row : Type := Z * Z * Q.       (* index in dgm1 or -1, index in dgm2 or -1, cost *)

(* dgm[i] for a non-negative i (negative indices other than -1 are not produced by the distance
   functions; the model rejects them instead of wrapping around) *)
Definition getpt (d : list pt) (i : Z) : option pt :=
  if (i <? 0)%Z then None else nth_error d (Z.to_nat i).

(* [dgmRot[j,0], 0].dot(R.T) with dgmRot = dgm.dot(R), R the rotation by 45 degrees: in exact
   arithmetic the point ((b+d)/2, (b+d)/2) (Proofs/SceneP.v: foot_is_rotation) *)
Definition foot (p : pt) : pt := ((fst p + snd p) * (1#2), (fst p + snd p) * (1#2)).

(* the axes used by the `i == -1` branch: plt.plot in the pinned code, ax.plot intended *)
Definition ax_minus1 (legacy : bool) : axes := if legacy then Current else Given.

(* None: IndexError; Some None: nothing drawn for this row *)
Definition seg_of (legacy : bool) (d1 d2 : list pt) (k : lkind) (r : row) : option (option line) :=
  let '(i, j, _) := r in
  if (i =? -1)%Z then
    if (j =? -1)%Z then Some None
    else match getpt d2 j with
         | Some p => Some (Some (mkLine (ax_minus1 legacy) k [p; foot p]))
         | None => None
         end
  else if (j =? -1)%Z then
    match getpt d1 i with
    | Some p => Some (Some (mkLine Given k [p; foot p]))
    | None => None
    end
  else
    match getpt d1 i, getpt d2 j with
    | Some p, Some q => Some (Some (mkLine Given k [p; q]))
    | _, _ => None
    end.

(* np.argmax: the first index attaining the maximum *)
Fixpoint argmax_from (best : Q) (bi k : nat) (l : list Q) : nat :=
  match l with
  | [] => bi
  | x :: r => if Qle_bool x best then argmax_from best bi (S k) r else argmax_from x k (S k) r
  end.
Definition argmax (l : list Q) : option nat :=
  match l with [] => None | x :: r => Some (argmax_from x 0%nat 1%nat r) end.

Fixpoint segs_from (legacy : bool) (d1 d2 : list pt) (mx : option nat) (k : nat) (m : list row)
  : option (list line) :=
  match m with
  | [] => Some []
  | r :: rest =>
    let kind := match mx with Some a => if Nat.eqb a k then SegMax else Seg | None => Seg end in
    match seg_of legacy d1 d2 kind r, segs_from legacy d1 d2 mx (S k) rest with
    | Some (Some l), Some ls => Some (l :: ls)
    | Some None, Some ls => Some ls
    | _, _ => None
    end
  end.

Definition fin_dgm (d : list pt) : dgm := map (fun p => (fst p, Fin (snd p))) d.
Definition nonempty (d : list pt) : list pt := match d with [] => [(0, 0)] | _ => d end.
Definition match_opts (l1 l2 : nat) : opts :=
  mkOpts None None None (LabList [l1; l2]) true false true.
Definition add_lines (front : bool) (ls : list line) (s : scene) : scene :=
  mkScene (s_scatter s) (if front then ls ++ s_lines s else s_lines s ++ ls)
          (s_xlim s) (s_ylim s) (s_xlabel s) (s_ylabel s) (s_title s) (s_legend s).

(* bottleneck_matching: plot_diagrams first, then the segments, the arg-max row marked *)
Definition bottleneck_matching (legacy : bool) (l1 l2 : nat) (d1 d2 : list pt) (m : list row) : res scene :=
  match plot_diagrams (match_opts l1 l2) [fin_dgm d1; fin_dgm d2] with
  | Ok s =>
    match argmax (map snd m) with
    | None => ErrEmpty
    | Some a =>
      match segs_from legacy (nonempty d1) (nonempty d2) (Some a) 0 m with
      | Some ls => Ok (add_lines false ls s)
      | None => ErrIndex
      end
    end
  | e => e
  end.

(* wasserstein_matching: the segments first (all alike), then plot_diagrams.
   [pad] = true is the pinned code: empty diagrams are replaced by [[0,0]] BEFORE the diagrams are
   handed to plot_diagrams (line 288 uses the padded arrays), so an empty diagram is drawn as a
   phantom point at the origin; [pad] = false plots the diagrams as given. *)
Definition wasserstein_matching (legacy pad : bool) (l1 l2 : nat) (d1 d2 : list pt) (m : list row) : res scene :=
  match segs_from legacy (nonempty d1) (nonempty d2) None 0 m with
  | None => ErrIndex
  | Some ls =>
    match plot_diagrams (match_opts l1 l2)
                        (if pad then [fin_dgm (nonempty d1); fin_dgm (nonempty d2)]
                         else [fin_dgm d1; fin_dgm d2]) with
    | Ok s => Ok (add_lines true ls s)
    | e => e
    end
  end.

(* ---------------------------------------------------------------- 2-D landscape plots *)
Record lscene := mkLScene {
  ls_lines : list line;                  (* one polyline per plotted depth, labelled lambda_depth *)
  ls_title : option nat;
  ls_xlabel : option xlab;
  ls_ylabel : option ylab;
  ls_legend : bool }.

(* `if not depth_range: depth_range = range(max_depth + 1)`; `if depth not in depth_range: continue` *)
Definition depth_selected (dr : option (list nat)) (k : nat) : bool :=
  match dr with
  | None | Some [] => true
  | Some l => existsb (Nat.eqb k) l
  end.

Fixpoint polylines (dr : option (list nat)) (k : nat) (fs : list (list pt)) : list line :=
  match fs with
  | [] => []
  | f :: rest =>
    (if depth_selected dr k then [mkLine Given (Poly k) f] else []) ++ polylines dr (S k) rest
  end.

(* a falsy title ("" or None) draws none; labels = [xlabel, ylabel] *)
Definition landscape_scene (dr : option (list nat)) (title : option nat) (labels : option (nat * nat))
           (fs : list (list pt)) : lscene :=
  mkLScene (polylines dr 0 fs) title
           (match labels with Some (a, _) => Some (XUser a) | None => None end)
           (match labels with Some (_, b) => Some (YUser b) | None => None end)
           true.

(* exact landscapes: depth k is drawn through its critical pairs *)
Definition plot_landscape_exact_simple := landscape_scene.

(* grid landscapes: np.linspace(start, stop, num = len(values_k)) against the sampled values *)
Definition inject_nat (n : nat) : Q := inject_Z (Z.of_nat n).
Definition linspace (start stop : Q) (n : nat) : list Q :=
  map (fun i => start + inject_nat i * ((stop - start) / inject_nat (n - 1))) (seq 0 n).
Definition plot_landscape_approx_simple (dr : option (list nat)) (title : option nat)
           (labels : option (nat * nat)) (start stop : Q) (values : list (list Q)) : lscene :=
  landscape_scene dr title labels (map (fun v => combine (linspace start stop (length v)) v) values).
