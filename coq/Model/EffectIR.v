(* C19 - effect IR for the purity analysis of persim's public entry points.

   The translator harness/effects_translator.py turns every public entry point of the current
   source tree into a [prog]: a flat, flow-insensitive list of statements over variables
   (the translator puts the source into SSA-like form and inlines persim-internal calls).

   Objects.  A view of an array IS its base object ([Alias]), so a write through a view bumps the
   base object's version.  Containers / instances hold references to other objects in named
   fields; field [f_elem] stands for "an element of a list/tuple/dict/object array", every other
   field is an attribute name.

   This file contains: the IR, an Andersen-style points-to solver (untrusted), a checker for its
   result ([closed] / [safe]), [pure_ok], and the concrete heap semantics the soundness theorem
   (Proofs/EffectP.v) talks about.  No proofs in here. *)
From Coq Require Import List Bool PArith FMapPositive FSetPositive.
Import ListNotations.
Open Scope bool_scope.

Definition var := positive.
Definition field := positive.
Definition f_elem : field := 1%positive.

Inductive stmt :=
| Fresh (x : var)                  (* x := newly allocated object (copy, arithmetic, literal ...) *)
| Alias (x y : var)                (* x := y, or a view of y *)
| Load (x y : var) (f : field)     (* x := y.f   /  an element of y when f = f_elem *)
| Store (x : var) (f : field) (y : var)   (* x.f := y  /  x[..] = y, x.append(y) when f = f_elem *)
| GStore (x : var) (f : field) (y : var)  (* a Store performed by ANOTHER method of the same class
                                            (ghost prelude): that method has its own obligation, so
                                            here it is assumed not to hit a caller-owned object *)
| Mutate (x : var)                 (* in-place write into x's object (payload) *)
| Rand (x : var)                   (* x := value drawn from NumPy's global RNG *)
| Opaque (x : var).                (* a construct / call target the translator has no summary for *)

Record prog := { p_prot : list var;     (* parameters: arrays / lists / objects owned by the caller *)
                 p_unprot : list var;   (* [self]: the estimator whose own state may change *)
                 p_body : list stmt }.

(* ---- abstract objects ------------------------------------------------------------------ *)
(* PROT: every object the caller owns (reachable from a protected parameter, a module-level
   variable or a mutable default).  Site x: the objects allocated by [Fresh x] / [Rand x], or the
   estimator [self] when x is the unprotected parameter.  Encoded as positives: PROT = 1,
   Site x = x + 1, so that sets are [PositiveSet.t] and maps [PositiveMap.t]. *)
Definition ao := positive.
Definition PROT : ao := 1%positive.
Definition Site (x : var) : ao := Pos.succ x.

Definition aset := PositiveSet.t.
Definition mem (a : ao) (l : aset) : bool := PositiveSet.mem a l.
Definition subset (l1 l2 : aset) : bool := PositiveSet.subset l1 l2.
Definition union (l1 l2 : aset) : aset := PositiveSet.union l1 l2.
Definition single (a : ao) : aset := PositiveSet.add a PositiveSet.empty.

Record sol := { s_pts : PositiveMap.t aset;
                s_cont : PositiveMap.t (PositiveMap.t aset) }.

Definition pts_of (s : sol) (x : var) : aset :=
  match PositiveMap.find x (s_pts s) with Some l => l | None => PositiveSet.empty end.

Definition cont_raw (s : sol) (o : ao) (f : field) : aset :=
  match PositiveMap.find o (s_cont s) with
  | Some m => match PositiveMap.find f m with Some l => l | None => PositiveSet.empty end
  | None => PositiveSet.empty
  end.

(* everything reachable from a caller-owned object is caller-owned *)
Definition cont_of (s : sol) (o : ao) (f : field) : aset :=
  if Pos.eqb o PROT then PositiveSet.add PROT (cont_raw s o f) else cont_raw s o f.

(* ---- the checker (this is what the soundness proof is about) ------------------------------ *)
Definition closed_stmt (s : sol) (st : stmt) : bool :=
  match st with
  | Fresh x | Rand x => mem (Site x) (pts_of s x)
  | Alias x y => subset (pts_of s y) (pts_of s x)
  | Load x y f => PositiveSet.for_all (fun o => subset (cont_of s o f) (pts_of s x)) (pts_of s y)
  | Store x f y | GStore x f y =>
      PositiveSet.for_all (fun o => subset (pts_of s y) (cont_of s o f)) (pts_of s x)
  | Mutate _ | Opaque _ => true
  end.

Definition safe_stmt (s : sol) (st : stmt) : bool :=
  match st with
  | Mutate x => negb (mem PROT (pts_of s x))
  | Store x f _ => if Pos.eqb f f_elem then negb (mem PROT (pts_of s x)) else true
  | Opaque _ => false
  | _ => true
  end.

Definition closed (p : prog) (s : sol) : bool :=
  forallb (fun x => mem PROT (pts_of s x)) (p_prot p) &&
  forallb (fun x => mem (Site x) (pts_of s x)) (p_unprot p) &&
  forallb (closed_stmt s) (p_body p).

Definition safe (p : prog) (s : sol) : bool := forallb (safe_stmt s) (p_body p).

(* ---- the solver (untrusted: its answer is re-checked by [closed]) ------------------------- *)
Definition add_pts (s : sol) (x : var) (l : aset) : sol * bool :=
  if subset l (pts_of s x) then (s, false)
  else ({| s_pts := PositiveMap.add x (union l (pts_of s x)) (s_pts s); s_cont := s_cont s |}, true).

Definition add_cont (s : sol) (o : ao) (f : field) (l : aset) : sol * bool :=
  if subset l (cont_of s o f) then (s, false)
  else
    let m := match PositiveMap.find o (s_cont s) with Some m => m | None => PositiveMap.empty _ end in
    ({| s_pts := s_pts s;
        s_cont := PositiveMap.add o (PositiveMap.add f (union l (cont_raw s o f)) m) (s_cont s) |}, true).

Definition solve_stmt (sc : sol * bool) (st : stmt) : sol * bool :=
  let (s, c) := sc in
  match st with
  | Fresh x | Rand x => let (s', c') := add_pts s x (single (Site x)) in (s', c || c')
  | Alias x y => let (s', c') := add_pts s x (pts_of s y) in (s', c || c')
  | Load x y f =>
      PositiveSet.fold (fun o (acc : sol * bool) => let (s1, c1) := acc in
                              let (s2, c2) := add_pts s1 x (cont_of s1 o f) in (s2, c1 || c2))
                (pts_of s y) (s, c)
  | Store x f y | GStore x f y =>
      PositiveSet.fold (fun o (acc : sol * bool) => let (s1, c1) := acc in
                              let (s2, c2) := add_cont s1 o f (pts_of s1 y) in (s2, c1 || c2))
                (pts_of s x) (s, c)
  | Mutate _ | Opaque _ => (s, c)
  end.

Fixpoint iterate (fuel : nat) (body : list stmt) (s : sol) : sol :=
  match fuel with
  | O => s
  | S k => let (s', c) := fold_left solve_stmt body (s, false) in
           if c then iterate k body s' else s'
  end.

Definition init_sol (p : prog) : sol :=
  let s0 := {| s_pts := PositiveMap.empty _; s_cont := PositiveMap.empty _ |} in
  let s1 := fold_left (fun s x => fst (add_pts s x (single PROT))) (p_prot p) s0 in
  fold_left (fun s x => fst (add_pts s x (single (Site x)))) (p_unprot p) s1.

(* fuel: every productive pass adds at least one element to some set; the number of passes the
   real programs need is small.  If the fuel runs out the answer is not closed and
   [pure_ok] is false - fail closed. *)
Definition solve (p : prog) : sol := iterate (S (length (p_body p))) (p_body p) (init_sol p).

Definition pure_ok (p : prog) : bool := let s := solve p in closed p s && safe p s.

Definition is_rand (st : stmt) : bool := match st with Rand _ => true | _ => false end.
Definition is_opaque (st : stmt) : bool := match st with Opaque _ => true | _ => false end.
Definition has_rand (p : prog) : bool := existsb is_rand (p_body p).
Definition has_opaque (p : prog) : bool := existsb is_opaque (p_body p).

(* statements applied to a variable that may refer to a caller-owned object: the diagnosis
   printed when an obligation fails *)
Definition offenders (p : prog) : list stmt :=
  let s := solve p in filter (fun st => negb (safe_stmt s st)) (p_body p).

(* ---- concrete semantics -------------------------------------------------------------------- *)
(* Object identities carry their allocation site.  [OProt n]: an object that exists in the
   caller's heap before the call and is reachable from an argument.  [OAt x n]: the n-th object
   allocated by statement [Fresh x] / [Rand x] (or the estimator [self] when x is [self]). *)
Inductive oid := OProt (n : nat) | OAt (x : var) (n : nat).

Definition site (o : oid) : ao := match o with OProt _ => PROT | OAt x _ => Site x end.

Record state := { env : var -> option oid;
                  edges : oid -> field -> oid -> Prop;   (* o.f may refer to o' *)
                  ver : oid -> nat;                       (* payload version counter *)
                  live : oid -> Prop }.

Definition upd_env (e : var -> option oid) (x : var) (o : oid) : var -> option oid :=
  fun y => if Pos.eqb y x then Some o else e y.

Definition bump (v : oid -> nat) (o : oid) (v' : oid -> nat) : Prop :=
  v' o = S (v o) /\ forall o', o' <> o -> v' o' = v o'.

Inductive step : stmt -> state -> state -> Prop :=
| st_fresh : forall x n st st',
    ~ live st (OAt x n) ->
    env st' = upd_env (env st) x (OAt x n) ->
    (forall o f o', edges st' o f o' <-> (o <> OAt x n /\ edges st o f o')) ->
    (forall o, o <> OAt x n -> ver st' o = ver st o) ->
    (forall o, live st' o <-> (o = OAt x n \/ live st o)) ->
    step (Fresh x) st st'
| st_rand : forall x n st st',
    ~ live st (OAt x n) ->
    env st' = upd_env (env st) x (OAt x n) ->
    (forall o f o', edges st' o f o' <-> (o <> OAt x n /\ edges st o f o')) ->
    (forall o, o <> OAt x n -> ver st' o = ver st o) ->
    (forall o, live st' o <-> (o = OAt x n \/ live st o)) ->
    step (Rand x) st st'
| st_alias : forall x y o st st',
    env st y = Some o ->
    env st' = upd_env (env st) x o ->
    (forall a f b, edges st' a f b <-> edges st a f b) ->
    (forall a, ver st' a = ver st a) ->
    step (Alias x y) st st'
| st_load : forall x y f o o' st st',
    env st y = Some o -> edges st o f o' ->
    env st' = upd_env (env st) x o' ->
    (forall a g b, edges st' a g b <-> edges st a g b) ->
    (forall a, ver st' a = ver st a) ->
    step (Load x y f) st st'
| st_store : forall x f y o o' st st',
    env st x = Some o -> env st y = Some o' ->
    env st' = env st ->
    (forall a g b, edges st' a g b <-> (edges st a g b \/ (a = o /\ g = f /\ b = o'))) ->
    (* an element store changes the payload of the container; an attribute store does not *)
    (if Pos.eqb f f_elem then bump (ver st) o (ver st') else forall a, ver st' a = ver st a) ->
    step (Store x f y) st st'
| st_gstore : forall x f y o o' st st',
    env st x = Some o -> env st y = Some o' ->
    site o <> PROT ->                       (* assume-guarantee: see [GStore] *)
    env st' = env st ->
    (forall a g b, edges st' a g b <-> (edges st a g b \/ (a = o /\ g = f /\ b = o'))) ->
    (forall a, site a = PROT -> ver st' a = ver st a) ->
    step (GStore x f y) st st'
| st_mutate : forall x o st st',
    env st x = Some o ->
    env st' = env st ->
    (forall a g b, edges st' a g b <-> edges st a g b) ->
    bump (ver st) o (ver st') ->
    step (Mutate x) st st'
| st_opaque : forall x st st',            (* anything may happen *)
    step (Opaque x) st st'.

(* flow-insensitive execution: any statement of the body, in any order, any number of times *)
Inductive exec (body : list stmt) : state -> state -> Prop :=
| ex_refl : forall st, exec body st st
| ex_step : forall st st' st'' s, In s body -> step s st st' -> exec body st' st'' -> exec body st st''.

(* every initial heap: an arbitrary object graph among the caller-owned objects; the protected
   parameters point anywhere into it; [self] starts as an object of its own without contents
   (its contents are built by the class's own methods, whose stores are part of the body). *)
Definition init_ok (p : prog) (st : state) : Prop :=
  (forall x o, env st x = Some o ->
     (In x (p_prot p) /\ site o = PROT) \/
     (~ In x (p_prot p) /\ In x (p_unprot p) /\ site o = Site x)) /\
  (forall o f o', edges st o f o' -> site o = PROT /\ site o' = PROT).

Inductive reach (st : state) : oid -> oid -> Prop :=
| reach_refl : forall o, reach st o o
| reach_step : forall o f o' o'', edges st o f o' -> reach st o' o'' -> reach st o o''.
