(* Model of persim/images_kernels.py over R, one evaluation point at a time (the code is
   vectorised over points; every point is treated independently).
   No proofs here, so the model still loads when a proof breaks.

   The normal CDF  norm_cdf x = erfc(-x/sqrt 2)/2  is SciPy code: it is an argument `Phi`
   everywhere (assumption used by the theorems: Phi is non-decreasing with values in [0,1],
   limits 0 and 1).  For running the model Phi is instantiated with `Phi_int` (Spec/BvnS.v).

   Names used by other models (images.py transform):
     uniform_cdf  mu width height x y
     gaussian_cdf Phi mu sigma x y            (intended: line 173 reads `asr > -100`, Genz)
     Legacy.gaussian_cdf Phi mu sigma x y     (pinned tree: line 173 reads `asr > 100`)
   with mu : R * R  and  sigma : (R * R) * (R * R)  the rows of the covariance matrix. *)
From Coq Require Import Reals List.
Import ListNotations.
Open Scope R_scope.

Definition vec2 : Type := R * R.
Definition mat2 : Type := (R * R) * (R * R).
Definition s00 (s : mat2) : R := fst (fst s).
Definition s01 (s : mat2) : R := snd (fst s).
Definition s11 (s : mat2) : R := snd (snd s).
Definition mk_sigma (sxx sxy syy : R) : mat2 := ((sxx, sxy), (sxy, syy)).

Definition sum_list (l : list R) : R := fold_right Rplus 0 l.

(* ---- uniform (lines 15-22) ---------------------------------------------------------- *)
Definition uniform_cdf (mu : vec2) (width height x y : R) : R :=
  let w1 := Rmax (x - (fst mu - width / 2)) 0 in
  let h1 := Rmax (y - (snd mu - height / 2)) 0 in
  let w := Rmin w1 width in
  let h := Rmin h1 height in
  w * h / (width * height).

(* ---- sbvn_cdf (lines 73-98): product form, sigma_x / sigma_y are VARIANCES ------------ *)
Definition sbvn_cdf (Phi : R -> R) (x y mu_x mu_y sigma_x sigma_y : R) : R :=
  Phi ((x - mu_x) / sqrt sigma_x) * Phi ((y - mu_y) / sqrt sigma_y).

(* ---- gauss_legendre_quad (lines 213-247): list of (weight, abscissa) ------------------ *)
Definition gl3 : list (R * R) :=
  [ (0.1713244923791705, 0.9324695142031522);
    (0.3607615730481384, 0.6612093864662647);
    (0.4679139345726904, 0.2386191860831970) ].
Definition gl6 : list (R * R) :=
  [ (0.04717533638651177, 0.9815606342467191);
    (0.1069393259953183, 0.9041172563704750);
    (0.1600783285433464, 0.7699026741943050);
    (0.2031674267230659, 0.5873179542866171);
    (0.2334925365383547, 0.3678314989981802);
    (0.2491470458134029, 0.1252334085114692) ].
Definition gl10 : list (R * R) :=
  [ (0.01761400713915212, 0.9931285991850949);
    (0.04060142980038694, 0.9639719272779138);
    (0.06267204833410906, 0.9122344282513259);
    (0.08327674157670475, 0.8391169718222188);
    (0.1019301198172404, 0.7463319064601508);
    (0.1181945319615184, 0.6360536807265150);
    (0.1316886384491766, 0.5108670019508271);
    (0.1420961093183821, 0.3737060887154196);
    (0.1491729864726037, 0.2277858511416451);
    (0.1527533871307259, 0.07652652113349733) ].
Definition gauss_legendre_quad (r : R) : list (R * R) :=
  if Rlt_dec (Rabs r) 0.3 then gl3
  else if Rlt_dec (Rabs r) 0.75 then gl6
  else gl10.

(* ---- bvn_cdf, |r| < 0.925 (lines 142-158) --------------------------------------------- *)
Definition bvn_mid_term (hk hs asr : R) (wx : R * R) : R :=
  let w := fst wx in let x := snd wx in
  let sn1 := sin (asr * (1 - x) / 2) in
  let sn2 := sin (asr * (1 + x) / 2) in
  w * exp ((sn1 * hk - hs) / (1 - sn1 * sn1)) + w * exp ((sn2 * hk - hs) / (1 - sn2 * sn2)).

Definition bvn_mid (Phi : R -> R) (q : list (R * R)) (dh dk r : R) : R :=
  let hk := dh * dk in
  let hs := (dh * dh + dk * dk) / 2 in
  let asr := asin r in
  asr * sum_list (map (bvn_mid_term hk hs asr) q) / (4 * PI) + Phi (- dh) * Phi (- dk).

(* ---- bvn_cdf, |r| >= 0.925 (lines 159-208); thr is the constant of line 173 ----------- *)
Definition bvn_high_term (hk xmy2 rhk8 rhk16 sopmr2 ix : R) (wx : R * R) : R :=
  let w := fst wx in let x := snd wx in
  let xs := (sopmr2 + sopmr2 * ix * x) * (sopmr2 + sopmr2 * ix * x) in
  let rs := sqrt (1 - xs) in
  let asr1 := -1 * (xmy2 / xs + hk) / 2 in
  let sp1 := 1 + rhk8 * xs * (1 + rhk16 * xs) in
  let ep1 := exp (- (hk * (1 - rs)) / (2 * (1 + rs))) / rs in
  if Rlt_dec (-100) asr1
  then sopmr2 * w * exp asr1 * (ep1 - sp1)
  else 0.   (* masks: sopmr*w*exp(asr1*0)*(ep1*0 - sp1*0) *)

(* the part inside `if abs(r) < 1`, with dk, hk already reflected *)
Definition bvn_high_core (thr : R) (Phi : R -> R) (q : list (R * R)) (dh dk r : R) : R :=
  let hk := dh * dk in
  let opmr := (1 - r) * (1 + r) in
  let sopmr := sqrt opmr in
  let xmy2 := (dh - dk) * (dh - dk) in
  let xmy := sqrt xmy2 in
  let rhk8 := (4 - hk) / 8 in
  let rhk16 := (12 - hk) / 16 in
  let asr := -1 * (xmy2 / opmr + hk) / 2 in
  let b0 :=
    if Rlt_dec thr asr
    then sopmr * (exp asr * (1 - rhk8 * (xmy2 - opmr) * ((1 - rhk16 * xmy2 / 5) / 3)
                             + rhk8 * rhk16 * opmr * opmr / 5))
    else 0 in
  let ncdfxmyt := sqrt (2 * PI) * Phi (- xmy / sopmr) in
  let b1 :=
    if Rlt_dec (-100) hk
    then b0 - exp (- hk / 2) * ncdfxmyt * xmy * (1 - rhk8 * xmy2 * ((1 - rhk16 * xmy2 / 5) / 3))
    else b0 in
  let sopmr2 := sopmr / 2 in
  let b2 := b1 + sum_list (map (bvn_high_term hk xmy2 rhk8 rhk16 sopmr2 (-1)) q) in
  let b3 := b2 + sum_list (map (bvn_high_term hk xmy2 rhk8 rhk16 sopmr2 1) q) in
  - b3 / (2 * PI).

Definition bvn_high (thr : R) (Phi : R -> R) (q : list (R * R)) (dh dk0 r : R) : R :=
  let dk := if Rlt_dec r 0 then - dk0 else dk0 in        (* r < 0: dk = -dk; hk = -hk *)
  let bvn := if Rlt_dec (Rabs r) 1 then bvn_high_core thr Phi q dh dk r else 0 in
  if Rlt_dec 0 r then bvn + Phi (- Rmax dh dk)
  else if Rlt_dec r 0 then - bvn + Rmax 0 (Phi (- dh) - Phi (- dk))
  else bvn.

(* standardised form: dh, dk are the negated standardised coordinates *)
Definition bvn_std (thr : R) (Phi : R -> R) (dh dk r : R) : R :=
  let q := gauss_legendre_quad r in
  if Rlt_dec (Rabs r) 0.925 then bvn_mid Phi q dh dk r else bvn_high thr Phi q dh dk r.

(* bvn_cdf (lines 101-210) *)
Definition bvn_cdf_gen (thr : R) (Phi : R -> R) (x y mu_x mu_y sigma_xx sigma_yy sigma_xy : R) : R :=
  let dh := - (x - mu_x) / sqrt sigma_xx in
  let dk := - (y - mu_y) / sqrt sigma_yy in
  let r := sigma_xy / sqrt (sigma_xx * sigma_yy) in
  bvn_std thr Phi dh dk r.

(* gaussian (lines 25-54): dispatch on sigma[0][1] == 0.0; sigma[1][0] is never read *)
Definition gaussian_cdf_gen (thr : R) (Phi : R -> R) (mu : vec2) (sigma : mat2) (x y : R) : R :=
  if Req_EM_T (s01 sigma) 0
  then sbvn_cdf Phi x y (fst mu) (snd mu) (s00 sigma) (s11 sigma)
  else bvn_cdf_gen thr Phi x y (fst mu) (snd mu) (s00 sigma) (s11 sigma) (s01 sigma).

(* intended algorithm (Genz, bvnl.m): `asr > -100` *)
Definition bvn_cdf := bvn_cdf_gen (-100).
Definition gaussian_cdf := gaussian_cdf_gen (-100).

(* pinned tree: images_kernels.py:173 `ind = asr > 100` *)
Module Legacy.
  Definition bvn_cdf := bvn_cdf_gen 100.
  Definition gaussian_cdf := gaussian_cdf_gen 100.
End Legacy.
