(* Legacy detail of the pinned gromov_hausdorff.py line 375 under NumPy >= 2: the sort key
   multiplies the Python int len(K) with the NumPy scalar diam_X, whose type is the smallest
   sufficient integer type of the distance matrix.  NumPy >= 2 converts the Python int to that
   type first and raises OverflowError when it does not fit; when it fits, the product wraps
   (pick_int8 in MGHM.v).  No proofs in this file. *)
From Coq Require Import ZArith List Bool Arith Lia.
From Persim Require Import Spec.MGH Model.MGHM.
Import ListNotations.
Open Scope Z_scope.

(* largest value of the dtype chosen by determine_optimal_int_type for a matrix with maximum v *)
Definition optimal_int_max (v : Z) : option Z :=
  if v <=? 127 then Some 127
  else if v <=? 32767 then Some 32767
  else if v <=? 2147483647 then Some 2147483647
  else if v <=? 9223372036854775807 then Some 9223372036854775807
  else None.

(* astype(int_k) on a value: two's complement wrap-around into [-tmax-1, tmax] *)
Definition wrap_to (tmax x : Z) : Z := (x + (tmax + 1)) mod (2 * (tmax + 1)) - (tmax + 1).
(* cast_distance_matrix_to_optimal_int_type: None = ValueError *)
Definition cast_optimal (D : mat) : option mat :=
  match optimal_int_max (diam D) with
  | Some tmax => Some (map (map (wrap_to tmax)) D)
  | None => None
  end.

(* one round of the loop of find_largest_size_bounded_curvature in the pinned code *)
Inductive step_result := StepDone | StepRaise | StepDelete (r : nat).
Definition legacy_step (D : mat) (ks : list nat) (diamX d : Z) : step_result :=
  if has_small D ks d then
    match optimal_int_max diamX with
    | Some tmax => if tmax <? Z.of_nat (length ks) then StepRaise      (* OverflowError *)
                   else StepDelete (pick_with (fun K dX => wrap_to tmax (Z.of_nat (length K) * dX)) (submat D ks) diamX d)
    | None => StepRaise
    end
  else StepDone.

Definition star (n : nat) : mat :=
  map (fun i => map (fun j => if (i =? j)%nat then 0 else if (i =? 0)%nat || (j =? 0)%nat then 1 else 2) (seq 0 n)) (seq 0 n).
