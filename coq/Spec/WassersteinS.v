(* The (1-)Wasserstein distance with Euclidean ground metric as a mathematical object (over R):
   minimum over partial matchings of the sum of costs, Euclidean between matched points,
   perpendicular distance (d-b)/sqrt 2 to the diagonal. *)
From Coq Require Import Reals List.
From Persim Require Import Spec.PartialMatching.
Import ListNotations.
Open Scope R_scope.

Definition rpoint := (R * R)%type.
Definition euclid (p q : rpoint) : R := sqrt ((fst p - fst q) * (fst p - fst q) + (snd p - snd q) * (snd p - snd q)).
Definition diagW (p : rpoint) : R := (snd p - fst p) / sqrt 2.
Definition sumRl (l : list R) : R := fold_right Rplus 0 l.

Definition wcosts (S T : list rpoint) (m : pmatching) : list R := pm_costs euclid diagW (0,0) S T m.
Definition wcost (S T : list rpoint) (m : pmatching) : R := sumRl (wcosts S T m).

Definition is_wasserstein (S T : list rpoint) (v : R) : Prop :=
  (exists m, valid_for S T m /\ wcost S T m = v) /\
  (forall m, valid_for S T m -> v <= wcost S T m).

Definition wfdgmR (S : list rpoint) : Prop := forall p, In p S -> fst p <= snd p.
