(* The bottleneck distance as a mathematical object (over Q): the minimum over all partial
   matchings of the largest cost, L-infinity between matched points, (d-b)/2 to the diagonal. *)
From Coq Require Import QArith Qminmax Qabs List.
From Persim Require Import Spec.PartialMatching.
Import ListNotations.
Open Scope Q_scope.

Definition qpoint := (Q * Q)%type.
Definition linf (p q : qpoint) : Q := Qmax (Qabs (fst p - fst q)) (Qabs (snd p - snd q)).
Definition diagB (p : qpoint) : Q := (snd p - fst p) * (1#2).
Definition maxl (l : list Q) : Q := fold_right Qmax 0 l.

Definition bcosts (S T : list qpoint) (m : pmatching) : list Q := pm_costs linf diagB (0,0) S T m.
Definition bcost (S T : list qpoint) (m : pmatching) : Q := maxl (bcosts S T m).

Definition is_bottleneck (S T : list qpoint) (v : Q) : Prop :=
  (exists m, valid_for S T m /\ bcost S T m == v) /\
  (forall m, valid_for S T m -> v <= bcost S T m).

(* diagrams whose points lie on or above the diagonal *)
Definition wfdgm (S : list qpoint) : Prop := forall p, In p S -> fst p <= snd p.
