(* Glue C03/C09: the pointwise meaning of an expression tree over the landscapes OF DIAGRAMS: the same
   expression of the k-th largest tents (land, Lib/PL.v); a missing leaf reads 0. *)
From Coq Require Import QArith List.
From Persim Require Import Lib.Kth Lib.PL Model.LandArithM.
Import ListNotations.
Open Scope Q_scope.

Fixpoint expr_land (dgs : list (list bar)) (e : expr) (k : nat) (t : Q) : Q :=
  match e with
  | Leaf i => match nth_error dgs i with Some D => land D k t | None => 0 end
  | EAdd e1 e2 => expr_land dgs e1 k t + expr_land dgs e2 k t
  | ESub e1 e2 => expr_land dgs e1 k t - expr_land dgs e2 k t
  | ENeg e1 => - expr_land dgs e1 k t
  | EScale c e1 => c * expr_land dgs e1 k t
  | EDiv e1 c => expr_land dgs e1 k t / c
  end.
