(* Spec notions for persistence images (C04, C11): the mass a CDF assigns to a rectangle, the
   pixel rectangles of a mesh, and the image the property describes.  Nothing here follows the
   code. *)
From Coq Require Import Reals List.
Import ListNotations.
Open Scope R_scope.

Definition sumR (l : list R) : R := fold_right Rplus 0 l.

(* an interval is a pair (lo, hi); mass F (x0,x1) (y0,y1) is the F-measure of (x0,x1] x (y0,y1] *)
Definition mass (F : R -> R -> R) (bx py : R * R) : R :=
  F (snd bx) (snd py) - F (fst bx) (snd py) - F (snd bx) (fst py) + F (fst bx) (fst py).

(* consecutive mesh nodes = the pixel intervals along one axis *)
Fixpoint adj (l : list R) : list (R * R) :=
  match l with
  | a :: ((b :: _) as t) => (a, b) :: adj t
  | _ => []
  end.

(* tabulate a function of (birth interval, persistence interval): rows = birth index *)
Definition tab (E : R * R -> R * R -> R) (bp pp : list R) : list (list R) :=
  map (fun bx => map (fun py => E bx py) (adj pp)) (adj bp).

(* the value the property gives to the pixel  bx x py : sum over the points (already in
   birth-persistence coordinates) of weight * kernel mass of the pixel *)
Definition pixel_spec (w : R -> R -> R) (K : R -> R -> R -> R -> R) (pts : list (R * R)) (bx py : R * R) : R :=
  sumR (map (fun pt => w (fst pt) (snd pt) * mass (K (fst pt) (snd pt)) bx py) pts).
Definition spec_image w K (bp pp : list R) (pts : list (R * R)) : list (list R) :=
  tab (pixel_spec w K pts) bp pp.

Definition img_total (img : list (list R)) : R := sumR (map sumR img).
Definition total_weight (w : R -> R -> R) (pts : list (R * R)) : R :=
  sumR (map (fun pt => w (fst pt) (snd pt)) pts).

(* what is assumed of a kernel: every ordered rectangle has mass in [0,1] *)
Definition mass_nonneg (K : R -> R -> R -> R -> R) : Prop :=
  forall mb mp x0 x1 y0 y1, x0 <= x1 -> y0 <= y1 -> 0 <= mass (K mb mp) (x0, x1) (y0, y1).
Definition mass_le_one (K : R -> R -> R -> R -> R) : Prop :=
  forall mb mp x0 x1 y0 y1, x0 <= x1 -> y0 <= y1 -> mass (K mb mp) (x0, x1) (y0, y1) <= 1.

(* a mesh is non-decreasing *)
Fixpoint nondecr (l : list R) : Prop :=
  match l with
  | a :: ((b :: _) as t) => a <= b /\ nondecr t
  | _ => True
  end.

(* a 1-D CDF-like function *)
Definition mono01 (G : R -> R) : Prop :=
  (forall x y, x <= y -> G x <= G y) /\ (forall x, 0 <= G x <= 1).
