(* Mathematical notions for C13: the normal CDF, the bivariate normal CDF (Plackett's
   single-integral identity, taken as the DEFINITION), the uniform box CDF. *)
From Coq Require Import Reals.
From Coquelicot Require Import Coquelicot.
Open Scope R_scope.

(* standard normal CDF: 1/2 + (2 pi)^(-1/2) * int_0^x exp(-t^2/2) dt *)
Definition Phi_int (x : R) : R := 1 / 2 + / sqrt (2 * PI) * RInt (fun t => exp (- (t * t) / 2)) 0 x.

(* Plackett: d/d rho Phi2(h,k;rho) = phi2(h,k;rho); substituting rho = sin theta gives
   Phi2(h,k;rho) = Phi h Phi k + 1/(2 pi) int_0^{asin rho} exp(-(h^2 - 2hk sin th + k^2)/(2 cos^2 th)) dth *)
Definition plackett (h k th : R) : R :=
  exp (- (h * h - 2 * h * k * sin th + k * k) / (2 * (cos th * cos th))).
Definition Phi2 (h k rho : R) : R :=
  Phi_int h * Phi_int k + / (2 * PI) * RInt (plackett h k) 0 (asin rho).

(* P(X <= x, Y <= y) for (X,Y) normal with mean (mx,my), variances sxx, syy, covariance sxy *)
Definition bvn_ref (mx my sxx sxy syy x y : R) : R :=
  Phi2 ((x - mx) / sqrt sxx) ((y - my) / sqrt syy) (sxy / sqrt (sxx * syy)).

(* What the theorems assume about the external normal CDF (scipy erfc) *)
Definition cdf_like (Phi : R -> R) : Prop :=
  (forall a b, a <= b -> Phi a <= Phi b) /\ (forall a, 0 <= Phi a <= 1).
Definition tails_0_1 (Phi : R -> R) : Prop :=
  (forall eps, 0 < eps -> exists M, forall a, a <= M -> Phi a <= eps) /\
  (forall eps, 0 < eps -> exists M, forall a, M <= a -> 1 - eps <= Phi a).

(* uniform distribution on the box [a,b] x [c,d]: length of (-inf,t] /\ [a,b] *)
Definition seg_len (a b t : R) : R :=
  if Rle_dec t a then 0 else if Rle_dec t b then t - a else b - a.
(* area ((-inf,x] x (-inf,y] /\ box) / area box, box centred at mu with the given width, height *)
Definition box_cdf (mx my width height x y : R) : R :=
  seg_len (mx - width / 2) (mx + width / 2) x * seg_len (my - height / 2) (my + height / 2) y
  / (width * height).
