(* C10 - what the p-norm and the sup norm of a landscape ARE (no code-shaped definitions).
   A landscape is a list of depths, a depth a list of breakpoints (x, y) joined by straight
   segments.  For an integer p >= 1 the integral of |l|^p over one segment has a closed form
   that does not divide by the slope; Proofs/PNormRInt.v proves that this closed form is the
   Riemann integral RInt (fun t => Rabs (l t) ^ p) x0 x1 of the interpolant l. *)
From Coq Require Import QArith Qabs Qminmax List.
From Persim Require Import Lib.Kth Lib.PL.
Import ListNotations.
Open Scope Q_scope.

Definition landscape := list (list pt).

(* x^n, n a natural number *)
Fixpoint pw (x : Q) (n : nat) : Q := match n with O => 1 | S k => x * pw x k end.

Definition sumQ (l : list Q) : Q := fold_right Qplus 0 l.
Definition nQ (n : nat) : Q := inject_Z (Z.of_nat n).

(* sum_{i=0..p} a^(p-i) b^i *)
Definition gsum (a b : Q) (p : nat) : Q :=
  sumQ (map (fun i => pw a (p - i) * pw b i) (seq 0 (S p))).

(* the two ordinates lie strictly on opposite sides of the axis *)
Definition crosses (y0 y1 : Q) : bool := (Qlt_bool y0 0 && Qlt_bool 0 y1) || (Qlt_bool 0 y0 && Qlt_bool y1 0).

(* integral of |l|^p over the segment from (x0,y0) to (x1,y1) *)
Definition seg_int (p : nat) (a b : pt) : Q :=
  let '(x0, y0) := a in let '(x1, y1) := b in
  if crosses y0 y1
  then (x1 - x0) * (pw (Qabs y0) (S p) + pw (Qabs y1) (S p)) / (nQ (S p) * (Qabs y0 + Qabs y1))
  else (x1 - x0) * gsum (Qabs y0) (Qabs y1) p / nQ (S p).

(* consecutive breakpoints *)
Fixpoint segments (l : list pt) : list (pt * pt) :=
  match l with
  | a :: (b :: _) as r => (a, b) :: segments r
  | _ => []
  end.

Definition depth_pow (p : nat) (l : list pt) : Q := sumQ (map (fun s => seg_int p (fst s) (snd s)) (segments l)).
(* the p-th power of the p-norm: sum over depths of the integral of |f|^p *)
Definition norm_pow (p : nat) (L : landscape) : Q := sumQ (map (depth_pow p) L).

(* v is the p-norm: the non-negative number whose p-th power is norm_pow *)
Definition is_p_norm (p : nat) (L : landscape) (v : Q) : Prop := 0 <= v /\ pw v p == norm_pow p L.

(* largest |y| over all breakpoints (0 for no breakpoints) *)
Definition sup_pts (l : list pt) : Q := fold_right (fun a m => Qmax (Qabs (snd a)) m) 0 l.
Definition sup_spec (L : landscape) : Q := fold_right (fun l m => Qmax (sup_pts l) m) 0 L.

(* all abscissae of every depth strictly increasing *)
Definition wf (L : landscape) : Prop := Forall incr L.

(* c * L : scale every ordinate *)
Definition scale_pts (c : Q) (l : list pt) : list pt := map (fun a => (fst a, c * snd a)) l.
Definition scale (c : Q) (L : landscape) : landscape := map (scale_pts c) L.
(* a landscape that is identically zero, e.g. P - P *)
Definition zero_pts (l : list pt) : Prop := Forall (fun a => snd a == 0) l.
