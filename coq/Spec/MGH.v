(* Spec: modified Gromov-Hausdorff distance between finite integer metric spaces (C05, C17).

   A finite metric space is a square matrix of integers (list of rows).  A map X -> Y is a list
   of images f : list nat (f_i = image of point i).  Its distortion is
       dis DX DY f = max_{i,j} | DX i j - DY (f i) (f j) |
   and  2 * mGH(X,Y) = max ( min_f dis DX DY f ,  min_g dis DY DX g ).
   The two bracket predicates below say "d <= 2 mGH" and "2 mGH <= u" without naming the minimum. *)
From Coq Require Import ZArith List Bool Arith Lia.
Import ListNotations.
Open Scope Z_scope.

Definition mat := list (list Z).
Definition ent (D : mat) (i j : nat) : Z := nth j (nth i D []) 0.

(* maximum of a list of non-negative numbers (0 for the empty list) *)
Definition zmaxl (l : list Z) : Z := fold_right Z.max 0 l.

Definition square (D : mat) : Prop := Forall (fun r => length r = length D) D.

(* distance matrix: zero diagonal, symmetric, positive off the diagonal.
   (The triangle inequality is not needed by any theorem of C05, so it is not required.) *)
Definition dmatrix (D : mat) : Prop :=
  square D /\
  (forall i, (i < length D)%nat -> ent D i i = 0) /\
  (forall i j, (i < length D)%nat -> (j < length D)%nat -> ent D i j = ent D j i) /\
  (forall i j, (i < length D)%nat -> (j < length D)%nat -> i <> j -> 0 < ent D i j).

Definition valid_map (n m : nat) (f : list nat) : Prop :=
  length f = n /\ Forall (fun y => (y < m)%nat) f.

Definition img (f : list nat) (i : nat) : nat := nth i f 0%nat.

Definition dterm (DX DY : mat) (f : list nat) (i j : nat) : Z :=
  Z.abs (ent DX i j - ent DY (img f i) (img f j)).

Definition dis (DX DY : mat) (f : list nat) : Z :=
  let n := length DX in
  zmaxl (flat_map (fun i => map (fun j => dterm DX DY f i j) (seq 0 n)) (seq 0 n)).

(* d <= 2 mGH(X,Y) *)
Definition two_mgh_ge (DX DY : mat) (d : Z) : Prop :=
  (forall f, valid_map (length DX) (length DY) f -> d <= dis DX DY f) \/
  (forall g, valid_map (length DY) (length DX) g -> d <= dis DY DX g).

(* 2 mGH(X,Y) <= u, with u the larger distortion of an actual pair of maps *)
Definition two_mgh_le (DX DY : mat) (u : Z) : Prop :=
  exists f g, valid_map (length DX) (length DY) f /\ valid_map (length DY) (length DX) g /\
              u = Z.max (dis DX DY f) (dis DY DX g).

(* isometry given by a relabelling p of the points *)
Definition is_perm (n : nat) (p : list nat) : Prop :=
  length p = n /\ NoDup p /\ Forall (fun y => (y < n)%nat) p.

Definition isometric (DX DY : mat) : Prop :=
  length DX = length DY /\
  exists p, is_perm (length DX) p /\
            forall i j, (i < length DX)%nat -> (j < length DX)%nat ->
                        ent DY (img p i) (img p j) = ent DX i j.

(* Injective assignment of the entries of v to entries of u with all differences < d
   (the linear bottleneck assignment feasibility problem of Theorem B). *)
Definition inj_assign (v u : list Z) (d : Z) : Prop :=
  exists g : list nat,
    length g = length v /\ NoDup g /\ Forall (fun j => (j < length u)%nat) g /\
    forall k, (k < length v)%nat -> Z.abs (nth k v 0 - nth (nth k g 0%nat) u 0) < d.

(* the entries of row a of D at the columns ks, without the diagonal entry *)
Definition row_others (D : mat) (a : nat) (ks : list nat) : list Z :=
  map (fun b => ent D a b) (remove Nat.eq_dec a ks).

(* a d-bounded curvature, given by the tuple of (distinct) points it is taken on *)
Definition bounded_curv (D : mat) (ks : list nat) (d : Z) : Prop :=
  NoDup ks /\ Forall (fun a => (a < length D)%nat) ks /\
  forall a b, In a ks -> In b ks -> a <> b -> d <= ent D a b.
