(* One-dimensional optimal transport between two finite multisets of rationals of the same size:
   a transport plan with unit masses is a pairing, i.e. a list of pairs whose first components
   enumerate one multiset and whose second components enumerate the other. *)
From Coq Require Import QArith Qabs List Permutation.
Import ListNotations.
Open Scope Q_scope.

Definition pairing (l : list (Q * Q)) (a b : list Q) : Prop :=
  Permutation (map fst l) a /\ Permutation (map snd l) b.
Definition pcost (l : list (Q * Q)) : Q :=
  fold_right Qplus 0 (map (fun p => Qabs (fst p - snd p)) l).
(* v is the optimal transport cost between a and b *)
Definition is_ot1 (a b : list Q) (v : Q) : Prop :=
  (exists l, pairing l a b /\ pcost l == v) /\ (forall l, pairing l a b -> v <= pcost l).
