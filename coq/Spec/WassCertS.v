(* What it means for the rows returned by wasserstein(..., matching=True) to be a certificate for the
   reported distance (C06, Wasserstein half).  A row is (i, j, cost): i indexes the first diagram, j the
   second, -1 stands for the diagonal. *)
From Coq Require Import Reals List ZArith Permutation.
From Persim Require Import Spec.WassersteinS.
Import ListNotations.
Open Scope R_scope.

Definition crow : Type := (Z * Z * R)%type.
Definition col0 (r : crow) : Z := fst (fst r).
Definition col1 (r : crow) : Z := snd (fst r).
Definition cst (r : crow) : R := snd r.

(* the entries of an index column that name a point (not the diagonal) *)
Definition named (col : list Z) : list Z := filter (fun z => negb (Z.eqb z (-1))) col.

(* the cost of the pairing a row names *)
Definition pairing_cost (S T : list rpoint) (r : crow) : R :=
  if Z.eqb (col0 r) (-1) then diagW (nth (Z.to_nat (col1 r)) T (0, 0))
  else if Z.eqb (col1 r) (-1) then diagW (nth (Z.to_nat (col0 r)) S (0, 0))
  else euclid (nth (Z.to_nat (col0 r)) S (0, 0)) (nth (Z.to_nat (col1 r)) T (0, 0)).

(* not diagonal-to-diagonal, and the third entry is the cost of that pairing *)
Definition row_cost (S T : list rpoint) (r : crow) : Prop :=
  ~ (col0 r = (-1)%Z /\ col1 r = (-1)%Z) /\ cst r = pairing_cost S T r.

Definition wass_cert (S T : list rpoint) (dist : R) (rows : list crow) : Prop :=
  (* every index of S occurs in exactly one row (column 0), every index of T in exactly one row (column 1),
     and nothing else but -1 occurs *)
  Permutation (named (map col0 rows)) (map Z.of_nat (seq 0 (length S))) /\
  Permutation (named (map col1 rows)) (map Z.of_nat (seq 0 (length T))) /\
  (forall r, In r rows -> row_cost S T r) /\
  sumRl (map cst rows) = dist.

(* the same up to a tolerance on the costs and on the sum (what can be asked of floating-point output) *)
Definition wass_cert_approx (S T : list rpoint) (tol dist : R) (rows : list crow) : Prop :=
  Permutation (named (map col0 rows)) (map Z.of_nat (seq 0 (length S))) /\
  Permutation (named (map col1 rows)) (map Z.of_nat (seq 0 (length T))) /\
  (forall r, In r rows -> ~ (col0 r = (-1)%Z /\ col1 r = (-1)%Z) /\ Rabs (cst r - pairing_cost S T r) <= tol) /\
  Rabs (sumRl (map cst rows) - dist) <= tol.
