(* Partial matchings between two finite diagrams, and the list of costs a matching pays:
   one cost per matched pair, one diagonal cost per unmatched point of either diagram.
   Shared by the bottleneck (max, over Q) and Wasserstein (sum, over R) specifications. *)
From Coq Require Import List Arith Bool.
Import ListNotations.

Definition pmatching := list (nat * nat).

(* a partial matching between index sets [0,M) and [0,N): an injective partial function *)
Definition valid_pm (M N : nat) (m : pmatching) : Prop :=
  NoDup (map fst m) /\ NoDup (map snd m) /\ forall p, In p m -> fst p < M /\ snd p < N.

Definition unmatched (used : list nat) (n : nat) : list nat :=
  filter (fun i => negb (existsb (Nat.eqb i) used)) (seq 0 n).
Definition unmatched_l (M : nat) (m : pmatching) : list nat := unmatched (map fst m) M.
Definition unmatched_r (N : nat) (m : pmatching) : list nat := unmatched (map snd m) N.

Section Costs.
  Context {P C : Type} (cpair : P -> P -> C) (cdiag : P -> C) (dflt : P).

  (* all costs paid by matching m between diagrams S and T *)
  Definition pm_costs (S T : list P) (m : pmatching) : list C :=
    map (fun p => cpair (nth (fst p) S dflt) (nth (snd p) T dflt)) m
    ++ map (fun i => cdiag (nth i S dflt)) (unmatched_l (length S) m)
    ++ map (fun j => cdiag (nth j T dflt)) (unmatched_r (length T) m).
End Costs.

Definition valid_for {P} (S T : list P) (m : pmatching) : Prop := valid_pm (length S) (length T) m.
