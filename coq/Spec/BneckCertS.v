(* The certificate predicate of C06 for the bottleneck distance: what it means for the rows
   [i, j, cost] returned by bottleneck(..., matching=True) to certify the distance v between
   the (placeholder-expanded) diagrams S and T. *)
From Coq Require Import QArith Qminmax Qabs List ZArith Permutation Bool.
From Persim Require Import Spec.PartialMatching Spec.BottleneckS.
Import ListNotations.
Open Scope Q_scope.

Definition brow : Type := (Z * Z * Q)%type.
Definition col0 (r : brow) : Z := fst (fst r).
Definition col1 (r : brow) : Z := snd (fst r).
Definition rcost (r : brow) : Q := snd r.

Definition is_diag (z : Z) : bool := (z =? -1)%Z.

(* the entries of a column other than -1 are exactly the indices 0..n-1, each once *)
Definition idx_cover (n : nat) (col : list Z) : Prop :=
  Permutation (filter (fun z => negb (is_diag z)) col) (map Z.of_nat (seq 0 n)).

(* the third entry is the cost of that pairing; a (-1,-1) row is not allowed *)
Definition row_cost_ok (S T : list qpoint) (r : brow) : Prop :=
  match is_diag (col0 r), is_diag (col1 r) with
  | true, true => False
  | false, true => rcost r == diagB (nth (Z.to_nat (col0 r)) S (0, 0))
  | true, false => rcost r == diagB (nth (Z.to_nat (col1 r)) T (0, 0))
  | false, false => rcost r == linf (nth (Z.to_nat (col0 r)) S (0, 0)) (nth (Z.to_nat (col1 r)) T (0, 0))
  end.

Definition bneck_cert (S T : list qpoint) (v : Q) (rows : list brow) : Prop :=
  idx_cover (length S) (map col0 rows) /\
  idx_cover (length T) (map col1 rows) /\
  Forall (row_cost_ok S T) rows /\
  maxl (map rcost rows) == v.
