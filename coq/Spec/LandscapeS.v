(* C03 - mathematical notions: what it means for a list of breakpoint lists to be the persistence
   landscape of a diagram, and the order in which the sweep keeps its bars.
   (tent, land = k-th largest tent, pl_eval = linear interpolation, incr are in Lib/PL.v;
   the rank function ex and kth are in Lib/Kth.v.) *)
From Coq Require Import QArith List.
From Persim Require Import Lib.Kth Lib.PL.
Import ListNotations.
Open Scope Q_scope.

Definition positive_bars (bars : list bar) : Prop := forall a, In a bars -> fst a < snd a.

(* L is the landscape of bars: depth k (1-based) of L, interpolated linearly and 0 outside its
   breakpoints, is the k-th largest tent at every t; depths beyond the last (nth default []) are 0;
   the abscissae of every depth are strictly increasing. *)
Definition landscape_ok (bars : list bar) (L : list (list pt)) : Prop :=
  (forall (k : nat) (t : Q), (1 <= k)%nat -> pl_eval (nth (k - 1) L []) t == land bars k t) /\
  (forall l, In l L -> incr l).

(* birth ascending, death descending among equal births *)
Definition kle (x y : bar) : Prop := fst x < fst y \/ (fst x == fst y /\ snd y <= snd x).
Inductive ssorted : list bar -> Prop :=
| ss_nil : ssorted []
| ss_cons x l : (forall y, In y l -> kle x y) -> ssorted l -> ssorted (x :: l).
