(* C09 - the mathematical notions the theorems are stated with.
   A list of critical pairs denotes the function pl_eval (Lib/PL.v): linear interpolation of the
   points, 0 outside them.  A landscape is a list of such depths; a missing depth is the zero
   function.  A grid landscape is a matrix of values; a missing row is the zero row. *)
From Coq Require Import QArith List.
From Persim Require Import Lib.Kth Lib.PL.
Import ListNotations.
Open Scope Q_scope.

Definition first_x (l : list pt) : Q := fst (hd (0, 0) l).
Definition first_y (l : list pt) : Q := snd (hd (0, 0) l).
Definition last_x (l : list pt) : Q := fst (last l (0, 0)).
Definition last_y (l : list pt) : Q := snd (last l (0, 0)).

(* well formed depth: abscissae strictly increasing, first and last ordinate 0 *)
Definition wf (l : list pt) : Prop := l <> [] /\ incr l /\ first_y l == 0 /\ last_y l == 0.
Definition wfL (L : list (list pt)) : Prop := Forall wf L.

(* the function of depth k of a landscape at t; a missing depth is the zero function *)
Definition evalL (L : list (list pt)) (k : nat) (t : Q) : Q := pl_eval (nth k L []) t.

(* ends of two breakpoint lists are compatible when no non-zero end ordinate of one falls strictly
   inside the support of the other (otherwise the pointwise sum has a jump and is not a
   breakpoint list at all) *)
Definition ends_compatible (a b : list pt) : Prop :=
  (first_x a < first_x b -> first_y b == 0) /\ (first_x b < first_x a -> first_y a == 0) /\
  (last_x a < last_x b -> last_y a == 0) /\ (last_x b < last_x a -> last_y b == 0).

(* grid landscapes: value of row k at node i; a missing row / node reads 0 *)
Definition valat (V : list (list Q)) (k i : nat) : Q := nth i (nth k V []) 0.
Definition rect (n : nat) (V : list (list Q)) : Prop := Forall (fun row => length row = n) V.

(* finite sums *)
Fixpoint sumQ (l : list Q) : Q := match l with [] => 0 | x :: r => x + sumQ r end.

(* pointwise meaning of an expression tree over landscapes: the function of depth k at t *)
From Persim Require Import Model.LandArithM.
Fixpoint expr_fun (env : list exactL) (e : expr) (k : nat) (t : Q) : Q :=
  match e with
  | Leaf i => match nth_error env i with Some A => evalL (e_cp A) k t | None => 0 end
  | EAdd e1 e2 => expr_fun env e1 k t + expr_fun env e2 k t
  | ESub e1 e2 => expr_fun env e1 k t - expr_fun env e2 k t
  | ENeg e1 => - expr_fun env e1 k t
  | EScale c e1 => c * expr_fun env e1 k t
  | EDiv e1 c => expr_fun env e1 k t / c
  end.
(* the tree only mentions existing leaves and never divides by 0 *)
Fixpoint expr_ok (n : nat) (e : expr) : Prop :=
  match e with
  | Leaf i => (i < n)%nat
  | EAdd e1 e2 | ESub e1 e2 => expr_ok n e1 /\ expr_ok n e2
  | ENeg e1 | EScale _ e1 => expr_ok n e1
  | EDiv e1 c => expr_ok n e1 /\ ~ c == 0
  end.
