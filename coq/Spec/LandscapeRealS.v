(* C03 - the landscape at REAL abscissae.  The critical pairs are rational; they are read as the
   piecewise-linear function pl_evalR (same definition as Lib.PL.pl_eval, over R) of a real t.
   The mathematical landscape is given by Bubenik's rank-function definition:
       lambda_k(t) is the number x >= 0 with, for every real v >= 0,
       v < x  <->  at least k bars have tent value > v at t,
   i.e.  k <= exR (tents at t) v.  (For rational t this is exactly Lib.Kth.kth_ex: the k-th largest tent.) *)
From Coq Require Import Reals QArith Qreals List.
From Persim Require Import Lib.Kth Lib.PL.
Import ListNotations.
Open Scope R_scope.

Definition tentR (b d t : R) : R := Rmax 0 (Rmin (t - b) (d - t)).
Definition gtb (v x : R) : bool := if Rlt_dec v x then true else false.
Definition exR (l : list R) (v : R) : nat := length (filter (gtb v) l).

Definition rpt := (R * R)%type.
Fixpoint pl_evalR (cps : list rpt) (t : R) : R :=
  match cps with
  | [] => 0
  | (x0, y0) :: r =>
      match r with
      | [] => if Req_EM_T t x0 then y0 else 0
      | (x1, y1) :: _ =>
          if Rlt_dec t x0 then 0
          else if Rle_dec t x1 then
                 (if Rlt_dec x0 x1 then y0 + (y1 - y0) * (t - x0) / (x1 - x0) else pl_evalR r t)
               else pl_evalR r t
      end end.

(* rational data read as real data *)
Definition rp (p : pt) : rpt := (Q2R (fst p), Q2R (snd p)).
Definition tR (a : bar) (t : R) : R := tentR (Q2R (fst a)) (Q2R (snd a)) t.

(* depth k of L is lambda_k of bars at the real abscissa t *)
Definition is_landscape_value_at (bars : list bar) (L : list (list pt)) (k : nat) (t : R) : Prop :=
  0 <= pl_evalR (map rp (nth (k - 1) L [])) t /\
  forall v : R, 0 <= v ->
    (v < pl_evalR (map rp (nth (k - 1) L [])) t <-> (k <= exR (map (fun a => tR a t) bars) v)%nat).
