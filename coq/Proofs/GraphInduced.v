(* C17: the matrix the fallback keeps IS the shortest-path metric of the induced subgraph on the
   largest component (shortest_path an oracle satisfying [sp], finiteness an equivalence). *)
From Coq Require Import ZArith List Bool Arith Lia.
From Persim Require Import Spec.MGH Model.MGHM Model.GraphM Proofs.MGHBasics Proofs.MGHLb Proofs.GraphP
  Proofs.GraphRelabel.
Import ListNotations.
Open Scope Z_scope.

Lemma last_dflt (l : list nat) a b : l <> [] -> last l a = last l b.
Proof. induction l as [|x t IH]; [congruence|]. intros _. simpl. destruct t; [reflexivity|]. apply IH. discriminate. Qed.

(* walks transfer along a map f that preserves edges on a set P closed under taking edges *)
Lemma path_transfer (P : nat -> Prop) (f : nat -> nat) (A A' : mat) :
  (forall a, P a -> (f a < length A')%nat) ->
  (forall a b, P a -> P b -> edge A' (f a) (f b) = edge A a b) ->
  (forall a y, P a -> (y < length A)%nat -> edge A a y = true -> P y) ->
  forall l i, P i -> path A i l -> path A' (f i) (map f l) /\ P (last l i).
Proof.
  intros R E Cl. induction l as [|y t IH]; intros i Pi Pa; simpl; [split; [exact I|exact Pi]|].
  destruct Pa as [Hy [Ey Pt]]. assert (Py : P y) by (apply (Cl i); assumption).
  destruct (IH y Py Pt) as [Pt' Pl]. split.
  - split; [apply R; exact Py|]. split; [rewrite E by assumption; exact Ey|exact Pt'].
  - destruct t; [exact Py|]. rewrite (last_dflt _ i y) by discriminate. exact Pl.
Qed.

Lemma ent_submat A C x y : (x < length C)%nat -> (y < length C)%nat ->
  ent (submat A C) x y = ent A (nth x C 0%nat) (nth y C 0%nat).
Proof.
  intros Hx Hy. unfold ent at 1, submat.
  rewrite (nth_map_dflt (fun a => map (fun b => ent A a b) C) C x [] 0%nat) by exact Hx.
  rewrite (nth_map_dflt (fun b => ent A (nth x C 0%nat) b) C y 0 0%nat) by exact Hy. reflexivity.
Qed.

Lemma edge_submat A C x y : (x < length C)%nat -> (y < length C)%nat ->
  edge (submat A C) x y = edge A (nth x C 0%nat) (nth y C 0%nat).
Proof. intros Hx Hy. unfold edge. rewrite !ent_submat by assumption. reflexivity. Qed.

Section Induced.
Variables (A : mat) (D : omat).
Hypothesis LD : length D = length A.
Hypothesis SP : sp A D.
Hypothesis Hrefl : forall i, (i < length D)%nat -> reach D i i = true.
Hypothesis Hsym : forall i j, (i < length D)%nat -> (j < length D)%nat -> reach D i j = true -> reach D j i = true.
Hypothesis Htrans : forall i j k, (i < length D)%nat -> (j < length D)%nat -> (k < length D)%nat ->
  reach D i j = true -> reach D j k = true -> reach D i k = true.

Lemma conn_reach i j d : (i < length A)%nat -> (j < length A)%nat -> conn A i j d -> reach D i j = true.
Proof.
  intros Hi Hj C. pose proof (SP i j Hi Hj) as S0. unfold reach. destruct (oent D i j); [reflexivity|].
  exfalso. apply (S0 d). exact C.
Qed.

Lemma same_class_same_root i j : (i < length D)%nat -> (j < length D)%nat -> reach D i j = true ->
  comp_root D i = comp_root D j.
Proof.
  intros Hi Hj R. unfold comp_root.
  assert (E : forall k, In k (seq 0 (length D)) -> reach D i k = reach D j k).
  { intros k Hk. apply in_seq in Hk. destruct (reach D j k) eqn:Rj.
    - apply (Htrans i j k); try assumption; lia.
    - destruct (reach D i k) eqn:Ri; [|reflexivity]. rewrite <- Rj. symmetry.
      apply (Htrans j i k); try assumption; try lia. apply Hsym; assumption. }
  assert (F : find (fun k => reach D i k) (seq 0 (length D)) = find (fun k => reach D j k) (seq 0 (length D))).
  { induction (seq 0 (length D)) as [|k t IHt]; [reflexivity|]. simpl.
    rewrite (E k (or_introl eq_refl)). destruct (reach D j k); [reflexivity|]. apply IHt. intros k' Hk'. apply E. right. exact Hk'. }
  rewrite F. destruct (find (fun k => reach D j k) (seq 0 (length D))) as [k|] eqn:Fj; [reflexivity|].
  (* both searches fail: impossible, each vertex reaches itself *)
  exfalso. pose proof (find_none _ _ Fj j) as N. simpl in N. rewrite Hrefl in N by exact Hj. 
  assert (In j (seq 0 (length D))) by (apply in_seq; lia). specialize (N H). discriminate.
Qed.

Variable r : nat.
Hypothesis Hr : (r < length D)%nat.
Let C := members D r.

Lemma member_spec v : In v C <-> (v < length D)%nat /\ comp_root D v = r.
Proof.
  unfold C, members. rewrite filter_In, in_seq, Nat.eqb_eq. split; intros [H1 H2]; split; try assumption; lia.
Qed.

(* the component is closed under taking edges *)
Lemma member_closed a y : In a C -> (y < length A)%nat -> edge A a y = true -> In y C.
Proof.
  intros Ia Hy Ey. apply member_spec in Ia. destruct Ia as [Ha Ra]. apply member_spec. split; [lia|].
  rewrite <- Ra. symmetry. apply same_class_same_root; [exact Ha|lia|].
  apply (conn_reach a y 1); [lia|exact Hy|]. exists [y]. simpl. repeat split; assumption.
Qed.

Lemma C_NoDup : NoDup C.
Proof. unfold C, members. apply NoDup_filter. apply seq_NoDup. Qed.

Lemma nth_C_in x : (x < length C)%nat -> In (nth x C 0%nat) C.
Proof. apply nth_In. Qed.

Lemma submat_length : length (submat A C) = length C.
Proof. unfold submat. rewrite map_length. reflexivity. Qed.

(* walks of the graph between members <-> walks of the induced subgraph between their positions *)
Lemma conn_down x y d : (x < length C)%nat -> (y < length C)%nat ->
  conn A (nth x C 0%nat) (nth y C 0%nat) d -> conn (submat A C) x y d.
Proof.
  intros Hx Hy [l [Ll [P La]]].
  destruct (path_transfer (fun v => In v C) (fun v => index_of v C) A (submat A C)) with (l := l) (i := nth x C 0%nat) as [P' Pl].
  - intros a Ia. rewrite submat_length. apply index_of_spec. exact Ia.
  - intros a b Ia Ib. destruct (index_of_spec _ _ Ia) as [La1 Ea]. destruct (index_of_spec _ _ Ib) as [Lb1 Eb].
    rewrite edge_submat by assumption. rewrite Ea, Eb. reflexivity.
  - exact member_closed.
  - apply nth_C_in. exact Hx.
  - exact P.
  - assert (Ix : forall z, (z < length C)%nat -> index_of (nth z C 0%nat) C = z).
    { intros z Hz. destruct (index_of_spec _ _ (nth_C_in z Hz)) as [Lz Ez].
      apply (proj1 (NoDup_nth C 0%nat) C_NoDup); assumption. }
    exists (map (fun v => index_of v C) l). split; [rewrite map_length; exact Ll|].
    rewrite Ix in P' by exact Hx. split; [exact P'|].
    pose proof (last_map_f (fun v => index_of v C) l (nth x C 0%nat)) as LM. cbv beta in LM.
    rewrite (Ix x Hx) in LM. rewrite LM, La. apply Ix. exact Hy.
Qed.

Lemma conn_up x y d : (x < length C)%nat -> (y < length C)%nat ->
  conn (submat A C) x y d -> conn A (nth x C 0%nat) (nth y C 0%nat) d.
Proof.
  intros Hx Hy [l [Ll [P La]]].
  destruct (path_transfer (fun z => (z < length C)%nat) (fun z => nth z C 0%nat) (submat A C) A) with (l := l) (i := x) as [P' Pl].
  - intros z Hz. pose proof (nth_C_in z Hz) as I. apply member_spec in I. lia.
  - intros a b Ha Hb. symmetry. apply edge_submat; assumption.
  - intros a z _ Hz _. rewrite submat_length in Hz. exact Hz.
  - exact Hx.
  - exact P.
  - exists (map (fun z => nth z C 0%nat) l). split; [rewrite map_length; exact Ll|]. split; [exact P'|].
    pose proof (last_map_f (fun z => nth z C 0%nat) l x) as LM. cbv beta in LM. rewrite LM, La. reflexivity.
Qed.

Theorem induced_metric : sp (submat A C) (restrict_both D C).
Proof.
  intros x y Hx Hy. rewrite submat_length in Hx, Hy.
  assert (E : oent (restrict_both D C) x y = oent D (nth x C 0%nat) (nth y C 0%nat)).
  { unfold oent at 1, restrict_both.
    rewrite (nth_map_dflt (fun i => map (fun j => oent D i j) C) C x [] 0%nat) by exact Hx.
    rewrite (nth_map_dflt (fun j => oent D (nth x C 0%nat) j) C y None 0%nat) by exact Hy. reflexivity. }
  rewrite E.
  assert (Ax : (nth x C 0%nat < length A)%nat) by (pose proof (nth_C_in x Hx) as I; apply member_spec in I; lia).
  assert (Ay : (nth y C 0%nat < length A)%nat) by (pose proof (nth_C_in y Hy) as I; apply member_spec in I; lia).
  pose proof (SP _ _ Ax Ay) as S0. destruct (oent D (nth x C 0%nat) (nth y C 0%nat)) as [d|].
  - destruct S0 as [P0 [Cn M]]. split; [exact P0|]. split; [apply conn_down; assumption|].
    intros d' C'. apply M. apply conn_up; assumption.
  - intros d' C'. apply (S0 d'). apply conn_up; assumption.
Qed.
End Induced.
