(* C05/C17: the dtype choice round-trips; the pinned sort key raises on 128 points. *)
From Coq Require Import ZArith List Bool Arith Lia.
From Persim Require Import Spec.MGH Model.MGHM Model.MGHLegacy Proofs.MGHBasics Proofs.MGHDec.
Import ListNotations.
Open Scope Z_scope.

Lemma wrap_to_id tmax x : 0 <= x <= tmax -> wrap_to tmax x = x.
Proof. intros H. unfold wrap_to. rewrite Z.mod_small by lia. lia. Qed.

Lemma optimal_int_max_ge v tmax : optimal_int_max v = Some tmax -> v <= tmax.
Proof.
  unfold optimal_int_max. repeat match goal with |- context [?a <=? ?b] => destruct (Z.leb_spec a b) end;
    intros E; inversion E; lia.
Qed.

(* the smallest sufficient dtype holds every entry: the cast is the identity on a matrix with
   non-negative entries (so a diameter of exactly 128 or 32768 must select the next type) *)
Theorem cast_optimal_roundtrip D D' :
  Forall (fun r => Forall (fun x => 0 <= x) r) D -> cast_optimal D = Some D' -> D' = D.
Proof.
  unfold cast_optimal. intros NN E. destruct (optimal_int_max (diam D)) as [tmax|] eqn:O; [|discriminate].
  injection E as <-. apply optimal_int_max_ge in O.
  rewrite <- (map_id D) at 2. apply map_ext_in. intros r Hr.
  rewrite <- (map_id r) at 2. apply map_ext_in. intros x Hx. apply wrap_to_id.
  rewrite Forall_forall in NN. specialize (NN r Hr). rewrite Forall_forall in NN. specialize (NN x Hx).
  assert (x <= diam D) by (unfold diam; apply zmaxl_ge; apply in_concat; exists r; split; assumption). lia.
Qed.

Theorem cast_optimal_boundaries :
  optimal_int_max 127 = Some 127 /\ optimal_int_max 128 = Some 32767 /\
  optimal_int_max 32767 = Some 32767 /\ optimal_int_max 32768 = Some 2147483647.
Proof. repeat split. Qed.

(* the pinned code on two copies of the star with 128 points: a distance matrix, the curvature
   search starts (d = diameter = 2 is above the trivial bound 0) and the very first sort key raises *)
Theorem sortkey_legacy_raises :
  dmatrix_b (star 128) = true /\ diam (star 128) = 2 /\ trivial_lb (star 128) (star 128) = 0 /\
  legacy_step (star 128) (seq 0 128) 2 2 = StepRaise /\
  (* while one point fewer only wraps *)
  legacy_step (star 127) (seq 0 127) 2 2 <> StepRaise.
Proof. vm_compute. repeat split; discriminate. Qed.
