(* The metric and invariance laws of C07 as theorems about the MODELS of the code.

   Proofs/MetricLaws{B,W}.v prove every law for any function that computes the spec minimum
   (B_transfer, W_transfer, BW_transfer).  Here the two hypotheses are discharged with the models:
     bn_model oracle S T = the number returned by Model/BneckM.bottleneck_model run with the
                           external routine [oracle]   (C01: bottleneck_model_correct),
     wn_model lsa S T    = the number returned by Model/WassM.wasserstein run with the external
                           solver [lsa]                (C02: wasserstein_correct_l),
   for EVERY maximum-matching routine and EVERY optimal-assignment solver. *)
From Coq Require Import List Permutation QArith Qreals Reals ClassicalEpsilon.
From Persim Require Import Spec.PartialMatching Spec.BottleneckS Spec.WassersteinS
     Proofs.MetricLawsW Proofs.MetricLawsB.
From Persim Require Model.BneckM Proofs.BneckP Proofs.BneckOracleP Model.WassM Proofs.WassP.
Import ListNotations.

(* ------------------------------------------------------------------ bottleneck *)
Definition liftQ (p : qpoint) : BneckM.xpoint := (fst p, BneckM.CFin (snd p)).

Lemma finite_liftQ S : BneckM.finite (map liftQ S) = S.
Proof. induction S as [|[b d] S IH]; [reflexivity|]. simpl. unfold BneckM.finite in *. simpl. f_equal. exact IH. Qed.

(* the value returned by the model (0 stands for "no number": excluded by bn_model_value below) *)
Definition bn_model (oracle : list (list nat) -> BneckM.matching) (S T : list qpoint) : Q :=
  match BneckM.bottleneck_model oracle (map liftQ S) (map liftQ T) with
  | Some (BneckM.CFin v) => v
  | _ => 0%Q
  end.

Theorem bn_model_value oracle : BneckM.max_matching_oracle oracle ->
  forall S T, wfdgm S -> wfdgm T ->
  BneckM.bottleneck_model oracle (map liftQ S) (map liftQ T) = Some (BneckM.CFin (bn_model oracle S T)) /\
  is_bottleneck S T (bn_model oracle S T).
Proof.
  intros OM S T WS WT.
  destruct (BneckP.bottleneck_model_correct oracle OM (map liftQ S) (map liftQ T)) as [v [E I]];
    rewrite ?finite_liftQ; try assumption.
  rewrite !finite_liftQ in I. unfold bn_model. rewrite E. split; [reflexivity|exact I].
Qed.

Theorem bn_model_laws oracle : BneckM.max_matching_oracle oracle ->
  let bn := bn_model oracle in
    (forall S T, wfdgm S -> wfdgm T -> bn S T == bn T S)%Q /\
    (forall S S', wfdgm S -> Permutation S S' -> bn S S' == 0)%Q /\
    (forall S T, wfdgm S -> wfdgm T -> 0 <= bn S T)%Q /\
    (forall A B C, wfdgm A -> wfdgm B -> wfdgm C -> bn A C <= bn A B + bn B C)%Q /\
    (forall S S' T T', wfdgm S -> wfdgm T -> Permutation S S' -> Permutation T T' -> bn S' T' == bn S T)%Q /\
    (forall Z1 Z2 S S' T T', wfdgm S -> wfdgm T -> on_diagQ Z1 -> on_diagQ Z2 ->
       Permutation S' (Z1 ++ S) -> Permutation T' (Z2 ++ T) -> bn S' T' == bn S T)%Q /\
    (forall c S T, wfdgm S -> wfdgm T -> bn (map (shiftQ c) S) (map (shiftQ c) T) == bn S T)%Q /\
    (forall c S T, (0 <= c)%Q -> wfdgm S -> wfdgm T ->
       bn (map (scaleQ c) S) (map (scaleQ c) T) == c * bn S T)%Q /\
    (forall S, wfdgm S -> bn S [] == maxl (map persQ S) * (1#2))%Q.
Proof.
  intros OM bn. apply B_transfer. intros S T WS WT. apply (bn_model_value oracle OM S T WS WT).
Qed.

(* ------------------------------------------------------------------ Wasserstein *)
Definition liftR (p : rpoint) : WassM.xpt R := (fst p, Some (snd p)).

Lemma finite_liftR S : WassM.finite_pts (map liftR S) = S.
Proof.
  induction S as [|[b d] S IH]; [reflexivity|].
  change (WassM.finite_pts (map liftR ((b, d) :: S))) with ((b, d) :: WassM.finite_pts (map liftR S)).
  f_equal. exact IH.
Qed.

(* the solver meets its assumption on every matrix it is given *)
Definition lsa_optimal (lsa : list (list (WassM.xcost R)) -> WassM.lsa_result) : Prop :=
  forall D, WassM.optimal_assignment D (lsa D).

Lemma lsa_optimal_everywhere lsa : lsa_optimal lsa -> forall d1 d2, WassM.lsa_optimal_on lsa d1 d2.
Proof. intros H d1 d2. apply H. Qed.

(* such a solver exists (indefinite description over optimal_assignment_exists) *)
Theorem lsa_optimal_exists : exists lsa, lsa_optimal lsa.
Proof.
  exists (fun D => proj1_sig (constructive_indefinite_description _ (WassP.optimal_assignment_exists D))).
  intros D. exact (proj2_sig (constructive_indefinite_description _ (WassP.optimal_assignment_exists D))).
Qed.

Definition wn_model (lsa : list (list (WassM.xcost R)) -> WassM.lsa_result) (S T : list rpoint) : R :=
  match WassM.w_dist (WassM.wasserstein lsa false (map liftR S) (map liftR T)) with
  | WassM.CFin v => v
  | WassM.CInf => 0%R
  end.

Theorem wn_model_value lsa : lsa_optimal lsa -> forall (matching : bool) S T,
  WassM.w_dist (WassM.wasserstein lsa matching (map liftR S) (map liftR T)) = WassM.CFin (wn_model lsa S T) /\
  is_wasserstein S T (wn_model lsa S T).
Proof.
  intros OL matching S T.
  destruct (WassP.wasserstein_correct_l lsa false (map liftR S) (map liftR T) (lsa_optimal_everywhere lsa OL _ _))
    as [v [E I]].
  rewrite !finite_liftR in I. unfold wn_model. rewrite E. split; [|exact I].
  rewrite <- E. destruct matching; [apply WassP.matching_flag_irrelevant_l|reflexivity].
Qed.

Theorem wn_model_laws lsa : lsa_optimal lsa ->
  let wn := wn_model lsa in
    (forall S T, wfdgmR S -> wfdgmR T -> wn S T = wn T S) /\
    (forall S S', wfdgmR S -> Permutation S S' -> wn S S' = 0%R) /\
    (forall S T, wfdgmR S -> wfdgmR T -> (0 <= wn S T)%R) /\
    (forall A B C, wfdgmR A -> wfdgmR B -> wfdgmR C -> (wn A C <= wn A B + wn B C)%R) /\
    (forall Z1 Z2 S S' T T', wfdgmR S -> wfdgmR T -> on_diagR Z1 -> on_diagR Z2 ->
       Permutation S' (Z1 ++ S) -> Permutation T' (Z2 ++ T) -> wn S' T' = wn S T) /\
    (forall c S T, wfdgmR S -> wfdgmR T -> wn (map (shiftR c) S) (map (shiftR c) T) = wn S T) /\
    (forall c S T, (0 <= c)%R -> wfdgmR S -> wfdgmR T ->
       wn (map (scaleR c) S) (map (scaleR c) T) = (c * wn S T)%R) /\
    (forall S, wfdgmR S -> wn S [] = (sumRl (map persR S) / sqrt 2)%R).
Proof.
  intros OL wn. apply W_transfer. intros S T _ _. apply (wn_model_value lsa OL false S T).
Qed.

(* ------------------------------------------------------------------ bottleneck <= Wasserstein, on the models *)
Theorem bn_le_wn_model oracle lsa : BneckM.max_matching_oracle oracle -> lsa_optimal lsa ->
  forall S T, wfdgm S -> wfdgm T -> (Q2R (bn_model oracle S T) <= wn_model lsa (injR S) (injR T))%R.
Proof.
  intros OM OL. apply BW_transfer.
  - intros S T WS WT. apply (bn_model_value oracle OM S T WS WT).
  - intros S T _ _. apply (wn_model_value lsa OL false S T).
Qed.
