(* Lemmas for C14 (heat-kernel distance), model Model/HeatM.v. *)
From Coq Require Import Reals List Lra Permutation.
From Persim Require Import Model.HeatM.
Import ListNotations.
Open Scope R_scope.

(* ---------- finite sums and double sums ---------- *)
Definition hsum (l : list R) : R := fold_right Rplus 0 l.
Definition dsum {A B} (f : A -> B -> R) (F : list A) (G : list B) : R :=
  hsum (map (fun p => hsum (map (f p) G)) F).

Lemma hsum_app a b : hsum (a ++ b) = hsum a + hsum b.
Proof. induction a as [|x a IH]; simpl; [lra|rewrite IH; lra]. Qed.
Lemma hsum_perm a b : Permutation a b -> hsum a = hsum b.
Proof. induction 1; simpl; lra. Qed.
Lemma hsum_map_ext {A} (f g : A -> R) l : (forall x, f x = g x) -> hsum (map f l) = hsum (map g l).
Proof. intros H. induction l as [|x l IH]; simpl; [lra|]. rewrite H, IH. lra. Qed.
Lemma hsum_map_plus {A} (f g : A -> R) l :
  hsum (map (fun x => f x + g x) l) = hsum (map f l) + hsum (map g l).
Proof. induction l as [|x l IH]; simpl; [lra|rewrite IH; lra]. Qed.
Lemma hsum_map_zero {A} (l : list A) : hsum (map (fun _ => 0) l) = 0.
Proof. induction l as [|x l IH]; simpl; [lra|rewrite IH; lra]. Qed.
Lemma hsum_map_scal {A} (f : A -> R) c l : hsum (map (fun x => c * f x) l) = c * hsum (map f l).
Proof. induction l as [|x l IH]; simpl; [lra|rewrite IH; lra]. Qed.

Lemma dsum_cons_l {A B} (f : A -> B -> R) p F G : dsum f (p :: F) G = hsum (map (f p) G) + dsum f F G.
Proof. reflexivity. Qed.
Lemma dsum_nil_l {A B} (f : A -> B -> R) G : dsum f [] G = 0.
Proof. reflexivity. Qed.
Lemma dsum_nil_r {A B} (f : A -> B -> R) F : dsum f F [] = 0.
Proof. unfold dsum. simpl. apply hsum_map_zero. Qed.
Lemma dsum_swap {A B} (f : A -> B -> R) F G : dsum f F G = dsum (fun q p => f p q) G F.
Proof. induction F as [|p F IH].
  - rewrite dsum_nil_l, dsum_nil_r. reflexivity.
  - rewrite dsum_cons_l, IH. unfold dsum. simpl.
    rewrite (hsum_map_plus (fun q => f p q) (fun q => hsum (map (fun p0 => f p0 q) F))). reflexivity. Qed.
Lemma dsum_ext {A B} (f g : A -> B -> R) F G : (forall p q, f p q = g p q) -> dsum f F G = dsum g F G.
Proof. intros H. unfold dsum. apply hsum_map_ext. intros p. apply hsum_map_ext. intros q. apply H. Qed.
Lemma dsum_perm_l {A B} (f : A -> B -> R) F F' G : Permutation F F' -> dsum f F G = dsum f F' G.
Proof. intros P. unfold dsum. apply hsum_perm. apply Permutation_map. exact P. Qed.
Lemma dsum_perm_r {A B} (f : A -> B -> R) F G G' : Permutation G G' -> dsum f F G = dsum f F G'.
Proof. intros P. rewrite dsum_swap, (dsum_swap f F G'). apply dsum_perm_l. exact P. Qed.
Lemma dsum_app_l {A B} (f : A -> B -> R) F F' G : dsum f (F ++ F') G = dsum f F G + dsum f F' G.
Proof. unfold dsum. rewrite map_app, hsum_app. reflexivity. Qed.
Lemma dsum_app_r {A B} (f : A -> B -> R) F G G' : dsum f F (G ++ G') = dsum f F G + dsum f F G'.
Proof. rewrite (dsum_swap f F (G ++ G')), dsum_app_l, (dsum_swap f F G), (dsum_swap f F G'). reflexivity. Qed.
Lemma dsum_map {A B A' B'} (f : A -> B -> R) (g : A' -> A) (h : B' -> B) F G :
  dsum f (map g F) (map h G) = dsum (fun p q => f (g p) (h q)) F G.
Proof. unfold dsum. rewrite map_map. apply hsum_map_ext. intros p. rewrite map_map. reflexivity. Qed.
Lemma dsum_zero_l {A B} (f : A -> B -> R) F G : (forall p q, In p F -> f p q = 0) -> dsum f F G = 0.
Proof. induction F as [|p F IH]; intros H. reflexivity.
  rewrite dsum_cons_l, IH by (intros; apply H; simpl; auto).
  rewrite (hsum_map_ext (f p) (fun _ => 0)) by (intros; apply H; simpl; auto).
  rewrite hsum_map_zero. lra. Qed.
Lemma dsum_scal {A B} (f : A -> B -> R) c F G : dsum (fun p q => c * f p q) F G = c * dsum f F G.
Proof. unfold dsum. rewrite <- hsum_map_scal. apply hsum_map_ext. intros p. apply hsum_map_scal. Qed.

(* ---------- the loop is the double sum ---------- *)
Lemma fold_left_add {A} (f : A -> R) l acc :
  fold_left (fun a q => a + f q) l acc = acc + hsum (map f l).
Proof. revert acc. induction l as [|x l IH]; intros acc; simpl; [lra|rewrite IH; lra]. Qed.

Lemma kloop_is_dsum sigma F G : kloop sigma F G = dsum (kterm sigma) F G.
Proof. unfold kloop.
  assert (H : forall acc, fold_left (fun acc p => fold_left (fun acc' q => acc' + kterm sigma p q) G acc) F acc
                          = acc + dsum (kterm sigma) F G).
  { induction F as [|p F IH]; intros acc; simpl. rewrite dsum_nil_l; lra.
    rewrite IH, fold_left_add, dsum_cons_l. lra. }
  rewrite H. lra. Qed.

Lemma k_is_sum sigma F G : evalHeatKernel sigma F G = / (8 * PI * sigma) * dsum (kterm sigma) F G.
Proof. unfold evalHeatKernel. rewrite kloop_is_dsum. unfold Rdiv. apply Rmult_comm. Qed.

(* ---------- the kernel on points ---------- *)
Lemma sqdist_sym p q : sqdist p q = sqdist q p.
Proof. unfold sqdist. ring. Qed.
Lemma sqdist_mirror_sym p q : sqdist p (mirror q) = sqdist q (mirror p).
Proof. unfold sqdist, mirror. simpl. ring. Qed.
Lemma kterm_sym sigma p q : kterm sigma p q = kterm sigma q p.
Proof. unfold kterm. rewrite (sqdist_sym p q), (sqdist_mirror_sym p q). reflexivity. Qed.
Lemma kterm_diag_r sigma p q : on_diag q -> kterm sigma p q = 0.
Proof. unfold on_diag, kterm, mirror. destruct q as [a b]. simpl. intros ->. lra. Qed.
Lemma kterm_diag_l sigma p q : on_diag p -> kterm sigma p q = 0.
Proof. intros H. rewrite kterm_sym. apply kterm_diag_r. exact H. Qed.
Lemma kterm_shift sigma c p q :
  kterm sigma (fst p + c, snd p + c) (fst q + c, snd q + c) = kterm sigma p q.
Proof. unfold kterm, sqdist, mirror. simpl.
  replace ((fst p + c - (fst q + c)) * (fst p + c - (fst q + c)) + (snd p + c - (snd q + c)) * (snd p + c - (snd q + c)))
    with ((fst p - fst q) * (fst p - fst q) + (snd p - snd q) * (snd p - snd q)) by ring.
  replace ((fst p + c - (snd q + c)) * (fst p + c - (snd q + c)) + (snd p + c - (fst q + c)) * (snd p + c - (fst q + c)))
    with ((fst p - snd q) * (fst p - snd q) + (snd p - fst q) * (snd p - fst q)) by ring.
  reflexivity. Qed.

(* ---------- T1: the kernel on diagrams ---------- *)
Lemma k_sym sigma F G : evalHeatKernel sigma F G = evalHeatKernel sigma G F.
Proof. rewrite !k_is_sum. f_equal. rewrite dsum_swap. apply dsum_ext. intros. apply kterm_sym. Qed.

Lemma k_perm sigma F F' G G' : Permutation F F' -> Permutation G G' ->
  evalHeatKernel sigma F G = evalHeatKernel sigma F' G'.
Proof. intros P Q. rewrite !k_is_sum. f_equal. rewrite (dsum_perm_l _ F F' G P). apply dsum_perm_r. exact Q. Qed.

Lemma k_app_l sigma F F' G :
  evalHeatKernel sigma (F ++ F') G = evalHeatKernel sigma F G + evalHeatKernel sigma F' G.
Proof. rewrite !k_is_sum, dsum_app_l. ring. Qed.
Lemma k_app_r sigma F G G' :
  evalHeatKernel sigma F (G ++ G') = evalHeatKernel sigma F G + evalHeatKernel sigma F G'.
Proof. rewrite !k_is_sum, dsum_app_r. ring. Qed.

Lemma k_diag_l sigma D G : Forall on_diag D -> evalHeatKernel sigma D G = 0.
Proof. intros H. rewrite k_is_sum, dsum_zero_l. ring.
  intros p q I. apply kterm_diag_l. rewrite Forall_forall in H. auto. Qed.
Lemma k_diag_r sigma F D : Forall on_diag D -> evalHeatKernel sigma F D = 0.
Proof. intros H. rewrite k_sym. apply k_diag_l. exact H. Qed.

Lemma k_diag_ignored sigma F F' D G G' D' : Forall on_diag D -> Forall on_diag D' ->
  Permutation F' (F ++ D) -> Permutation G' (G ++ D') ->
  evalHeatKernel sigma F' G' = evalHeatKernel sigma F G.
Proof. intros HD HD' P Q. rewrite (k_perm sigma _ _ _ _ P Q).
  rewrite k_app_l, !k_app_r, (k_diag_r _ F D'), (k_diag_l _ D G), (k_diag_l _ D D') by assumption. ring. Qed.

Lemma k_translate sigma c F G :
  evalHeatKernel sigma (shift c F) (shift c G) = evalHeatKernel sigma F G.
Proof. rewrite !k_is_sum. f_equal. unfold shift. rewrite dsum_map. apply dsum_ext. intros. apply kterm_shift. Qed.

(* ---------- T1: the distance ---------- *)
Lemma radicand_perm_zero sigma F G : Permutation F G -> radicand sigma F G = 0.
Proof. intros P. unfold radicand.
  rewrite (k_perm sigma F F F G (Permutation_refl F) P).
  rewrite (k_perm sigma G F G G (Permutation_sym P) (Permutation_refl G)). ring. Qed.

Lemma heat_perm_zero sigma F G : Permutation F G -> heat sigma F G = 0.
Proof. intros P. unfold heat. rewrite radicand_perm_zero by exact P.
  rewrite Rmax_left by lra. apply sqrt_0. Qed.

Lemma radicand_sym sigma F G : radicand sigma F G = radicand sigma G F.
Proof. unfold radicand. rewrite (k_sym sigma F G). ring. Qed.
Lemma heat_sym sigma F G : heat sigma F G = heat sigma G F.
Proof. unfold heat. rewrite radicand_sym. reflexivity. Qed.

Lemma radicand_diag_ignored sigma F F' D G G' D' : Forall on_diag D -> Forall on_diag D' ->
  Permutation F' (F ++ D) -> Permutation G' (G ++ D') -> radicand sigma F' G' = radicand sigma F G.
Proof. intros HD HD' P Q. unfold radicand.
  rewrite (k_diag_ignored sigma F F' D F F' D), (k_diag_ignored sigma G G' D' G G' D'),
    (k_diag_ignored sigma F F' D G G' D') by assumption. reflexivity. Qed.
Lemma heat_diag_ignored sigma F F' D G G' D' : Forall on_diag D -> Forall on_diag D' ->
  Permutation F' (F ++ D) -> Permutation G' (G ++ D') -> heat sigma F' G' = heat sigma F G.
Proof. intros. unfold heat. rewrite (radicand_diag_ignored sigma F F' D G G' D') by assumption. reflexivity. Qed.

Lemma radicand_translate sigma c F G : radicand sigma (shift c F) (shift c G) = radicand sigma F G.
Proof. unfold radicand. rewrite !k_translate. reflexivity. Qed.
Lemma heat_translate sigma c F G : heat sigma (shift c F) (shift c G) = heat sigma F G.
Proof. unfold heat. rewrite radicand_translate. reflexivity. Qed.

Lemma heat_nonneg sigma F G : 0 <= heat sigma F G.
Proof. apply sqrt_pos. Qed.

(* over R the clamp changes nothing: the pinned tree's NaN is a binary64 phenomenon *)
Lemma heat_legacy_eq sigma F G : heat_legacy sigma F G = heat sigma F G.
Proof. unfold heat, heat_legacy. destruct (Rle_dec 0 (radicand sigma F G)) as [H|H].
  - rewrite Rmax_left by exact H. reflexivity.
  - rewrite Rmax_right by lra. rewrite sqrt_0. apply sqrt_neg_0. lra. Qed.

(* the value is a number whose square is the radicand, once the radicand is non-negative *)
Lemma heat_sq sigma F G : 0 <= radicand sigma F G -> heat sigma F G * heat sigma F G = radicand sigma F G.
Proof. intros H. unfold heat. rewrite Rmax_left by exact H. apply sqrt_sqrt. exact H. Qed.

(* ---------- T2: consequences of positive semidefiniteness ---------- *)
(* weighted Gram form of the kernel on a finite family of diagrams *)
Definition gram (sigma : R) (ws : list (R * list pt)) : R :=
  dsum (fun a b => fst a * fst b * evalHeatKernel sigma (snd a) (snd b)) ws ws.

Lemma quad_disc a b c : 0 <= a -> 0 <= c -> (forall t, 0 <= a + 2 * b * t + c * t * t) -> b * b <= a * c.
Proof. intros Ha Hc H. destruct (Req_dec c 0) as [C0|C0].
  - subst c. destruct (Req_dec b 0) as [B0|B0]. subst; lra.
    exfalso. specialize (H (- (a + 1) / (2 * b))).
    replace (a + 2 * b * (- (a + 1) / (2 * b)) + 0 * (- (a + 1) / (2 * b)) * (- (a + 1) / (2 * b))) with (-1) in H by (field; exact B0).
    lra.
  - assert (0 < c) by lra. specialize (H (- b / c)).
    replace (a + 2 * b * (- b / c) + c * (- b / c) * (- b / c)) with ((a * c - b * b) / c) in H by (field; exact C0).
    apply Rmult_le_compat_r with (r := c) in H; [|lra].
    unfold Rdiv in H. rewrite Rmult_assoc, Rinv_l, Rmult_1_r, Rmult_0_l in H by exact C0. lra. Qed.

Lemma sqrt_triangle a b c : 0 <= a -> 0 <= c -> 0 <= a + 2 * b + c -> b * b <= a * c ->
  sqrt (a + 2 * b + c) <= sqrt a + sqrt c.
Proof. intros Ha Hc Hs Hb.
  assert (Sa := sqrt_pos a). assert (Sc := sqrt_pos c).
  assert (B : b <= sqrt a * sqrt c).
  { rewrite <- sqrt_mult by assumption. apply Rle_trans with (Rabs b). apply Rle_abs.
    rewrite <- sqrt_Rsqr_abs. apply sqrt_le_1_alt. exact Hb. }
  rewrite <- (sqrt_Rsqr (sqrt a + sqrt c)) by lra. apply sqrt_le_1_alt. unfold Rsqr.
  replace ((sqrt a + sqrt c) * (sqrt a + sqrt c)) with (sqrt a * sqrt a + 2 * (sqrt a * sqrt c) + sqrt c * sqrt c) by ring.
  rewrite !sqrt_sqrt by assumption. lra. Qed.

Section PSD.
  Variable sigma : R.
  (* "the Gram matrix of k is positive semidefinite": true by the RKHS construction of
     Reininghaus et al., NOT proved here. *)
  Hypothesis gram_psd : forall ws, 0 <= gram sigma ws.

  Lemma radicand_as_gram F G : radicand sigma F G = gram sigma [(1, F); (-1, G)].
  Proof. unfold gram, dsum, radicand. simpl. rewrite (k_sym sigma G F). ring. Qed.

  Lemma radicand_nonneg_psd F G : 0 <= radicand sigma F G.
  Proof. rewrite radicand_as_gram. apply gram_psd. Qed.

  Lemma heat_sq_psd F G : heat sigma F G * heat sigma F G = radicand sigma F G.
  Proof. apply heat_sq, radicand_nonneg_psd. Qed.

  Definition cross F G H : R :=
    evalHeatKernel sigma F G - evalHeatKernel sigma F H - evalHeatKernel sigma G G + evalHeatKernel sigma G H.

  Lemma gram_line F G H t :
    gram sigma [(1, F); (-1, G); (t, G); (- t, H)]
    = radicand sigma F G + 2 * cross F G H * t + radicand sigma G H * t * t.
  Proof. unfold gram, dsum, radicand, cross. simpl.
    rewrite (k_sym sigma G F), (k_sym sigma H F), (k_sym sigma H G). ring. Qed.

  Lemma radicand_split F G H :
    radicand sigma F H = radicand sigma F G + 2 * cross F G H + radicand sigma G H.
  Proof. unfold radicand, cross. ring. Qed.

  Lemma heat_triangle_psd F G H : heat sigma F H <= heat sigma F G + heat sigma G H.
  Proof. unfold heat. rewrite !Rmax_left by apply radicand_nonneg_psd.
    rewrite (radicand_split F G H). apply sqrt_triangle.
    - apply radicand_nonneg_psd.
    - apply radicand_nonneg_psd.
    - rewrite <- radicand_split. apply radicand_nonneg_psd.
    - apply quad_disc; try apply radicand_nonneg_psd.
      intros t. rewrite <- gram_line. apply gram_psd. Qed.
End PSD.

(* ---------- T2, reduction: PSD of the diagram kernel follows from PSD of the Gaussian kernel on R^2 ----------
   k(p,q) = g(p,q) - g(p, mirror q) with g the Gaussian; g is invariant under mirroring both
   arguments, so  sum w_i w_j k(p_i,p_j) = 1/2 * sum over the signed point set
   {(w_i, p_i), (-w_i, mirror p_i)} of g.  *)
Definition gauss (sigma : R) (p q : pt) : R := exp (- sqdist p q / (8 * sigma)).
Definition gauss_form (sigma : R) (ws : list (R * pt)) : R :=
  dsum (fun a b => fst a * fst b * gauss sigma (snd a) (snd b)) ws ws.

Lemma dsum_flat_map_r {A B B'} (f : A -> B -> R) (h : B' -> list B) F Y :
  dsum f F (flat_map h Y) = hsum (map (fun y => dsum f F (h y)) Y).
Proof. induction Y as [|y Y IH]; simpl. apply dsum_nil_r. rewrite dsum_app_r, IH. reflexivity. Qed.
Lemma dsum_flat_map {A B A' B'} (f : A -> B -> R) (g : A' -> list A) (h : B' -> list B) X Y :
  dsum f (flat_map g X) (flat_map h Y) = dsum (fun x y => dsum f (g x) (h y)) X Y.
Proof. induction X as [|x X IH]; simpl. reflexivity.
  rewrite dsum_app_l, IH, dsum_cons_l, dsum_flat_map_r. reflexivity. Qed.

Lemma sqdist_mirror_both p q : sqdist (mirror p) (mirror q) = sqdist p q.
Proof. unfold sqdist, mirror. simpl. ring. Qed.
Lemma sqdist_mirror_l p q : sqdist (mirror p) q = sqdist p (mirror q).
Proof. unfold sqdist, mirror. simpl. ring. Qed.

Definition flat (ws : list (R * list pt)) : list (R * pt) :=
  flat_map (fun wF => map (fun p => (fst wF, p)) (snd wF)) ws.
Definition signed (ps : list (R * pt)) : list (R * pt) :=
  flat_map (fun wp => [(fst wp, snd wp); (- fst wp, mirror (snd wp))]) ps.

Lemma gram_flat sigma ws :
  gram sigma ws = / (8 * PI * sigma) *
                  dsum (fun a b => fst a * fst b * kterm sigma (snd a) (snd b)) (flat ws) (flat ws).
Proof. unfold gram, flat. rewrite dsum_flat_map, <- dsum_scal. apply dsum_ext. intros [w F] [w' G]. cbn [fst snd].
  rewrite dsum_map. cbn [fst snd]. rewrite k_is_sum.
  rewrite (dsum_scal (kterm sigma) (w * w')). ring. Qed.

Lemma gauss_form_signed sigma ps :
  gauss_form sigma (signed ps) = 2 * dsum (fun a b => fst a * fst b * kterm sigma (snd a) (snd b)) ps ps.
Proof. unfold gauss_form, signed. rewrite dsum_flat_map, <- dsum_scal. apply dsum_ext. intros [w p] [w' q].
  unfold dsum, kterm, gauss. cbn [map hsum fold_right fst snd].
  rewrite sqdist_mirror_both, sqdist_mirror_l. ring. Qed.

Lemma gram_psd_of_gauss_psd sigma : 0 < sigma -> (forall ps, 0 <= gauss_form sigma ps) ->
  forall ws, 0 <= gram sigma ws.
Proof. intros Hs G ws. rewrite gram_flat.
  assert (P : 0 < / (8 * PI * sigma)).
  { apply Rinv_0_lt_compat. assert (0 < PI) by apply PI_RGT_0. apply Rmult_lt_0_compat; [|exact Hs]. lra. }
  specialize (G (signed (flat ws))). rewrite gauss_form_signed in G.
  apply Rmult_le_pos. lra. lra. Qed.

Lemma heat_triangle_gauss sigma : 0 < sigma -> (forall ps, 0 <= gauss_form sigma ps) ->
  forall F G H, heat sigma F H <= heat sigma F G + heat sigma G H.
Proof. intros Hs G. apply heat_triangle_psd. apply gram_psd_of_gauss_psd; assumption. Qed.
Lemma radicand_nonneg_gauss sigma : 0 < sigma -> (forall ps, 0 <= gauss_form sigma ps) ->
  forall F G, 0 <= radicand sigma F G.
Proof. intros Hs G. apply radicand_nonneg_psd. apply gram_psd_of_gauss_psd; assumption. Qed.
