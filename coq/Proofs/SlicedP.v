(* Lemmas for C15 (sliced Wasserstein), model Model/SlicedM.v.  Everything over Q, equalities up to
   Qeq (==); lists of rationals are compared pointwise (Forall2 Qeq). *)
From Coq Require Import QArith Qabs Lqa List Permutation Bool Lia Morphisms.
From Persim Require Import Model.SlicedM.
Import ListNotations.
Open Scope Q_scope.

(* ---------- absolute values ---------- *)
Ltac qabs1 :=
  match goal with
  | |- context [Qabs ?t] =>
      let m := fresh "m" in
      let H := fresh "A" in
      assert (H : (0 <= t /\ Qabs t == t) \/ (t <= 0 /\ Qabs t == - t))
        by (destruct (Qlt_le_dec t 0) as [?L|?L];
            [right; split; [lra|apply Qabs_neg; lra] | left; split; [lra|apply Qabs_pos; lra]]);
      revert H; generalize (Qabs t); intros m H
  end.
Ltac qabs := repeat qabs1;
  repeat match goal with H : _ \/ _ |- _ => destruct H | H : _ /\ _ |- _ => destruct H end.

Lemma exchange x w z y : x <= w -> z <= y -> Qabs (x - z) + Qabs (w - y) <= Qabs (x - y) + Qabs (w - z).
Proof. intros. qabs; lra. Qed.
Lemma Qabs_tri3 x y z : Qabs (x - z) <= Qabs (x - y) + Qabs (y - z).
Proof. qabs; lra. Qed.
Lemma Qabs_sub_sym x y : Qabs (x - y) == Qabs (y - x).
Proof. qabs; lra. Qed.
Lemma Qabs_self x y : x == y -> Qabs (x - y) == 0.
Proof. intros. qabs; lra. Qed.

(* ---------- pointwise equal lists ---------- *)
Notation eql := (Forall2 Qeq).
Lemma eql_refl l : eql l l.
Proof. induction l; constructor; auto. reflexivity. Qed.
Lemma eql_sym a b : eql a b -> eql b a.
Proof. induction 1; constructor; auto. symmetry; auto. Qed.
Lemma eql_trans a b c : eql a b -> eql b c -> eql a c.
Proof. intros H. revert c. induction H; intros c0 K; inversion K; subst; constructor.
  - etransitivity; eauto.
  - auto. Qed.
Lemma eql_length a b : eql a b -> length a = length b.
Proof. induction 1; simpl; auto. Qed.
Lemma eql_app a a' b b' : eql a a' -> eql b b' -> eql (a ++ b) (a' ++ b').
Proof. induction 1; simpl; auto. Qed.
Lemma eql_map {A} (f g : A -> Q) l : (forall x, f x == g x) -> eql (map f l) (map g l).
Proof. intros H. induction l; simpl; constructor; auto. Qed.

(* ---------- l1 ---------- *)
Lemma l1_cons x a y b : l1 (x :: a) (y :: b) == Qabs (x - y) + l1 a b.
Proof. change (Qred (Qabs (x - y) + l1 a b) == Qabs (x - y) + l1 a b). apply Qred_correct. Qed.
Lemma l1_nil_l b : l1 [] b = 0.
Proof. reflexivity. Qed.
Lemma l1_nil_r a : l1 a [] = 0.
Proof. destruct a; reflexivity. Qed.
Lemma l1_nonneg a b : 0 <= l1 a b.
Proof. revert b. induction a as [|x a IH]; intros [|y b]; try (simpl; lra).
  rewrite l1_cons. specialize (IH b). pose proof (Qabs_nonneg (x - y)). lra. Qed.
Lemma l1_sym a b : l1 a b == l1 b a.
Proof. revert b. induction a as [|x a IH]; intros [|y b]; try reflexivity.
  rewrite !l1_cons, IH, Qabs_sub_sym. reflexivity. Qed.
Lemma l1_eql a a' b b' : eql a a' -> eql b b' -> l1 a b == l1 a' b'.
Proof. intros H. revert b b'. induction H as [|x x' a a' E H IH]; intros b b' K.
  - reflexivity.
  - inversion K as [|y y' c c' E' K']; subst. reflexivity.
    rewrite !l1_cons, (IH _ _ K'), E, E'. reflexivity. Qed.
Lemma l1_eql_zero a b : eql a b -> l1 a b == 0.
Proof. induction 1 as [|x y a b E H IH]. reflexivity. rewrite l1_cons, IH, Qabs_self by exact E. lra. Qed.
Lemma l1_triangle a b c : length a = length b -> length b = length c -> l1 a c <= l1 a b + l1 b c.
Proof. revert b c. induction a as [|x a IH]; intros [|y b] [|z c]; simpl length; intros H1 H2; try discriminate H1; try discriminate H2.
  - simpl; lra.
  - rewrite !l1_cons. specialize (IH b c ltac:(lia) ltac:(lia)). pose proof (Qabs_tri3 x y z). lra. Qed.
Lemma l1_map_shift k a b : l1 (map (fun x => x + k) a) (map (fun x => x + k) b) == l1 a b.
Proof. revert b. induction a as [|x a IH]; intros [|y b]; try reflexivity.
  simpl map. rewrite !l1_cons, IH. assert (E : x + k - (y + k) == x - y) by ring. rewrite E. reflexivity. Qed.
Lemma l1_map_scale k a b : 0 <= k -> l1 (map (fun x => k * x) a) (map (fun x => k * x) b) == k * l1 a b.
Proof. intros Hk. revert b. induction a as [|x a IH]; intros [|y b]; try (simpl; ring).
  simpl map. rewrite !l1_cons, IH. assert (E : k * x - k * y == k * (x - y)) by ring.
  rewrite E, Qabs_Qmult, (Qabs_pos k) by exact Hk. ring. Qed.

(* ---------- insertion sort ---------- *)
Lemma Qle_bool_compat x x' y y' : x == x' -> y == y' -> Qle_bool x y = Qle_bool x' y'.
Proof. intros E F. destruct (Qle_bool x y) eqn:A, (Qle_bool x' y') eqn:B; auto.
  - apply Qle_bool_iff in A. assert (~ x' <= y') by (intro K; apply Qle_bool_iff in K; congruence). lra.
  - apply Qle_bool_iff in B. assert (~ x <= y) by (intro K; apply Qle_bool_iff in K; congruence). lra. Qed.
Lemma Qle_bool_false x y : Qle_bool x y = false <-> y < x.
Proof. split; intros H.
  - destruct (Qlt_le_dec y x); auto. apply Qle_bool_iff in q. congruence.
  - destruct (Qle_bool x y) eqn:A; auto. apply Qle_bool_iff in A. lra. Qed.

Lemma insert_length x l : length (insert x l) = S (length l).
Proof. induction l as [|y l IH]; simpl; auto. destruct (Qle_bool x y); simpl; auto. Qed.
Lemma isort_length l : length (isort l) = length l.
Proof. induction l as [|x l IH]; simpl; auto. rewrite insert_length, IH. auto. Qed.
Lemma insert_perm x l : Permutation (insert x l) (x :: l).
Proof. induction l as [|y l IH]; simpl; auto. destruct (Qle_bool x y); auto.
  rewrite IH. apply perm_swap. Qed.
Lemma isort_perm l : Permutation (isort l) l.
Proof. induction l as [|x l IH]; simpl; auto. rewrite insert_perm. auto. Qed.

Lemma insert_eql x x' s s' : x == x' -> eql s s' -> eql (insert x s) (insert x' s').
Proof. intros E H. induction H as [|y y' s s' F H IH]; simpl.
  - constructor; auto.
  - rewrite (Qle_bool_compat x x' y y' E F). destruct (Qle_bool x' y'); repeat constructor; auto. Qed.
Lemma isort_eql a b : eql a b -> eql (isort a) (isort b).
Proof. induction 1; simpl. constructor. apply insert_eql; auto. Qed.

Lemma insert_insert x y s : eql (insert x (insert y s)) (insert y (insert x s)).
Proof. induction s as [|h t IH].
  - simpl. destruct (Qle_bool x y) eqn:A, (Qle_bool y x) eqn:B; try apply eql_refl.
    + apply Qle_bool_iff in A. apply Qle_bool_iff in B. assert (x == y) by lra.
      repeat constructor; auto. symmetry; auto.
    + apply Qle_bool_false in A. apply Qle_bool_false in B. lra.
  - simpl. destruct (Qle_bool y h) eqn:Yh, (Qle_bool x h) eqn:Xh; simpl; rewrite ?Yh, ?Xh.
    + destruct (Qle_bool x y) eqn:A, (Qle_bool y x) eqn:B; try apply eql_refl.
      * apply Qle_bool_iff in A. apply Qle_bool_iff in B. assert (x == y) by lra.
        constructor; [auto|]. constructor; [symmetry; auto|]. apply eql_refl.
      * apply Qle_bool_false in A. apply Qle_bool_false in B. lra.
    + assert (A : Qle_bool x y = false).
      { apply Qle_bool_false. apply Qle_bool_false in Xh. apply Qle_bool_iff in Yh. lra. }
      rewrite A. simpl. rewrite ?Xh. apply eql_refl.
    + assert (A : Qle_bool y x = false).
      { apply Qle_bool_false. apply Qle_bool_false in Yh. apply Qle_bool_iff in Xh. lra. }
      rewrite A. simpl. rewrite ?Yh. apply eql_refl.
    + constructor. reflexivity. exact IH. Qed.

Lemma isort_of_perm a b : Permutation a b -> eql (isort a) (isort b).
Proof. induction 1; simpl.
  - constructor.
  - apply insert_eql; [reflexivity|auto].
  - apply insert_insert.
  - eapply eql_trans; eauto. Qed.

Lemma insert_map (f : Q -> Q) x l : (forall a b, Qle_bool (f a) (f b) = Qle_bool a b) ->
  insert (f x) (map f l) = map f (insert x l).
Proof. intros H. induction l as [|y l IH]; simpl; auto. rewrite H. destruct (Qle_bool x y); simpl; auto.
  rewrite IH. auto. Qed.
Lemma isort_map (f : Q -> Q) l : (forall a b, Qle_bool (f a) (f b) = Qle_bool a b) ->
  isort (map f l) = map f (isort l).
Proof. intros H. induction l as [|x l IH]; simpl; auto. rewrite IH, insert_map; auto. Qed.

Lemma shift_mono k a b : Qle_bool (a + k) (b + k) = Qle_bool a b.
Proof. destruct (Qle_bool a b) eqn:A.
  - apply Qle_bool_iff. apply Qle_bool_iff in A. lra.
  - apply Qle_bool_false. apply Qle_bool_false in A. lra. Qed.
Lemma scale_mono k a b : 0 < k -> Qle_bool (k * a) (k * b) = Qle_bool a b.
Proof. intros Hk. destruct (Qle_bool a b) eqn:A.
  - apply Qle_bool_iff. apply Qle_bool_iff in A. nra.
  - apply Qle_bool_false. apply Qle_bool_false in A. nra. Qed.

(* ---------- the accumulator loop is a sum ---------- *)
Definition qsum (l : list Q) : Q := fold_right Qplus 0 l.

Lemma qsum_map_ext {A} (f g : A -> Q) l : (forall x, f x == g x) -> qsum (map f l) == qsum (map g l).
Proof. intros H. induction l; simpl. reflexivity. rewrite H, IHl. reflexivity. Qed.
Lemma qsum_map_le {A} (f g : A -> Q) l : (forall x, f x <= g x) -> qsum (map f l) <= qsum (map g l).
Proof. intros H. induction l; simpl. lra. specialize (H a). lra. Qed.
Lemma qsum_map_scal {A} (f : A -> Q) c l : qsum (map (fun x => c * f x) l) == c * qsum (map f l).
Proof. induction l; simpl. ring. rewrite IHl. ring. Qed.
Lemma qsum_map_plus {A} (f g : A -> Q) l : qsum (map (fun x => f x + g x) l) == qsum (map f l) + qsum (map g l).
Proof. induction l; simpl. ring. rewrite IHl. ring. Qed.
Lemma qsum_map_zero {A} (f : A -> Q) l : (forall x, f x == 0) -> qsum (map f l) == 0.
Proof. intros H. induction l; simpl. reflexivity. rewrite H, IHl. ring. Qed.

Lemma fold_acc {A} (f : A -> Q) l acc :
  fold_left (fun a u => Qred (a + f u)) l acc == acc + qsum (map f l).
Proof. revert acc. induction l as [|x l IH]; intros acc; cbn [fold_left map qsum fold_right]. ring.
  rewrite IH, Qred_correct. fold (qsum (map f l)). ring. Qed.

Lemma sw_gen_sum dp dirs P1 P2 :
  sw_gen dp dirs P1 P2 == step_of dirs * qsum (map (fun u => slice dp u P1 P2) dirs).
Proof. unfold sw_gen. rewrite (fold_acc (fun u => step_of dirs * slice dp u P1 P2)), qsum_map_scal. ring. Qed.

Lemma step_nonneg dirs : 0 <= step_of dirs.
Proof. unfold step_of. destruct dirs as [|u r]. simpl. unfold Qdiv, Qinv. simpl. lra.
  apply Qle_shift_div_l. unfold Qlt. simpl. lia. lra. Qed.

(* ---------- the two projected multisets of one slice ---------- *)
Definition V (dp : pt -> pt) (u : dir) (P1 P2 : list pt) : list Q :=
  map (proj u) P1 ++ map (proj u) (map dp P2).
Definition OT (a b : list Q) : Q := l1 (isort a) (isort b).

Lemma slice_unfold dp u P1 P2 : slice dp u P1 P2 = OT (V dp u P1 P2) (V dp u P2 P1).
Proof. reflexivity. Qed.
Lemma proj_eq u p : proj u p == fst u * fst p + snd u * snd p.
Proof. apply Qred_correct. Qed.
Lemma V_length dp u P1 P2 : length (V dp u P1 P2) = (length P1 + length P2)%nat.
Proof. unfold V. rewrite app_length, !map_length. reflexivity. Qed.

Lemma eql_map_in {A} (f g : A -> Q) l : (forall x, In x l -> f x == g x) -> eql (map f l) (map g l).
Proof. induction l; simpl; intros H; constructor; auto. Qed.

Lemma OT_eql a a' b b' : eql a a' -> eql b b' -> OT a b == OT a' b'.
Proof. intros. apply l1_eql; apply isort_eql; assumption. Qed.
Lemma OT_perm a a' b b' : Permutation a a' -> Permutation b b' -> OT a b == OT a' b'.
Proof. intros. apply l1_eql; apply isort_of_perm; assumption. Qed.
Lemma OT_sym a b : OT a b == OT b a.
Proof. apply l1_sym. Qed.
Lemma OT_nonneg a b : 0 <= OT a b.
Proof. apply l1_nonneg. Qed.
Lemma OT_perm_zero a b : Permutation a b -> OT a b == 0.
Proof. intros. apply l1_eql_zero, isort_of_perm. assumption. Qed.

(* ---------- T1 ---------- *)
Lemma slice_sym dp u P1 P2 : slice dp u P1 P2 == slice dp u P2 P1.
Proof. rewrite !slice_unfold. apply OT_sym. Qed.
Lemma sw_gen_sym dp dirs P1 P2 : sw_gen dp dirs P1 P2 == sw_gen dp dirs P2 P1.
Proof. rewrite !sw_gen_sum. apply Qmult_comp. reflexivity. apply qsum_map_ext. intros. apply slice_sym. Qed.

Lemma V_perm dp u P1 P1' P2 P2' : Permutation P1 P1' -> Permutation P2 P2' ->
  Permutation (V dp u P1 P2) (V dp u P1' P2').
Proof. intros. unfold V. apply Permutation_app; repeat apply Permutation_map; assumption. Qed.
Lemma slice_perm dp u P1 P1' P2 P2' : Permutation P1 P1' -> Permutation P2 P2' ->
  slice dp u P1 P2 == slice dp u P1' P2'.
Proof. intros. rewrite !slice_unfold. apply OT_perm; apply V_perm; assumption. Qed.
Lemma sw_gen_perm dp dirs P1 P1' P2 P2' : Permutation P1 P1' -> Permutation P2 P2' ->
  sw_gen dp dirs P1 P2 == sw_gen dp dirs P1' P2'.
Proof. intros. rewrite !sw_gen_sum. apply Qmult_comp. reflexivity. apply qsum_map_ext. intros. apply slice_perm; assumption. Qed.

Lemma slice_perm_zero dp u P1 P2 : Permutation P1 P2 -> slice dp u P1 P2 == 0.
Proof. intros P. rewrite slice_unfold. apply OT_perm_zero. apply V_perm. exact P. symmetry. exact P. Qed.
Lemma sw_gen_perm_zero dp dirs P1 P2 : Permutation P1 P2 -> sw_gen dp dirs P1 P2 == 0.
Proof. intros P. rewrite sw_gen_sum, qsum_map_zero. ring. intros. apply slice_perm_zero. exact P. Qed.

Lemma V_shift u t P1 P2 :
  eql (V dproj u (shift t P1) (shift t P2)) (map (fun x => x + (fst u + snd u) * t) (V dproj u P1 P2)).
Proof. unfold V, shift. rewrite map_app, !map_map. apply eql_app; apply eql_map; intros p;
  unfold dproj; cbn [fst snd]; rewrite !proj_eq; cbn [fst snd]; ring. Qed.
Lemma slice_shift u t P1 P2 : slice dproj u (shift t P1) (shift t P2) == slice dproj u P1 P2.
Proof. rewrite !slice_unfold. rewrite (OT_eql _ _ _ _ (V_shift u t P1 P2) (V_shift u t P2 P1)).
  unfold OT. rewrite !isort_map by (intros; apply shift_mono). apply l1_map_shift. Qed.
Lemma sw_shift dirs t P1 P2 : sw dirs (shift t P1) (shift t P2) == sw dirs P1 P2.
Proof. unfold sw. rewrite !sw_gen_sum. apply Qmult_comp. reflexivity. apply qsum_map_ext. intros. apply slice_shift. Qed.

Lemma V_scale u c P1 P2 :
  eql (V dproj u (scale c P1) (scale c P2)) (map (fun x => c * x) (V dproj u P1 P2)).
Proof. unfold V, scale. rewrite map_app, !map_map. apply eql_app; apply eql_map; intros p;
  unfold dproj; cbn [fst snd]; rewrite !proj_eq; cbn [fst snd]; ring. Qed.
Lemma slice_scale u c P1 P2 : 0 < c -> slice dproj u (scale c P1) (scale c P2) == c * slice dproj u P1 P2.
Proof. intros Hc. rewrite !slice_unfold. rewrite (OT_eql _ _ _ _ (V_scale u c P1 P2) (V_scale u c P2 P1)).
  unfold OT. rewrite !isort_map by (intros; apply scale_mono; exact Hc). apply l1_map_scale. lra. Qed.
Lemma sw_scale dirs c P1 P2 : 0 < c -> sw dirs (scale c P1) (scale c P2) == c * sw dirs P1 P2.
Proof. intros Hc. unfold sw. rewrite !sw_gen_sum.
  rewrite (qsum_map_ext _ (fun u => c * slice dproj u P1 P2)) by (intros; apply slice_scale; exact Hc).
  rewrite qsum_map_scal. ring. Qed.

(* the pinned tree's projection coincides with the intended one where b + d >= 0 *)
Lemma V_legacy u P1 P2 : (forall p, In p P2 -> 0 <= fst p + snd p) ->
  eql (V dproj_legacy u P1 P2) (V dproj u P1 P2).
Proof. intros H. unfold V. apply eql_app. apply eql_refl. rewrite !map_map. apply eql_map_in. intros p I.
  unfold dproj_legacy, dproj. rewrite !proj_eq. cbn [fst snd]. rewrite Qabs_pos by (apply H; exact I). reflexivity. Qed.
Lemma sw_legacy_nonneg dirs P1 P2 : (forall p, In p (P1 ++ P2) -> 0 <= fst p + snd p) ->
  sw_legacy dirs P1 P2 == sw dirs P1 P2.
Proof. intros H. unfold sw, sw_legacy. rewrite !sw_gen_sum. apply Qmult_comp. reflexivity.
  apply qsum_map_ext. intros u. rewrite !slice_unfold.
  apply OT_eql; apply V_legacy; intros p I; apply H; apply in_or_app; auto. Qed.

(* the pinned tree is not translation invariant: directions of M = 2 are exactly rational *)
Definition wA : list pt := [((-9)#1, (-7)#1); ((-8)#1, (-15)#2)].
Definition wB : list pt := [((-17)#2, (-8)#1)].
Definition wdirs : list dir := [(0, 1); (-1#1, 0)].
Lemma sw_legacy_witness :
  sw_legacy wdirs wA wB == 16#1 /\ sw_legacy wdirs (shift (10#1) wA) (shift (10#1) wB) == 5#4 /\
  sw wdirs wA wB == 5#4 /\ sw wdirs (shift (10#1) wA) (shift (10#1) wB) == 5#4.
Proof. repeat split; vm_compute; reflexivity. Qed.
Lemma sw_legacy_not_translation_invariant :
  exists dirs P1 P2 t, ~ sw_legacy dirs (shift t P1) (shift t P2) == sw_legacy dirs P1 P2.
Proof. exists wdirs, wA, wB, (10#1). destruct sw_legacy_witness as [A [B _]]. rewrite A, B. intro H. discriminate H. Qed.

(* ================= T2: each slice is the 1-D optimal transport cost ================= *)
From Persim Require Import Spec.Transport1D.

Fixpoint srt (l : list Q) : Prop :=
  match l with [] => True | x :: r => (forall y, In y r -> x <= y) /\ srt r end.

Lemma insert_in x l y : In y (insert x l) -> y = x \/ In y l.
Proof. intros H. apply (Permutation_in _ (insert_perm x l)) in H. destruct H; auto. Qed.
Lemma insert_srt x l : srt l -> srt (insert x l).
Proof. induction l as [|h t IH]; intros S.
  - simpl. split; auto. intros ? [].
  - destruct S as [Hh St]. simpl. destruct (Qle_bool x h) eqn:A.
    + apply Qle_bool_iff in A. split. intros y [<-|I]; auto. specialize (Hh y I). lra. split; auto.
    + apply Qle_bool_false in A. split; auto.
      intros y I. apply insert_in in I. destruct I as [->|I]. lra. auto. Qed.
Lemma isort_srt l : srt (isort l).
Proof. induction l; simpl; auto. apply insert_srt; auto. Qed.

(* inserting into one side only: pairing the new element with the head of the other side costs
   at most ... (exchange argument) *)
Lemma insert_one a A y s : srt (a :: A) -> srt s -> length A = length s ->
  l1 (a :: A) (insert y s) <= Qabs (a - y) + l1 A s.
Proof. revert a A. induction s as [|z s IH]; intros a A SA Ss L.
  - destruct A; [|discriminate]. simpl insert. rewrite !l1_cons, l1_nil_l. lra.
  - destruct A as [|w A]; [discriminate|]. simpl insert. destruct (Qle_bool y z) eqn:E.
    + rewrite !l1_cons. lra.
    + apply Qle_bool_false in E. rewrite l1_cons.
      destruct SA as [Ha SA]. destruct Ss as [Hz Ss].
      specialize (IH w A SA Ss ltac:(simpl in L; lia)).
      rewrite l1_cons. assert (a <= w) by (apply Ha; simpl; auto).
      pose proof (exchange a w z y ltac:(assumption) ltac:(lra)). lra. Qed.
Lemma insert_one_l b B x s : srt (b :: B) -> srt s -> length B = length s ->
  l1 (insert x s) (b :: B) <= Qabs (x - b) + l1 s B.
Proof. intros. rewrite l1_sym, (l1_sym s B), (Qabs_sub_sym x b). apply insert_one; assumption. Qed.

Lemma insert_both x y A B : srt A -> srt B -> length A = length B ->
  l1 (insert x A) (insert y B) <= Qabs (x - y) + l1 A B.
Proof. revert B. induction A as [|a A IH]; intros [|b B] SA SB L; try discriminate.
  - simpl insert. rewrite l1_cons. lra.
  - simpl insert. destruct (Qle_bool x a) eqn:Ea, (Qle_bool y b) eqn:Eb.
    + rewrite l1_cons. lra.
    + apply Qle_bool_iff in Ea. apply Qle_bool_false in Eb. rewrite l1_cons.
      pose proof (insert_one a A y B SA (proj2 SB) ltac:(simpl in L; lia)).
      rewrite (l1_cons a A b B).
      pose proof (exchange x a b y Ea ltac:(lra)). lra.
    + apply Qle_bool_false in Ea. apply Qle_bool_iff in Eb. rewrite l1_cons.
      pose proof (insert_one_l b B x A SB (proj2 SA) ltac:(simpl in L; lia)).
      rewrite (l1_cons a A b B).
      pose proof (exchange y b a x Eb ltac:(lra)).
      rewrite (Qabs_sub_sym y a), (Qabs_sub_sym b x), (Qabs_sub_sym y x), (Qabs_sub_sym b a) in H0. lra.
    + rewrite l1_cons, (l1_cons a A b B).
      specialize (IH B (proj2 SA) (proj2 SB) ltac:(simpl in L; lia)). lra. Qed.

Lemma pcost_cons p l : pcost (p :: l) = Qabs (fst p - snd p) + pcost l.
Proof. reflexivity. Qed.
Lemma pcost_perm l l' : Permutation l l' -> pcost l == pcost l'.
Proof. induction 1; rewrite ?pcost_cons; try reflexivity.
  - rewrite IHPermutation. reflexivity.
  - ring.
  - etransitivity; eauto. Qed.
Lemma pcost_nonneg l : 0 <= pcost l.
Proof. induction l as [|p l IH]. unfold pcost; simpl; lra. rewrite pcost_cons. pose proof (Qabs_nonneg (fst p - snd p)). lra. Qed.

Lemma sorted_le_pcost l : OT (map fst l) (map snd l) <= pcost l.
Proof. induction l as [|[x y] l IH]. unfold OT, pcost; simpl; lra.
  unfold OT in *. simpl map. simpl isort. rewrite pcost_cons. cbn [fst snd].
  pose proof (insert_both x y (isort (map fst l)) (isort (map snd l)) (isort_srt _) (isort_srt _)
                ltac:(rewrite !isort_length, !map_length; reflexivity)). lra. Qed.

Lemma OT_le_pairing a b l : pairing l a b -> OT a b <= pcost l.
Proof. intros [Pa Pb]. rewrite <- (OT_perm _ _ _ _ Pa Pb). apply sorted_le_pcost. Qed.

Lemma combine_fst {A B} (a : list A) (b : list B) : length a = length b -> map fst (combine a b) = a.
Proof. revert b. induction a; intros [|y b]; simpl; intros; try discriminate; auto. f_equal. apply IHa. lia. Qed.
Lemma combine_snd {A B} (a : list A) (b : list B) : length a = length b -> map snd (combine a b) = b.
Proof. revert b. induction a; intros [|y b]; simpl; intros; try discriminate; auto. f_equal. apply IHa. lia. Qed.
Lemma pcost_combine a b : pcost (combine a b) == l1 a b.
Proof. revert b. induction a as [|x a IH]; intros [|y b]; try reflexivity.
  simpl combine. rewrite pcost_cons, l1_cons, IH. reflexivity. Qed.

Lemma OT_attained a b : length a = length b -> exists l, pairing l a b /\ pcost l == OT a b.
Proof. intros L. exists (combine (isort a) (isort b)). split; [split|].
  - rewrite combine_fst by (rewrite !isort_length; exact L). apply isort_perm.
  - rewrite combine_snd by (rewrite !isort_length; exact L). apply isort_perm.
  - apply pcost_combine. Qed.

Lemma OT_is_ot1 a b : length a = length b -> is_ot1 a b (OT a b).
Proof. intros L. split. apply OT_attained; exact L. intros l. apply OT_le_pairing. Qed.

Lemma slice_is_ot1 dp u P1 P2 : is_ot1 (V dp u P1 P2) (V dp u P2 P1) (slice dp u P1 P2).
Proof. rewrite slice_unfold. apply OT_is_ot1. rewrite !V_length. lia. Qed.

(* ---------- cancellation: a common point can be removed from both sides ---------- *)
Lemma in_fst_split (l : list (Q * Q)) x : In x (map fst l) -> exists y l', Permutation l ((x, y) :: l').
Proof. intros I. apply in_map_iff in I. destruct I as [[x' y] [E I]]. simpl in E. subst x'.
  apply in_split in I. destruct I as [l1 [l2 ->]]. exists y, (l1 ++ l2). symmetry. apply Permutation_middle. Qed.
Lemma in_snd_split (l : list (Q * Q)) y : In y (map snd l) -> exists x l', Permutation l ((x, y) :: l').
Proof. intros I. apply in_map_iff in I. destruct I as [[x y'] [E I]]. simpl in E. subst y'.
  apply in_split in I. destruct I as [l1 [l2 ->]]. exists x, (l1 ++ l2). symmetry. apply Permutation_middle. Qed.

Lemma pairing_remove z X Y l : pairing l (z :: X) (z :: Y) ->
  exists l', pairing l' X Y /\ pcost l' <= pcost l.
Proof. intros [Pa Pb].
  assert (I : In z (map fst l)) by (apply (Permutation_in _ (Permutation_sym Pa)); simpl; auto).
  destruct (in_fst_split l z I) as [y [l1 P1]].
  assert (Pa1 : Permutation (map fst l1) X).
  { apply Permutation_cons_inv with z. rewrite <- Pa. symmetry. apply (Permutation_map fst) in P1. exact P1. }
  assert (Pb1 : Permutation (y :: map snd l1) (z :: Y)).
  { rewrite <- Pb. symmetry. apply (Permutation_map snd) in P1. exact P1. }
  assert (J : In z (y :: map snd l1)) by (apply (Permutation_in _ (Permutation_sym Pb1)); simpl; auto).
  destruct J as [->|J].
  - exists l1. split. split; auto. apply Permutation_cons_inv with z. exact Pb1.
    rewrite (pcost_perm _ _ P1), pcost_cons. pose proof (Qabs_nonneg (fst (z, z) - snd (z, z))). lra.
  - destruct (in_snd_split l1 z J) as [x [l2 P2]].
    exists ((x, y) :: l2). split; [split|].
    + simpl. rewrite <- Pa1. symmetry. apply (Permutation_map fst) in P2. exact P2.
    + simpl. apply Permutation_cons_inv with z. rewrite <- Pb1.
      apply (Permutation_map snd) in P2. simpl in P2. rewrite P2. apply perm_swap.
    + rewrite (pcost_perm _ _ P1), !pcost_cons, (pcost_perm _ _ P2), !pcost_cons. cbn [fst snd].
      pose proof (Qabs_tri3 x z y). lra. Qed.

Lemma OT_cancel1 z X Y : length X = length Y -> OT (z :: X) (z :: Y) == OT X Y.
Proof. intros L. apply Qle_antisym.
  - unfold OT. simpl isort.
    pose proof (insert_both z z (isort X) (isort Y) (isort_srt _) (isort_srt _) ltac:(rewrite !isort_length; exact L)).
    rewrite (Qabs_self z z) in H by reflexivity. lra.
  - destruct (OT_attained (z :: X) (z :: Y) ltac:(simpl; lia)) as [l [Pl Cl]].
    destruct (pairing_remove z X Y l Pl) as [l' [Pl' Cl']].
    pose proof (OT_le_pairing X Y l' Pl'). lra. Qed.

Lemma OT_cancel_app Z Z' X Y : eql Z Z' -> length X = length Y -> OT (Z ++ X) (Z' ++ Y) == OT X Y.
Proof. induction 1 as [|z z' Z Z' E H IH]; intros L. reflexivity.
  simpl app. rewrite (OT_eql (z :: Z ++ X) (z :: Z ++ X) (z' :: Z' ++ Y) (z :: Z' ++ Y)).
  - rewrite OT_cancel1. apply IH; exact L. rewrite !app_length, (eql_length _ _ H). lia.
  - apply eql_refl.
  - constructor. symmetry; exact E. apply eql_refl. Qed.

Lemma OT_cancel_app_r Z Z' X Y : eql Z Z' -> length X = length Y -> OT (X ++ Z) (Y ++ Z') == OT X Y.
Proof. intros. rewrite (OT_perm (X ++ Z) (Z ++ X) (Y ++ Z') (Z' ++ Y)) by apply Permutation_app_comm.
  apply OT_cancel_app; assumption. Qed.

Lemma OT_triangle a b c : length a = length b -> length b = length c -> OT a c <= OT a b + OT b c.
Proof. intros. apply l1_triangle; rewrite !isort_length; assumption. Qed.

(* ---------- diagonal points are neutral ---------- *)
Lemma proj_diag u p : on_diag p -> proj u (dproj p) == proj u p.
Proof. unfold on_diag, dproj. destruct p as [a b]. cbn [fst snd]. intros E. rewrite !proj_eq. cbn [fst snd].
  rewrite E. ring. Qed.

Lemma slice_diag_neutral_l u p P1 P2 : on_diag p -> slice dproj u (p :: P1) P2 == slice dproj u P1 P2.
Proof. intros D. rewrite !slice_unfold. unfold V. simpl map.
  rewrite (OT_perm (proj u p :: map (proj u) P1 ++ map (proj u) (map dproj P2)) ([proj u p] ++ V dproj u P1 P2)
                   (map (proj u) P2 ++ proj u (dproj p) :: map (proj u) (map dproj P1)) ([proj u (dproj p)] ++ V dproj u P2 P1)).
  - apply OT_cancel_app. constructor. symmetry. apply proj_diag. exact D. constructor. rewrite !app_length, !map_length. lia.
  - apply Permutation_refl.
  - unfold V. cbn [app]. symmetry. apply Permutation_middle. Qed.
Lemma sw_diag_neutral_l dirs p P1 P2 : on_diag p -> sw dirs (p :: P1) P2 == sw dirs P1 P2.
Proof. intros D. unfold sw. rewrite !sw_gen_sum. apply Qmult_comp. reflexivity. apply qsum_map_ext. intros.
  apply slice_diag_neutral_l. exact D. Qed.
Lemma sw_diag_neutral_list dirs D1 P1 P2 : Forall on_diag D1 -> sw dirs (D1 ++ P1) P2 == sw dirs P1 P2.
Proof. induction 1; simpl. reflexivity. rewrite sw_diag_neutral_l by assumption. assumption. Qed.
Lemma sw_diag_ignored dirs P1 P1' D1 P2 P2' D2 : Forall on_diag D1 -> Forall on_diag D2 ->
  Permutation P1' (D1 ++ P1) -> Permutation P2' (D2 ++ P2) -> sw dirs P1' P2' == sw dirs P1 P2.
Proof. intros H1 H2 Q1 Q2. unfold sw. rewrite (sw_gen_perm dproj dirs _ _ _ _ Q1 Q2). fold (sw dirs (D1 ++ P1) (D2 ++ P2)).
  rewrite sw_diag_neutral_list by assumption. unfold sw. rewrite sw_gen_sym. fold (sw dirs (D2 ++ P2) P1).
  rewrite sw_diag_neutral_list by assumption. unfold sw. apply sw_gen_sym. Qed.

(* ---------- triangle inequality ---------- *)
Lemma slice_triangle dp u A B C : slice dp u A C <= slice dp u A B + slice dp u B C.
Proof. rewrite !slice_unfold.
  set (pA := map (proj u) A). set (pB := map (proj u) B). set (pC := map (proj u) C).
  set (qA := map (proj u) (map dp A)). set (qB := map (proj u) (map dp B)). set (qC := map (proj u) (map dp C)).
  change (OT (pA ++ qC) (pC ++ qA) <= OT (pA ++ qB) (pB ++ qA) + OT (pB ++ qC) (pC ++ qB)).
  assert (LA : length qA = length pA) by (unfold qA, pA; rewrite !map_length; reflexivity).
  assert (LB : length qB = length pB) by (unfold qB, pB; rewrite !map_length; reflexivity).
  assert (LC : length qC = length pC) by (unfold qC, pC; rewrite !map_length; reflexivity).
  rewrite <- (OT_cancel_app_r qB qB (pA ++ qC) (pC ++ qA) (eql_refl _)) by (rewrite !app_length; lia).
  rewrite <- (OT_cancel_app_r qC qC (pA ++ qB) (pB ++ qA) (eql_refl _)) by (rewrite !app_length; lia).
  rewrite <- (OT_cancel_app_r qA qA (pB ++ qC) (pC ++ qB) (eql_refl _)) by (rewrite !app_length; lia).
  rewrite (OT_perm ((pA ++ qB) ++ qC) ((pA ++ qC) ++ qB) ((pB ++ qA) ++ qC) ((pB ++ qA) ++ qC)).
  rewrite (OT_perm ((pB ++ qC) ++ qA) ((pB ++ qA) ++ qC) ((pC ++ qB) ++ qA) ((pC ++ qA) ++ qB)).
  - apply OT_triangle; rewrite !app_length; lia.
  - rewrite <- !app_assoc. apply Permutation_app_head. apply Permutation_app_comm.
  - rewrite <- !app_assoc. apply Permutation_app_head. apply Permutation_app_comm.
  - rewrite <- !app_assoc. apply Permutation_app_head. apply Permutation_app_comm.
  - apply Permutation_refl. Qed.

Lemma sw_gen_triangle dp dirs A B C : sw_gen dp dirs A C <= sw_gen dp dirs A B + sw_gen dp dirs B C.
Proof. rewrite !sw_gen_sum. rewrite <- Qmult_plus_distr_r, <- qsum_map_plus.
  pose proof (step_nonneg dirs) as S.
  assert (K : qsum (map (fun u => slice dp u A C) dirs)
              <= qsum (map (fun u => slice dp u A B + slice dp u B C) dirs))
    by (apply qsum_map_le; intros; apply slice_triangle).
  rewrite (Qmult_comm (step_of dirs)), (Qmult_comm (step_of dirs)). apply Qmult_le_compat_r; assumption. Qed.

(* ---------- bound by twice the cost of any partial matching (towards sw <= 2 W1) ---------- *)
Lemma pcost_app l l' : pcost (l ++ l') == pcost l + pcost l'.
Proof. induction l as [|p l IH]. unfold pcost at 2; simpl; ring. simpl app. rewrite !pcost_cons, IH. ring. Qed.
Lemma pcost_map_le {A} (f : A -> Q * Q) (g : A -> Q) X :
  (forall x, Qabs (fst (f x) - snd (f x)) <= g x) -> pcost (map f X) <= qsum (map g X).
Proof. intros H. induction X as [|x X IH]. unfold pcost; simpl; lra.
  simpl map. rewrite pcost_cons. simpl qsum. specialize (H x). lra. Qed.
Lemma qsum_nonneg {A} (g : A -> Q) X : (forall x, 0 <= g x) -> 0 <= qsum (map g X).
Proof. intros H. induction X as [|x X IH]; simpl. lra. specialize (H x). lra. Qed.
Lemma qsum_const {A} (c : Q) (l : list A) : qsum (map (fun _ => c) l) == inject_Z (Z.of_nat (length l)) * c.
Proof. induction l as [|x l IH]. simpl. ring.
  cbn [map qsum fold_right length]. fold (qsum (map (fun _ => c) l)). rewrite IH, Nat2Z.inj_succ.
  unfold Z.succ. rewrite inject_Z_plus. ring. Qed.
Lemma step_avg_le dirs c : 0 <= c -> step_of dirs * qsum (map (fun _ : dir => c) dirs) <= c.
Proof. intros Hc. rewrite qsum_const. unfold step_of. destruct dirs as [|u r].
  - cbn [length Z.of_nat]. change (inject_Z 0) with 0. rewrite Qmult_0_l, Qmult_0_r. exact Hc.
  - set (m := inject_Z (Z.of_nat (length (u :: r)))).
    assert (0 < m) by (unfold m, Qlt; simpl; lia).
    assert (E : 1 / m * (m * c) == c) by (field; lra). rewrite E. lra. Qed.

Lemma perm3 {A} (a b c : list A) : Permutation (a ++ b ++ c) (c ++ b ++ a).
Proof. apply Permutation_trans with ((b ++ c) ++ a). apply Permutation_app_comm.
  rewrite (app_assoc c b a). apply Permutation_app_tail. apply Permutation_app_comm. Qed.

Definition mcost (d : pt -> pt -> Q) (dd : pt -> Q) (Mt : list (pt * pt)) (U1 U2 : list pt) : Q :=
  2 * qsum (map (fun pq => d (fst pq) (snd pq)) Mt) + qsum (map dd U1) + qsum (map dd U2).

Definition dominates (dp : pt -> pt) (u : dir) (d : pt -> pt -> Q) (dd : pt -> Q) : Prop :=
  (forall p q, Qabs (proj u p - proj u q) <= d p q) /\
  (forall p q, Qabs (proj u (dp p) - proj u (dp q)) <= d p q) /\
  (forall p, Qabs (proj u p - proj u (dp p)) <= dd p).

Lemma slice_le_matching dp u d dd Mt U1 U2 P1 P2 : dominates dp u d dd ->
  Permutation P1 (map fst Mt ++ U1) -> Permutation P2 (map snd Mt ++ U2) ->
  slice dp u P1 P2 <= mcost d dd Mt U1 U2.
Proof. intros [D1 [D2 D3]] Q1 Q2. rewrite (slice_perm dp u _ _ _ _ Q1 Q2), slice_unfold.
  set (la := map (fun pq : pt * pt => (proj u (fst pq), proj u (snd pq))) Mt).
  set (lb := map (fun p : pt => (proj u p, proj u (dp p))) U1).
  set (lc := map (fun pq : pt * pt => (proj u (dp (snd pq)), proj u (dp (fst pq)))) Mt).
  set (ld := map (fun q : pt => (proj u (dp q), proj u q)) U2).
  assert (PR : pairing (la ++ lb ++ lc ++ ld) (V dp u (map fst Mt ++ U1) (map snd Mt ++ U2))
                                              (V dp u (map snd Mt ++ U2) (map fst Mt ++ U1))).
  { unfold pairing, V, la, lb, lc, ld. rewrite !map_app, !map_map. cbn [fst snd]. split.
    - rewrite <- !app_assoc. apply Permutation_refl.
    - rewrite <- !app_assoc. apply Permutation_app_head. apply perm3. }
  apply Qle_trans with (pcost (la ++ lb ++ lc ++ ld)). apply OT_le_pairing. exact PR.
  rewrite !pcost_app. unfold mcost.
  assert (A1 : pcost la <= qsum (map (fun pq => d (fst pq) (snd pq)) Mt)) by (apply pcost_map_le; intros; apply D1).
  assert (A2 : pcost lb <= qsum (map dd U1)) by (apply pcost_map_le; intros; apply D3).
  assert (A3 : pcost lc <= qsum (map (fun pq => d (fst pq) (snd pq)) Mt)).
  { apply pcost_map_le. intros x. cbn [fst snd]. rewrite Qabs_sub_sym. apply D2. }
  assert (A4 : pcost ld <= qsum (map dd U2)).
  { apply pcost_map_le. intros x. cbn [fst snd]. rewrite Qabs_sub_sym. apply D3. }
  lra. Qed.

Lemma mcost_nonneg dp u d dd Mt U1 U2 : dominates dp u d dd -> 0 <= mcost d dd Mt U1 U2.
Proof. intros [D1 [_ D3]]. unfold mcost.
  assert (0 <= qsum (map (fun pq => d (fst pq) (snd pq)) Mt)).
  { apply qsum_nonneg. intros x. eapply Qle_trans; [apply Qabs_nonneg|apply D1]. }
  assert (0 <= qsum (map dd U1)) by (apply qsum_nonneg; intros x; eapply Qle_trans; [apply Qabs_nonneg|apply D3]).
  assert (0 <= qsum (map dd U2)) by (apply qsum_nonneg; intros x; eapply Qle_trans; [apply Qabs_nonneg|apply D3]).
  lra. Qed.

Lemma qsum_map_le_in {A} (f g : A -> Q) l : (forall x, In x l -> f x <= g x) -> qsum (map f l) <= qsum (map g l).
Proof. induction l as [|a l IH]; intros H; simpl. lra.
  assert (f a <= g a) by (apply H; simpl; auto). assert (qsum (map f l) <= qsum (map g l)) by (apply IH; intros; apply H; simpl; auto). lra. Qed.

Lemma sw_gen_le_matching dp dirs d dd Mt U1 U2 P1 P2 : dirs <> [] -> (forall u, In u dirs -> dominates dp u d dd) ->
  Permutation P1 (map fst Mt ++ U1) -> Permutation P2 (map snd Mt ++ U2) ->
  sw_gen dp dirs P1 P2 <= mcost d dd Mt U1 U2.
Proof. intros NE D Q1 Q2. rewrite sw_gen_sum.
  assert (C : 0 <= mcost d dd Mt U1 U2).
  { destruct dirs as [|u0 r]; [congruence|]. apply (mcost_nonneg dp u0). apply D. simpl; auto. }
  apply Qle_trans with (step_of dirs * qsum (map (fun _ : dir => mcost d dd Mt U1 U2) dirs)).
  - rewrite (Qmult_comm (step_of dirs)), (Qmult_comm (step_of dirs)). apply Qmult_le_compat_r.
    apply qsum_map_le_in. intros u I. apply slice_le_matching; auto. apply step_nonneg.
  - apply step_avg_le. exact C. Qed.

(* ---------- a fully rational instance: the l1 ground distance ---------- *)
Definition dist1 (p q : pt) : Q := Qabs (fst p - fst q) + Qabs (snd p - snd q).
Definition ddiag1 (p : pt) : Q := Qabs (snd p - fst p).
Definition unit_box (u : dir) : Prop := Qabs (fst u) <= 1 /\ Qabs (snd u) <= 1.

Lemma abs_mul_le c x : Qabs c <= 1 -> Qabs (c * x) <= Qabs x.
Proof. intros H. rewrite Qabs_Qmult. pose proof (Qabs_nonneg x). pose proof (Qabs_nonneg c). nra. Qed.
Lemma abs_lin c s x y : Qabs c <= 1 -> Qabs s <= 1 -> Qabs (c * x + s * y) <= Qabs x + Qabs y.
Proof. intros Hc Hs. eapply Qle_trans. apply Qabs_triangle.
  pose proof (abs_mul_le c x Hc). pose proof (abs_mul_le s y Hs). lra. Qed.

Lemma dominates_l1 u : unit_box u -> dominates dproj u dist1 ddiag1.
Proof. intros [Hc Hs]. destruct u as [c s]. cbn [fst snd] in *. unfold dominates, dist1, ddiag1, dproj. repeat split.
  - intros [p1 p2] [q1 q2]. rewrite !proj_eq. cbn [fst snd].
    assert (E : c * p1 + s * p2 - (c * q1 + s * q2) == c * (p1 - q1) + s * (p2 - q2)) by ring.
    rewrite E. apply abs_lin; assumption.
  - intros [p1 p2] [q1 q2]. rewrite !proj_eq. cbn [fst snd].
    assert (E : c * ((p1 + p2) * (1#2)) + s * ((p1 + p2) * (1#2)) - (c * ((q1 + q2) * (1#2)) + s * ((q1 + q2) * (1#2)))
                == c * (((p1 - q1) + (p2 - q2)) * (1#2)) + s * (((p1 - q1) + (p2 - q2)) * (1#2))) by ring.
    rewrite E. eapply Qle_trans. apply abs_lin; assumption.
    generalize (p1 - q1) (p2 - q2). intros a b. qabs; lra.
  - intros [p1 p2]. rewrite !proj_eq. cbn [fst snd].
    assert (E : c * p1 + s * p2 - (c * ((p1 + p2) * (1#2)) + s * ((p1 + p2) * (1#2)))
                == c * ((p1 - p2) * (1#2)) + s * ((p2 - p1) * (1#2))) by ring.
    rewrite E. eapply Qle_trans. apply abs_lin; assumption. qabs; lra. Qed.

Lemma sw_le_twice_l1_matching dirs Mt U1 U2 P1 P2 : dirs <> [] -> (forall u, In u dirs -> unit_box u) ->
  Permutation P1 (map fst Mt ++ U1) -> Permutation P2 (map snd Mt ++ U2) ->
  sw dirs P1 P2 <= mcost dist1 ddiag1 Mt U1 U2.
Proof. intros. apply sw_gen_le_matching; auto. intros. apply dominates_l1. auto. Qed.

(* ---------- the Euclidean instance: any rational upper bound of the Euclidean distances ---------- *)
Definition sqd (p q : pt) : Q := (fst p - fst q) * (fst p - fst q) + (snd p - snd q) * (snd p - snd q).
Definition in_disc (u : dir) : Prop := fst u * fst u + snd u * snd u <= 1.
(* d bounds the Euclidean distance, dd the perpendicular distance |d - b| / sqrt 2 to the diagonal *)
Definition euclid_bounds (d : pt -> pt -> Q) (dd : pt -> Q) : Prop :=
  (forall p q, 0 <= d p q /\ sqd p q <= d p q * d p q) /\
  (forall p, 0 <= dd p /\ (snd p - fst p) * (snd p - fst p) * (1#2) <= dd p * dd p).

Lemma sq_nonneg a : 0 <= a * a.
Proof. destruct (Qlt_le_dec a 0).
  - assert (E : a * a == (- a) * (- a)) by ring. rewrite E. apply Qmult_le_0_compat; lra.
  - apply Qmult_le_0_compat; lra. Qed.
Lemma abs_le_of_sq a d : 0 <= d -> a * a <= d * d -> Qabs a <= d.
Proof. intros Hd H. assert (G : forall b, 0 <= b -> b * b <= d * d -> b <= d).
  { intros b Hb Hbb. destruct (Qlt_le_dec d b) as [L|L]; [|exact L]. exfalso.
    assert (d * d < b * b).
    { apply Qle_lt_trans with (b * d). apply Qmult_le_compat_r; lra.
      apply Qmult_lt_l; lra. }
    lra. }
  qabs.
  - rewrite H1. apply G; assumption.
  - rewrite H1. apply G. lra. assert (E : - a * - a == a * a) by ring. rewrite E. exact H. Qed.
Lemma cs2 c s x y : c * c + s * s <= 1 -> (c * x + s * y) * (c * x + s * y) <= x * x + y * y.
Proof. intros H. pose proof (sq_nonneg (c * y - s * x)). pose proof (sq_nonneg x). pose proof (sq_nonneg y).
  assert (E : (c * x + s * y) * (c * x + s * y) + (c * y - s * x) * (c * y - s * x) == (c * c + s * s) * (x * x + y * y)) by ring.
  assert ((c * c + s * s) * (x * x + y * y) <= 1 * (x * x + y * y)) by (apply Qmult_le_compat_r; lra).
  lra. Qed.

Lemma dominates_euclid u d dd : in_disc u -> euclid_bounds d dd -> dominates dproj u d dd.
Proof. intros Hu [Hd Hdd]. destruct u as [c s]. unfold in_disc in Hu. cbn [fst snd] in Hu.
  unfold dominates, dproj. repeat split.
  - intros [p1 p2] [q1 q2]. destruct (Hd (p1, p2) (q1, q2)) as [D0 D1]. unfold sqd in D1. cbn [fst snd] in D1.
    rewrite !proj_eq. cbn [fst snd]. apply abs_le_of_sq. exact D0.
    assert (E : c * p1 + s * p2 - (c * q1 + s * q2) == c * (p1 - q1) + s * (p2 - q2)) by ring.
    rewrite E. pose proof (cs2 c s (p1 - q1) (p2 - q2) Hu). lra.
  - intros [p1 p2] [q1 q2]. destruct (Hd (p1, p2) (q1, q2)) as [D0 D1]. unfold sqd in D1. cbn [fst snd] in D1.
    rewrite !proj_eq. cbn [fst snd]. apply abs_le_of_sq. exact D0.
    set (m := ((p1 - q1) + (p2 - q2)) * (1#2)).
    assert (E : c * ((p1 + p2) * (1#2)) + s * ((p1 + p2) * (1#2)) - (c * ((q1 + q2) * (1#2)) + s * ((q1 + q2) * (1#2)))
                == c * m + s * m) by (unfold m; ring).
    rewrite E. pose proof (cs2 c s m m Hu).
    assert (m * m + m * m <= (p1 - q1) * (p1 - q1) + (p2 - q2) * (p2 - q2)).
    { unfold m. generalize (p1 - q1) (p2 - q2). intros a b. pose proof (sq_nonneg (a - b)).
      assert (E2 : (a + b) * (1#2) * ((a + b) * (1#2)) + (a + b) * (1#2) * ((a + b) * (1#2))
                   == a * a + b * b - (a - b) * (a - b) * (1#2)) by ring. lra. }
    lra.
  - intros [p1 p2]. destruct (Hdd (p1, p2)) as [D0 D1]. cbn [fst snd] in D1.
    rewrite !proj_eq. cbn [fst snd]. apply abs_le_of_sq. exact D0.
    set (m := (p1 - p2) * (1#2)).
    assert (E : c * p1 + s * p2 - (c * ((p1 + p2) * (1#2)) + s * ((p1 + p2) * (1#2))) == c * m + s * (- m)) by (unfold m; ring).
    rewrite E. pose proof (cs2 c s m (- m) Hu).
    assert (m * m + - m * - m == (p2 - p1) * (p2 - p1) * (1#2)) by (unfold m; ring). lra. Qed.

Lemma sw_le_twice_euclid_matching dirs d dd Mt U1 U2 P1 P2 : dirs <> [] -> (forall u, In u dirs -> in_disc u) ->
  euclid_bounds d dd ->
  Permutation P1 (map fst Mt ++ U1) -> Permutation P2 (map snd Mt ++ U2) ->
  sw dirs P1 P2 <= mcost d dd Mt U1 U2.
Proof. intros. apply sw_gen_le_matching; auto. intros. apply dominates_euclid; auto. Qed.
