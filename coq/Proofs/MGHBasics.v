(* C05: basic facts about zmaxl, dis, distance matrices, pigeonhole. *)
From Coq Require Import ZArith List Bool Arith Lia.
From Persim Require Import Spec.MGH Model.MGHM.
Import ListNotations.
Open Scope Z_scope.

Lemma zmaxl_nonneg l : 0 <= zmaxl l.
Proof. induction l; simpl; lia. Qed.

Lemma zmaxl_le_iff l B : zmaxl l <= B <-> 0 <= B /\ Forall (fun x => x <= B) l.
Proof.
  induction l; simpl.
  - split; [intros; split; [lia|constructor] | intros [H _]; exact H].
  - rewrite Z.max_lub_iff, IHl. split.
    + intros [H1 [H2 H3]]. split; [exact H2|constructor; assumption].
    + intros [H1 H2]. inversion H2; subst. tauto.
Qed.

Lemma zmaxl_ge l x : In x l -> x <= zmaxl l.
Proof.
  intros H. assert (A : zmaxl l <= zmaxl l) by lia.
  apply zmaxl_le_iff in A. destruct A as [_ A]. rewrite Forall_forall in A. auto.
Qed.

Lemma zmaxl_attained l : zmaxl l = 0 \/ In (zmaxl l) l.
Proof.
  induction l; simpl; [left; reflexivity|].
  destruct (Z.max_spec a (zmaxl l)) as [[H E]|[H E]]; rewrite E.
  - destruct IHl as [Z0|I]; [left; exact Z0|right; right; exact I].
  - right. left. reflexivity.
Qed.

Lemma nth_map_seq {A} (g : nat -> A) (m k : nat) (dflt : A) :
  (k < m)%nat -> nth k (map g (seq 0 m)) dflt = g k.
Proof.
  intros H. rewrite nth_indep with (d' := g 0%nat) by (rewrite map_length, seq_length; exact H).
  rewrite map_nth. rewrite seq_nth by exact H. reflexivity.
Qed.

Lemma dis_le_iff DX DY f B :
  dis DX DY f <= B <->
  0 <= B /\ forall i j, (i < length DX)%nat -> (j < length DX)%nat -> dterm DX DY f i j <= B.
Proof.
  unfold dis. rewrite zmaxl_le_iff. split; intros [H0 H]; split; try exact H0.
  - intros i j Hi Hj. rewrite Forall_forall in H. apply H.
    apply in_flat_map. exists i. split; [apply in_seq; lia|].
    apply in_map_iff. exists j. split; [reflexivity|apply in_seq; lia].
  - apply Forall_forall. intros x Hx. apply in_flat_map in Hx. destruct Hx as [i [Hi Hx]].
    apply in_map_iff in Hx. destruct Hx as [j [<- Hj]]. apply in_seq in Hi, Hj. apply H; lia.
Qed.

Lemma dis_nonneg DX DY f : 0 <= dis DX DY f.
Proof. apply zmaxl_nonneg. Qed.

Lemma dis_ge DX DY f i j : (i < length DX)%nat -> (j < length DX)%nat -> dterm DX DY f i j <= dis DX DY f.
Proof. intros Hi Hj. assert (A : dis DX DY f <= dis DX DY f) by lia. apply dis_le_iff in A. apply A; assumption. Qed.

Lemma valid_img n m f i : valid_map n m f -> (i < n)%nat -> (img f i < m)%nat.
Proof.
  intros [L F] Hi. rewrite Forall_forall in F. apply F. unfold img. apply nth_In. lia.
Qed.

(* ---- distance matrices *)
Lemma dm_row_length D i : square D -> (i < length D)%nat -> length (nth i D []) = length D.
Proof. intros S Hi. unfold square in S. rewrite Forall_forall in S. apply S. apply nth_In. exact Hi. Qed.

Lemma ent_le_diam D i j : square D -> (i < length D)%nat -> (j < length D)%nat -> ent D i j <= diam D.
Proof.
  intros S Hi Hj. unfold diam. apply zmaxl_ge. apply in_concat.
  exists (nth i D []). split; [apply nth_In; exact Hi|].
  unfold ent. apply nth_In. rewrite dm_row_length by assumption. exact Hj.
Qed.

Lemma diam_attained D : square D -> diam D = 0 \/ exists i j, (i < length D)%nat /\ (j < length D)%nat /\ ent D i j = diam D.
Proof.
  intros S. unfold diam. destruct (zmaxl_attained (concat D)) as [Z0|I]; [left; exact Z0|right].
  apply in_concat in I. destruct I as [r [Hr Hx]].
  destruct (In_nth _ _ [] Hr) as [i [Hi Ei]]. destruct (In_nth _ _ 0 Hx) as [j [Hj Ej]].
  exists i, j. split; [exact Hi|]. split.
  - rewrite <- Ei in Hj. rewrite dm_row_length in Hj by assumption. exact Hj.
  - unfold ent. rewrite Ei. exact Ej.
Qed.

Lemma diam_nonneg D : 0 <= diam D.
Proof. apply zmaxl_nonneg. Qed.

(* ---- pigeonhole, constructively *)
Lemma dup_or_nodup (l : list nat) :
  NoDup l \/ exists i j, (i < j)%nat /\ (j < length l)%nat /\ nth i l 0%nat = nth j l 0%nat.
Proof.
  induction l as [|a t IH]; [left; constructor|].
  destruct (in_dec Nat.eq_dec a t) as [I|NI].
  - right. destruct (In_nth _ _ 0%nat I) as [j [Hj Ej]]. exists 0%nat, (S j). simpl. repeat split; try lia; try (symmetry; exact Ej).
  - destruct IH as [ND|[i [j [H1 [H2 H3]]]]].
    + left. constructor; assumption.
    + right. exists (S i), (S j). simpl. repeat split; try lia; try exact H3.
Qed.

Lemma pigeonhole (l : list nat) (m : nat) :
  Forall (fun y => (y < m)%nat) l -> (m < length l)%nat ->
  exists i j, (i < j)%nat /\ (j < length l)%nat /\ nth i l 0%nat = nth j l 0%nat.
Proof.
  intros F L. destruct (dup_or_nodup l) as [ND|E]; [|exact E]. exfalso.
  assert (I : incl l (seq 0 m)).
  { intros x Hx. rewrite Forall_forall in F. apply in_seq. specialize (F x Hx). lia. }
  pose proof (NoDup_incl_length ND I) as Q. rewrite seq_length in Q. lia.
Qed.
