(* C05: assembly - estimate brackets 2 mGH; half-integers; isometric spaces. *)
From Coq Require Import ZArith QArith List Bool Arith Lia.
From Persim Require Import Spec.MGH Model.MGHM Proofs.MGHBasics Proofs.MGHUb Proofs.MGHLb.
Import ListNotations.
Open Scope Z_scope.

Lemma ub_loop_nonneg DX DY goal : forall samples cur u,
  (forall c, cur = Some c -> 0 <= c) -> ub_loop DX DY goal cur samples = Some u -> 0 <= u.
Proof.
  induction samples as [|[pi y0] rest IH]; intros cur u W E; simpl in E; [apply W; exact E|].
  destruct pi as [|x0 t]; [discriminate|]. simpl in E.
  pose proof (cm_loop_nonneg DX DY t [x0] [y0] 0 (Z.le_refl 0)) as N.
  destruct (cm_loop DX DY t [x0] [y0] 0) as [ys dist]. simpl in N.
  assert (Wc : 0 <= omin dist cur).
  { destruct cur as [c|]; simpl; [specialize (W c eq_refl); lia|exact N]. }
  destruct (omin dist cur <=? goal).
  - injection E as <-. exact Wc.
  - apply (IH (Some (omin dist cur)) u); [|exact E]. intros c Hc. injection Hc as <-. exact Wc.
Qed.

Lemma find_ub_nonneg DX DY s1 s2 lb u : find_ub DX DY s1 s2 lb = Some u -> 0 <= u.
Proof.
  unfold find_ub, find_ub_of_min_distortion. intros E.
  destruct (ub_loop DX DY lb None s1) as [u1|] eqn:E1; [|discriminate].
  destruct (ub_loop DY DX u1 None s2) as [u2|] eqn:E2; [|discriminate].
  injection E as <-. apply ub_loop_nonneg in E1; [lia|discriminate].
Qed.

Lemma bracket_consistent DX DY L U : two_mgh_ge DX DY L -> two_mgh_le DX DY U -> L <= U.
Proof.
  intros [G|G] [f [g [Vf [Vg ->]]]]; [specialize (G f Vf)|specialize (G g Vg)]; lia.
Qed.

Theorem estimate2_brackets pick DX DY s1 s2 L U : greedy_complete ->
  dmatrix DX -> dmatrix DY ->
  valid_samples (length DX) (length DY) s1 -> valid_samples (length DY) (length DX) s2 ->
  estimate2 pick DX DY s1 s2 = Some (L, U) ->
  two_mgh_ge DX DY L /\ two_mgh_le DX DY U /\ 0 <= L <= U.
Proof.
  intros GC HX HY V1 V2 E. unfold estimate2 in E.
  destruct (find_lb pick DX DY) as [lb|] eqn:EL; [|discriminate].
  destruct (find_ub DX DY s1 s2 lb) as [ub|] eqn:EU; [|discriminate].
  injection E as <- <-.
  destruct (find_lb_sound_modulo_greedy pick DX DY lb GC HX HY EL) as [G P].
  pose proof (find_ub_sound DX DY s1 s2 lb ub HX HY V1 V2 EU) as Ub.
  split; [exact G|]. split; [exact Ub|]. split; [exact P|]. eapply bracket_consistent; eassumption.
Qed.

Theorem estimate_half_integers pick DX DY s1 s2 l u :
  estimate pick DX DY s1 s2 = Some (l, u) ->
  exists a b : Z, 0 <= a /\ 0 <= b /\ l = half a /\ u = half b.
Proof.
  unfold estimate, estimate2. intros E.
  destruct (find_lb pick DX DY) as [lb|] eqn:EL; [|discriminate].
  destruct (find_ub DX DY s1 s2 lb) as [ub|] eqn:EU; [|discriminate].
  injection E as <- <-. exists lb, ub.
  apply find_lb_nonneg in EL. apply find_ub_nonneg in EU. repeat split; lia.
Qed.

Theorem iso_find_lb_zero pick DX DY L : greedy_complete ->
  dmatrix DX -> dmatrix DY -> isometric DX DY -> find_lb pick DX DY = Some L -> L = 0.
Proof.
  intros GC HX HY I E. destruct (find_lb_sound_modulo_greedy pick DX DY L GC HX HY E) as [G P].
  pose proof (iso_any_lb_le_0 DX DY L I G). lia.
Qed.
