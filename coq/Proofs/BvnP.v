(* C13: the pinned high-correlation branch (line 173 `asr > 100`) is refuted against Plackett's
   integral; the intended variant (`asr > -100`) is certified at the same points.
   Values by `interval`, integrals by `integral` (Corr/KernelCorr.v tactics). *)
From Coq Require Import Reals List Lra.
From Coquelicot Require Import Coquelicot.
From Interval Require Import Tactic.
From Persim Require Import Model.KernelM Spec.BvnS Corr.KernelCorr.
Import ListNotations.
Open Scope R_scope.

(* witness 1: (h,k,rho) = (0.1649, 0.2215, 0.925), i.e. P(X <= -h, Y <= -k) *)
Lemma legacy_at_w1 :
  Rabs (Legacy.gaussian_cdf Phi_int (0, 0) (mk_sigma 1 0.925 1) (-0.1649) (-0.2215) - 0.422110831892) <= 1e-9.
Proof. unfold mk_sigma. gauss_case. Qed.

Lemma ref_at_w1 : Rabs (bvn_ref 0 0 1 0.925 1 (-0.1649) (-0.2215) - 0.361927612109) <= 1e-9.
Proof. ref_case; enclose_rint; finish_value. Qed.

Lemma intended_at_w1 :
  Rabs (gaussian_cdf Phi_int (0, 0) (mk_sigma 1 0.925 1) (-0.1649) (-0.2215) - 0.361927612109) <= 1e-9.
Proof. unfold mk_sigma. gauss_case. Qed.

(* witness 2: negative correlation, the pinned code returns a NEGATIVE "probability" *)
Lemma legacy_at_w2 :
  Rabs (Legacy.gaussian_cdf Phi_int (0, 0) (mk_sigma 1 (-0.93) 1) (-0.25) 0 - (-0.024493837408)) <= 1e-9.
Proof. unfold mk_sigma. gauss_case. Qed.

Lemma ref_at_w2 : Rabs (bvn_ref 0 0 1 (-0.93) 1 (-0.25) 0 - 0.022544601670) <= 1e-9.
Proof. ref_case; enclose_rint; finish_value. Qed.

Lemma intended_at_w2 :
  Rabs (gaussian_cdf Phi_int (0, 0) (mk_sigma 1 (-0.93) 1) (-0.25) 0 - 0.022544601670) <= 1e-9.
Proof. unfold mk_sigma. gauss_case. Qed.

Definition valid_cov (sxx sxy syy : R) : Prop :=
  0 < sxx /\ 0 < syy /\ -1 < sxy / sqrt (sxx * syy) < 1.

Lemma valid_w1 : valid_cov 1 0.925 1.
Proof. unfold valid_cov. repeat split; interval. Qed.
Lemma valid_w2 : valid_cov 1 (-0.93) 1.
Proof. unfold valid_cov. repeat split; interval. Qed.

Lemma legacy_refuted :
  exists mx my sxx sxy syy x y, valid_cov sxx sxy syy /\
    Rabs (Legacy.gaussian_cdf Phi_int (mx, my) (mk_sigma sxx sxy syy) x y
          - bvn_ref mx my sxx sxy syy x y) > 1e-7.
Proof. exists 0, 0, 1, 0.925, 1, (-0.1649), (-0.2215). split; [exact valid_w1|].
  generalize legacy_at_w1 ref_at_w1.
  generalize (Legacy.gaussian_cdf Phi_int (0, 0) (mk_sigma 1 0.925 1) (-0.1649) (-0.2215)).
  generalize (bvn_ref 0 0 1 0.925 1 (-0.1649) (-0.2215)). intros a b.
  unfold Rabs. repeat destruct Rcase_abs; lra. Qed.

Lemma legacy_negative :
  exists mx my sxx sxy syy x y, valid_cov sxx sxy syy /\
    Legacy.gaussian_cdf Phi_int (mx, my) (mk_sigma sxx sxy syy) x y < -0.02.
Proof. exists 0, 0, 1, (-0.93), 1, (-0.25), 0. split; [exact valid_w2|].
  generalize legacy_at_w2.
  generalize (Legacy.gaussian_cdf Phi_int (0, 0) (mk_sigma 1 (-0.93) 1) (-0.25) 0). intros a.
  unfold Rabs. destruct Rcase_abs; lra. Qed.

Lemma intended_accurate_at_witnesses :
  Rabs (gaussian_cdf Phi_int (0, 0) (mk_sigma 1 0.925 1) (-0.1649) (-0.2215)
        - bvn_ref 0 0 1 0.925 1 (-0.1649) (-0.2215)) <= 1e-8 /\
  Rabs (gaussian_cdf Phi_int (0, 0) (mk_sigma 1 (-0.93) 1) (-0.25) 0
        - bvn_ref 0 0 1 (-0.93) 1 (-0.25) 0) <= 1e-8.
Proof. split.
  - generalize intended_at_w1 ref_at_w1.
    generalize (gaussian_cdf Phi_int (0, 0) (mk_sigma 1 0.925 1) (-0.1649) (-0.2215)).
    generalize (bvn_ref 0 0 1 0.925 1 (-0.1649) (-0.2215)). intros a b.
    unfold Rabs. repeat destruct Rcase_abs; lra.
  - generalize intended_at_w2 ref_at_w2.
    generalize (gaussian_cdf Phi_int (0, 0) (mk_sigma 1 (-0.93) 1) (-0.25) 0).
    generalize (bvn_ref 0 0 1 (-0.93) 1 (-0.25) 0). intros a b.
    unfold Rabs. repeat destruct Rcase_abs; lra. Qed.
