(* Lemmas for C02 (Wasserstein = min-sum matching cost) and the Wasserstein half of C06. *)
From Coq Require Import Reals List Bool Arith ZArith Permutation Lia Lra.
From Persim Require Import Spec.PartialMatching Spec.WassersteinS Lib.AugMatching Model.WassM.
Import ListNotations.
Open Scope R_scope.

(* ------------------------------------------------------------------ list helpers *)
Lemma nth_map_seq {A} (f : nat -> A) n i d : (i < n)%nat -> nth i (map f (seq 0 n)) d = f i.
Proof.
  intros L. rewrite (nth_indep _ d (f 0%nat)) by (rewrite map_length, seq_length; exact L).
  rewrite map_nth, seq_nth by exact L. reflexivity.
Qed.

Lemma nth_map_in {A B} (f : A -> B) l i da db : (i < length l)%nat -> nth i (map f l) db = f (nth i l da).
Proof.
  intros L. rewrite (nth_indep _ db (f da)) by (rewrite map_length; exact L). apply map_nth.
Qed.

Lemma map_nth_seq {A} (l : list A) d : map (fun i => nth i l d) (seq 0 (length l)) = l.
Proof.
  induction l as [|x l IH]; [reflexivity|]. simpl. f_equal.
  rewrite <- seq_shift, map_map. exact IH.
Qed.

(* ------------------------------------------------------------------ the augmented matrix, cell by cell *)
Section Entry.
  Context {P C : Type} (cpair : P -> P -> C) (cdiag : P -> C) (zero : C) (dflt : P).
  Variables (S T : list P).
  Notation M := (length S).
  Notation N := (length T).
  Notation D := (aug_matrix_gen cpair cdiag zero S T).

  Lemma aug_length : length D = (M + N)%nat.
  Proof. unfold aug_matrix_gen. rewrite app_length, !map_length, !seq_length. reflexivity. Qed.

  Lemma inf_diag_entry (v : list C) i j : (i < length v)%nat -> (j < length v)%nat ->
    nth j (nth i (inf_diag zero v) []) CInf = if Nat.eqb i j then CFin (nth i v zero) else CInf.
  Proof.
    intros Li Lj. unfold inf_diag. rewrite nth_map_seq by exact Li. rewrite nth_map_seq by exact Lj. reflexivity.
  Qed.
  Lemma inf_diag_row_length (v : list C) i : (i < length v)%nat -> length (nth i (inf_diag zero v) []) = length v.
  Proof. intros Li. unfold inf_diag. rewrite nth_map_seq by exact Li. rewrite map_length, seq_length. reflexivity. Qed.

  Lemma entry_ul i j : (i < M)%nat -> (j < N)%nat ->
    entry D i j = CFin (cpair (nth i S dflt) (nth j T dflt)).
  Proof.
    intros Li Lj. unfold entry, aug_matrix_gen.
    rewrite app_nth1 by (rewrite map_length, seq_length; exact Li).
    rewrite nth_map_seq by exact Li.
    rewrite (nth_map_in _ S i dflt) by exact Li.
    rewrite app_nth1 by (rewrite !map_length; exact Lj).
    rewrite map_map. rewrite (nth_map_in _ T j dflt) by exact Lj. reflexivity.
  Qed.

  Lemma entry_ur i j : (i < M)%nat -> (N <= j)%nat -> (j < N + M)%nat ->
    entry D i j = if Nat.eqb (j - N) i then CFin (cdiag (nth i S dflt)) else CInf.
  Proof.
    intros Li Lj Lj'. unfold entry, aug_matrix_gen.
    rewrite app_nth1 by (rewrite map_length, seq_length; exact Li).
    rewrite nth_map_seq by exact Li.
    rewrite (nth_map_in _ S i dflt) by exact Li.
    rewrite app_nth2 by (rewrite !map_length; exact Lj). rewrite !map_length.
    rewrite inf_diag_entry by (rewrite map_length; lia).
    rewrite Nat.eqb_sym. destruct (Nat.eqb (j - N) i); [|reflexivity].
    rewrite (nth_map_in _ S i dflt) by exact Li. reflexivity.
  Qed.

  Lemma entry_ll i j : (M <= i)%nat -> (i < M + N)%nat -> (j < N)%nat ->
    entry D i j = if Nat.eqb (i - M) j then CFin (cdiag (nth j T dflt)) else CInf.
  Proof.
    intros Li Li' Lj. unfold entry, aug_matrix_gen.
    rewrite app_nth2 by (rewrite map_length, seq_length; exact Li). rewrite map_length, seq_length.
    rewrite nth_map_seq by lia.
    rewrite app_nth1 by (rewrite inf_diag_row_length; rewrite map_length; lia).
    rewrite inf_diag_entry by (rewrite map_length; lia).
    destruct (Nat.eqb (i - M) j) eqn:E; [|reflexivity].
    apply Nat.eqb_eq in E. rewrite E. rewrite (nth_map_in _ T j dflt) by exact Lj. reflexivity.
  Qed.

  Lemma entry_lr i j : (M <= i)%nat -> (i < M + N)%nat -> (N <= j)%nat -> (j < N + M)%nat ->
    entry D i j = CFin zero.
  Proof.
    intros Li Li' Lj Lj'. unfold entry, aug_matrix_gen.
    rewrite app_nth2 by (rewrite map_length, seq_length; exact Li). rewrite map_length, seq_length.
    rewrite nth_map_seq by lia.
    rewrite app_nth2 by (rewrite inf_diag_row_length; rewrite map_length; lia).
    rewrite inf_diag_row_length, map_length by (rewrite map_length; lia).
    rewrite (nth_indep _ CInf (CFin zero)) by (rewrite repeat_length; lia).
    apply nth_repeat.
  Qed.

  (* a cell inside the square is np.inf exactly when it is a forbidden cell of the index structure *)
  Lemma entry_forbidden i j : (i < M + N)%nat -> (j < M + N)%nat ->
    forbidden M N (i, j) = true -> entry D i j = CInf.
  Proof.
    intros Li Lj F. unfold forbidden in F. simpl in F.
    apply orb_true_iff in F. destruct F as [F|F];
      apply andb_true_iff in F; destruct F as [F F3]; apply andb_true_iff in F; destruct F as [F1 F2];
      apply negb_true_iff in F3.
    - apply Nat.ltb_lt in F1. apply Nat.leb_le in F2. rewrite entry_ur by lia. rewrite F3. reflexivity.
    - apply Nat.leb_le in F1. apply Nat.ltb_lt in F2. rewrite entry_ll by lia. rewrite F3. reflexivity.
  Qed.
End Entry.

(* ------------------------------------------------------------------ rotation and the diagonal *)
Lemma sqrt2_neq0 : sqrt 2 <> 0.
Proof. apply Rgt_not_eq, sqrt_lt_R0; lra. Qed.

(* lines 79-92: the second coordinate of the diagram rotated by pi/4 is the distance to the diagonal *)
Lemma rot_second_coord_l (p : rpoint) : diag_entry p = diagW p.
Proof.
  destruct p as [b d]. unfold diag_entry, rotate, diagW, cp, sp. simpl.
  rewrite cos_PI4, sin_PI4. field. exact sqrt2_neq0.
Qed.
Lemma rot_second_coord_explicit b d : - b * sin (PI / 4) + d * cos (PI / 4) = (d - b) / sqrt 2.
Proof. rewrite cos_PI4, sin_PI4. field. exact sqrt2_neq0. Qed.

(* distance to a point of the diagonal >= distance to the diagonal line *)
Lemma diag_le_euclid (q : rpoint) (x : R) : diagW q <= euclid q (x, x).
Proof.
  destruct q as [b d]. unfold diagW, euclid. simpl.
  set (r := (b - x) * (b - x) + (d - x) * (d - x)).
  assert (R0 : 0 <= r) by (unfold r; apply Rplus_le_le_0_compat; apply Rle_0_sqr).
  assert (S2 : 0 < sqrt 2) by (apply sqrt_lt_R0; lra).
  destruct (Rle_dec (d - b) 0) as [Neg|Pos].
  - apply Rle_trans with 0; [|apply sqrt_pos].
    unfold Rdiv. assert (0 < / sqrt 2) by (apply Rinv_0_lt_compat; exact S2).
    assert (0 <= (b - d) * / sqrt 2) by (apply Rmult_le_pos; lra). lra.
  - apply Rsqr_incr_0_var; [|apply sqrt_pos].
    rewrite Rsqr_sqrt by exact R0. unfold Rsqr.
    replace ((d - b) / sqrt 2 * ((d - b) / sqrt 2)) with ((d - b) * (d - b) / (sqrt 2 * sqrt 2))
      by (field; exact sqrt2_neq0).
    rewrite sqrt_sqrt by lra. unfold r.
    pose proof (Rle_0_sqr ((b - x) + (d - x))) as Q. unfold Rsqr in Q. lra.
Qed.
Lemma euclid_sym p q : euclid p q = euclid q p.
Proof. unfold euclid. f_equal. ring. Qed.
Lemma diagW_diag x : diagW (x, x) = 0.
Proof. unfold diagW. simpl. unfold Rdiv. ring. Qed.

(* ------------------------------------------------------------------ sums *)
Lemma sumRl_app a b : sumRl (a ++ b) = sumRl a + sumRl b.
Proof. induction a as [|x a IH]; simpl; [ring|]. rewrite IH. ring. Qed.
Lemma sumRl_perm a b : Permutation a b -> sumRl a = sumRl b.
Proof. induction 1; simpl; try lra. Qed.
Lemma sumRl_repeat0 n : sumRl (repeat 0 n) = 0.
Proof. induction n; simpl; lra. Qed.
Lemma sumRl_map_le {A} (f g : A -> R) l : (forall x, In x l -> f x <= g x) -> sumRl (map f l) <= sumRl (map g l).
Proof.
  induction l as [|x l IH]; simpl; intros H; [lra|].
  pose proof (H x (or_introl eq_refl)). assert (sumRl (map f l) <= sumRl (map g l)) by (apply IH; intros; apply H; now right). lra.
Qed.
Lemma sumRl_map_zero {A} (f : A -> R) l : (forall x, In x l -> f x = 0) -> sumRl (map f l) = 0.
Proof.
  induction l as [|x l IH]; simpl; intros H; [reflexivity|].
  rewrite (H x (or_introl eq_refl)), IH; [ring|]. intros; apply H; now right.
Qed.
Lemma sumRl_map_plus {A} (f g : A -> R) l : sumRl (map (fun x => f x + g x) l) = sumRl (map f l) + sumRl (map g l).
Proof. induction l as [|x l IH]; simpl; [ring|]. rewrite IH. ring. Qed.

Definition xval (c : xcost R) : R := match c with CFin x => x | CInf => 0 end.
Definition isfin (c : xcost R) : Prop := match c with CFin _ => True | CInf => False end.

Lemma xsum_fin l : Forall isfin l -> xsum l = CFin (sumRl (map xval l)).
Proof.
  induction 1 as [|c l F _ IH]; [reflexivity|]. simpl. rewrite IH.
  destruct c; [reflexivity|destruct F].
Qed.
Lemma xsum_CFin_inv l s : xsum l = CFin s -> Forall isfin l /\ s = sumRl (map xval l).
Proof.
  revert s. induction l as [|c l IH]; simpl; intros s H.
  - inversion H. split; [constructor|reflexivity].
  - destruct c as [x|]; [|discriminate]. destruct (xsum l) as [y|] eqn:E; [|discriminate].
    inversion H. destruct (IH y eq_refl) as [F V]. split; [constructor; [exact I|exact F]|].
    simpl. rewrite <- V. reflexivity.
Qed.
Lemma isfin_CFin c : isfin c -> c = CFin (xval c).
Proof. destruct c; [reflexivity|intros []]. Qed.

(* ------------------------------------------------------------------ assignments = perfect matchings of the square *)
Lemma combine_fst_snd {A B} (E : list (A * B)) : combine (map fst E) (map snd E) = E.
Proof. induction E as [|[a b] E IH]; simpl; [reflexivity|]. rewrite IH. reflexivity. Qed.

Lemma assignment_perfect K mi mj : is_assignment K mi mj -> perfect_on K (combine mi mj).
Proof.
  intros (L & P1 & P2). split.
  - rewrite map_fst_combine by exact L. exact P1.
  - rewrite map_snd_combine by exact L. exact P2.
Qed.
Lemma perfect_assignment K E : perfect_on K E -> is_assignment K (map fst E) (map snd E).
Proof. intros [P1 P2]. split; [rewrite !map_length; reflexivity|split; assumption]. Qed.

Lemma perfect_bounds K E c : perfect_on K E -> In c E -> (fst c < K)%nat /\ (snd c < K)%nat.
Proof.
  intros [P1 P2] I. split.
  - assert (J : In (fst c) (seq 0 K)) by (eapply Permutation_in; [exact P1|apply in_map; exact I]).
    apply in_seq in J. lia.
  - assert (J : In (snd c) (seq 0 K)) by (eapply Permutation_in; [exact P2|apply in_map; exact I]).
    apply in_seq in J. lia.
Qed.

Definition cells {C} (D : list (list (xcost C))) (E : list (nat * nat)) : list (xcost C) :=
  map (fun ij => entry D (fst ij) (snd ij)) E.
Lemma gather_cells {C} (D : list (list (xcost C))) mi mj : gather D mi mj = cells D (combine mi mj).
Proof. reflexivity. Qed.
Lemma gather_of_cells {C} (D : list (list (xcost C))) E : gather D (map fst E) (map snd E) = cells D E.
Proof. unfold gather. rewrite combine_fst_snd. reflexivity. Qed.

Lemma add_sub_eqb a b : (a + b - a =? b)%nat = true.
Proof. apply Nat.eqb_eq. lia. Qed.
Ltac nlia := unfold rpoint in *; lia.

(* ------------------------------------------------------------------ the model's matrix and the index structure *)
Section Bridge.
  Variables (S T : list rpoint).
  Notation M := (length S).
  Notation N := (length T).
  Notation D := (aug_matrix S T).
  Definition cval (ij : nat * nat) : R := xval (entry D (fst ij) (snd ij)).

  Lemma cval_ul i j : (i < M)%nat -> (j < N)%nat -> cval (i, j) = euclid (nth i S (0,0)) (nth j T (0,0)).
  Proof. intros. unfold cval, aug_matrix. simpl. rewrite (entry_ul _ _ _ (0,0)) by (unfold rpoint in *; assumption). reflexivity. Qed.
  Lemma cval_ur i : (i < M)%nat -> cval (i, (N + i)%nat) = diagW (nth i S (0,0)).
  Proof.
    intros. unfold cval, aug_matrix. simpl. rewrite (entry_ur _ _ _ (0,0)) by nlia.
    rewrite add_sub_eqb. simpl. apply rot_second_coord_l.
  Qed.
  Lemma cval_ll j : (j < N)%nat -> cval ((M + j)%nat, j) = diagW (nth j T (0,0)).
  Proof.
    intros. unfold cval, aug_matrix. simpl. rewrite (entry_ll _ _ _ (0,0)) by nlia.
    rewrite add_sub_eqb. simpl. apply rot_second_coord_l.
  Qed.
  Lemma cval_lr i j : (M <= i)%nat -> (N <= j)%nat -> cval (i, j) = 0.
  Proof.
    intros Li Lj. unfold cval, aug_matrix. simpl.
    destruct (lt_dec i (M + N)) as [Hi|Hi]; [destruct (lt_dec j (N + M)) as [Hj|Hj]|].
    - rewrite entry_lr by (unfold rpoint in *; assumption). reflexivity.
    - unfold entry. rewrite (nth_overflow (nth i _ _)); [reflexivity|].
      unfold aug_matrix_gen. rewrite app_nth2 by (rewrite map_length, seq_length; exact Li).
      rewrite map_length, seq_length. rewrite nth_map_seq by nlia.
      rewrite app_length, repeat_length, inf_diag_row_length by (rewrite map_length; lia).
      rewrite map_length. nlia.
    - unfold entry. rewrite (nth_overflow _ []) by (rewrite aug_length; lia). destruct j; reflexivity.
  Qed.

  Lemma cell_fin_iff i j : (i < M + N)%nat -> (j < M + N)%nat ->
    (isfin (entry D i j) <-> forbidden M N (i, j) = false).
  Proof.
    intros Li Lj. split.
    - intros F. destruct (forbidden M N (i, j)) eqn:E; [|reflexivity].
      unfold aug_matrix in F. rewrite (entry_forbidden _ _ _ (0,0)) in F by (unfold rpoint in *; assumption). destruct F.
    - intros F. unfold forbidden in F. simpl in F. apply orb_false_iff in F. destruct F as [F1 F2].
      unfold aug_matrix. unfold rpoint in *.
      destruct (lt_dec i M) as [Hi|Hi]; destruct (lt_dec j N) as [Hj|Hj].
      + rewrite (entry_ul _ _ _ (0,0)) by (unfold rpoint in *; assumption). exact I.
      + rewrite (entry_ur _ _ _ (0,0)) by nlia.
        assert (A : (i <? M)%nat = true) by (apply Nat.ltb_lt; exact Hi).
        assert (B : (N <=? j)%nat = true) by (apply Nat.leb_le; lia).
        rewrite A, B in F1. simpl in F1. apply negb_false_iff in F1. rewrite F1. exact I.
      + rewrite (entry_ll _ _ _ (0,0)) by nlia.
        assert (A : (M <=? i)%nat = true) by (apply Nat.leb_le; lia).
        assert (B : (j <? N)%nat = true) by (apply Nat.ltb_lt; exact Hj).
        rewrite A, B in F2. simpl in F2. apply negb_false_iff in F2. rewrite F2. exact I.
      + rewrite entry_lr by nlia. exact I.
  Qed.

  Lemma avoids_fin E : perfect_on (M + N) E -> avoids M N E -> Forall isfin (cells D E).
  Proof.
    intros PE AV. apply Forall_forall. intros c I. apply in_map_iff in I. destruct I as [ij [<- I]].
    destruct (perfect_bounds _ _ _ PE I). apply cell_fin_iff; try (unfold rpoint in *; assumption).
    rewrite <- surjective_pairing. apply AV, I.
  Qed.
  Lemma fin_avoids E : perfect_on (M + N) E -> Forall isfin (cells D E) -> avoids M N E.
  Proof.
    intros PE F ij I. destruct (perfect_bounds _ _ _ PE I).
    rewrite (surjective_pairing ij). apply cell_fin_iff; try (unfold rpoint in *; assumption).
    rewrite Forall_forall in F. apply F. apply in_map_iff. exists ij. split; [reflexivity|exact I].
  Qed.
  Lemma cells_val E : map xval (cells D E) = map cval E.
  Proof. unfold cells. rewrite map_map. reflexivity. Qed.

  (* every assignment of finite total cost pays exactly the cost of a valid partial matching *)
  Lemma assignment_to_matching E s : perfect_on (M + N) E -> xsum (cells D E) = CFin s ->
    exists m, valid_for S T m /\ wcost S T m = s.
  Proof.
    intros PE X. apply xsum_CFin_inv in X. destruct X as [F ->].
    pose proof (fin_avoids E PE F) as AV.
    exists (restrict M N E). split; [apply restrict_valid; exact PE|].
    rewrite cells_val.
    rewrite (sumRl_perm _ _ (costs_restrict euclid diagW (0,0) 0 S T cval cval_ul cval_ur cval_ll cval_lr E PE AV)).
    rewrite sumRl_app, sumRl_repeat0. unfold wcost, wcosts. ring.
  Qed.

  (* every valid partial matching is realised by an assignment of the same cost *)
  Lemma matching_to_assignment m : valid_for S T m ->
    exists E, perfect_on (M + N) E /\ xsum (cells D E) = CFin (wcost S T m).
  Proof.
    intros V. exists (extend M N m). pose proof (extend_perfect _ _ _ V) as PE.
    split; [exact PE|].
    rewrite xsum_fin by (apply avoids_fin; [exact PE|apply extend_avoids; exact V]).
    f_equal. rewrite cells_val.
    rewrite (sumRl_perm _ _ (costs_extend euclid diagW (0,0) 0 S T cval cval_ul cval_ur cval_ll cval_lr m V)).
    rewrite sumRl_app, sumRl_repeat0. unfold wcost, wcosts. ring.
  Qed.

  (* the optimal assignment of the augmented matrix has the min-sum matching cost *)
  Lemma aug_matrix_length : length D = (M + N)%nat.
  Proof. apply aug_length. Qed.

  Lemma optimal_is_wasserstein r : optimal_assignment D r ->
    exists v, xsum (gather D (fst r) (snd r)) = CFin v /\ is_wasserstein S T v.
  Proof.
    intros [A O]. rewrite aug_matrix_length in A, O.
    assert (V0 : valid_for S T []).
    { split; [constructor|split; [constructor|intros p []]]. }
    destruct (matching_to_assignment [] V0) as [E0 [PE0 X0]].
    pose proof (O _ _ (perfect_assignment _ _ PE0)) as L0.
    rewrite gather_of_cells, X0 in L0.
    destruct (xsum (gather D (fst r) (snd r))) as [v|] eqn:X; [|destruct L0].
    exists v. split; [reflexivity|]. split.
    - apply (assignment_to_matching (combine (fst r) (snd r))); [|exact X].
      apply assignment_perfect. exact A.
    - intros m V. destruct (matching_to_assignment m V) as [E [PE XE]].
      pose proof (O _ _ (perfect_assignment _ _ PE)) as L. rewrite gather_of_cells, XE in L. exact L.
  Qed.
End Bridge.

(* ------------------------------------------------------------------ facts about the spec minimum *)
Lemma is_wasserstein_unique S T v v' : is_wasserstein S T v -> is_wasserstein S T v' -> v = v'.
Proof.
  intros [[m [V E]] L] [[m' [V' E']] L'].
  pose proof (L m' V'). pose proof (L' m V). lra.
Qed.

Definition swap (p : nat * nat) : nat * nat := (snd p, fst p).
Lemma map_fst_swap m : map fst (map swap m) = map snd m.
Proof. rewrite map_map. reflexivity. Qed.
Lemma map_snd_swap m : map snd (map swap m) = map fst m.
Proof. rewrite map_map. reflexivity. Qed.
Lemma valid_swap M N m : valid_pm M N m -> valid_pm N M (map swap m).
Proof.
  intros (N1 & N2 & B). unfold valid_pm. rewrite map_fst_swap, map_snd_swap.
  split; [exact N2|split; [exact N1|]].
  intros p I. apply in_map_iff in I. destruct I as [q [<- I]]. simpl. destruct (B q I). split; assumption.
Qed.
Lemma wcost_swap S T m : wcost T S (map swap m) = wcost S T m.
Proof.
  unfold wcost, wcosts, pm_costs, unmatched_l, unmatched_r.
  rewrite map_fst_swap, map_snd_swap, !sumRl_app, map_map. simpl.
  rewrite (map_ext (fun x => euclid (nth (snd x) T (0, 0)) (nth (fst x) S (0, 0)))
                   (fun x => euclid (nth (fst x) S (0, 0)) (nth (snd x) T (0, 0))))
    by (intros; apply euclid_sym).
  ring.
Qed.
Lemma swap_swap m : map swap (map swap m) = m.
Proof. rewrite map_map. rewrite <- (map_id m) at 2. apply map_ext. intros [a b]. reflexivity. Qed.

Lemma is_wasserstein_sym S T v : is_wasserstein S T v -> is_wasserstein T S v.
Proof.
  intros [[m [V E]] L]. split.
  - exists (map swap m). split; [apply valid_swap; exact V|]. rewrite wcost_swap. exact E.
  - intros m' V'. rewrite <- (swap_swap m'), wcost_swap. apply L. apply valid_swap. exact V'.
Qed.

Definition total_pers (T : list rpoint) : R := sumRl (map diagW T).

Lemma unmatched_nil n : unmatched [] n = seq 0 n.
Proof.
  unfold unmatched. generalize (seq 0 n). intros l. induction l as [|x l IH]; [reflexivity|].
  simpl. f_equal. exact IH.
Qed.
Lemma sum_diag_seq T : sumRl (map (fun j => diagW (nth j T (0, 0))) (seq 0 (length T))) = total_pers T.
Proof.
  unfold total_pers.
  transitivity (sumRl (map diagW (map (fun j => nth j T (0, 0)) (seq 0 (length T))))).
  - rewrite map_map. reflexivity.
  - rewrite map_nth_seq. reflexivity.
Qed.
Lemma wcost_nil S T : wcost S T [] = total_pers S + total_pers T.
Proof.
  unfold wcost, wcosts, pm_costs, unmatched_l, unmatched_r. simpl. rewrite !unmatched_nil.
  rewrite sumRl_app, !sum_diag_seq. reflexivity.
Qed.
Lemma valid_nil {P} (S T : list P) : valid_for S T [].
Proof. split; [constructor|split; [constructor|intros p []]]. Qed.

Definition all_diag (P : list rpoint) : Prop := forall p, In p P -> fst p = snd p.
Lemma nth_all_diag P i : all_diag P -> diagW (nth i P (0, 0)) = 0 /\ exists x, nth i P (0, 0) = (x, x).
Proof.
  intros A. destruct (nth_in_or_default i P (0, 0)) as [I|E].
  - specialize (A _ I). destruct (nth i P (0, 0)) as [a b]. simpl in A. subst. split; [apply diagW_diag|eauto].
  - rewrite E. split; [apply diagW_diag|eauto].
Qed.
Lemma total_pers_all_diag P : all_diag P -> total_pers P = 0.
Proof.
  intros A. apply sumRl_map_zero. intros [a b] I. specialize (A _ I). simpl in A. subst. apply diagW_diag.
Qed.

(* against a diagram made of diagonal points every matching pays at least the total persistence *)
Lemma wcost_lower_diag P T m : all_diag P -> valid_for P T m -> total_pers T <= wcost P T m.
Proof.
  intros A V. unfold wcost, wcosts, pm_costs. rewrite !sumRl_app.
  set (g := fun j => diagW (nth j T (0, 0))).
  assert (E1 : sumRl (map (fun p => g (snd p)) m)
               <= sumRl (map (fun p => euclid (nth (fst p) P (0, 0)) (nth (snd p) T (0, 0))) m)).
  { apply sumRl_map_le. intros p _. unfold g.
    destruct (nth_all_diag P (fst p) A) as [_ [x ->]]. rewrite euclid_sym. apply diag_le_euclid. }
  assert (E2 : sumRl (map (fun i => diagW (nth i P (0, 0))) (unmatched_l (length P) m)) = 0).
  { apply sumRl_map_zero. intros i _. apply (nth_all_diag P i A). }
  assert (E3 : sumRl (map (fun p => g (snd p)) m) + sumRl (map g (unmatched_r (length T) m)) = total_pers T).
  { rewrite <- sum_diag_seq. fold g. rewrite <- (map_map snd g), <- sumRl_app, <- map_app.
    apply sumRl_perm, Permutation_map. unfold unmatched_r.
    destruct (valid_pm_snd _ _ _ V) as [ND B]. apply unmatched_perm; assumption. }
  fold g. lra.
Qed.

(* value against a diagram that consists of diagonal points only (in particular the empty diagram
   and the [(0,0)] placeholder): the total persistence / sqrt 2 of the other diagram *)
Lemma wass_all_diag P T : all_diag P -> is_wasserstein P T (total_pers T).
Proof.
  intros A. split.
  - exists []. split; [apply valid_nil|]. rewrite wcost_nil, (total_pers_all_diag P A). ring.
  - intros m V. apply wcost_lower_diag; assumption.
Qed.

Lemma all_diag_nil : all_diag [].
Proof. intros p []. Qed.
Lemma all_diag_placeholder : all_diag [(0, 0)].
Proof. intros p [<-|[]]. reflexivity. Qed.

(* lines 67-72: replacing an empty diagram by [(0,0)] does not change the minimum *)
Lemma placeholder_neutral_l S T v : is_wasserstein (placeholder 0 S) T v -> is_wasserstein S T v.
Proof.
  destruct S as [|p S]; [|exact (fun H => H)]. simpl. intros H.
  rewrite (is_wasserstein_unique _ _ _ _ H (wass_all_diag _ T all_diag_placeholder)).
  apply wass_all_diag, all_diag_nil.
Qed.
Lemma placeholder_neutral S T v :
  is_wasserstein (placeholder 0 S) (placeholder 0 T) v -> is_wasserstein S T v.
Proof.
  intros H. apply placeholder_neutral_l, is_wasserstein_sym, placeholder_neutral_l, is_wasserstein_sym. exact H.
Qed.

(* ------------------------------------------------------------------ C02 *)
Section Correct.
  Variable lsa : list (list (xcost R)) -> lsa_result.

  Theorem wasserstein_correct_l (matching : bool) (dgm1 dgm2 : list (xpt R)) :
    lsa_optimal_on lsa dgm1 dgm2 ->
    exists v, w_dist (wasserstein lsa matching dgm1 dgm2) = CFin v /\
              is_wasserstein (finite_pts dgm1) (finite_pts dgm2) v.
  Proof.
    intros O. destruct (optimal_is_wasserstein _ _ _ O) as [v [X W]].
    exists v. split; [exact X|]. apply placeholder_neutral. exact W.
  Qed.

  Lemma matching_flag_irrelevant_l dgm1 dgm2 :
    w_dist (wasserstein lsa true dgm1 dgm2) = w_dist (wasserstein lsa false dgm1 dgm2).
  Proof. reflexivity. Qed.

  Lemma finite_pts_app {A} (a b : list (xpt A)) : finite_pts (a ++ b) = finite_pts a ++ finite_pts b.
  Proof. unfold finite_pts. apply flat_map_app. Qed.
  Lemma finite_pts_drop {A} (a b : list (xpt A)) x : finite_pts (a ++ (x, None) :: b) = finite_pts (a ++ b).
  Proof. rewrite !finite_pts_app. reflexivity. Qed.
  Lemma finite_pts_length {A} (a : list (xpt A)) : (length (finite_pts a) <= length a)%nat.
  Proof.
    induction a as [|[x [d|]] a IH]; simpl; [lia| |]; unfold finite_pts in *; simpl; lia.
  Qed.
  Lemma dropped_true {A} (a b : list (xpt A)) x : dropped (a ++ (x, None) :: b) = true.
  Proof.
    unfold dropped. apply Nat.ltb_lt. rewrite finite_pts_app, !app_length. simpl.
    change (finite_pts ((x, None) :: b)) with (finite_pts b).
    pose proof (finite_pts_length a). pose proof (finite_pts_length b). lia.
  Qed.

  (* points with a non-finite death do not influence the result; the warning is raised *)
  Theorem infinite_deaths_ignored_l matching (a b : list (xpt R)) (x : R) dgm2 :
    w_dist (wasserstein lsa matching (a ++ (x, None) :: b) dgm2) = w_dist (wasserstein lsa matching (a ++ b) dgm2) /\
    w_rows (wasserstein lsa matching (a ++ (x, None) :: b) dgm2) = w_rows (wasserstein lsa matching (a ++ b) dgm2) /\
    w_dist (wasserstein lsa matching dgm2 (a ++ (x, None) :: b)) = w_dist (wasserstein lsa matching dgm2 (a ++ b)) /\
    w_rows (wasserstein lsa matching dgm2 (a ++ (x, None) :: b)) = w_rows (wasserstein lsa matching dgm2 (a ++ b)) /\
    fst (w_warn (wasserstein lsa matching (a ++ (x, None) :: b) dgm2)) = true /\
    snd (w_warn (wasserstein lsa matching dgm2 (a ++ (x, None) :: b))) = true.
  Proof.
    unfold wasserstein. cbn [w_dist w_rows w_warn fst snd]. rewrite !finite_pts_drop, !dropped_true. repeat split.
  Qed.

  (* value against the empty diagram: total persistence / sqrt 2 *)
  Theorem wasserstein_vs_empty_l matching dgm1 :
    lsa_optimal_on lsa dgm1 [] ->
    w_dist (wasserstein lsa matching dgm1 []) = CFin (sumRl (map diagW (finite_pts dgm1))).
  Proof.
    intros O. destruct (wasserstein_correct_l matching _ _ O) as [v [X W]]. rewrite X. f_equal.
    apply (is_wasserstein_unique _ _ _ _ W). apply is_wasserstein_sym. apply (wass_all_diag []), all_diag_nil.
  Qed.
End Correct.

(* ------------------------------------------------------------------ weak LP duality *)
Lemma sum_nth_perm (u : list R) (l : list nat) : Permutation l (seq 0 (length u)) ->
  sumRl (map (fun i => nth i u 0) l) = sumRl u.
Proof.
  intros P. rewrite (sumRl_perm _ _ (Permutation_map _ P)). rewrite map_nth_seq. reflexivity.
Qed.

Theorem weak_duality_l (D : list (list (xcost R))) (u v : list R) mi mj s :
  length u = length D -> length v = length D ->
  (forall i j c, (i < length D)%nat -> (j < length D)%nat -> entry D i j = CFin c -> nth i u 0 + nth j v 0 <= c) ->
  is_assignment (length D) mi mj -> xsum (gather D mi mj) = CFin s ->
  sumRl u + sumRl v <= s.
Proof.
  intros Lu Lv F A X. pose proof (assignment_perfect _ _ _ A) as PE.
  rewrite gather_cells in X. apply xsum_CFin_inv in X. destruct X as [Fin ->].
  set (E := combine mi mj) in *.
  assert (H : sumRl (map (fun ij => nth (fst ij) u 0 + nth (snd ij) v 0) E) <= sumRl (map xval (cells D E))).
  { unfold cells. rewrite map_map. apply sumRl_map_le. intros ij I.
    destruct (perfect_bounds _ _ _ PE I). apply F; try assumption.
    apply isfin_CFin. rewrite Forall_forall in Fin. apply Fin. unfold cells. apply in_map_iff.
    exists ij. split; [reflexivity|exact I]. }
  rewrite sumRl_map_plus in H.
  rewrite <- (map_map fst (fun i => nth i u 0)), <- (map_map snd (fun j => nth j v 0)) in H.
  destruct PE as [P1 P2]. rewrite <- Lu in P1. rewrite <- Lv in P2.
  rewrite (sum_nth_perm u _ P1), (sum_nth_perm v _ P2) in H. exact H.
Qed.

(* ------------------------------------------------------------------ C06, Wasserstein half *)
From Persim Require Import Spec.WassCertS.

Lemma Permutation_filter {A} (f : A -> bool) l l' : Permutation l l' -> Permutation (filter f l) (filter f l').
Proof.
  induction 1 as [|x l l' P IH|x y l|l l' l'' P1 IH1 P2 IH2]; simpl.
  - constructor.
  - destruct (f x); [constructor|]; exact IH.
  - destruct (f x), (f y); try apply Permutation_refl. apply perm_swap.
  - eapply Permutation_trans; eassumption.
Qed.
Lemma filter_map_swap {A B} (p : B -> bool) (f : A -> B) l :
  filter p (map f l) = map f (filter (fun x => p (f x)) l).
Proof. induction l as [|x l IH]; simpl; [reflexivity|]. destruct (p (f x)); simpl; rewrite IH; reflexivity. Qed.
Lemma filter_map_filter {A B} (p : B -> bool) (q : A -> bool) (f : A -> B) l :
  (forall x, In x l -> q x = false -> p (f x) = false) ->
  filter p (map f (filter q l)) = filter p (map f l).
Proof.
  induction l as [|x l IH]; simpl; intros H; [reflexivity|].
  assert (IH' : filter p (map f (filter q l)) = filter p (map f l)) by (apply IH; intros; apply H; [now right|assumption]).
  destruct (q x) eqn:Q; simpl.
  - rewrite IH'. reflexivity.
  - rewrite (H x (or_introl eq_refl) Q). exact IH'.
Qed.
Lemma filter_map_all {A B} (p : B -> bool) (f : A -> B) l :
  (forall x, In x l -> p (f x) = true) -> filter p (map f l) = map f l.
Proof.
  induction l as [|x l IH]; simpl; intros H; [reflexivity|].
  rewrite (H x (or_introl eq_refl)). f_equal. apply IH. intros; apply H; now right.
Qed.
Lemma filter_map_none {A B} (p : B -> bool) (f : A -> B) l :
  (forall x, In x l -> p (f x) = false) -> filter p (map f l) = [].
Proof.
  induction l as [|x l IH]; simpl; intros H; [reflexivity|].
  rewrite (H x (or_introl eq_refl)). apply IH. intros; apply H; now right.
Qed.
Lemma sumRl_map_filter {A} (f : A -> R) (q : A -> bool) l :
  (forall x, In x l -> q x = false -> f x = 0) -> sumRl (map f (filter q l)) = sumRl (map f l).
Proof.
  induction l as [|x l IH]; simpl; intros H; [reflexivity|].
  assert (IH' : sumRl (map f (filter q l)) = sumRl (map f l)) by (apply IH; intros; apply H; [now right|assumption]).
  destruct (q x) eqn:Q; simpl; rewrite IH'; [reflexivity|]. rewrite (H x (or_introl eq_refl) Q). ring.
Qed.

(* -1 for indices beyond the diagram (lines 103-104) *)
Definition zidx (M i : nat) : Z := if (M <=? i)%nat then (-1)%Z else Z.of_nat i.
Definition nz (z : Z) : bool := negb (Z.eqb z (-1)).

Lemma zidx_named M N : filter nz (map (zidx M) (seq 0 (M + N))) = map Z.of_nat (seq 0 M).
Proof.
  rewrite seq_app, map_app, filter_app. simpl.
  rewrite filter_map_all, filter_map_none, app_nil_r.
  - apply map_ext_in. intros i I. apply in_seq in I. unfold zidx.
    destruct (Nat.leb_spec M i); [lia|reflexivity].
  - intros i I. apply in_seq in I. unfold zidx, nz. destruct (Nat.leb_spec M i); [reflexivity|lia].
  - intros i I. apply in_seq in I. unfold zidx, nz. destruct (Nat.leb_spec M i); [lia|].
    destruct (Z.eqb_spec (Z.of_nat i) (-1)); [lia|reflexivity].
Qed.
Lemma zidx_m1 M i : zidx M i = (-1)%Z <-> (M <= i)%nat.
Proof. unfold zidx. destruct (Nat.leb_spec M i); split; intros; try lia; reflexivity. Qed.

Definition keep_cell (M N : nat) (ij : nat * nat) : bool := negb ((M <=? fst ij)%nat && (N <=? snd ij)%nat).

Lemma keep_row_cell {C} M N (D : list (list (xcost C))) ij : keep_row (mk_row M N D ij) = keep_cell M N ij.
Proof.
  unfold keep_row, mk_row, keep_cell. cbn [fst snd]. f_equal.
  destruct (Nat.leb_spec M (fst ij)), (Nat.leb_spec N (snd ij)); cbn [andb];
    match goal with |- context [Z.eqb ?a ?b] => destruct (Z.eqb_spec a b) end; try reflexivity; lia.
Qed.

Section Cert.
  Variables (S T : list rpoint).
  Notation M := (length S).
  Notation N := (length T).
  Notation D := (aug_matrix S T).

  Definition crow_of (ij : nat * nat) : crow := (zidx M (fst ij), zidx N (snd ij), cval S T ij).
  Definition lift (r : crow) : row R := (fst r, CFin (snd r)).

  Lemma rows_of_cells E : Forall isfin (cells D E) ->
    matching_rows M N D (map fst E) (map snd E) = map lift (map crow_of (filter (keep_cell M N) E)).
  Proof.
    intros F. unfold matching_rows. rewrite combine_fst_snd, filter_map_swap.
    rewrite (filter_ext _ (keep_cell M N)) by (intros; apply keep_row_cell).
    rewrite map_map. apply map_ext_in. intros ij I. apply filter_In in I. destruct I as [I _].
    unfold mk_row, lift, crow_of, zidx, cval. cbn [fst snd]. f_equal.
    apply isfin_CFin. rewrite Forall_forall in F. apply F. apply in_map_iff. exists ij. split; [reflexivity|exact I].
  Qed.

  Lemma cert_of_assignment E : perfect_on (M + N) E -> Forall isfin (cells D E) ->
    wass_cert S T (sumRl (map xval (cells D E))) (map crow_of (filter (keep_cell M N) E)).
  Proof.
    intros PE F. pose proof (fin_avoids S T E PE F) as AV. destruct PE as [P1 P2].
    split; [|split; [|split]].
    - unfold named. change (fun z => negb (Z.eqb z (-1))) with nz. rewrite map_map.
      rewrite (map_ext _ (fun ij => zidx M (fst ij))) by (intros; reflexivity).
      rewrite filter_map_filter.
      + rewrite <- (map_map fst (zidx M)), <- (zidx_named M N).
        apply Permutation_filter, Permutation_map. exact P1.
      + intros ij _ K. unfold keep_cell in K. apply negb_false_iff, andb_true_iff in K. destruct K as [K _].
        unfold nz, zidx. rewrite K. reflexivity.
    - unfold named. change (fun z => negb (Z.eqb z (-1))) with nz. rewrite map_map.
      rewrite (map_ext _ (fun ij => zidx N (snd ij))) by (intros; reflexivity).
      rewrite filter_map_filter.
      + rewrite <- (map_map snd (zidx N)), <- (zidx_named N M), (Nat.add_comm N M).
        apply Permutation_filter, Permutation_map. exact P2.
      + intros ij _ K. unfold keep_cell in K. apply negb_false_iff, andb_true_iff in K. destruct K as [_ K].
        unfold nz, zidx. rewrite K. reflexivity.
    - intros r I. apply in_map_iff in I. destruct I as [[i j] [<- I]].
      apply filter_In in I. destruct I as [I K].
      destruct (perfect_bounds _ _ _ (conj P1 P2) I) as [Bi Bj]. cbn [fst snd] in Bi, Bj.
      pose proof (AV _ I) as NF. unfold forbidden in NF. cbn [fst snd] in NF.
      unfold keep_cell in K. cbn [fst snd] in K.
      unfold row_cost, pairing_cost, col0, col1, cst, crow_of. cbn [fst snd]. unfold zidx.
      destruct (Nat.leb_spec M i) as [Hi|Hi]; destruct (Nat.leb_spec N j) as [Hj|Hj]; simpl in K; try discriminate.
      + (* diagonal partner for T_j *)
        assert (A : (i <? M)%nat = false) by (apply Nat.ltb_ge; exact Hi).
        assert (B : (M <=? i)%nat = true) by (apply Nat.leb_le; exact Hi).
        assert (C : (j <? N)%nat = true) by (apply Nat.ltb_lt; exact Hj).
        rewrite ?A, ?B, ?C in NF. simpl in NF. apply negb_false_iff, Nat.eqb_eq in NF.
        split; [intros [_ Q]; lia|]. simpl.
        destruct (Z.eqb_spec (Z.of_nat j) (-1)); [lia|]. rewrite Nat2Z.id.
        replace i with (M + j)%nat by lia. apply cval_ll. exact Hj.
      + (* diagonal partner for S_i *)
        assert (A : (i <? M)%nat = true) by (apply Nat.ltb_lt; exact Hi).
        assert (B : (N <=? j)%nat = true) by (apply Nat.leb_le; exact Hj).
        rewrite ?A, ?B in NF. simpl in NF. apply orb_false_iff in NF. destruct NF as [NF _].
        apply negb_false_iff, Nat.eqb_eq in NF.
        split; [intros [Q _]; lia|].
        destruct (Z.eqb_spec (Z.of_nat i) (-1)); [lia|]. simpl. rewrite Nat2Z.id.
        replace j with (N + i)%nat by lia. apply cval_ur. exact Hi.
      + split; [intros [Q _]; lia|].
        destruct (Z.eqb_spec (Z.of_nat i) (-1)); [lia|]. destruct (Z.eqb_spec (Z.of_nat j) (-1)); [lia|].
        rewrite !Nat2Z.id. apply cval_ul; assumption.
    - rewrite map_map. unfold cst, crow_of. cbn [snd]. rewrite cells_val.
      apply sumRl_map_filter. intros [i j] _ K. unfold keep_cell in K. cbn [fst snd] in K.
      apply negb_false_iff, andb_true_iff in K. destruct K as [K1 K2].
      apply Nat.leb_le in K1, K2. apply cval_lr; assumption.
  Qed.
End Cert.

Theorem wasserstein_matching_cert_l lsa dgm1 dgm2 : lsa_optimal_on lsa dgm1 dgm2 ->
  exists v rs,
    w_dist (wasserstein lsa true dgm1 dgm2) = CFin v /\
    w_rows (wasserstein lsa true dgm1 dgm2) = Some (map (fun r => (fst r, CFin (snd r))) rs) /\
    wass_cert (placeholder 0 (finite_pts dgm1)) (placeholder 0 (finite_pts dgm2)) v rs /\
    is_wasserstein (finite_pts dgm1) (finite_pts dgm2) v.
Proof.
  intros O. destruct (wasserstein_correct_l lsa true _ _ O) as [v [X W]].
  unfold lsa_optimal_on in O. destruct O as [A _]. rewrite aug_matrix_length in A.
  unfold wasserstein in *. cbn [w_dist w_rows] in *.
  set (S := placeholder 0 (finite_pts dgm1)) in *. set (T := placeholder 0 (finite_pts dgm2)) in *.
  set (D := aug_matrix S T) in *.
  pose proof (assignment_perfect _ _ _ A) as PE.
  set (E := combine (fst (lsa D)) (snd (lsa D))) in *.
  assert (E1 : fst (lsa D) = map fst E) by (unfold E; rewrite map_fst_combine; [reflexivity|apply A]).
  assert (E2 : snd (lsa D) = map snd E) by (unfold E; rewrite map_snd_combine; [reflexivity|apply A]).
  rewrite gather_cells in X. fold E in X. destruct (xsum_CFin_inv _ _ X) as [F V].
  exists v, (map (crow_of S T) (filter (keep_cell (length S) (length T)) E)).
  split; [exact X|]. split; [|split; [|exact W]].
  - f_equal. rewrite E1, E2. apply rows_of_cells. exact F.
  - rewrite V. apply cert_of_assignment; assumption.
Qed.

(* ------------------------------------------------------------------ consequences (also used by C07) *)
(* the value does not depend on which optimal assignment the solver returns *)
Theorem oracle_independent_l lsa1 lsa2 b1 b2 dgm1 dgm2 :
  lsa_optimal_on lsa1 dgm1 dgm2 -> lsa_optimal_on lsa2 dgm1 dgm2 ->
  w_dist (wasserstein lsa1 b1 dgm1 dgm2) = w_dist (wasserstein lsa2 b2 dgm1 dgm2).
Proof.
  intros O1 O2. destruct (wasserstein_correct_l lsa1 b1 _ _ O1) as [v1 [X1 W1]].
  destruct (wasserstein_correct_l lsa2 b2 _ _ O2) as [v2 [X2 W2]].
  rewrite X1, X2. f_equal. exact (is_wasserstein_unique _ _ _ _ W1 W2).
Qed.

(* symmetry of the returned value *)
Theorem model_symmetric_l lsa b dgm1 dgm2 :
  lsa_optimal_on lsa dgm1 dgm2 -> lsa_optimal_on lsa dgm2 dgm1 ->
  w_dist (wasserstein lsa b dgm1 dgm2) = w_dist (wasserstein lsa b dgm2 dgm1).
Proof.
  intros O1 O2. destruct (wasserstein_correct_l lsa b _ _ O1) as [v1 [X1 W1]].
  destruct (wasserstein_correct_l lsa b _ _ O2) as [v2 [X2 W2]].
  rewrite X1, X2. f_equal. exact (is_wasserstein_unique _ _ _ _ W1 (is_wasserstein_sym _ _ _ W2)).
Qed.

(* non-negative on well-formed diagrams (births <= deaths) *)
Lemma sumRl_nonneg l : (forall x, In x l -> 0 <= x) -> 0 <= sumRl l.
Proof.
  induction l as [|x l IH]; simpl; intros H; [lra|].
  pose proof (H x (or_introl eq_refl)). assert (0 <= sumRl l) by (apply IH; intros; apply H; now right). lra.
Qed.
Lemma diagW_nonneg p : fst p <= snd p -> 0 <= diagW p.
Proof.
  intros H. unfold diagW, Rdiv. apply Rmult_le_pos; [lra|]. apply Rlt_le, Rinv_0_lt_compat, sqrt_lt_R0. lra.
Qed.
Lemma nth_wf S i : wfdgmR S -> fst (nth i S (0, 0)) <= snd (nth i S (0, 0)).
Proof.
  intros W. destruct (nth_in_or_default i S (0, 0)) as [I|E]; [apply W; exact I|rewrite E; simpl; lra].
Qed.
Theorem is_wasserstein_nonneg S T v : wfdgmR S -> wfdgmR T -> is_wasserstein S T v -> 0 <= v.
Proof.
  intros WS WT [[m [V <-]] _]. unfold wcost, wcosts, pm_costs. apply sumRl_nonneg.
  intros x I. rewrite !in_app_iff, !in_map_iff in I. destruct I as [[p [<- _]]|[[i [<- _]]|[j [<- _]]]].
  - unfold euclid. apply sqrt_pos.
  - apply diagW_nonneg, nth_wf, WS.
  - apply diagW_nonneg, nth_wf, WT.
Qed.

(* zero between a diagram and any reordering of it *)
Lemma nth_error_nth' {A} (l : list A) i d x : nth_error l i = Some x -> nth i l d = x.
Proof. apply nth_error_nth. Qed.

(* ------------------------------------------------------------------ reduced costs; a diagonal point is neutral *)
(* what a pairing costs more than sending both points to the diagonal *)
Definition red (S T : list rpoint) (p : nat * nat) : R :=
  euclid (nth (fst p) S (0, 0)) (nth (snd p) T (0, 0))
  - diagW (nth (fst p) S (0, 0)) - diagW (nth (snd p) T (0, 0)).

Lemma sumRl_map_minus3 {A} (a b c : A -> R) l :
  sumRl (map (fun x => a x - b x - c x) l) = sumRl (map a l) - sumRl (map b l) - sumRl (map c l).
Proof. induction l as [|x l IH]; simpl; [ring|]. rewrite IH. ring. Qed.

Lemma sum_used_unmatched (g : nat -> R) used n : NoDup used -> (forall x, In x used -> (x < n)%nat) ->
  sumRl (map g used) + sumRl (map g (unmatched used n)) = sumRl (map g (seq 0 n)).
Proof.
  intros ND B. rewrite <- sumRl_app, <- map_app. apply sumRl_perm, Permutation_map, unmatched_perm; assumption.
Qed.

Lemma wcost_reduced S T m : valid_for S T m ->
  wcost S T m = total_pers S + total_pers T + sumRl (map (red S T) m).
Proof.
  intros V. destruct (valid_pm_fst _ _ _ V) as [N1 B1]. destruct (valid_pm_snd _ _ _ V) as [N2 B2].
  pose proof (sum_used_unmatched (fun i => diagW (nth i S (0, 0))) _ _ N1 B1) as E1.
  pose proof (sum_used_unmatched (fun j => diagW (nth j T (0, 0))) _ _ N2 B2) as E2.
  rewrite sum_diag_seq in E1, E2. rewrite map_map in E1, E2.
  unfold wcost, wcosts, pm_costs, unmatched_l, unmatched_r. rewrite !sumRl_app.
  unfold red. rewrite sumRl_map_minus3. lra.
Qed.

Lemma total_pers_app S S2 : total_pers (S ++ S2) = total_pers S + total_pers S2.
Proof. unfold total_pers. rewrite map_app, sumRl_app. reflexivity. Qed.

Lemma total_pers_diag1 x : total_pers [(x, x)] = 0.
Proof. unfold total_pers. simpl. rewrite diagW_diag. ring. Qed.

Lemma red_app_l S pt T p : (fst p < length S)%nat -> red (S ++ [pt]) T p = red S T p.
Proof. intros L. unfold red. rewrite app_nth1 by exact L. reflexivity. Qed.
Lemma red_diag_nonneg S x T p : fst p = length S -> 0 <= red (S ++ [(x, x)]) T p.
Proof.
  intros E. unfold red. rewrite E, nth_middle, diagW_diag.
  pose proof (diag_le_euclid (nth (snd p) T (0, 0)) x) as H. rewrite euclid_sym in H. lra.
Qed.

Lemma valid_weaken M N m : valid_pm M N m -> valid_pm (Datatypes.S M) N m.
Proof. intros (N1 & N2 & B). split; [exact N1|split; [exact N2|]]. intros p I. destruct (B p I). split; lia. Qed.
Lemma valid_filter_l M N m : valid_pm (Datatypes.S M) N m -> valid_pm M N (filter (fun p => (fst p <? M)%nat) m).
Proof.
  intros (N1 & N2 & B). split; [apply NoDup_map_filter; exact N1|split; [apply NoDup_map_filter; exact N2|]].
  intros p I. apply filter_In in I. destruct I as [I L]. apply Nat.ltb_lt in L. destruct (B p I). split; assumption.
Qed.
Lemma sumRl_filter_split {A} (h : A -> R) (q : A -> bool) l :
  sumRl (map h l) = sumRl (map h (filter q l)) + sumRl (map h (filter (fun x => negb (q x)) l)).
Proof. induction l as [|x l IH]; simpl; [ring|]. destruct (q x); simpl; rewrite IH; ring. Qed.

Section DiagPoint.
  Variables (S T : list rpoint) (x : R).
  Notation S' := (S ++ [(x, x)]).

  Lemma length_S' : length S' = Datatypes.S (length S).
  Proof. rewrite app_length. simpl. lia. Qed.

  Lemma lift_matching m : valid_for S T m -> valid_for S' T m /\ wcost S' T m = wcost S T m.
  Proof.
    intros V. assert (V' : valid_for S' T m) by (unfold valid_for; rewrite length_S'; apply valid_weaken; exact V).
    split; [exact V'|]. rewrite (wcost_reduced _ _ _ V), (wcost_reduced _ _ _ V'), total_pers_app.
    rewrite total_pers_diag1.
    rewrite (map_ext_in (red S' T) (red S T)); [ring|].
    intros p I. apply red_app_l. destruct V as (_ & _ & B). apply (B p I).
  Qed.

  Lemma drop_matching m' : valid_for S' T m' ->
    valid_for S T (filter (fun p => (fst p <? length S)%nat) m') /\
    wcost S T (filter (fun p => (fst p <? length S)%nat) m') <= wcost S' T m'.
  Proof.
    intros V'. assert (V : valid_for S T (filter (fun p => (fst p <? length S)%nat) m')).
    { apply valid_filter_l. unfold valid_for in V'. rewrite length_S' in V'. exact V'. }
    split; [exact V|]. rewrite (wcost_reduced _ _ _ V), (wcost_reduced _ _ _ V'), total_pers_app.
    rewrite total_pers_diag1.
    rewrite (sumRl_filter_split (red S' T) (fun p => (fst p <? length S)%nat) m').
    rewrite (map_ext_in (red S' T) (red S T) (filter _ m')).
    - assert (0 <= sumRl (map (red S' T) (filter (fun p => negb (fst p <? length S)%nat) m'))); [|lra].
      apply sumRl_nonneg. intros y I. apply in_map_iff in I. destruct I as [p [<- I]].
      apply filter_In in I. destruct I as [I L]. apply negb_true_iff, Nat.ltb_ge in L.
      apply red_diag_nonneg. destruct V' as (_ & _ & B). destruct (B p I) as [B1 _].
      rewrite length_S' in B1. nlia.
    - intros p I. apply filter_In in I. destruct I as [_ L]. apply Nat.ltb_lt in L. apply red_app_l. exact L.
  Qed.

  (* adding a point of the diagonal to a diagram does not change the min-sum value *)
  Theorem diag_point_neutral_spec v : is_wasserstein S' T v <-> is_wasserstein S T v.
  Proof.
    split; intros [[m0 [V0 E0]] L].
    - destruct (drop_matching m0 V0) as [V1 C1]. destruct (lift_matching _ V1) as [V1' E1].
      pose proof (L _ V1') as L1. split.
      + eexists. split; [exact V1|]. lra.
      + intros m V. destruct (lift_matching m V) as [V' E]. rewrite <- E. apply L. exact V'.
    - destruct (lift_matching m0 V0) as [V0' E0']. split.
      + exists m0. split; [exact V0'|]. lra.
      + intros m' V'. destruct (drop_matching m' V') as [V C]. pose proof (L _ V). lra.
  Qed.
End DiagPoint.

Theorem diag_point_neutral_spec_r S T x v : is_wasserstein S (T ++ [(x, x)]) v <-> is_wasserstein S T v.
Proof.
  split; intros H; apply is_wasserstein_sym; apply is_wasserstein_sym in H; apply (diag_point_neutral_spec T S x v); exact H.
Qed.

(* ------------------------------------------------------------------ the solver assumption is satisfiable for every matrix *)
From Coq Require Import Classical_Prop.

Lemma xle_refl a : xle a a.
Proof. destruct a; simpl; [lra|exact I]. Qed.
Lemma xle_trans a b c : xle a b -> xle b c -> xle a c.
Proof. destruct a, b, c; simpl; try tauto; lra. Qed.
Lemma xle_total a b : xle a b \/ xle b a.
Proof. destruct a as [x|], b as [y|]; simpl; try tauto. destruct (Rle_dec x y); [left; assumption|right; lra]. Qed.

Lemma min_over_list {A} (P : A -> Prop) (c : A -> xcost R) (L : list A) :
  (exists a, In a L /\ P a) ->
  exists a, In a L /\ P a /\ forall b, In b L -> P b -> xle (c a) (c b).
Proof.
  induction L as [|x L IH]; intros [a [I Pa]]; [destruct I|].
  destruct (classic (exists a', In a' L /\ P a')) as [Ex|No].
  - destruct (IH Ex) as [m [Im [Pm Min]]].
    destruct (classic (P x)) as [Px|NPx].
    + destruct (xle_total (c x) (c m)) as [Lx|Lm].
      * exists x. split; [now left|split; [exact Px|]]. intros b [<-|Ib] Pb; [apply xle_refl|].
        apply xle_trans with (c m); [exact Lx|apply Min; assumption].
      * exists m. split; [now right|split; [exact Pm|]]. intros b [<-|Ib] Pb; [exact Lm|apply Min; assumption].
    + exists m. split; [now right|split; [exact Pm|]]. intros b [<-|Ib] Pb; [contradiction|apply Min; assumption].
  - assert (a = x) as -> by (destruct I as [E|I]; [symmetry; exact E|exfalso; apply No; eauto]).
    exists x. split; [now left|split; [exact Pa|]]. intros b [<-|Ib] Pb; [apply xle_refl|].
    exfalso. apply No. eauto.
Qed.

Fixpoint all_lists {A} (n : nat) (al : list A) : list (list A) :=
  match n with
  | O => [[]]
  | Datatypes.S n => flat_map (fun x => map (cons x) (all_lists n al)) al
  end.
Lemma all_lists_complete {A} n (al l : list A) :
  length l = n -> (forall x, In x l -> In x al) -> In l (all_lists n al).
Proof.
  revert l. induction n as [|n IH]; intros [|x l] L B; simpl in L; try discriminate.
  - now left.
  - simpl. apply in_flat_map. exists x. split; [apply B; now left|].
    apply in_map. apply IH; [lia|]. intros y I. apply B. now right.
Qed.

Theorem optimal_assignment_exists (D : list (list (xcost R))) : exists r, optimal_assignment D r.
Proof.
  set (K := length D).
  set (L := all_lists K (list_prod (seq 0 K) (seq 0 K))).
  assert (InL : forall E, perfect_on K E -> In E L).
  { intros E PE. apply all_lists_complete.
    - destruct PE as [P1 _]. rewrite <- (map_length fst), (Permutation_length P1), seq_length. reflexivity.
    - intros c I. destruct (perfect_bounds _ _ _ PE I). destruct c as [i j]. apply in_prod; apply in_seq; simpl in *; lia. }
  assert (P0 : perfect_on K (combine (seq 0 K) (seq 0 K))).
  { apply assignment_perfect. split; [reflexivity|split; apply Permutation_refl]. }
  destruct (min_over_list (perfect_on K) (fun E => xsum (cells D E)) L) as [E [_ [PE Min]]].
  { eexists. split; [apply InL; exact P0|exact P0]. }
  exists (map fst E, map snd E). split.
  - apply perfect_assignment. exact PE.
  - intros mi mj A. cbn [fst snd]. rewrite gather_of_cells, gather_cells.
    pose proof (assignment_perfect _ _ _ A) as PA. apply Min; [apply InL|]; exact PA.
Qed.

Corollary lsa_hypothesis_satisfiable_l dgm1 dgm2 : exists lsa, lsa_optimal_on lsa dgm1 dgm2.
Proof.
  destruct (optimal_assignment_exists (aug_matrix (placeholder 0 (finite_pts dgm1)) (placeholder 0 (finite_pts dgm2)))) as [r O].
  exists (fun _ => r). exact O.
Qed.

(* hence the minimum over partial matchings always exists *)
Corollary wasserstein_min_exists S T : exists v, is_wasserstein S T v.
Proof.
  destruct (optimal_assignment_exists (aug_matrix S T)) as [r O].
  destruct (optimal_is_wasserstein S T r O) as [v [_ W]]. exists v. exact W.
Qed.

(* unconditional form of C02: the min-sum value of the finite points exists, and it is what the model
   returns with every solver that meets the assumption (which at least one solver does) *)
Theorem wasserstein_value_l dgm1 dgm2 :
  exists v, is_wasserstein (finite_pts dgm1) (finite_pts dgm2) v /\
            (exists lsa, lsa_optimal_on lsa dgm1 dgm2) /\
            forall lsa b, lsa_optimal_on lsa dgm1 dgm2 -> w_dist (wasserstein lsa b dgm1 dgm2) = CFin v.
Proof.
  destruct (wasserstein_min_exists (finite_pts dgm1) (finite_pts dgm2)) as [v W].
  exists v. split; [exact W|split; [apply lsa_hypothesis_satisfiable_l|]].
  intros lsa b O. destruct (wasserstein_correct_l lsa b _ _ O) as [v' [X W']].
  rewrite X. f_equal. exact (is_wasserstein_unique _ _ _ _ W' W).
Qed.
