(* Glue C03 -> C08/C09: every depth the exact sweep returns is well formed in the sense the grid sampler
   (C08: ApproxP.wellformed_depth) and the landscape arithmetic (C09: LandArithS.wf) need: abscissae strictly
   increasing (from sweep_sem), first and last ordinate 0 (from the shape of the model's loops: each depth
   starts with (b,0) and the inner loop always closes with (d,0)). *)
From Coq Require Import QArith Qminmax Qabs Lqa List Bool Arith Lia Permutation.
From Persim Require Import Lib.Kth Lib.PL Spec.LandscapeS Spec.LandArithS.
From Persim Require Model.SweepM Model.ApproxM Proofs.ApproxP.
From Persim Require Import Proofs.SweepStep Proofs.SweepSort Proofs.SweepShape Proofs.SweepInner Proofs.SweepP.
Import ListNotations.
Open Scope Q_scope.

Import SweepM.

(* ---- G1: shape of every depth the sweep returns, from the model alone ---- *)
Definition zero_ended (l : list pt) : Prop := exists b d mid, l = (b, 0) :: mid ++ [(d, 0)].

Lemma inner_t_last : forall fuel b d A tl A', inner_t fuel b d A = Some (tl, A') ->
  exists pre d', tl = pre ++ [(d', 0)].
Proof.
  induction fuel as [|f IH]; intros b d A tl A' H; simpl in H. discriminate.
  destruct (forallb (fun x => Qle_bool (snd x) d) A).
  - inversion H; subst. exists [], d. reflexivity.
  - destruct (find_gt d A 0) as [[i [bp dp]]|]; [|discriminate].
    destruct (inner_t f bp dp (next_A d bp (remove_nth i A))) as [[tl' A'']|] eqn:E; [|discriminate].
    inversion H; subst. destruct (IH _ _ _ _ _ E) as (pre & d' & ->).
    exists (junction d bp ++ peak bp dp :: pre), d'. rewrite <- app_assoc. reflexivity.
Qed.

Lemma outer_zero_ended : forall fuel A Ls, outer false fuel A = Some Ls -> Forall zero_ended Ls.
Proof.
  induction fuel as [|f IH]; intros A Ls H. discriminate.
  destruct A as [|[b d] A0]. { inversion H. constructor. }
  change (outer false (S f) ((b, d) :: A0)) with
      (match inner (S (length A0)) [(b, 0); (half (b + d), half (d - b))] b d A0 with
       | None => None
       | Some (L, A2) => match outer false f A2 with None => None | Some Ls => Some (L :: repeat L 0 ++ Ls) end
       end) in H.
  rewrite inner_eq in H.
  destruct (inner_t (S (length A0)) b d A0) as [[tl A2]|] eqn:E; [|discriminate].
  destruct (outer false f A2) as [Ls'|] eqn:E2; [|discriminate].
  inversion H; subst. simpl. constructor; [|eapply IH; eauto].
  destruct (inner_t_last _ _ _ _ _ _ E) as (pre & d' & ->).
  exists b, d', ((half (b + d), half (d - b)) :: pre). reflexivity.
Qed.

Lemma last_snoc {X} (l : list X) x d : last (l ++ [x]) d = x.
Proof. induction l as [|y r IH]; simpl; auto. rewrite IH. destruct (r ++ [x]) eqn:E; auto. destruct r; discriminate. Qed.

Lemma zero_ended_wf l : zero_ended l -> incr l -> LandArithS.wf l.
Proof. intros (b & d & mid & ->) I. split. discriminate. split. auto. split. reflexivity.
  unfold last_y. change ((b, 0) :: mid ++ [(d, 0)]) with (((b, 0) :: mid) ++ [(d, 0)]). rewrite last_snoc. reflexivity. Qed.

Lemma wf_wellformed_depth l : LandArithS.wf l -> ApproxP.wellformed_depth l.
Proof. intros (_ & I & F & L). split; [exact I|]. split; [exact F|exact L]. Qed.

Lemma sweep_output_wf_P (bars : list bar) : positive_bars bars ->
  exists L, sweep false bars = Some L /\ wfL L /\ Forall ApproxP.wellformed_depth L /\
    (forall l, In l L -> exists b d mid, l = (b, 0) :: mid ++ [(d, 0)]).
Proof.
  intro PB. destruct (sweep_sem bars PB) as (L & RUN & _ & INC & _). exists L. split; [exact RUN|].
  pose proof (outer_zero_ended _ _ _ RUN) as Z. rewrite Forall_forall in Z.
  assert (W : wfL L). { apply Forall_forall. intros l Hl. apply zero_ended_wf; auto. }
  split; [exact W|]. split.
  - apply Forall_forall. intros l Hl. apply wf_wellformed_depth. unfold wfL in W. rewrite Forall_forall in W. auto.
  - intros l Hl. apply Z; auto.
Qed.

Lemma exact_landscape_output_wf_P dgms h dg bars : nth_error dgms h = Some dg ->
  finite_bars (strip_trailing_inf dg) = Some bars -> positive_bars bars ->
  exists L, exact_landscape false true dgms h = Ok L /\ landscape_ok bars L /\ wfL L /\ Forall ApproxP.wellformed_depth L.
Proof.
  intros HS HF PB. destruct (exact_landscape_sem dgms h dg bars HS HF PB) as (L & RUN & OK & _).
  exists L. split; [exact RUN|]. split; [exact OK|].
  unfold exact_landscape in RUN. rewrite HS in RUN. destruct dg as [|a r].
  - inversion RUN; subst. split; constructor.
  - rewrite HF in RUN. destruct (sweep_output_wf_P bars PB) as (L' & R' & W & V & _). rewrite R' in RUN. inversion RUN; subst. auto.
Qed.
