(* C10, T2: the spec's closed form IS the Riemann integral of |l|^p over the segment
   (Coquelicot RInt; antiderivative l^(p+1) / (m (p+1)), split at the root for a crossing segment). *)
From Coq Require Import QArith Qabs Qreals Reals Lra Lia List Psatz.
From Coquelicot Require Import Coquelicot.
From Persim Require Import Lib.Kth Lib.PL Spec.PNormS Proofs.PNormP Proofs.PNormLaws.
Open Scope R_scope.

(* the straight line through (x0,y0) and (x1,y1) *)
Definition lin (x0 y0 x1 y1 t : R) : R := y0 + (y1 - y0) * (t - x0) / (x1 - x0).

Fixpoint gsR (a b : R) (p : nat) : R :=
  match p with O => 1 | S k => a * gsR a b k + b ^ (S k) end.

Lemma gsR_identity a b p : (a - b) * gsR a b p = a ^ (S p) - b ^ (S p).
Proof. induction p. simpl. ring.
  change (gsR a b (S p)) with (a * gsR a b p + b ^ (S p)).
  replace ((a - b) * (a * gsR a b p + b ^ S p)) with (a * ((a - b) * gsR a b p) + (a - b) * b ^ S p) by ring.
  rewrite IHp. simpl. ring. Qed.

Lemma gsR_diag a p : gsR a a p = INR (S p) * a ^ p.
Proof. induction p. simpl. ring.
  change (gsR a a (S p)) with (a * gsR a a p + a ^ (S p)). rewrite IHp, (S_INR (S p)). simpl. ring. Qed.

Lemma gsR_zero_r a p : gsR a 0 p = a ^ p.
Proof. induction p. reflexivity. change (gsR a 0 (S p)) with (a * gsR a 0 p + 0 ^ (S p)). rewrite IHp. simpl. ring. Qed.

Lemma gsR_zero_l b p : gsR 0 b p = b ^ p.
Proof. destruct p. reflexivity. change (gsR 0 b (S p)) with (0 * gsR 0 b p + b ^ (S p)). ring. Qed.

Lemma scal_R (a b : R) : scal a b = a * b. Proof. reflexivity. Qed.
Lemma plus_R (a b : R) : plus a b = a + b. Proof. reflexivity. Qed.
Lemma minus_R (a b : R) : minus a b = a - b. Proof. reflexivity. Qed.

Ltac nz := repeat split; try lra; try nra; first [apply Rgt_not_eq; nra | apply Rlt_not_eq; nra].
Ltac eqR := match goal with |- ?x = ?y => change (@eq R x y) end.

(* integral of a power of an affine function *)
Lemma affine_pow_RInt c0 c1 p a b : c1 <> 0 ->
  is_RInt (fun t => (c0 + c1 * t) ^ p) a b
          (((c0 + c1 * b) ^ (S p) - (c0 + c1 * a) ^ (S p)) / (c1 * INR (S p))).
Proof. intro C.
  assert (N : INR (S p) <> 0) by (apply not_0_INR; discriminate).
  replace (((c0 + c1 * b) ^ S p - (c0 + c1 * a) ^ S p) / (c1 * INR (S p)))
    with (minus ((fun t => (c0 + c1 * t) ^ (S p) / (c1 * INR (S p))) b) ((fun t => (c0 + c1 * t) ^ (S p) / (c1 * INR (S p))) a)).
  2: { rewrite minus_R. eqR. field. split; auto. }
  apply (is_RInt_derive (fun t => (c0 + c1 * t) ^ (S p) / (c1 * INR (S p))) (fun t => (c0 + c1 * t) ^ p)).
  - intros u _. auto_derive. trivial. change (match p with 0%nat => 1 | S _ => INR p + 1 end) with (INR (S p)). field. split; auto.
  - intros u _. apply (ex_derive_continuous (fun t => (c0 + c1 * t) ^ p)). auto_derive. trivial.
Qed.

Lemma lin_affine x0 y0 x1 y1 t : x0 <> x1 ->
  lin x0 y0 x1 y1 t = (y0 - (y1 - y0) / (x1 - x0) * x0) + (y1 - y0) / (x1 - x0) * t.
Proof. intro H. unfold lin. field. lra. Qed.

(* a segment with non-negative end values *)
Lemma nonneg_seg_RInt p x0 a0 x1 a1 : x0 < x1 ->
  is_RInt (fun t => (lin x0 a0 x1 a1 t) ^ p) x0 x1 ((x1 - x0) * gsR a0 a1 p / INR (S p)).
Proof. intros D.
  assert (N : INR (S p) <> 0) by (apply not_0_INR; discriminate).
  destruct (Req_dec a0 a1) as [E|NE].
  - subst a1. rewrite gsR_diag.
    replace ((x1 - x0) * (INR (S p) * a0 ^ p) / INR (S p)) with (scal (x1 - x0) (a0 ^ p)).
    2: { rewrite scal_R. eqR. field. auto. }
    apply (is_RInt_ext (fun _ => a0 ^ p)).
    + intros t _. unfold lin. f_equal. field. lra.
    + apply (is_RInt_const x0 x1 (a0 ^ p)).
  - set (m := (a1 - a0) / (x1 - x0)).
    assert (M : m <> 0). { unfold m. intro Z. apply NE. apply Rmult_eq_compat_r with (r := x1 - x0) in Z.
      unfold Rdiv in Z. rewrite Rmult_assoc, Rinv_l, Rmult_0_l, Rmult_1_r in Z by lra. lra. }
    apply (is_RInt_ext (fun t => ((a0 - m * x0) + m * t) ^ p)).
    + intros t _. rewrite (lin_affine x0 a0 x1 a1 t) by lra. reflexivity.
    + replace ((x1 - x0) * gsR a0 a1 p / INR (S p))
        with ((((a0 - m * x0) + m * x1) ^ (S p) - ((a0 - m * x0) + m * x0) ^ (S p)) / (m * INR (S p))).
      apply affine_pow_RInt; auto.
      replace (a0 - m * x0 + m * x1) with a1 by (unfold m; field; lra).
      replace (a0 - m * x0 + m * x0) with a0 by ring.
      assert (I' : a1 ^ S p - a0 ^ S p = (a1 - a0) * gsR a0 a1 p)
        by (generalize (gsR_identity a0 a1 p); intro; nra).
      rewrite I'. eqR. unfold m. field. repeat split; auto; lra.
Qed.

Lemma lin_between x0 a0 x1 a1 t : x0 < x1 -> x0 <= t <= x1 -> 0 <= a0 -> 0 <= a1 -> 0 <= lin x0 a0 x1 a1 t.
Proof. intros D T A0 A1. unfold lin.
  replace (a0 + (a1 - a0) * (t - x0) / (x1 - x0)) with ((a0 * (x1 - t) + a1 * (t - x0)) / (x1 - x0)) by (field; lra).
  apply Rmult_le_pos. nra. left. apply Rinv_0_lt_compat. lra. Qed.

(* same side of the axis *)
Lemma same_sign_RInt p x0 y0 x1 y1 : x0 < x1 -> 0 <= y0 * y1 ->
  is_RInt (fun t => Rabs (lin x0 y0 x1 y1 t) ^ p) x0 x1 ((x1 - x0) * gsR (Rabs y0) (Rabs y1) p / INR (S p)).
Proof. intros D HS.
  apply (is_RInt_ext (fun t => (lin x0 (Rabs y0) x1 (Rabs y1) t) ^ p)). 2: apply nonneg_seg_RInt; auto.
  intros t T. rewrite Rmin_left, Rmax_right in T by lra. f_equal.
  destruct (Rle_dec 0 y0) as [P0|N0]; destruct (Rle_dec 0 y1) as [P1|N1].
  - rewrite (Rabs_pos_eq y0), (Rabs_pos_eq y1) by auto. symmetry. apply Rabs_pos_eq. apply lin_between; auto; lra.
  - assert (y0 = 0) by nra. subst y0. rewrite Rabs_R0, (Rabs_left y1) by lra.
    assert (L : 0 <= lin x0 0 x1 (- y1) t) by (apply lin_between; auto; lra).
    replace (lin x0 0 x1 y1 t) with (- lin x0 0 x1 (- y1) t) by (unfold lin; field; lra).
    rewrite Rabs_Ropp. symmetry. apply Rabs_pos_eq. auto.
  - assert (y1 = 0) by nra. subst y1. rewrite Rabs_R0, (Rabs_left y0) by lra.
    assert (L : 0 <= lin x0 (- y0) x1 0 t) by (apply lin_between; auto; lra).
    replace (lin x0 y0 x1 0 t) with (- lin x0 (- y0) x1 0 t) by (unfold lin; field; lra).
    rewrite Rabs_Ropp. symmetry. apply Rabs_pos_eq. auto.
  - rewrite (Rabs_left y0), (Rabs_left y1) by lra.
    assert (L : 0 <= lin x0 (- y0) x1 (- y1) t) by (apply lin_between; auto; lra).
    replace (lin x0 y0 x1 y1 t) with (- lin x0 (- y0) x1 (- y1) t) by (unfold lin; field; lra).
    rewrite Rabs_Ropp. symmetry. apply Rabs_pos_eq. auto.
Qed.

(* opposite sides: split at the root z *)
Lemma crossing_RInt p x0 y0 x1 y1 : x0 < x1 -> y0 * y1 < 0 ->
  is_RInt (fun t => Rabs (lin x0 y0 x1 y1 t) ^ p) x0 x1
    ((x1 - x0) * (Rabs y0 ^ (S p) + Rabs y1 ^ (S p)) / (INR (S p) * (Rabs y0 + Rabs y1))).
Proof. intros D HS.
  assert (N : INR (S p) <> 0) by (apply not_0_INR; discriminate).
  assert (SG : (y0 < 0 /\ 0 < y1) \/ (0 < y0 /\ y1 < 0)).
  { destruct (Rle_dec 0 y0) as [a|a]; destruct (Rle_dec 0 y1) as [b|b].
    - exfalso. assert (0 <= y0 * y1) by (apply Rmult_le_pos; auto). lra.
    - right. split; [|lra]. destruct a as [a|a]; auto. subst. lra.
    - left. split; [lra|]. destruct b as [b|b]; auto. subst. lra.
    - exfalso. assert (0 <= (- y0) * (- y1)) by (apply Rmult_le_pos; lra). lra. }
  set (A := Rabs y0). set (B := Rabs y1).
  assert (PA : 0 < A) by (unfold A; apply Rabs_pos_lt; intro; subst; lra).
  assert (PB : 0 < B) by (unfold B; apply Rabs_pos_lt; intro; subst; lra).
  set (z := x0 + (x1 - x0) * A / (A + B)).
  assert (Z0 : x0 < z). { unfold z. assert (0 < (x1 - x0) * A / (A + B)). apply Rdiv_lt_0_compat; nra. lra. }
  assert (Z1 : z < x1). { unfold z. assert ((x1 - x0) * A / (A + B) < x1 - x0).
    { apply Rmult_lt_reg_r with (A + B). lra. unfold Rdiv. rewrite Rmult_assoc, Rinv_l by lra. nra. } lra. }
  replace ((x1 - x0) * (A ^ S p + B ^ S p) / (INR (S p) * (A + B)))
    with ((z - x0) * gsR A 0 p / INR (S p) + (x1 - z) * gsR 0 B p / INR (S p)).
  2: { rewrite gsR_zero_r, gsR_zero_l, <- !tech_pow_Rmult. unfold z. field. split; auto; lra. }
  cut (is_RInt (fun t => Rabs (lin x0 y0 x1 y1 t) ^ p) x0 z ((z - x0) * gsR A 0 p / INR (S p)) /\
       is_RInt (fun t => Rabs (lin x0 y0 x1 y1 t) ^ p) z x1 ((x1 - z) * gsR 0 B p / INR (S p))).
  { intros [H1 H2]. exact (is_RInt_Chasles _ _ _ _ _ _ H1 H2). }
  split.
  - apply (is_RInt_ext (fun t => (lin x0 A z 0 t) ^ p)). 2: apply nonneg_seg_RInt; auto.
    intros t T. rewrite Rmin_left, Rmax_right in T by lra. f_equal.
    assert (L : 0 <= lin x0 A z 0 t) by (apply lin_between; lra).
    destruct SG as [[N0 P1]|[P0 N1]].
    + assert (E : lin x0 y0 x1 y1 t = - lin x0 A z 0 t).
      { unfold lin, z, A, B. rewrite (Rabs_left y0), (Rabs_right y1) by lra. field. nz. }
      rewrite E, Rabs_Ropp. symmetry. apply Rabs_pos_eq. auto.
    + assert (E : lin x0 y0 x1 y1 t = lin x0 A z 0 t).
      { unfold lin, z, A, B. rewrite (Rabs_right y0), (Rabs_left y1) by lra. field. nz. }
      rewrite E. symmetry. apply Rabs_pos_eq. auto.
  - apply (is_RInt_ext (fun t => (lin z 0 x1 B t) ^ p)). 2: apply nonneg_seg_RInt; auto.
    intros t T. rewrite Rmin_left, Rmax_right in T by lra. f_equal.
    assert (L : 0 <= lin z 0 x1 B t) by (apply lin_between; lra).
    destruct SG as [[N0 P1]|[P0 N1]].
    + assert (E : lin x0 y0 x1 y1 t = lin z 0 x1 B t).
      { unfold lin, z, A, B. rewrite (Rabs_left y0), (Rabs_right y1) by lra. field. nz. }
      rewrite E. symmetry. apply Rabs_pos_eq. auto.
    + assert (E : lin x0 y0 x1 y1 t = - lin z 0 x1 B t).
      { unfold lin, z, A, B. rewrite (Rabs_right y0), (Rabs_left y1) by lra. field. nz. }
      rewrite E, Rabs_Ropp. symmetry. apply Rabs_pos_eq. auto.
Qed.

(* ---------------------------------------------------------------- from Q to R *)
Lemma Q2R_pw x n : Q2R (pw x n) = Q2R x ^ n.
Proof. induction n; simpl. unfold Q2R. simpl. field. rewrite Q2R_mult, IHn. reflexivity. Qed.

Lemma Q2R_abs x : Q2R (Qabs x) = Rabs (Q2R x).
Proof. destruct (Qlt_le_dec x 0) as [H|H].
  - rewrite (Qeq_eqR _ _ (Qabs_neg x (Qlt_le_weak _ _ H))). apply Qlt_Rlt in H. rewrite Q2R_opp.
    replace (Q2R 0) with 0 in H by (unfold Q2R; simpl; field). rewrite Rabs_left; auto.
  - rewrite (Qeq_eqR _ _ (Qabs_pos x H)). apply Qle_Rle in H.
    replace (Q2R 0) with 0 in H by (unfold Q2R; simpl; field). rewrite Rabs_pos_eq; auto. Qed.

Lemma Q2R_nQ n : Q2R (nQ n) = INR n.
Proof. unfold nQ, Q2R. simpl. rewrite INR_IZR_INZ. field. Qed.

Lemma Q2R_gs a b p : Q2R (gs a b p) = gsR (Q2R a) (Q2R b) p.
Proof. induction p. simpl. unfold Q2R. simpl. field.
  change (gs a b (S p)) with (a * gs a b p + pw b (S p))%Q.
  change (gsR (Q2R a) (Q2R b) (S p)) with (Q2R a * gsR (Q2R a) (Q2R b) p + Q2R b ^ (S p)).
  rewrite Q2R_plus, Q2R_mult, IHp, Q2R_pw. reflexivity. Qed.

Lemma Q2R_0 : Q2R 0 = 0.
Proof. unfold Q2R. simpl. field. Qed.

Lemma nQ_S_neq0 p : ~ (nQ (S p) == 0)%Q.
Proof. generalize (nQ_S_pos p). intros H E. rewrite E in H. apply (Qlt_irrefl 0). exact H. Qed.

(* T2: the closed form of the spec is the Riemann integral of |l|^p over the segment *)
Lemma seg_int_is_RInt p x0 y0 x1 y1 : (x0 < x1)%Q ->
  is_RInt (fun t => Rabs (lin (Q2R x0) (Q2R y0) (Q2R x1) (Q2R y1) t) ^ p) (Q2R x0) (Q2R x1)
          (Q2R (seg_int p (x0, y0) (x1, y1))).
Proof. intro D. assert (DR := Qlt_Rlt _ _ D). unfold seg_int.
  assert (NZ := nQ_S_neq0 p).
  destruct (crosses y0 y1) eqn:C.
  - assert (C' := C). apply crosses_true in C'. destruct C' as [A0 A1].
    assert (NZ2 := cross_den_neq0 p y0 y1 C).
    apply crosses_iff in C. apply Qlt_Rlt in C. rewrite Q2R_mult, Q2R_0 in C.
    rewrite Q2R_div by exact NZ2.
    rewrite !Q2R_mult, !Q2R_plus, !Q2R_pw, !Q2R_abs, Q2R_nQ, Q2R_minus.
    apply crossing_RInt; auto.
  - assert (HS : 0 <= Q2R y0 * Q2R y1).
    { destruct (Qlt_le_dec (y0 * y1) 0) as [H|H]. apply crosses_iff in H. congruence.
      apply Qle_Rle in H. rewrite Q2R_mult, Q2R_0 in H. exact H. }
    replace (Q2R ((x1 - x0) * gsum (Qabs y0) (Qabs y1) p / nQ (S p)))
      with (Q2R ((x1 - x0) * gs (Qabs y0) (Qabs y1) p / nQ (S p)))
      by (apply Qeq_eqR; setoid_rewrite gsum_gs; reflexivity).
    rewrite Q2R_div by exact NZ.
    rewrite Q2R_mult, Q2R_gs, !Q2R_abs, Q2R_nQ, Q2R_minus.
    apply same_sign_RInt; auto.
Qed.

Lemma seg_int_eq_RInt p x0 y0 x1 y1 : (x0 < x1)%Q ->
  RInt (fun t => Rabs (lin (Q2R x0) (Q2R y0) (Q2R x1) (Q2R y1) t) ^ p) (Q2R x0) (Q2R x1)
  = Q2R (seg_int p (x0, y0) (x1, y1)).
Proof. intro D. apply is_RInt_unique. apply seg_int_is_RInt; auto. Qed.

(* the interpolant of Lib.PL agrees with `lin` on the segment *)
Lemma pl_eval_is_lin x0 y0 x1 y1 t : (x0 < x1)%Q -> (x0 <= t <= x1)%Q ->
  Q2R (pl_eval ((x0, y0) :: (x1, y1) :: nil) t) = lin (Q2R x0) (Q2R y0) (Q2R x1) (Q2R y1) (Q2R t).
Proof. intros D [T0 T1]. simpl.
  replace (Qlt_bool t x0) with false by (symmetry; apply Qlt_bool_false; auto).
  replace (Qle_bool t x1) with true by (symmetry; apply Qle_bool_iff; auto).
  replace (Qlt_bool x0 x1) with true by (symmetry; apply Qlt_bool_iff; auto). simpl.
  unfold lin. rewrite Q2R_plus, Q2R_div, Q2R_mult, !Q2R_minus. reflexivity.
  apply lt_minus_neq0; auto. Qed.
