(* C05: the upper bound is the distortion of an actual pair of maps. *)
From Coq Require Import ZArith List Bool Arith Lia.
From Persim Require Import Spec.MGH Model.MGHM Proofs.MGHBasics.
Import ListNotations.
Open Scope Z_scope.

(* the map X -> Y encoded by construct_mapping's result: pi_k |-> ys_k *)
Definition assoc_img (ps : list (nat * nat)) (i : nat) : nat :=
  match find (fun p => (fst p =? i)%nat) ps with Some p => snd p | None => 0%nat end.
Definition map_of (pi ys : list nat) : list nat :=
  map (assoc_img (combine pi ys)) (seq 0 (length pi)).

Lemma assoc_in ps x y : NoDup (map fst ps) -> In (x, y) ps -> assoc_img ps x = y.
Proof.
  unfold assoc_img. induction ps as [|p t IH]; intros ND I; [destruct I|].
  simpl in *. inversion ND; subst. destruct (Nat.eqb_spec (fst p) x) as [E|NE].
  - destruct I as [->|I]; [reflexivity|]. exfalso. apply H1. apply in_map_iff. exists (x, y). split; [simpl; auto|exact I].
  - destruct I as [->|I]; [simpl in NE; congruence|]. apply IH; assumption.
Qed.

Lemma combine_app {A B} (l1 l2 : list A) (r1 r2 : list B) :
  length l1 = length r1 -> combine (l1 ++ l2) (r1 ++ r2) = combine l1 r1 ++ combine l2 r2.
Proof.
  revert r1. induction l1; intros [|b r1] H; simpl in *; try discriminate; [reflexivity|].
  f_equal. apply IHl1. lia.
Qed.

Lemma map_fst_combine {A B} (l : list A) (r : list B) : length l = length r -> map fst (combine l r) = l.
Proof. revert r. induction l; intros [|b r] H; simpl in *; try discriminate; [reflexivity|]. f_equal. apply IHl. lia. Qed.

Lemma argmin_from_lt l : forall best besti i, (besti < i)%nat -> (argmin_from best besti i l < i + length l)%nat.
Proof.
  induction l; intros best besti i H; simpl; [lia|].
  destruct (a <? best).
  - specialize (IHl a i (S i)). lia.
  - specialize (IHl best besti (S i)). lia.
Qed.

Lemma argmin_first_lt l : l <> [] -> (argmin_first l < length l)%nat.
Proof.
  destruct l as [|x t]; [congruence|intros _]. unfold argmin_first.
  pose proof (argmin_from_lt t x 0%nat 1%nat). simpl. lia.
Qed.

Definition Pcomb (DX DY : mat) (ps : list (nat * nat)) (B : Z) : Prop :=
  forall p q, In p ps -> In q ps -> Z.abs (ent DX (fst p) (fst q) - ent DY (snd p) (snd q)) <= B.

Section CM.
Variables DX DY : mat.
Hypothesis HX : dmatrix DX.
Hypothesis HY : dmatrix DY.
Let n := length DX.
Let m := length DY.

Lemma Pcomb_snoc ps x y B :
  (x < n)%nat -> (y < m)%nat ->
  Forall (fun p => (fst p < n)%nat /\ (snd p < m)%nat) ps ->
  (Pcomb DX DY (ps ++ [(x, y)]) B <->
   Pcomb DX DY ps B /\ 0 <= B /\
   Forall (fun q => Z.abs (ent DX x (fst q) - ent DY y (snd q)) <= B) ps).
Proof.
  intros Hx Hy F. destruct HX as [_ [ZX [SX _]]]. destruct HY as [_ [ZY [SY _]]].
  rewrite Forall_forall in F. split.
  - intros P. split; [|split].
    + intros p q Ip Iq. apply P; apply in_or_app; left; assumption.
    + specialize (P (x, y) (x, y)). simpl in P. rewrite ZX, ZY in P by assumption.
      assert (I : In (x, y) (ps ++ [(x, y)])) by (apply in_or_app; right; left; reflexivity).
      specialize (P I I). simpl in P. lia.
    + apply Forall_forall. intros q Iq. specialize (P (x, y) q). simpl in P. apply P.
      * apply in_or_app; right; left; reflexivity.
      * apply in_or_app; left; exact Iq.
  - intros [P [B0 Q]] p q Ip Iq. rewrite Forall_forall in Q.
    apply in_app_or in Ip. apply in_app_or in Iq.
    destruct Ip as [Ip|[<-|[]]]; destruct Iq as [Iq|[<-|[]]]; simpl.
    + apply P; assumption.
    + destruct (F p Ip) as [F1 F2]. rewrite (SX (fst p) x), (SY (snd p) y) by assumption. apply Q. exact Ip.
    + apply Q. exact Iq.
    + rewrite ZX, ZY by assumption. simpl. exact B0.
Qed.

Lemma cm_loop_inv : forall rest xs ys dist ys' dist',
  (0 < m)%nat -> length xs = length ys ->
  Forall (fun a => (a < n)%nat) xs -> Forall (fun b => (b < m)%nat) ys -> Forall (fun a => (a < n)%nat) rest ->
  (forall B, dist <= B <-> 0 <= B /\ Pcomb DX DY (combine xs ys) B) ->
  cm_loop DX DY rest xs ys dist = (ys', dist') ->
  length ys' = length (xs ++ rest) /\ Forall (fun b => (b < m)%nat) ys' /\
  (forall B, dist' <= B <-> 0 <= B /\ Pcomb DX DY (combine (xs ++ rest) ys') B).
Proof.
  induction rest as [|x t IH]; intros xs ys dist ys' dist' Hm L Fx Fy Fr Inv E; simpl in E.
  - inversion E; subst. rewrite app_nil_r. split; [symmetry; exact L|]. split; assumption.
  - set (b := map (bottleneck DX DY x xs ys) (seq 0 (length DY))) in *.
    set (y := argmin_first b) in *.
    assert (Hy : (y < m)%nat).
    { unfold y. pose proof (argmin_first_lt b) as A. unfold b in *. rewrite map_length, seq_length in A.
      apply A. fold m. destruct m; [lia|]. simpl. discriminate. }
    inversion Fr; subst.
    assert (Eb : nth y b 0 = bottleneck DX DY x xs ys y) by (unfold b; apply nth_map_seq; exact Hy).
    replace (xs ++ x :: t) with ((xs ++ [x]) ++ t) by (rewrite <- app_assoc; reflexivity).
    apply (IH (xs ++ [x]) (ys ++ [y]) (Z.max (nth y b 0) dist)); auto.
    + rewrite !app_length. simpl. lia.
    + apply Forall_app. split; [assumption|constructor; [assumption|constructor]].
    + apply Forall_app. split; [assumption|constructor; [assumption|constructor]].
    + intros B. rewrite combine_app by exact L. simpl.
      rewrite Pcomb_snoc; try assumption.
      * rewrite Z.max_lub_iff, Eb. unfold bottleneck. rewrite zmaxl_le_iff, Inv, Forall_map. tauto.
      * apply Forall_forall. intros p Ip. rewrite Forall_forall in Fx, Fy. destruct p as [a c]. simpl.
        split; [apply Fx; eapply in_combine_l; exact Ip|apply Fy; eapply in_combine_r; exact Ip].
Qed.
End CM.

(* construct_mapping returns the images of a genuine map X -> Y together with its distortion,
   for EVERY permutation pi and first image y0 *)
Theorem construct_mapping_dis DX DY pi y0 ys dist :
  dmatrix DX -> dmatrix DY -> is_perm (length DX) pi -> (y0 < length DY)%nat ->
  construct_mapping DX DY pi y0 = Some (ys, dist) ->
  valid_map (length DX) (length DY) (map_of pi ys) /\ dist = dis DX DY (map_of pi ys).
Proof.
  intros HX HY [Lp [ND Fp]] Hy0 E. unfold construct_mapping in E.
  destruct pi as [|x0 t]; [discriminate|]. inversion E as [E']; clear E.
  inversion Fp; subst.
  assert (Hm : (0 < length DY)%nat) by lia.
  assert (Fx0 : Forall (fun a => (a < length DX)%nat) [x0]) by (constructor; [assumption|constructor]).
  assert (Fy0 : Forall (fun b => (b < length DY)%nat) [y0]) by (constructor; [assumption|constructor]).
  assert (Inv0 : forall B, 0 <= B <-> 0 <= B /\ Pcomb DX DY (combine [x0] [y0]) B).
  { intros B. simpl. split.
    - intros HB. split; [exact HB|]. intros p q [<-|[]] [<-|[]]. simpl.
      destruct HX as [_ [ZX _]]. destruct HY as [_ [ZY _]]. rewrite ZX, ZY by assumption. simpl. exact HB.
    - tauto. }
  destruct (cm_loop_inv DX DY HX HY t [x0] [y0] 0 ys dist Hm eq_refl Fx0 Fy0 H2 Inv0 E') as [L [Fy Inv]].
  simpl app in *. set (pi := x0 :: t) in *.
  assert (Lc : length pi = length ys) by (symmetry; exact L).
  assert (Fst : map fst (combine pi ys) = pi) by (apply map_fst_combine; exact Lc).
  assert (Mem : forall i, (i < length DX)%nat -> In (i, assoc_img (combine pi ys) i) (combine pi ys)).
  { intros i Hi.
    assert (Ii : In i pi).
    { assert (Inc : incl (seq 0 (length DX)) pi).
      { apply NoDup_length_incl; [exact ND|rewrite seq_length; lia|].
        intros z Hz. rewrite Forall_forall in Fp. apply in_seq. specialize (Fp z Hz). lia. }
      apply Inc. apply in_seq. lia. }
    rewrite <- Fst in Ii. apply in_map_iff in Ii. destruct Ii as [[a c] [Ea Ip]]. simpl in Ea. subst a.
    rewrite (assoc_in _ i c); [exact Ip| rewrite Fst; exact ND | exact Ip]. }
  assert (Img : forall i, (i < length DX)%nat -> img (map_of pi ys) i = assoc_img (combine pi ys) i).
  { intros i Hi. unfold img, map_of. rewrite Lp. apply nth_map_seq. exact Hi. }
  split.
  - split; [unfold map_of; rewrite map_length, seq_length; exact Lp|].
    apply Forall_forall. intros z Hz. unfold map_of in Hz. apply in_map_iff in Hz.
    destruct Hz as [i [<- Hi]]. apply in_seq in Hi. rewrite Lp in Hi.
    rewrite Forall_forall in Fy. apply Fy. eapply in_combine_r. apply Mem. lia.
  - apply Z.le_antisymm.
    + apply Inv. split; [apply dis_nonneg|]. intros p q Ip Iq.
      destruct p as [a c], q as [a' c']. simpl.
      assert (Ha : (a < length DX)%nat) by (rewrite Forall_forall in Fp; apply Fp; eapply in_combine_l; exact Ip).
      assert (Ha' : (a' < length DX)%nat) by (rewrite Forall_forall in Fp; apply Fp; eapply in_combine_l; exact Iq).
      pose proof (dis_ge DX DY (map_of pi ys) a a' Ha Ha') as G. unfold dterm in G.
      rewrite !Img in G by assumption.
      rewrite (assoc_in _ a c) in G; [|rewrite Fst; exact ND|exact Ip].
      rewrite (assoc_in _ a' c') in G; [|rewrite Fst; exact ND|exact Iq]. exact G.
    + apply dis_le_iff.
      assert (A : dist <= dist) by lia. apply Inv in A. destruct A as [D0 P]. split; [exact D0|].
      intros i j Hi Hj. unfold dterm. rewrite !Img by assumption.
      apply (P (i, _) (j, _)); apply Mem; assumption.
Qed.

Lemma cm_loop_nonneg DX DY : forall rest xs ys dist, 0 <= dist -> 0 <= snd (cm_loop DX DY rest xs ys dist).
Proof. induction rest; intros; simpl; [assumption|]. apply IHrest. lia. Qed.

(* a value witnessed by a valid map *)
Definition witnessed (DX DY : mat) (u : Z) : Prop :=
  exists f, valid_map (length DX) (length DY) f /\ u = dis DX DY f.

Definition valid_samples (n m : nat) (s : list (list nat * nat)) : Prop :=
  Forall (fun p => is_perm n (fst p) /\ (snd p < m)%nat) s.

Lemma ub_loop_witnessed DX DY goal : dmatrix DX -> dmatrix DY ->
  forall samples cur u, valid_samples (length DX) (length DY) samples ->
  (forall c, cur = Some c -> witnessed DX DY c) ->
  ub_loop DX DY goal cur samples = Some u -> witnessed DX DY u.
Proof.
  intros HX HY. induction samples as [|[pi y0] rest IH]; intros cur u V W E; simpl in E.
  - apply W. exact E.
  - inversion V as [|? ? [Vp Vy] Vr]; subst. simpl in Vp, Vy.
    destruct (construct_mapping DX DY pi y0) as [[ys dist]|] eqn:C; [|discriminate].
    destruct (construct_mapping_dis DX DY pi y0 ys dist HX HY Vp Vy C) as [Vf Ed].
    assert (Wc : witnessed DX DY (omin dist cur)).
    { destruct cur as [c|]; simpl.
      - destruct (Z.min_spec dist c) as [[_ ->]|[_ ->]]; [exists (map_of pi ys); split; assumption|apply W; reflexivity].
      - exists (map_of pi ys); split; assumption. }
    destruct (omin dist cur <=? goal).
    + inversion E; subst. exact Wc.
    + apply (IH (Some (omin dist cur)) u Vr); [|exact E]. intros c Hc. inversion Hc; subst. exact Wc.
Qed.

(* find_ub: for every list of samples (every RNG state, every sample size), the result is
   max(dis f, dis g) for actual maps f : X -> Y, g : Y -> X *)
Theorem find_ub_sound DX DY s1 s2 lb u :
  dmatrix DX -> dmatrix DY ->
  valid_samples (length DX) (length DY) s1 -> valid_samples (length DY) (length DX) s2 ->
  find_ub DX DY s1 s2 lb = Some u -> two_mgh_le DX DY u.
Proof.
  intros HX HY V1 V2 E. unfold find_ub, find_ub_of_min_distortion in E.
  destruct (ub_loop DX DY lb None s1) as [u1|] eqn:E1; [|discriminate].
  destruct (ub_loop DY DX u1 None s2) as [u2|] eqn:E2; [|discriminate].
  inversion E; subst.
  destruct (ub_loop_witnessed DX DY lb HX HY s1 None u1 V1) as [f [Vf Ef]]; [discriminate|exact E1|].
  destruct (ub_loop_witnessed DY DX u1 HY HX s2 None u2 V2) as [g [Vg Eg]]; [discriminate|exact E2|].
  exists f, g. split; [exact Vf|split; [exact Vg|]]. rewrite <- Ef, <- Eg. reflexivity.
Qed.

(* totality: with at least one sample in each direction the upper bound exists *)
Lemma ub_loop_some DX DY goal : forall samples cur,
  Forall (fun p => fst p <> []) samples -> (samples <> [] \/ cur <> None) ->
  ub_loop DX DY goal cur samples <> None.
Proof.
  induction samples as [|[pi y0] rest IH]; intros cur F H; simpl.
  - destruct H; congruence.
  - inversion F; subst. simpl in *. destruct pi; [congruence|]. simpl.
    destruct (cm_loop DX DY pi [n] [y0] 0) as [ys dist].
    destruct (omin dist cur <=? goal); [discriminate|]. apply IH; [assumption|right; discriminate].
Qed.
