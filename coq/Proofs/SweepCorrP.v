(* C03: soundness of the correspondence verdict.  If the fixed runner check_case answers VAgree for an
   implementation output L, then L itself satisfies the definition at every t and every k: each agreeing
   case of a run is a proof about the implementation's actual output, not only a test. *)
From Coq Require Import QArith Qminmax Lqa List Bool Arith Lia.
From Persim Require Import Lib.Kth Lib.PL Spec.LandscapeS Model.SweepM Proofs.SweepSort Proofs.SweepP Corr.SweepCorr.
Import ListNotations.
Open Scope Q_scope.

Lemma Qlt_bool_proper a a' b b' : a == a' -> b == b' -> Qlt_bool a b = Qlt_bool a' b'.
Proof. intros E F. destruct (Qlt_bool a b) eqn:A, (Qlt_bool a' b') eqn:B; auto; breflect; lra. Qed.
Lemma Qle_bool_proper a a' b b' : a == a' -> b == b' -> Qle_bool a b = Qle_bool a' b'.
Proof. intros E F. destruct (Qle_bool a b) eqn:A, (Qle_bool a' b') eqn:B; auto; breflect; lra. Qed.
Lemma Qeq_bool_proper a a' b b' : a == a' -> b == b' -> Qeq_bool a b = Qeq_bool a' b'.
Proof. intros E F. destruct (Qeq_bool a b) eqn:A, (Qeq_bool a' b') eqn:B; auto; breflect.
  exfalso; apply B; lra. exfalso; apply A; lra. Qed.

Lemma pl_eval_compat : forall l l' t, list_eqb pt_eqb l l' = true -> pl_eval l t == pl_eval l' t.
Proof.
  induction l as [|[x0 y0] r IH]; intros [|[x0' y0'] r'] t H; simpl in H; try discriminate. reflexivity.
  apply andb_true_iff in H. destruct H as [H0 HR]. unfold pt_eqb in H0. simpl in H0. breflect.
  destruct r as [|[x1 y1] r1], r' as [|[x1' y1'] r1']; try discriminate.
  - simpl. rewrite (Qeq_bool_proper t t x0 x0') by (auto; reflexivity). destruct (Qeq_bool t x0'); auto. reflexivity.
  - assert (HR' := HR). simpl in HR'. apply andb_true_iff in HR'. destruct HR' as [H1 _]. unfold pt_eqb in H1. simpl in H1. breflect.
    change (pl_eval ((x0, y0) :: (x1, y1) :: r1) t) with
      (if Qlt_bool t x0 then 0 else if Qle_bool t x1 && Qlt_bool x0 x1 then y0 + (y1 - y0) * (t - x0) / (x1 - x0)
       else pl_eval ((x1, y1) :: r1) t).
    change (pl_eval ((x0', y0') :: (x1', y1') :: r1') t) with
      (if Qlt_bool t x0' then 0 else if Qle_bool t x1' && Qlt_bool x0' x1' then y0' + (y1' - y0') * (t - x0') / (x1' - x0')
       else pl_eval ((x1', y1') :: r1') t).
    rewrite (Qlt_bool_proper t t x0 x0'), (Qle_bool_proper t t x1 x1'), (Qlt_bool_proper x0 x0' x1 x1') by (auto; reflexivity).
    destruct (Qlt_bool t x0'). reflexivity.
    destruct (Qle_bool t x1' && Qlt_bool x0' x1') eqn:E.
    + apply andb_true_iff in E. destruct E as [_ E]. breflect.
      rewrite H, H0, H1, H2. reflexivity.
    + apply IH. exact HR.
Qed.

Lemma list_eqb_nth {A} (e : A -> A -> bool) (x y : list A) (dflt : A) (n : nat) :
  e dflt dflt = true -> list_eqb e x y = true -> e (nth n x dflt) (nth n y dflt) = true.
Proof. intro D. revert y n. induction x as [|a r IH]; intros [|b s] n H; simpl in H; try discriminate.
  - destruct n; exact D.
  - apply andb_true_iff in H. destruct H as [H1 H2]. destruct n; simpl; auto. Qed.

Lemma check_case_agree dgms h impl tr : check_case dgms h impl tr = VAgree -> model_verdict dgms h impl = VAgree.
Proof. unfold check_case. destruct tr as [tr|]; auto. destruct (model_verdict dgms h impl); auto; try discriminate;
  destruct (list_eqb Nat.eqb tr (landscape_trace dgms h)); try discriminate; destruct tr; discriminate. Qed.

Lemma agree_certifies dgms h dg bars L tr : nth_error dgms h = Some dg ->
  finite_bars (strip_trailing_inf dg) = Some bars -> positive_bars bars ->
  check_case dgms h (Ok L) tr = VAgree ->
  forall (k : nat) (t : Q), (1 <= k)%nat -> pl_eval (nth (k - 1) L []) t == land bars k t.
Proof. intros HS HF PB HV k t Hk. apply check_case_agree in HV. unfold model_verdict in HV.
  destruct (exact_landscape_sem dgms h dg bars HS HF PB) as (L0 & RUN & [EV _] & _). rewrite RUN in HV.
  destruct (outcome_eqb (Ok L0) (Ok L)) eqn:E. 2: { destruct (outcome_eqb (exact_landscape true true dgms h) (Ok L)); [discriminate|].
    destruct (outcome_eqb (exact_landscape true false dgms h) (Ok L)); discriminate. }
  simpl in E. rewrite <- (EV k t Hk). symmetry. apply pl_eval_compat.
  apply (list_eqb_nth (list_eqb pt_eqb) L0 L [] (k - 1)); auto. Qed.
