(* C10: the pinned code's faithful model is wrong on a sign-crossing segment with even p. *)
From Coq Require Import QArith List.
From Persim Require Import Lib.PL Spec.PNormS Model.PNormM.
Import ListNotations.
Open Scope Q_scope.

Definition witness : landscape := [[(0, -1); (2, 1)]].

Lemma legacy_refuted :
  exists (L : landscape) (p : nat), wf L /\ (1 <= p)%nat /\
    (exists v, Legacy.norm_pow p L = Some v /\ v == 0) /\
    norm_pow p L == 2 # 3 /\ (exists v, norm_pow_m p L = Some v /\ v == 2 # 3).
Proof. exists witness, 2%nat. split; [|split; [|split; [|split]]].
  - repeat constructor.
  - auto.
  - eexists. split; [vm_compute; reflexivity|reflexivity].
  - vm_compute. reflexivity.
  - eexists. split; [vm_compute; reflexivity|reflexivity]. Qed.
