(* C03: evaluation of the breakpoint lists the inner loop emits, segment by segment. *)
From Coq Require Import QArith Qminmax Lqa List Bool Arith Lia.
From Persim Require Import Lib.Kth Lib.PL Proofs.SweepStep.
Import ListNotations.
Open Scope Q_scope.

Definition peak (b d : Q) : pt := (half (b + d), half (d - b)).
Definition cross (bp d : Q) : pt := (half (bp + d), half (d - bp)).

Lemma pl_eval_seg x0 y0 x1 y1 r t : x0 < x1 -> x0 <= t -> t <= x1 ->
  pl_eval ((x0, y0) :: (x1, y1) :: r) t == y0 + (y1 - y0) * (t - x0) / (x1 - x0).
Proof. intros A B C. simpl.
  replace (Qlt_bool t x0) with false by (symmetry; apply Qlt_bool_false; auto).
  replace (Qle_bool t x1) with true by (symmetry; apply Qle_bool_iff; auto).
  replace (Qlt_bool x0 x1) with true by (symmetry; apply Qlt_bool_iff; auto). reflexivity. Qed.

Lemma pl_eval_skip x0 y0 x1 y1 r t : x0 <= x1 -> x1 < t ->
  pl_eval ((x0, y0) :: (x1, y1) :: r) t = pl_eval ((x1, y1) :: r) t.
Proof. intros A B.
  change (pl_eval ((x0, y0) :: (x1, y1) :: r) t) with
    (if Qlt_bool t x0 then 0 else if Qle_bool t x1 && Qlt_bool x0 x1 then y0 + (y1 - y0) * (t - x0) / (x1 - x0)
     else pl_eval ((x1, y1) :: r) t).
  replace (Qlt_bool t x0) with false by (symmetry; apply Qlt_bool_false; lra).
  replace (Qle_bool t x1) with false by (symmetry; apply b_le_f; auto). reflexivity. Qed.

Lemma pl_eval_left x0 y0 r t : t < x0 -> pl_eval ((x0, y0) :: r) t == 0.
Proof. intro A. destruct r as [|[x1 y1] r]; simpl.
  - destruct (Qeq_bool t x0) eqn:E; [apply Qeq_bool_iff in E; lra|reflexivity].
  - replace (Qlt_bool t x0) with true by (symmetry; apply Qlt_bool_iff; auto). reflexivity. Qed.

Lemma pl_eval_last x0 y0 t : x0 < t -> pl_eval [(x0, y0)] t == 0.
Proof. intro A. simpl. destruct (Qeq_bool t x0) eqn:E; [apply Qeq_bool_iff in E; lra|reflexivity]. Qed.

Lemma seg_slope s x0 y0 x1 y1 t : x0 < x1 -> y1 - y0 == s * (x1 - x0) ->
  y0 + (y1 - y0) * (t - x0) / (x1 - x0) == y0 + s * (t - x0).
Proof. intros A B. rewrite B. field. lra. Qed.

(* one linear piece, slope s *)
Lemma pl_piece s x0 y0 x1 y1 r t : x0 < x1 -> x0 <= t -> t <= x1 -> y1 - y0 == s * (x1 - x0) ->
  pl_eval ((x0, y0) :: (x1, y1) :: r) t == y0 + s * (t - x0).
Proof. intros. rewrite pl_eval_seg by auto. apply seg_slope; auto. Qed.

(* ---- the whole first depth of a single bar: (b,0), peak, (d,0) ---- *)
Lemma rise_to_peak b d r t : b < d -> t <= half (b + d) ->
  pl_eval ((b, 0) :: peak b d :: r) t == tent (b, d) t.
Proof. intros P H. unfold peak. destruct (Qlt_le_dec t b) as [L|G].
  - rewrite pl_eval_left by auto. utent. qmm; lra.
  - rewrite (pl_piece 1) by (unfold half in *; lra). utent. qmm; lra. Qed.

Lemma rise_skip b d r t : b < d -> half (b + d) < t ->
  pl_eval ((b, 0) :: peak b d :: r) t = pl_eval (peak b d :: r) t.
Proof. intros. unfold peak. apply pl_eval_skip; unfold half in *; lra. Qed.

(* ---- closing segment ---- *)
Lemma shape_close b d t : b < d -> half (b + d) <= t ->
  pl_eval [peak b d; (d, 0)] t == tent (b, d) t.
Proof. intros P H. unfold peak. destruct (Qlt_le_dec d t) as [L|G].
  - rewrite pl_eval_skip by (unfold half in *; lra). rewrite pl_eval_last by auto. utent. qmm; lra.
  - rewrite (pl_piece (-1)) by (unfold half in *; lra). utent. qmm; lra. Qed.

(* ---- Case III junction: peak, crossing point, next peak ---- *)
Lemma shape_cross b d bp dp r t : b < d -> b < bp -> bp < d -> d < dp ->
  half (b + d) <= t -> t <= half (bp + dp) ->
  pl_eval (peak b d :: cross bp d :: peak bp dp :: r) t == Qmax (tent (b, d) t) (tent (bp, dp) t).
Proof. intros P B1 B2 D H1 H2. unfold peak, cross.
  destruct (Qlt_le_dec (half (bp + d)) t) as [L|G].
  - rewrite pl_eval_skip by (unfold half in *; lra).
    rewrite (pl_piece 1) by (unfold half in *; lra). utent. qmm; lra.
  - rewrite (pl_piece (-1)) by (unfold half in *; lra). utent. qmm; lra. Qed.

Lemma skip_cross b d bp dp r t : b < d -> b < bp -> bp < d -> d < dp -> half (bp + dp) < t ->
  pl_eval (peak b d :: cross bp d :: peak bp dp :: r) t = pl_eval (peak bp dp :: r) t.
Proof. intros. unfold peak, cross. rewrite !pl_eval_skip by (unfold half in *; lra). reflexivity. Qed.

(* ---- Case I: gap, points (d,0), (b',0) ---- *)
Lemma shape_gap b d bp dp r t : b < d -> d < bp -> bp < dp ->
  half (b + d) <= t -> t <= half (bp + dp) ->
  pl_eval (peak b d :: (d, 0) :: (bp, 0) :: peak bp dp :: r) t == Qmax (tent (b, d) t) (tent (bp, dp) t).
Proof. intros P B1 B2 H1 H2. unfold peak.
  destruct (Qlt_le_dec d t) as [L|G].
  - rewrite pl_eval_skip by (unfold half in *; lra).
    destruct (Qlt_le_dec bp t) as [L2|G2].
    + rewrite pl_eval_skip by lra. rewrite (pl_piece 1) by (unfold half in *; lra). utent. qmm; lra.
    + rewrite (pl_piece 0) by lra. utent. qmm; lra.
  - rewrite (pl_piece (-1)) by (unfold half in *; lra). utent. qmm; lra. Qed.

Lemma skip_gap b d bp dp r t : b < d -> d < bp -> bp < dp -> half (bp + dp) < t ->
  pl_eval (peak b d :: (d, 0) :: (bp, 0) :: peak bp dp :: r) t = pl_eval (peak bp dp :: r) t.
Proof. intros. unfold peak. rewrite !pl_eval_skip by (unfold half in *; lra). reflexivity. Qed.

(* ---- Case II: touching, single point (b',0) with b' == d ---- *)
Lemma shape_touch b d bp dp r t : b < d -> d == bp -> bp < dp ->
  half (b + d) <= t -> t <= half (bp + dp) ->
  pl_eval (peak b d :: (bp, 0) :: peak bp dp :: r) t == Qmax (tent (b, d) t) (tent (bp, dp) t).
Proof. intros P B1 B2 H1 H2. unfold peak.
  destruct (Qlt_le_dec bp t) as [L|G].
  - rewrite pl_eval_skip by (unfold half in *; lra).
    rewrite (pl_piece 1) by (unfold half in *; lra). utent. qmm; lra.
  - rewrite (pl_piece (-1)) by (unfold half in *; lra). utent. qmm; lra. Qed.

Lemma skip_touch b d bp dp r t : b < d -> d == bp -> bp < dp -> half (bp + dp) < t ->
  pl_eval (peak b d :: (bp, 0) :: peak bp dp :: r) t = pl_eval (peak bp dp :: r) t.
Proof. intros. unfold peak. rewrite !pl_eval_skip by (unfold half in *; lra). reflexivity. Qed.

(* ---- two tents of a chain: the earlier one dominates up to its peak, the later one from its peak on ---- *)
Lemma chain_before b d bp dp t : b < d -> bp < dp -> b < bp -> d < dp -> t <= half (b + d) ->
  tent (bp, dp) t <= tent (b, d) t.
Proof. intros. utent. qmm; lra. Qed.
Lemma chain_after b d bp dp t : b < d -> bp < dp -> b < bp -> d < dp -> half (bp + dp) <= t ->
  tent (b, d) t <= tent (bp, dp) t.
Proof. intros. utent. qmm; lra. Qed.
