(* The Gaussian kernel exp(-|x-y|^2/(8 sigma)) on R^2 is positive semidefinite (sigma > 0).
   Classical proof:  exp(-c|x-y|^2) = exp(-c|x|^2) exp(-c|y|^2) exp(2c<x,y>);  exp(t<x,y>) is the limit of
   the partial sums of sum_n t^n <x,y>^n / n!;  <x,y>^n = sum_k C(n,k) (x1^k x2^(n-k)) (y1^k y2^(n-k))
   (binomial theorem) is a sum of rank-one kernels;  a limit of non-negative numbers is non-negative.
   Together with Proofs/HeatP.v (gram_psd_of_gauss_psd) this discharges the PSD premise of C14's T2 theorems. *)
From Coq Require Import Reals List Lra Lia.
From Persim Require Import Model.HeatM Proofs.HeatP.
Import ListNotations.
Open Scope R_scope.

Definition form {A} (K : A -> A -> R) (ws : list (R * A)) : R :=
  dsum (fun a b => fst a * fst b * K (snd a) (snd b)) ws ws.

(* ---------- algebra of forms ---------- *)
Lemma dsum_prod {A B} (f : A -> R) (g : B -> R) F G :
  dsum (fun a b => f a * g b) F G = hsum (map f F) * hsum (map g G).
Proof. induction F as [|a F IH]. rewrite dsum_nil_l. simpl. ring.
  rewrite dsum_cons_l, IH. rewrite (hsum_map_scal g (f a)). simpl. ring. Qed.
Lemma dsum_plus {A B} (f g : A -> B -> R) F G :
  dsum (fun a b => f a b + g a b) F G = dsum f F G + dsum g F G.
Proof. unfold dsum. rewrite <- hsum_map_plus. apply hsum_map_ext. intros a. apply hsum_map_plus. Qed.

Lemma form_ext {A} (K K' : A -> A -> R) ws : (forall x y, K x y = K' x y) -> form K ws = form K' ws.
Proof. intros H. unfold form. apply dsum_ext. intros. rewrite H. reflexivity. Qed.
Lemma form_rank1 {A} (phi : A -> R) ws :
  form (fun x y => phi x * phi y) ws = Rsqr (hsum (map (fun a => fst a * phi (snd a)) ws)).
Proof. unfold form, Rsqr. rewrite <- dsum_prod. apply dsum_ext. intros. ring. Qed.
Lemma form_scal {A} (K : A -> A -> R) c ws : form (fun x y => c * K x y) ws = c * form K ws.
Proof. unfold form. rewrite <- dsum_scal. apply dsum_ext. intros. ring. Qed.
Lemma form_plus {A} (K K' : A -> A -> R) ws : form (fun x y => K x y + K' x y) ws = form K ws + form K' ws.
Proof. unfold form. rewrite <- dsum_plus. apply dsum_ext. intros. ring. Qed.
Lemma form_sum {A} (G : nat -> A -> A -> R) n ws :
  form (fun x y => sum_f_R0 (fun k => G k x y) n) ws = sum_f_R0 (fun k => form (G k) ws) n.
Proof. induction n as [|n IH]. reflexivity.
  simpl sum_f_R0. rewrite <- IH, <- form_plus. reflexivity. Qed.

(* ---------- powers of the inner product are PSD ---------- *)
Definition inner (p q : pt) : R := fst p * fst q + snd p * snd q.

Lemma C_nonneg n k : (k <= n)%nat -> 0 <= C n k.
Proof. intros H. unfold C. apply Rlt_le. apply Rdiv_lt_0_compat. apply INR_fact_lt_0.
  apply Rmult_lt_0_compat; apply INR_fact_lt_0. Qed.

Lemma sum_nonneg_le (f : nat -> R) n : (forall k, (k <= n)%nat -> 0 <= f k) -> 0 <= sum_f_R0 f n.
Proof. induction n as [|n IH]; intros H. simpl. apply H. lia.
  simpl. assert (0 <= sum_f_R0 f n) by (apply IH; intros; apply H; lia). assert (0 <= f (S n)) by (apply H; lia). lra. Qed.

Lemma inner_pow_psd n ws : 0 <= form (fun p q => inner p q ^ n) ws.
Proof.
  rewrite (form_ext _ (fun p q => sum_f_R0 (fun k => C n k * ((fst p ^ k * snd p ^ (n - k)) * (fst q ^ k * snd q ^ (n - k)))) n)).
  - rewrite form_sum. apply sum_nonneg_le. intros k Hk. rewrite form_scal.
    apply Rmult_le_pos. apply C_nonneg; exact Hk.
    rewrite (form_rank1 (fun p => fst p ^ k * snd p ^ (n - k))). apply Rle_0_sqr.
  - intros p q. unfold inner. rewrite binomial. apply sum_eq. intros k Hk.
    rewrite !Rpow_mult_distr. ring. Qed.

(* ---------- partial sums of the exponential series ---------- *)
Definition expN (N : nat) (x : R) : R := sum_f_R0 (fun n => / INR (fact n) * x ^ n) N.

Lemma expN_psd t N ws : 0 <= t -> 0 <= form (fun p q => expN N (t * inner p q)) ws.
Proof. intros Ht. unfold expN. rewrite form_sum. apply sum_nonneg_le. intros n _.
  rewrite (form_ext _ (fun p q => (/ INR (fact n) * t ^ n) * inner p q ^ n)) by (intros; rewrite Rpow_mult_distr; ring).
  rewrite form_scal. apply Rmult_le_pos; [|apply inner_pow_psd].
  apply Rmult_le_pos. apply Rlt_le, Rinv_0_lt_compat, INR_fact_lt_0. apply pow_le. exact Ht. Qed.

Lemma expN_cv x : Un_cv (fun N => expN N x) (exp x).
Proof. exact (proj2_sig (exist_exp x)). Qed.

(* ---------- limits of finite sums ---------- *)
Lemma cv_const c : Un_cv (fun _ => c) c.
Proof. intros eps He. exists 0%nat. intros. unfold R_dist. rewrite Rminus_diag_eq, Rabs_R0; auto. Qed.
Lemma hsum_cv {A} (f : nat -> A -> R) (g : A -> R) l :
  (forall a, Un_cv (fun N => f N a) (g a)) -> Un_cv (fun N => hsum (map (f N) l)) (hsum (map g l)).
Proof. intros H. induction l as [|a l IH]; simpl. apply cv_const.
  apply (CV_plus (fun N => f N a) (fun N => hsum (map (f N) l))). apply H. exact IH. Qed.
Lemma dsum_cv {A B} (f : nat -> A -> B -> R) (g : A -> B -> R) F G :
  (forall a b, Un_cv (fun N => f N a b) (g a b)) -> Un_cv (fun N => dsum (f N) F G) (dsum g F G).
Proof. intros H. unfold dsum.
  apply (hsum_cv (fun N a => hsum (map (f N a) G)) (fun a => hsum (map (g a) G))).
  intros a. apply (hsum_cv (fun N b => f N a b) (g a)). intros b. apply H. Qed.
Lemma form_cv {A} (K : nat -> A -> A -> R) (K' : A -> A -> R) ws :
  (forall x y, Un_cv (fun N => K N x y) (K' x y)) -> Un_cv (fun N => form (K N) ws) (form K' ws).
Proof. intros H. unfold form.
  apply (dsum_cv (fun N a b => fst a * fst b * K N (snd a) (snd b)) (fun a b => fst a * fst b * K' (snd a) (snd b))).
  intros a b. apply (CV_mult (fun _ => fst a * fst b) (fun N => K N (snd a) (snd b))). apply cv_const. apply H. Qed.

Lemma cv_nonneg u l : (forall N, 0 <= u N) -> Un_cv u l -> 0 <= l.
Proof. intros H C. apply Rle_cv_lim with (Un := fun _ : nat => 0) (Vn := u). exact H. apply cv_const. exact C. Qed.

Lemma exp_inner_psd t ws : 0 <= t -> 0 <= form (fun p q => exp (t * inner p q)) ws.
Proof. intros Ht. apply (cv_nonneg (fun N => form (fun p q => expN N (t * inner p q)) ws)).
  - intros N. apply expN_psd. exact Ht.
  - apply (form_cv (fun N p q => expN N (t * inner p q))). intros. apply expN_cv. Qed.

(* ---------- the Gaussian kernel ---------- *)
Lemma gauss_factor sigma p q : sigma <> 0 ->
  gauss sigma p q = exp (- inner p p / (8 * sigma)) * exp (- inner q q / (8 * sigma)) * exp (/ (4 * sigma) * inner p q).
Proof. intros Hs. unfold gauss. rewrite <- !exp_plus. f_equal. unfold sqdist, inner. field. exact Hs. Qed.

Lemma form_map {A B} (K : B -> B -> R) (h : A -> R * B) (ws : list A) :
  form K (map h ws) = dsum (fun a b => fst (h a) * fst (h b) * K (snd (h a)) (snd (h b))) ws ws.
Proof. unfold form. rewrite dsum_map. reflexivity. Qed.

Theorem gauss_psd sigma : 0 < sigma -> forall ps, 0 <= gauss_form sigma ps.
Proof. intros Hs ps.
  assert (E : gauss_form sigma ps =
              form (fun p q => exp (/ (4 * sigma) * inner p q))
                   (map (fun a => (fst a * exp (- inner (snd a) (snd a) / (8 * sigma)), snd a)) ps)).
  { rewrite form_map. unfold gauss_form. apply dsum_ext. intros a b. cbn [fst snd].
    rewrite gauss_factor by lra. ring. }
  rewrite E. apply exp_inner_psd. apply Rlt_le, Rinv_0_lt_compat. lra. Qed.

(* ---------- consequences for the heat-kernel distance: no hypothesis left but sigma > 0 ---------- *)
Theorem gram_psd sigma : 0 < sigma -> forall ws, 0 <= gram sigma ws.
Proof. intros Hs. apply gram_psd_of_gauss_psd. exact Hs. apply gauss_psd. exact Hs. Qed.
Theorem radicand_nonneg sigma F G : 0 < sigma -> 0 <= radicand sigma F G.
Proof. intros Hs. apply radicand_nonneg_psd. apply gram_psd. exact Hs. Qed.
Theorem heat_sq_radicand sigma F G : 0 < sigma -> heat sigma F G * heat sigma F G = radicand sigma F G.
Proof. intros Hs. apply heat_sq_psd. apply gram_psd. exact Hs. Qed.
Theorem heat_triangle sigma F G H : 0 < sigma -> heat sigma F H <= heat sigma F G + heat sigma G H.
Proof. intros Hs. apply heat_triangle_psd. apply gram_psd. exact Hs. Qed.
