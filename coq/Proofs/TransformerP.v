(* C18 - lemmas about the transformer state machines of Model/TransformerM.v.
   Statements are collected in Properties/C18.v. *)
From Coq Require Import ZArith QArith List Bool Lia.
From Persim Require Import Model.ImagerM Model.TransformerM.
Import ListNotations.

(* ================================================================== landscaper *)
Section LandscaperP.
Variable V : Type.
Variable approx : option Q -> option Q -> Z -> nat -> list diagram -> lres V.
Variable flat : V -> V.

Notation step_with := (lstep_with V approx flat).
Notation transform := (ltransform V approx flat).

(* fit_transform X  =  fit X, then transform X on the fitted state (or the fit's exception) *)
Lemma l_fit_transform_eq fit s X :
  step_with fit s (LFitTransform X) =
  match fit s X with
  | LOk s' => (s', snd (step_with fit s' (LTransform X)))
  | LErr e => (s, LErr e)
  end.
Proof. cbn [lstep_with]. destruct (fit s X); reflexivity. Qed.

Lemma l_fit_then_transform fit s X s' :
  fit s X = LOk s' ->
  step_with fit s (LFit X) = (s', LOk None) /\
  step_with fit s (LFitTransform X) = (s', snd (step_with fit s' (LTransform X))) /\
  fst (step_with fit s' (LTransform X)) = s'.
Proof. intros E. cbn [lstep_with]. rewrite E. repeat split. Qed.

(* transform does not change the state, and therefore returns the same value when repeated *)
Lemma l_transform_pure fit s X :
  fst (step_with fit s (LTransform X)) = s /\
  snd (step_with fit (fst (step_with fit s (LTransform X))) (LTransform X)) = snd (step_with fit s (LTransform X)).
Proof. cbn [lstep_with fst snd]. split; reflexivity. Qed.

(* ---- the pinned fit keeps the first fit's grid *)
Definition X1 : list diagram := [[(0, 4)]].
Definition X2 : list diagram := [[(10 # 1, 14 # 1)]].

Lemma refit_legacy_refuted :
  let s0 := lctor 0 None None 5 false in
  lpublic (lrun_legacy V approx flat s0 [LFit X1; LFit X2]) <> lpublic (lrun_legacy V approx flat s0 [LFit X2]) /\
  l_start (lrun_legacy V approx flat s0 [LFit X1; LFit X2]) = Some 0 /\
  l_start (lrun_legacy V approx flat s0 [LFit X2]) = Some (10 # 1) /\
  l_start (lrun V approx flat s0 [LFit X1; LFit X2]) = Some (10 # 1) /\
  l_stop (lrun V approx flat s0 [LFit X1; LFit X2]) = Some (14 # 1).
Proof.
  cbv zeta. repeat split; try reflexivity.
  vm_compute. intro H. discriminate H.
Qed.

(* ---- the repaired fit forgets earlier fits *)
Definition fresh (hom : nat) (ustart ustop : option Q) (steps : Z) (flatten : bool) : lstate :=
  lctor hom ustart ustop steps flatten.

(* the learned / user-fixed discipline of one grid end *)
Definition end_wf (user cur learned : option Q) : Prop :=
  match user with
  | Some a => cur = Some a /\ learned = None
  | None => (cur = None /\ learned = None) \/ (exists v, cur = Some v /\ learned = Some v)
  end.

Definition wf hom ustart ustop steps flatten (s : lstate) : Prop :=
  l_hom s = hom /\ l_steps s = steps /\ l_flatten s = flatten /\
  end_wf ustart (l_start s) (l_learned_start s) /\ end_wf ustop (l_stop s) (l_learned_stop s).

Lemma must_learn_wf user cur learned : end_wf user cur learned ->
  must_learn cur learned = match user with None => true | Some _ => false end.
Proof.
  unfold end_wf, must_learn, is_learned. destruct user as [a|].
  - intros (-> & ->). reflexivity.
  - intros [(-> & ->)|(v & -> & ->)]; [reflexivity|]. apply Qeq_bool_iff. reflexivity.
Qed.

Lemma cur_wf_user a cur learned : end_wf (Some a) cur learned -> cur = Some a.
Proof. intros (H & _). exact H. Qed.

Lemma fresh_wf hom us up steps fl : wf hom us up steps fl (fresh hom us up steps fl).
Proof.
  unfold wf, fresh, lctor. cbn. repeat split.
  - destruct us; cbn; [split; reflexivity|left; split; reflexivity].
  - destruct up; cbn; [split; reflexivity|left; split; reflexivity].
Qed.

Lemma lfit_forgets hom us up steps fl s X : wf hom us up steps fl s ->
  lfit s X = lfit (fresh hom us up steps fl) X.
Proof.
  intros (H1 & H2 & H3 & Ws & Wp).
  pose proof (fresh_wf hom us up steps fl) as (_ & _ & _ & Fs & Fp).
  unfold lfit. rewrite H1, H2, H3.
  rewrite (must_learn_wf _ _ _ Ws), (must_learn_wf _ _ _ Wp).
  rewrite (must_learn_wf _ _ _ Fs), (must_learn_wf _ _ _ Fp).
  unfold fresh, lctor. cbn [l_hom l_start l_stop l_steps l_flatten l_learned_start l_learned_stop].
  destruct (nth_error X hom) as [d|]; [|reflexivity].
  destruct us as [a|], up as [b|]; cbn [orb];
    try rewrite (cur_wf_user _ _ _ Ws); try rewrite (cur_wf_user _ _ _ Wp); reflexivity.
Qed.

Lemma lfit_wf hom us up steps fl s X s' : wf hom us up steps fl s -> lfit s X = LOk s' ->
  wf hom us up steps fl s'.
Proof.
  intros W E. pose proof W as (H1 & H2 & H3 & Ws & Wp).
  unfold lfit in E. rewrite (must_learn_wf _ _ _ Ws), (must_learn_wf _ _ _ Wp) in E.
  destruct (nth_error X (l_hom s)) as [d|]; [|discriminate].
  destruct us as [a|], up as [b|]; cbn [orb] in E.
  - injection E as <-. unfold wf. cbn. repeat split; try assumption;
      [apply (cur_wf_user _ _ _ Ws)|apply (cur_wf_user _ _ _ Wp)].
  - destruct d; [discriminate|]. injection E as <-. unfold wf. cbn. repeat split; try assumption.
    + apply (cur_wf_user _ _ _ Ws).
    + right. eexists. split; reflexivity.
  - destruct d; [discriminate|]. injection E as <-. unfold wf. cbn. repeat split; try assumption.
    + right. eexists. split; reflexivity.
    + apply (cur_wf_user _ _ _ Wp).
  - destruct d; [discriminate|]. injection E as <-. unfold wf. cbn. repeat split; try assumption.
    + right. eexists. split; reflexivity.
    + right. eexists. split; reflexivity.
Qed.

Lemma wf_params hom us up steps fl s : wf hom us up steps fl s -> lparams s = (us, up).
Proof.
  intros (_ & _ & _ & Ws & Wp). unfold lparams. f_equal.
  - destruct us as [a|]; cbn in Ws.
    + destruct Ws as (-> & ->). reflexivity.
    + destruct Ws as [(-> & ->)|(v & -> & ->)]; [reflexivity|].
      unfold is_learned. replace (Qeq_bool v v) with true; [reflexivity|].
      symmetry. apply Qeq_bool_iff. reflexivity.
  - destruct up as [a|]; cbn in Wp.
    + destruct Wp as (-> & ->). reflexivity.
    + destruct Wp as [(-> & ->)|(v & -> & ->)]; [reflexivity|].
      unfold is_learned. replace (Qeq_bool v v) with true; [reflexivity|].
      symmetry. apply Qeq_bool_iff. reflexivity.
Qed.

Lemma lstep_wf hom us up steps fl s o : wf hom us up steps fl s ->
  wf hom us up steps fl (fst (lstep V approx flat s o)).
Proof.
  intros W. unfold lstep. destruct o; cbn [lstep_with].
  - destruct (lfit s X) eqn:E; cbn [fst]; [eapply lfit_wf; eassumption|exact W].
  - exact W.
  - destruct (lfit s X) eqn:E; cbn [fst]; [eapply lfit_wf; eassumption|exact W].
  - cbn [fst]. rewrite (wf_params _ _ _ _ _ _ W). cbn [fst snd].
    destruct W as (-> & -> & -> & _). apply fresh_wf.
Qed.

Lemma lrun_wf hom us up steps fl h : forall s, wf hom us up steps fl s ->
  wf hom us up steps fl (lrun V approx flat s h).
Proof.
  induction h as [|o h IH]; intros s W; cbn.
  - exact W.
  - apply IH. apply (lstep_wf _ _ _ _ _ _ _ W).
Qed.

(* after any history, a fit gives exactly what it gives on a fresh estimator with the user's parameters,
   and so does everything that follows it *)
Lemma landscaper_fit_forgets hom us up steps fl h X :
  lfit (lrun V approx flat (fresh hom us up steps fl) h) X = lfit (fresh hom us up steps fl) X.
Proof. apply lfit_forgets. apply lrun_wf. apply fresh_wf. Qed.

Lemma landscaper_fit_transform_forgets hom us up steps fl h X :
  snd (lstep V approx flat (lrun V approx flat (fresh hom us up steps fl) h) (LFitTransform X))
  = snd (lstep V approx flat (fresh hom us up steps fl) (LFitTransform X)) /\
  (forall s', lfit (fresh hom us up steps fl) X = LOk s' ->
     fst (lstep V approx flat (lrun V approx flat (fresh hom us up steps fl) h) (LFitTransform X)) = s').
Proof.
  unfold lstep. cbn [lstep_with]. rewrite landscaper_fit_forgets.
  destruct (lfit (fresh hom us up steps fl) X) eqn:E; cbn [fst snd]; split; try reflexivity.
  - intros s' H. injection H as <-. reflexivity.
  - intros s' H. discriminate H.
Qed.

(* clone contract: get_params() always reports the user's start / stop *)
Lemma landscaper_params_are_users hom us up steps fl h :
  lparams (lrun V approx flat (fresh hom us up steps fl) h) = (us, up).
Proof. apply (wf_params hom us up steps fl). apply lrun_wf. apply fresh_wf. Qed.

(* clone() after any history is a fresh estimator with the user's parameters *)
Lemma landscaper_clone_is_fresh hom us up steps fl h :
  fst (lstep V approx flat (lrun V approx flat (fresh hom us up steps fl) h) LClone) = fresh hom us up steps fl.
Proof.
  pose proof (lrun_wf hom us up steps fl h _ (fresh_wf hom us up steps fl)) as W.
  unfold lstep. cbn [lstep_with fst]. rewrite (wf_params _ _ _ _ _ _ W). cbn [fst snd].
  destruct W as (-> & -> & -> & _). reflexivity.
Qed.

(* what the first successful fit learns: the least birth and the greatest death of X[hom_deg] *)
Lemma qmin_le a b : Qle (qmin a b) a /\ Qle (qmin a b) b.
Proof.
  unfold qmin. destruct (Qle_bool a b) eqn:E.
  - apply Qle_bool_iff in E. split; [apply Qle_refl|exact E].
  - split; [|apply Qle_refl]. destruct (Qlt_le_dec b a) as [L|L]; [apply Qlt_le_weak; exact L|].
    apply Qle_bool_iff in L. congruence.
Qed.

Lemma min_birth_le d : forall b, Qle (min_birth b d) (fst b) /\ forall x, In x d -> Qle (min_birth b d) (fst x).
Proof.
  unfold min_birth. induction d as [|y d IH]; intros b; cbn [fold_left].
  - split; [apply Qle_refl|intros x []].
  - destruct (IH (qmin (fst b) (fst y), snd b)) as (A & B). cbn [fst] in A.
    destruct (qmin_le (fst b) (fst y)) as (C & D).
    assert (F : fold_left (fun m x => qmin m (fst x)) d (qmin (fst b) (fst y)) =
                fold_left (fun m x => qmin m (fst x)) d (fst (qmin (fst b) (fst y), snd b))) by reflexivity.
    rewrite F. split.
    + eapply Qle_trans; eassumption.
    + intros x [<-|I]; [eapply Qle_trans; eassumption|apply B; exact I].
Qed.

Lemma qmax_ge a b : Qle a (qmax a b) /\ Qle b (qmax a b).
Proof.
  unfold qmax. destruct (Qle_bool b a) eqn:E.
  - apply Qle_bool_iff in E. split; [apply Qle_refl|exact E].
  - split; [|apply Qle_refl]. destruct (Qlt_le_dec a b) as [L|L]; [apply Qlt_le_weak; exact L|].
    apply Qle_bool_iff in L. congruence.
Qed.

Lemma max_death_ge d : forall b, Qle (snd b) (max_death b d) /\ forall x, In x d -> Qle (snd x) (max_death b d).
Proof.
  unfold max_death. induction d as [|y d IH]; intros b; cbn [fold_left].
  - split; [apply Qle_refl|intros x []].
  - destruct (IH (fst b, qmax (snd b) (snd y))) as (A & B). cbn [snd] in A.
    destruct (qmax_ge (snd b) (snd y)) as (C & D).
    assert (F : fold_left (fun m x => qmax m (snd x)) d (qmax (snd b) (snd y)) =
                fold_left (fun m x => qmax m (snd x)) d (snd (fst b, qmax (snd b) (snd y)))) by reflexivity.
    rewrite F. split.
    + eapply Qle_trans; eassumption.
    + intros x [<-|I]; [eapply Qle_trans; eassumption|apply B; exact I].
Qed.

(* a fit with nothing user-fixed learns a grid that spans every bar of X[hom_deg] *)
Lemma landscaper_fit_learns_span hom steps fl h X s' :
  lfit (lrun V approx flat (fresh hom None None steps fl) h) X = LOk s' ->
  exists d a b, nth_error X hom = Some d /\ d <> [] /\ l_start s' = Some a /\ l_stop s' = Some b /\
    forall x, In x d -> Qle a (fst x) /\ Qle (snd x) b.
Proof.
  rewrite landscaper_fit_forgets. unfold lfit, fresh, lctor.
  cbn [l_hom l_start l_stop l_steps l_flatten l_learned_start l_learned_stop must_learn orb].
  destruct (nth_error X hom) as [d|]; [|discriminate].
  destruct d as [|b0 r]; [discriminate|]. intros E. injection E as <-.
  exists (b0 :: r), (min_birth b0 r), (max_death b0 r). cbn [hd tl l_start l_stop].
  split; [reflexivity|]. split; [discriminate|]. split; [reflexivity|]. split; [reflexivity|].
  intros x H. split.
  - destruct H as [<-|I]; [apply (proj1 (min_birth_le r b0))|apply (proj2 (min_birth_le r b0)); exact I].
  - destruct H as [<-|I]; [apply (proj1 (max_death_ge r b0))|apply (proj2 (max_death_ge r b0)); exact I].
Qed.

End LandscaperP.

(* ================================================================== imager *)
Section ImagerP.
Variable N : Num.
Variable I : Type.
Variable img : Z * Z -> list (T N) -> list (T N) -> bool -> dgm N -> I.

Notation step_with := (istep_with N I img).

Lemma i_fit_transform_eq f s c k :
  step_with f s (IFitTransform c k) =
  (fst (step_with f s (IFit c k)), snd (step_with f (fst (step_with f s (IFit c k))) (ITransform c k))).
Proof. reflexivity. Qed.

Lemma i_transform_pure f s c k :
  fst (step_with f s (ITransform c k)) = s /\
  snd (step_with f (fst (step_with f s (ITransform c k))) (ITransform c k)) = snd (step_with f s (ITransform c k)).
Proof. split; reflexivity. Qed.

Lemma i_maps_elementwise s c k :
  length (itransform N I img s c k) = length (fst c :: snd c) /\
  (forall i d, nth_error (fst c :: snd c) i = Some d ->
     nth_error (itransform N I img s c k) i = Some (image_of N I img s k d) /\
     itransform N I img s (d, []) k = [image_of N I img s k d]).
Proof.
  unfold itransform. split; [apply map_length|].
  intros i d H. split; [|reflexivity]. now apply map_nth_error.
Qed.

(* fit overwrites both ranges from the data: the fitted state is a function of the pixel size and the
   data only - literally the same state whatever was configured or fitted before *)
Lemma i_fit_forgets (s1 s2 : state N) c k : psz s1 = psz s2 -> fit N s1 c k = fit N s2 c k.
Proof.
  intros E. unfold fit, fit_with. destruct (coll_ext N k c) as [[[mnb mxb] mnp] mxp].
  unfold set_pers, set_birth, create_mesh.
  cbn [psz blo bhi plo phi width height resw resh bpnts ppnts]. rewrite E. reflexivity.
Qed.

Lemma i_fit_psz (s : state N) c k : psz (fit N s c k) = psz s.
Proof.
  unfold fit, fit_with. destruct (coll_ext N k c) as [[[mnb mxb] mnp] mxp]. reflexivity.
Qed.

Lemma i_run_psz h : forall s, psz (irun N I img s h) = psz s.
Proof.
  induction h as [|o h IH]; intros s; cbn; [reflexivity|].
  unfold irun in IH. rewrite IH. destruct o; cbn [istep istep_with fst]; try reflexivity; apply i_fit_psz.
Qed.

Lemma i_fit_forgets_history (s1 s2 : state N) h1 h2 c k : psz s1 = psz s2 ->
  istep N I img (irun N I img s1 h1) (IFitTransform c k) = istep N I img (irun N I img s2 h2) (IFitTransform c k) /\
  fit N (irun N I img s1 h1) c k = fit N s2 c k.
Proof.
  intros E.
  assert (F : forall h h', fit N (irun N I img s1 h) c k = fit N (irun N I img s2 h') c k).
  { intros h h'. apply i_fit_forgets. rewrite !i_run_psz. exact E. }
  split.
  - unfold istep. cbn [istep_with]. rewrite (F h1 h2). reflexivity.
  - exact (F h1 []).
Qed.

End ImagerP.
