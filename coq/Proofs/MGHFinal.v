(* C05: unconditional assembly (greedy completeness discharged) and totality of the model. *)
From Coq Require Import ZArith List Bool Arith Lia.
From Persim Require Import Spec.MGH Model.MGHM Proofs.MGHBasics Proofs.MGHUb Proofs.MGHLb
  Proofs.MGHEst Proofs.MGHGreedy.
Import ListNotations.
Open Scope Z_scope.

Theorem find_lb_sound pick DX DY L :
  dmatrix DX -> dmatrix DY -> find_lb pick DX DY = Some L -> two_mgh_ge DX DY L /\ 0 <= L.
Proof. apply find_lb_sound_modulo_greedy. exact greedy_complete_holds. Qed.

Theorem estimate2_brackets_full pick DX DY s1 s2 L U :
  dmatrix DX -> dmatrix DY ->
  valid_samples (length DX) (length DY) s1 -> valid_samples (length DY) (length DX) s2 ->
  estimate2 pick DX DY s1 s2 = Some (L, U) ->
  two_mgh_ge DX DY L /\ two_mgh_le DX DY U /\ 0 <= L <= U.
Proof. apply estimate2_brackets. exact greedy_complete_holds. Qed.

Theorem iso_find_lb_zero_full pick DX DY L :
  dmatrix DX -> dmatrix DY -> isometric DX DY -> find_lb pick DX DY = Some L -> L = 0.
Proof. apply iso_find_lb_zero. exact greedy_complete_holds. Qed.

(* ------------------------------------------------------------------ totality *)
Definition in_range (pick : oracle) : Prop :=
  forall K dX d, K <> [] -> (pick K dX d < length K)%nat.

Lemma remove_nth_length {A} r (l : list A) : (r < length l)%nat -> length (remove_nth r l) = pred (length l).
Proof.
  revert r. induction l as [|x t IH]; intros r H; simpl in *; [lia|].
  destruct r; [reflexivity|]. simpl. rewrite IH by lia. destruct t; simpl in *; lia.
Qed.

Lemma largest_loop_total pick D dX d : in_range pick ->
  forall fuel ks, (length ks <= fuel)%nat -> largest_loop pick D dX d fuel ks <> None.
Proof.
  intros R. induction fuel as [|f IH]; intros ks L; simpl.
  - destruct ks; [simpl; discriminate|simpl in L; lia].
  - destruct (has_small D ks d) eqn:HS; [|discriminate].
    assert (NE : ks <> []) by (intros ->; simpl in HS; discriminate).
    apply IH. assert (P : (pick (submat D ks) dX d < length ks)%nat).
    { pose proof (R (submat D ks) dX d) as Q. unfold submat in Q at 2 3. rewrite map_length in Q. apply Q.
      destruct ks; [congruence|simpl; discriminate]. }
    rewrite remove_nth_length by exact P. destruct ks; simpl in *; [congruence|lia].
Qed.

Lemma try_side_total pick DX DY dX maxd d : in_range pick -> try_side pick DX DY dX maxd d <> None.
Proof.
  intros R. unfold try_side, find_largest.
  pose proof (largest_loop_total pick DX dX d R (length DX) (seq 0 (length DX))) as T.
  rewrite seq_length in T. specialize (T (le_n _)).
  destruct (largest_loop pick DX dX d (length DX) (seq 0 (length DX))); [discriminate|congruence].
Qed.

Lemma lb_step_total pick DX DY dX dY maxd d lb : in_range pick -> lb_step pick DX DY dX dY maxd d lb <> None.
Proof.
  intros R. unfold lb_step.
  pose proof (try_side_total pick DX DY dX maxd d R) as T1.
  pose proof (try_side_total pick DY DX dY maxd d R) as T2.
  destruct (d <=? dX).
  - destruct (try_side pick DX DY dX maxd d) as [[|]|]; [| |congruence].
    + destruct ((d <? d) && (d <=? dY)); [|discriminate].
      destruct (try_side pick DY DX dY maxd d) as [[|]|]; [discriminate|discriminate|congruence].
    + destruct ((lb <? d) && (d <=? dY)); [|discriminate].
      destruct (try_side pick DY DX dY maxd d) as [[|]|]; [discriminate|discriminate|congruence].
  - destruct ((lb <? d) && (d <=? dY)); [|discriminate].
    destruct (try_side pick DY DX dY maxd d) as [[|]|]; [discriminate|discriminate|congruence].
Qed.

Lemma lb_loop_total pick DX DY dX dY maxd : in_range pick ->
  forall fuel d lb, 0 <= lb -> d <= Z.of_nat fuel -> lb_loop pick DX DY dX dY maxd fuel d lb <> None.
Proof.
  intros R. induction fuel as [|f IH]; intros d lb L0 Df; simpl; destruct (Z.ltb_spec lb d) as [Ld|Ld]; try discriminate.
  - lia.
  - destruct (lb_step pick DX DY dX dY maxd d lb) as [lb'|] eqn:S; [|exfalso; exact (lb_step_total _ _ _ _ _ _ _ _ R S)].
    apply IH; [|lia]. apply lb_step_ge in S; [lia|exact Ld].
Qed.

(* with an oracle that returns an existing row (np.argmin always does), find_lb terminates with a value *)
Theorem find_lb_total pick DX DY : in_range pick -> find_lb pick DX DY <> None.
Proof.
  intros R. unfold find_lb. apply lb_loop_total; [exact R|apply trivial_lb_nonneg|].
  pose proof (diam_nonneg DX). pose proof (diam_nonneg DY). lia.
Qed.

Lemma pick_with_in_range W : in_range (pick_with W).
Proof.
  intros K dX d NE. unfold pick_with.
  pose proof (argmin_first_lt (map (sortkey (W K dX) K d) (seq 0 (length K)))) as A.
  rewrite map_length, seq_length in A. apply A. destruct K; [congruence|simpl; discriminate].
Qed.
Theorem pick_exact_in_range : in_range pick_exact.
Proof. apply pick_with_in_range. Qed.
Theorem pick_int8_in_range : in_range pick_int8.
Proof. apply pick_with_in_range. Qed.

Theorem estimate2_total pick DX DY s1 s2 : in_range pick ->
  s1 <> [] -> s2 <> [] -> Forall (fun p => fst p <> []) s1 -> Forall (fun p => fst p <> []) s2 ->
  estimate2 pick DX DY s1 s2 <> None.
Proof.
  intros R N1 N2 F1 F2. unfold estimate2.
  pose proof (find_lb_total pick DX DY R) as T. destruct (find_lb pick DX DY) as [lb|]; [|congruence].
  unfold find_ub, find_ub_of_min_distortion.
  pose proof (ub_loop_some DX DY lb s1 None F1 (or_introl N1)) as U1.
  destruct (ub_loop DX DY lb None s1) as [u1|]; [|congruence].
  pose proof (ub_loop_some DY DX u1 s2 None F2 (or_introl N2)) as U2.
  destruct (ub_loop DY DX u1 None s2) as [u2|]; [discriminate|congruence].
Qed.
