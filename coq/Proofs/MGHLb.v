(* C05: soundness of the lower bound (trivial bounds, Theorem A, Theorem B, assembly). *)
From Coq Require Import ZArith List Bool Arith Lia.
From Persim Require Import Spec.MGH Model.MGHM Proofs.MGHBasics.
Import ListNotations.
Open Scope Z_scope.

(* ------------------------------------------------------------------ list utilities *)
Fixpoint index_of (y : nat) (l : list nat) : nat :=
  match l with [] => 0%nat | x :: t => if Nat.eq_dec x y then 0%nat else S (index_of y t) end.

Lemma index_of_spec y l : In y l -> (index_of y l < length l)%nat /\ nth (index_of y l) l 0%nat = y.
Proof.
  induction l as [|x t IH]; intros I; [destruct I|]. simpl.
  destruct (Nat.eq_dec x y) as [->|NE]; [split; [lia|reflexivity]|].
  destruct I as [E|I]; [congruence|]. destruct (IH I). split; [lia|assumption].
Qed.

Lemma nth_map_dflt {A B} (h : A -> B) (l : list A) k (d0 : B) (d1 : A) :
  (k < length l)%nat -> nth k (map h l) d0 = h (nth k l d1).
Proof. intros H. rewrite nth_indep with (d' := h d1) by (rewrite map_length; exact H). apply map_nth. Qed.

Lemma NoDup_remove_eq (x : nat) l : NoDup l -> NoDup (remove Nat.eq_dec x l).
Proof.
  induction 1 as [|y t NI ND IH]; simpl; [constructor|].
  destruct (Nat.eq_dec x y); [exact IH|]. constructor; [|exact IH].
  intros I. apply in_remove in I. tauto.
Qed.

Lemma NoDup_map_inj_on {A B} (h : A -> B) (l : list A) :
  (forall x y, In x l -> In y l -> h x = h y -> x = y) -> NoDup l -> NoDup (map h l).
Proof.
  intros Inj ND. induction ND as [|x t NI ND IH]; simpl; [constructor|].
  constructor.
  - intros I. apply in_map_iff in I. destruct I as [y [E Iy]].
    assert (y = x) by (apply Inj; [right; exact Iy|left; reflexivity|exact E]). subst. contradiction.
  - apply IH. intros a b Ia Ib. apply Inj; right; assumption.
Qed.

Lemma perm_covers n p : is_perm n p -> forall y, (y < n)%nat -> In y p.
Proof.
  intros [L [ND F]] y Hy.
  assert (Inc : incl (seq 0 n) p).
  { apply NoDup_length_incl; [exact ND|rewrite seq_length; lia|].
    intros z Hz. rewrite Forall_forall in F. apply in_seq. specialize (F z Hz). lia. }
  apply Inc. apply in_seq. lia.
Qed.

(* ------------------------------------------------------------------ two_mgh_ge algebra *)
Lemma two_mgh_ge_max DX DY a b : two_mgh_ge DX DY a -> two_mgh_ge DX DY b -> two_mgh_ge DX DY (Z.max a b).
Proof. intros A B. destruct (Z.max_spec a b) as [[_ ->]|[_ ->]]; assumption. Qed.

Lemma two_mgh_ge_swap DX DY d : two_mgh_ge DY DX d -> two_mgh_ge DX DY d.
Proof. intros [H|H]; [right|left]; exact H. Qed.

Lemma two_mgh_ge_zero DX DY : two_mgh_ge DX DY 0.
Proof. left. intros. apply dis_nonneg. Qed.

(* ------------------------------------------------------------------ trivial lower bounds *)
Lemma diam_side DX DY f : square DX -> square DY -> valid_map (length DX) (length DY) f ->
  diam DX - diam DY <= dis DX DY f.
Proof.
  intros SX SY V. destruct (diam_attained DX SX) as [Z0|[i [j [Hi [Hj E]]]]].
  - pose proof (diam_nonneg DY). pose proof (dis_nonneg DX DY f). lia.
  - pose proof (dis_ge DX DY f i j Hi Hj) as G. unfold dterm in G.
    pose proof (ent_le_diam DY (img f i) (img f j) SY (valid_img _ _ _ _ V Hi) (valid_img _ _ _ _ V Hj)). lia.
Qed.

Lemma lb_diam DX DY : dmatrix DX -> dmatrix DY -> two_mgh_ge DX DY (Z.abs (diam DX - diam DY)).
Proof.
  intros [SX _] [SY _]. destruct (Z_le_gt_dec (diam DY) (diam DX)).
  - left. intros f V. rewrite Z.abs_eq by lia. apply diam_side; assumption.
  - right. intros g0 V. rewrite Z.abs_neq by lia. pose proof (diam_side DY DX g0 SY SX V). lia.
Qed.

Lemma card_side DX DY f : dmatrix DX -> dmatrix DY -> (length DY < length DX)%nat ->
  valid_map (length DX) (length DY) f -> 1 <= dis DX DY f.
Proof.
  intros [_ [_ [_ PX]]] [_ [ZY _]] L V. destruct V as [Lf Ff].
  destruct (pigeonhole f (length DY) Ff) as [i [j [Hij [Hj E]]]]; [lia|].
  assert (Hi : (i < length DX)%nat) by lia. rewrite Lf in Hj.
  pose proof (dis_ge DX DY f i j Hi Hj) as G. unfold dterm, img in G. rewrite E in G.
  rewrite ZY in G.
  - assert (0 < ent DX i j) by (apply PX; lia). lia.
  - rewrite Forall_forall in Ff. apply Ff. apply nth_In. lia.
Qed.

Lemma lb_card DX DY : dmatrix DX -> dmatrix DY ->
  two_mgh_ge DX DY (if (length DX =? length DY)%nat then 0 else 1).
Proof.
  intros HX HY. destruct (Nat.eqb_spec (length DX) (length DY)) as [E|NE]; [apply two_mgh_ge_zero|].
  destruct (Nat.lt_ge_cases (length DY) (length DX)).
  - left. intros f V. apply card_side; assumption.
  - right. intros g V. apply card_side; try assumption. lia.
Qed.

Theorem trivial_lb_sound DX DY : dmatrix DX -> dmatrix DY -> two_mgh_ge DX DY (trivial_lb DX DY).
Proof. intros HX HY. apply two_mgh_ge_max; [apply lb_diam|apply lb_card]; assumption. Qed.

(* ------------------------------------------------------------------ Theorem A *)
Lemma collision_forces DX DY ks d f a b :
  bounded_curv DX ks d -> dmatrix DY -> valid_map (length DX) (length DY) f ->
  In a ks -> In b ks -> a <> b -> img f a = img f b -> d <= dis DX DY f.
Proof.
  intros [ND [Fk Bd]] [_ [ZY _]] V Ia Ib NE E. rewrite Forall_forall in Fk.
  pose proof (dis_ge DX DY f a b (Fk a Ia) (Fk b Ib)) as G. unfold dterm in G. rewrite E in G.
  rewrite ZY in G by (apply (valid_img _ _ _ _ V); apply Fk; exact Ib).
  specialize (Bd a b Ia Ib NE). lia.
Qed.

Theorem thmA DX DY ks d f :
  dmatrix DY -> bounded_curv DX ks d -> (length DY < length ks)%nat ->
  valid_map (length DX) (length DY) f -> d <= dis DX DY f.
Proof.
  intros HY BC L V. pose proof BC as [ND [Fk Bd]].
  assert (Fm : Forall (fun y => (y < length DY)%nat) (map (img f) ks)).
  { apply Forall_forall. intros y Hy. apply in_map_iff in Hy. destruct Hy as [a [<- Ia]].
    rewrite Forall_forall in Fk. apply (valid_img _ _ _ _ V). apply Fk. exact Ia. }
  destruct (pigeonhole _ _ Fm) as [i [j [Hij [Hj E]]]]; [rewrite map_length; exact L|].
  rewrite map_length in Hj.
  rewrite (nth_map_dflt (img f) ks i 0%nat 0%nat) in E by lia.
  rewrite (nth_map_dflt (img f) ks j 0%nat 0%nat) in E by lia.
  apply (collision_forces DX DY ks d f (nth i ks 0%nat) (nth j ks 0%nat)); try assumption.
  - apply nth_In. lia.
  - apply nth_In. lia.
  - intros Eq. rewrite NoDup_nth in ND. specialize (ND i j). assert (i = j) by (apply ND; [lia|lia|exact Eq]). lia.
Qed.

(* ------------------------------------------------------------------ Theorem B *)
Theorem thmB DX DY ks d a :
  dmatrix DX -> dmatrix DY -> bounded_curv DX ks d -> In a ks ->
  (forall j, (j < length DY)%nat ->
             ~ inj_assign (row_others DX a ks) (row_others DY j (seq 0 (length DY))) d) ->
  forall f, valid_map (length DX) (length DY) f -> d <= dis DX DY f.
Proof.
  intros HX HY BC Ia NoInj f V.
  destruct (Z_le_gt_dec d (dis DX DY f)) as [LE|GT]; [exact LE|exfalso].
  pose proof BC as [ND [Fk Bd]]. rewrite Forall_forall in Fk.
  (* f is injective on ks *)
  assert (InjF : forall x y, In x ks -> In y ks -> img f x = img f y -> x = y).
  { intros x y Ix Iy E. destruct (Nat.eq_dec x y) as [|NE]; [assumption|exfalso].
    pose proof (collision_forces DX DY ks d f x y BC HY V Ix Iy NE E). lia. }
  set (j := img f a).
  assert (Hj : (j < length DY)%nat) by (apply (valid_img _ _ _ _ V); apply Fk; exact Ia).
  apply (NoInj j Hj).
  set (others := remove Nat.eq_dec a ks).
  set (U := remove Nat.eq_dec j (seq 0 (length DY))).
  assert (InO : forall b, In b others -> In b ks /\ b <> a) by (intros b Hb; apply in_remove in Hb; exact Hb).
  assert (InU : forall b, In b others -> In (img f b) U).
  { intros b Hb. destruct (InO b Hb) as [Ib NE]. apply in_in_remove.
    - intros E. apply NE. apply InjF; assumption.
    - apply in_seq. pose proof (valid_img _ _ _ _ V (Fk b Ib)). lia. }
  exists (map (fun b => index_of (img f b) U) others).
  unfold row_others. fold others. fold U. rewrite !map_length. split; [reflexivity|]. split; [|split].
  - apply NoDup_map_inj_on; [|apply NoDup_remove_eq; exact ND].
    intros x y Ix Iy E. destruct (InO x Ix), (InO y Iy). apply InjF; try assumption.
    destruct (index_of_spec _ _ (InU x Ix)) as [_ E1]. destruct (index_of_spec _ _ (InU y Iy)) as [_ E2].
    rewrite <- E1, <- E2, E. reflexivity.
  - apply Forall_forall. intros z Hz. apply in_map_iff in Hz. destruct Hz as [b [<- Hb]].
    apply index_of_spec. apply InU. exact Hb.
  - intros k Hk.
    rewrite (nth_map_dflt (fun b => ent DX a b) others k 0 0%nat) by exact Hk.
    rewrite (nth_map_dflt (fun b => index_of (img f b) U) others k 0%nat 0%nat) by exact Hk.
    set (b := nth k others 0%nat).
    assert (Hb : In b others) by (apply nth_In; exact Hk).
    destruct (index_of_spec _ _ (InU b Hb)) as [Lt En].
    rewrite (nth_map_dflt (fun c => ent DY j c) U _ 0 0%nat) by exact Lt. rewrite En.
    destruct (InO b Hb) as [Ib _].
    pose proof (dis_ge DX DY f a b (Fk a Ia) (Fk b Ib)) as G. unfold dterm in G. fold j in G. lia.
Qed.

(* ------------------------------------------------------------------ the curvature search, any oracle *)
Lemma has_small_false D ks d :
  dmatrix D -> Forall (fun a => (a < length D)%nat) ks -> has_small D ks d = false ->
  forall a b, In a ks -> In b ks -> a <> b -> d <= ent D a b.
Proof.
  intros [_ [_ [S _]]]. induction ks as [|x rest IH]; intros F H a b Ia Ib NE; [destruct Ia|].
  simpl in H. apply orb_false_iff in H. destruct H as [H1 H2]. inversion F; subst.
  assert (Hx : forall c, In c rest -> d <= ent D x c).
  { intros c Ic. rewrite <- not_true_iff_false in H1. destruct (Z_le_gt_dec d (ent D x c)); [assumption|exfalso].
    apply H1. apply existsb_exists. exists c. split; [exact Ic|]. apply Z.ltb_lt. lia. }
  rewrite Forall_forall in H4.
  destruct Ia as [<-|Ia], Ib as [<-|Ib].
  - congruence.
  - apply Hx. exact Ib.
  - rewrite S by auto. apply Hx. exact Ia.
  - apply IH; assumption || (apply Forall_forall; exact H4).
Qed.

Lemma remove_nth_incl {A} r (l : list A) : incl (remove_nth r l) l.
Proof.
  revert r. induction l as [|x t IH]; intros r; simpl; [destruct r; apply incl_refl|].
  destruct r; [apply incl_tl, incl_refl|]. intros y [<-|Hy]; [left; reflexivity|right; apply (IH r); exact Hy].
Qed.

Lemma remove_nth_NoDup {A} r (l : list A) : NoDup l -> NoDup (remove_nth r l).
Proof.
  revert r. induction l as [|x t IH]; intros r ND; simpl; [destruct r; constructor|].
  inversion ND; subst. destruct r; [assumption|]. constructor; [|apply IH; assumption].
  intros I. apply remove_nth_incl in I. contradiction.
Qed.

Lemma largest_loop_inv pick D diamX d : dmatrix D ->
  forall fuel ks ks', NoDup ks -> Forall (fun a => (a < length D)%nat) ks ->
  largest_loop pick D diamX d fuel ks = Some ks' -> bounded_curv D ks' d.
Proof.
  intros HD. induction fuel as [|f IH]; intros ks ks' ND F E; simpl in E;
    destruct (has_small D ks d) eqn:HS; try discriminate.
  - inversion E; subst. split; [assumption|split; [assumption|apply has_small_false; assumption]].
  - apply (IH _ _ (remove_nth_NoDup _ _ ND)) in E; [exact E|].
    apply Forall_forall. intros a Ia. apply remove_nth_incl in Ia. rewrite Forall_forall in F. auto.
  - inversion E; subst. split; [assumption|split; [assumption|apply has_small_false; assumption]].
Qed.

(* whatever row the oracle deletes (every tie-break, every overflow of the sort key), the
   result of find_largest_size_bounded_curvature is a d-bounded curvature of D *)
Theorem find_largest_bounded pick D diamX d ks :
  dmatrix D -> find_largest pick D diamX d = Some ks -> bounded_curv D ks d.
Proof.
  intros HD E. unfold find_largest in E. apply (largest_loop_inv pick D diamX d HD _ _ _ (seq_NoDup _ _)) in E; [exact E|].
  apply Forall_forall. intros a Ia. apply in_seq in Ia. lia.
Qed.

(* ------------------------------------------------------------------ distributions vs rows *)
Lemma count_remove_zero (h : nat -> Z) a t ks : h a <> t ->
  countZ t (map h ks) = countZ t (map h (remove Nat.eq_dec a ks)).
Proof.
  intros NE. unfold countZ. f_equal. induction ks as [|x r IH]; simpl; [reflexivity|].
  destruct (Nat.eq_dec a x) as [<-|NX].
  - destruct (Z.eq_dec (h a) t); [contradiction|exact IH].
  - simpl. destruct (Z.eq_dec (h x) t); [f_equal|]; exact IH.
Qed.

Lemma row_dist_others D a ks maxd : ent D a a = 0 ->
  row_dist maxd (map (fun b => ent D a b) ks) = row_dist maxd (row_others D a ks).
Proof.
  intros Z0. unfold row_dist, row_others. apply map_ext_in. intros k Hk. apply in_seq in Hk.
  apply count_remove_zero. rewrite Z0. lia.
Qed.

Lemma row_as_map D j : square D -> (j < length D)%nat ->
  nth j D [] = map (fun b => ent D j b) (seq 0 (length D)).
Proof.
  intros S Hj. apply (nth_ext _ _ 0 0).
  - rewrite map_length, seq_length. apply dm_row_length; assumption.
  - intros k Hk. rewrite dm_row_length in Hk by assumption. rewrite nth_map_seq by exact Hk. reflexivity.
Qed.

(* greedy completeness, as a named hypothesis: a False answer of check_assignment_feasibility on
   the distributions of two vectors means that no injective assignment exists *)
Definition greedy_complete : Prop :=
  forall maxd v u d, 0 < d ->
    Forall (fun x => 1 <= x <= maxd) v -> Forall (fun x => 1 <= x <= maxd) u ->
    infeasible (row_dist maxd v) (row_dist maxd u) d = true -> ~ inj_assign v u d.

Lemma row_others_range D a ks maxd : dmatrix D -> diam D <= maxd -> (a < length D)%nat ->
  Forall (fun b => (b < length D)%nat) ks -> Forall (fun x => 1 <= x <= maxd) (row_others D a ks).
Proof.
  intros [S [_ [_ P]]] Dm Ha F. apply Forall_forall. intros x Hx. unfold row_others in Hx.
  apply in_map_iff in Hx. destruct Hx as [b [<- Hb]]. apply in_remove in Hb. destruct Hb as [Ib NE].
  rewrite Forall_forall in F. specialize (F b Ib).
  pose proof (P a b Ha F (not_eq_sym NE)). pose proof (ent_le_diam D a b S Ha F). lia.
Qed.

Lemma confirm_row_sound DX DY ks d maxd : greedy_complete ->
  dmatrix DX -> dmatrix DY -> 0 < d -> diam DX <= maxd -> diam DY <= maxd ->
  bounded_curv DX ks d -> confirm_row d maxd (submat DX ks) DY = true ->
  forall f, valid_map (length DX) (length DY) f -> d <= dis DX DY f.
Proof.
  intros GC HX HY Hd MX MY BC C. unfold confirm_row in C.
  apply existsb_exists in C. destruct C as [v [Iv Fv]].
  unfold max_dists in Iv. apply filter_In in Iv. destruct Iv as [Iv _].
  unfold dists, submat in Iv. rewrite map_map in Iv. apply in_map_iff in Iv. destruct Iv as [a [<- Ia]].
  pose proof BC as [ND [Fk Bd]]. pose proof Fk as Fk'. rewrite Forall_forall in Fk'.
  pose proof HX as [_ [ZX _]]. pose proof HY as [SY [ZY _]].
  apply (thmB DX DY ks d a HX HY BC Ia). intros j Hj.
  apply (GC maxd); try assumption.
  - apply row_others_range; auto.
  - apply row_others_range; auto. apply Forall_forall. intros b Hb. apply in_seq in Hb. lia.
  - rewrite forallb_forall in Fv. unfold dists in Fv.
    specialize (Fv (row_dist maxd (nth j DY []))).
    rewrite <- row_dist_others by (apply ZX; auto).
    rewrite <- row_dist_others by (apply ZY; auto).
    rewrite <- row_as_map by assumption. apply Fv. apply in_map. apply nth_In. exact Hj.
Qed.

Lemma try_side_sound pick DX DY dx maxd d : greedy_complete ->
  dmatrix DX -> dmatrix DY -> 0 < d -> diam DX <= maxd -> diam DY <= maxd ->
  try_side pick DX DY dx maxd d = Some true ->
  forall f, valid_map (length DX) (length DY) f -> d <= dis DX DY f.
Proof.
  intros GC HX HY Hd MX MY E. unfold try_side in E.
  destruct (find_largest pick DX dx d) as [ks|] eqn:FL; [|discriminate].
  apply find_largest_bounded in FL; [|exact HX]. inversion E as [E']. clear E.
  apply andb_true_iff in E'. destruct E' as [_ C]. unfold confirm in C. apply orb_true_iff in C.
  destruct C as [C|C].
  - apply Nat.ltb_lt in C. unfold submat in C. rewrite map_length in C. intros f V. apply (thmA DX DY ks d f); assumption.
  - apply (confirm_row_sound DX DY ks d maxd); assumption.
Qed.

Lemma lb_step_sound pick DX DY maxd d lb lb' : greedy_complete ->
  dmatrix DX -> dmatrix DY -> diam DX <= maxd -> diam DY <= maxd -> 0 <= lb -> lb < d ->
  two_mgh_ge DX DY lb -> lb_step pick DX DY (diam DX) (diam DY) maxd d lb = Some lb' ->
  two_mgh_ge DX DY lb' /\ 0 <= lb'.
Proof.
  intros GC HX HY MX MY L0 Ld G E. unfold lb_step in E.
  assert (S1 : forall o r, (match o with None => None | Some true => Some d | Some false => Some lb end) = Some r ->
               (o = Some true -> two_mgh_ge DX DY d) -> two_mgh_ge DX DY r /\ 0 <= r).
  { intros [[|]|] r Eo Ho; try discriminate; injection Eo as Eo'; rewrite <- Eo'; split; auto; lia. }
  set (s1 := if d <=? diam DX then match try_side pick DX DY (diam DX) maxd d with
                 | None => None | Some true => Some d | Some false => Some lb end else Some lb) in E.
  assert (R1 : forall lb1, s1 = Some lb1 -> two_mgh_ge DX DY lb1 /\ 0 <= lb1).
  { intros lb1 E1. unfold s1 in E1. destruct (d <=? diam DX).
    - apply (S1 _ _ E1). intros T. left. apply (try_side_sound pick DX DY (diam DX) maxd d); auto; lia.
    - injection E1 as E1'; rewrite <- E1'. auto. }
  destruct s1 as [lb1|]; [|discriminate]. destruct (R1 lb1 eq_refl) as [G1 P1].
  destruct ((lb1 <? d) && (d <=? diam DY)) eqn:C.
  - destruct (try_side pick DY DX (diam DY) maxd d) as [[|]|] eqn:T; try discriminate;
      injection E as E'; rewrite <- E'.
    + split; [|lia]. right. apply (try_side_sound pick DY DX (diam DY) maxd d); auto; lia.
    + auto.
  - injection E as E'; rewrite <- E'. auto.
Qed.

Lemma lb_loop_sound pick DX DY maxd : greedy_complete ->
  dmatrix DX -> dmatrix DY -> diam DX <= maxd -> diam DY <= maxd ->
  forall fuel d lb L, 0 <= lb -> two_mgh_ge DX DY lb ->
  lb_loop pick DX DY (diam DX) (diam DY) maxd fuel d lb = Some L -> two_mgh_ge DX DY L /\ 0 <= L.
Proof.
  intros GC HX HY MX MY. induction fuel as [|f IH]; intros d lb L L0 G E; simpl in E;
    destruct (Z.ltb_spec lb d) as [Ld|Ld]; try discriminate; try (inversion E; subst; auto; fail).
  destruct (lb_step pick DX DY (diam DX) (diam DY) maxd d lb) as [lb'|] eqn:S; [|discriminate].
  destruct (lb_step_sound pick DX DY maxd d lb lb' GC HX HY MX MY L0 Ld G S) as [G' P'].
  apply (IH (d - 1) lb' L P' G' E).
Qed.

Lemma trivial_lb_nonneg DX DY : 0 <= trivial_lb DX DY.
Proof. unfold trivial_lb. lia. Qed.

(* find_lb is a lower bound of 2 mGH for EVERY row-selection oracle, modulo greedy completeness *)
Theorem find_lb_sound_modulo_greedy pick DX DY L : greedy_complete ->
  dmatrix DX -> dmatrix DY -> find_lb pick DX DY = Some L -> two_mgh_ge DX DY L /\ 0 <= L.
Proof.
  intros GC HX HY E. unfold find_lb in E.
  apply (lb_loop_sound pick DX DY (Z.max (diam DX) (diam DY)) GC HX HY) in E; try lia; try exact E.
  - apply trivial_lb_nonneg.
  - apply trivial_lb_sound; assumption.
Qed.

(* non-negativity needs no hypothesis at all *)
Lemma lb_step_ge pick DX DY dX dY maxd d lb lb' : lb < d ->
  lb_step pick DX DY dX dY maxd d lb = Some lb' -> lb <= lb'.
Proof.
  intros Ld E. unfold lb_step in E.
  destruct (d <=? dX).
  - destruct (try_side pick DX DY dX maxd d) as [[|]|]; try discriminate.
    + rewrite Z.ltb_irrefl in E. simpl in E. inversion E; lia.
    + destruct ((lb <? d) && (d <=? dY)); [|inversion E; lia].
      destruct (try_side pick DY DX dY maxd d) as [[|]|]; inversion E; lia.
  - destruct ((lb <? d) && (d <=? dY)); [|inversion E; lia].
    destruct (try_side pick DY DX dY maxd d) as [[|]|]; inversion E; lia.
Qed.

Lemma lb_loop_ge pick DX DY dX dY maxd : forall fuel d lb L,
  lb_loop pick DX DY dX dY maxd fuel d lb = Some L -> lb <= L.
Proof.
  induction fuel as [|f IH]; intros d lb L E; simpl in E; destruct (Z.ltb_spec lb d) as [Ld|Ld];
    try discriminate; try (inversion E; lia).
  destruct (lb_step pick DX DY dX dY maxd d lb) as [lb'|] eqn:S; [|discriminate].
  apply lb_step_ge in S; [|exact Ld]. apply IH in E. lia.
Qed.

Theorem find_lb_nonneg pick DX DY L : find_lb pick DX DY = Some L -> trivial_lb DX DY <= L /\ 0 <= L.
Proof. intros E. unfold find_lb in E. apply lb_loop_ge in E. pose proof (trivial_lb_nonneg DX DY). lia. Qed.

(* ------------------------------------------------------------------ isometric spaces *)
Theorem iso_any_lb_le_0 DX DY d : isometric DX DY -> two_mgh_ge DX DY d -> d <= 0.
Proof.
  intros [L [p [HP Iso]]] G. pose proof HP as [Lp [ND Fp]].
  set (q := map (fun y => index_of y p) (seq 0 (length DX))).
  assert (Hq : forall y, (y < length DX)%nat -> (img q y < length DX)%nat /\ img p (img q y) = y).
  { intros y Hy. unfold img, q. rewrite nth_map_seq by exact Hy.
    destruct (index_of_spec y p (perm_covers _ _ HP y Hy)) as [A B]. split; [lia|exact B]. }
  destruct G as [G|G].
  - specialize (G p). eapply Z.le_trans; [apply G; split; [exact Lp|rewrite <- L; exact Fp]|].
    apply dis_le_iff. split; [lia|]. intros i j Hi Hj. unfold dterm. rewrite Iso by assumption. lia.
  - specialize (G q). eapply Z.le_trans; [apply G|].
    + split; [unfold q; rewrite map_length, seq_length; exact L|].
      apply Forall_forall. intros z Hz. unfold q in Hz. apply in_map_iff in Hz. destruct Hz as [y [<- Hy]].
      apply in_seq in Hy. destruct (index_of_spec y p (perm_covers _ _ HP y ltac:(lia))). lia.
    + apply dis_le_iff. split; [lia|]. rewrite <- L. intros i j Hi Hj. unfold dterm.
      destruct (Hq i Hi) as [A1 B1]. destruct (Hq j Hj) as [A2 B2].
      rewrite <- (Iso (img q i) (img q j)) by assumption. rewrite B1, B2. lia.
Qed.
