(* C10: consequences of being the integral of |f|^p: non-negativity, absolute homogeneity,
   zero on the zero function; the pinned code's model divides only by x1 - x0 and by the slope. *)
From Coq Require Import QArith Qabs Qminmax Qfield Lqa List Bool Arith Lia Setoid Morphisms.
From Persim Require Import Lib.Kth Lib.PL Spec.PNormS Model.PNormM Proofs.PNormP.
Import ListNotations.
Open Scope Q_scope.

Lemma pw_S x n : pw x (S n) = x * pw x n.
Proof. reflexivity. Qed.

Lemma crosses_iff y0 y1 : crosses y0 y1 = true <-> y0 * y1 < 0.
Proof. unfold crosses. rewrite orb_true_iff, !andb_true_iff, !Qlt_bool_iff. split.
  - intros [[A B]|[A B]]; nra.
  - intro H. destruct (Qlt_le_dec y0 0), (Qlt_le_dec 0 y1); try (left; split; assumption).
    + exfalso. nra.
    + destruct (Qlt_le_dec 0 y0), (Qlt_le_dec y1 0); try (right; split; assumption); exfalso; nra.
    + destruct (Qlt_le_dec 0 y0), (Qlt_le_dec y1 0); try (right; split; assumption); exfalso; nra.
Qed.

Lemma bool_eq_iff (a b : bool) : (a = true <-> b = true) -> a = b.
Proof. destruct a, b; intuition congruence. Qed.

Lemma crosses_scale c y0 y1 : ~ c == 0 -> crosses (c * y0) (c * y1) = crosses y0 y1.
Proof. intro C. apply bool_eq_iff. rewrite !crosses_iff.
  assert (0 < c * c) by nra.
  assert (E : c * y0 * (c * y1) == (c * c) * (y0 * y1)) by ring. rewrite E. split; intro; nra. Qed.

Lemma gs_scale k a b p : gs (k * a) (k * b) p == pw k p * gs a b p.
Proof. induction p. simpl. ring.
  change (gs (k * a) (k * b) (S p)) with (k * a * gs (k * a) (k * b) p + pw (k * b) (S p)).
  change (gs a b (S p)) with (a * gs a b p + pw b (S p)).
  rewrite IHp, pw_mult. simpl. ring. Qed.

Lemma gs_00 p : (1 <= p)%nat -> gs 0 0 p == 0.
Proof. destruct p as [|q]. lia. intros _. change (gs 0 0 (S q)) with (0 * gs 0 0 q + pw 0 (S q)). rewrite pw_0. ring. Qed.

Lemma seg_int_nonneg p x0 y0 x1 y1 : x0 <= x1 -> 0 <= seg_int p (x0, y0) (x1, y1).
Proof. intro H. unfold seg_int. assert (NP := nQ_S_pos p).
  assert (A0 := Qabs_nonneg y0). assert (A1 := Qabs_nonneg y1).
  destruct (crosses y0 y1) eqn:C.
  - apply crosses_true in C. destruct C as [C0 C1].
    assert (P0 := pw_nonneg (Qabs y0) (S p) A0). assert (P1 := pw_nonneg (Qabs y1) (S p) A1).
    apply Qle_shift_div_l. nra. nra.
  - rewrite gsum_gs. assert (G := gs_nonneg (Qabs y0) (Qabs y1) p A0 A1).
    apply Qle_shift_div_l. lra. nra. Qed.

Lemma seg_int_scale p c x0 y0 x1 y1 : (1 <= p)%nat ->
  seg_int p (x0, c * y0) (x1, c * y1) == pw (Qabs c) p * seg_int p (x0, y0) (x1, y1).
Proof. intro P. assert (NP := nQ_S_pos p). destruct (Qeq_dec c 0) as [Z|NZ].
  - assert (C0 : crosses (c * y0) (c * y1) = false).
    { destruct (crosses (c * y0) (c * y1)) eqn:C; auto. apply crosses_iff in C. exfalso. rewrite Z in C. lra. }
    unfold seg_int. rewrite C0, gsum_gs.
    assert (E0 : Qabs (c * y0) == 0) by (rewrite Qabs_Qmult, Z; simpl; ring).
    assert (E1 : Qabs (c * y1) == 0) by (rewrite Qabs_Qmult, Z; simpl; ring).
    rewrite E0, E1, gs_00, Z by auto. destruct p as [|q]. lia.
    assert (X : pw (Qabs 0) (S q) == 0) by (simpl; ring). rewrite X. field. lra.
  - unfold seg_int. rewrite crosses_scale by auto.
    assert (K : 0 < Qabs c).
    { destruct (Qlt_le_dec c 0). rewrite Qabs_neg; lra. rewrite Qabs_pos; lra. }
    assert (E0 : Qabs (c * y0) == Qabs c * Qabs y0) by apply Qabs_Qmult.
    assert (E1 : Qabs (c * y1) == Qabs c * Qabs y1) by apply Qabs_Qmult.
    destruct (crosses y0 y1) eqn:C.
    + apply crosses_true in C. destruct C as [C0 C1].
      rewrite E0, E1, !pw_mult, !pw_S. field. repeat split; try lra; try nra.
    + rewrite !gsum_gs, E0, E1, gs_scale. field. lra. Qed.

Lemma segments_scale c l : segments (scale_pts c l) = map (fun s => ((fst (fst s), c * snd (fst s)), (fst (snd s), c * snd (snd s)))) (segments l).
Proof. induction l as [|a [|b r] IH]; try reflexivity.
  change (scale_pts c (a :: b :: r)) with ((fst a, c * snd a) :: scale_pts c (b :: r)).
  change (scale_pts c (b :: r)) with ((fst b, c * snd b) :: scale_pts c r) at 1.
  change (segments ((fst a, c * snd a) :: (fst b, c * snd b) :: scale_pts c r))
    with (((fst a, c * snd a), (fst b, c * snd b)) :: segments ((fst b, c * snd b) :: scale_pts c r)).
  change ((fst b, c * snd b) :: scale_pts c r) with (scale_pts c (b :: r)).
  rewrite IH. reflexivity. Qed.

Lemma sumQ_scal c l : sumQ (map (fun x => c * x) l) == c * sumQ l.
Proof. induction l; simpl. ring. rewrite IHl. ring. Qed.

Lemma sumQ_ext {A} (f g : A -> Q) l : (forall a, f a == g a) -> sumQ (map f l) == sumQ (map g l).
Proof. intro H. induction l; simpl. reflexivity. rewrite IHl, H. reflexivity. Qed.

Lemma depth_pow_scale p c l : (1 <= p)%nat -> depth_pow p (scale_pts c l) == pw (Qabs c) p * depth_pow p l.
Proof. intro P. unfold depth_pow. rewrite segments_scale, map_map, <- sumQ_scal, map_map.
  apply sumQ_ext. intros [[x0 y0] [x1 y1]]. simpl fst. simpl snd. apply seg_int_scale; auto. Qed.

(* || c P ||^p = |c|^p || P ||^p *)
Lemma norm_pow_scale p c L : (1 <= p)%nat -> norm_pow p (scale c L) == pw (Qabs c) p * norm_pow p L.
Proof. intro P. unfold norm_pow, scale. rewrite map_map, <- sumQ_scal, map_map.
  apply sumQ_ext. intro l. apply depth_pow_scale; auto. Qed.

Lemma sumQ_nonneg l : Forall (fun x => 0 <= x) l -> 0 <= sumQ l.
Proof. induction 1; simpl. lra. lra. Qed.

Lemma incr_segments l : incr l -> Forall (fun s => fst (fst s) < fst (snd s)) (segments l).
Proof. induction l as [|a [|b r] IH]; simpl; intro I; try constructor.
  - simpl. tauto.
  - apply IH. simpl. tauto. Qed.

Lemma depth_pow_nonneg p l : incr l -> 0 <= depth_pow p l.
Proof. intro I. unfold depth_pow. apply sumQ_nonneg. apply Forall_map.
  eapply Forall_impl. 2: apply incr_segments; exact I.
  intros [[x0 y0] [x1 y1]] H. simpl in *. apply seg_int_nonneg. lra. Qed.

Lemma norm_pow_nonneg p L : wf L -> 0 <= norm_pow p L.
Proof. intro W. unfold norm_pow. apply sumQ_nonneg. apply Forall_map.
  eapply Forall_impl. 2: exact W. intros l I. apply depth_pow_nonneg; auto. Qed.

(* the zero function (e.g. P - P) has norm 0 *)
Lemma seg_int_zero p x0 y0 x1 y1 : (1 <= p)%nat -> y0 == 0 -> y1 == 0 -> seg_int p (x0, y0) (x1, y1) == 0.
Proof. intros P Z0 Z1. assert (NP := nQ_S_pos p). unfold seg_int.
  assert (C0 : crosses y0 y1 = false).
  { destruct (crosses y0 y1) eqn:C; auto. apply crosses_iff in C. exfalso. rewrite Z0 in C. lra. }
  rewrite C0, gsum_gs.
  assert (E0 : Qabs y0 == 0) by (rewrite Z0; reflexivity).
  assert (E1 : Qabs y1 == 0) by (rewrite Z1; reflexivity).
  rewrite E0, E1, gs_00 by auto. field. lra. Qed.

Lemma sumQ_zero l : Forall (fun x => x == 0) l -> sumQ l == 0.
Proof. induction 1; simpl. reflexivity. rewrite H, IHForall. ring. Qed.

Lemma zero_segments l : zero_pts l -> Forall (fun s => snd (fst s) == 0 /\ snd (snd s) == 0) (segments l).
Proof. induction l as [|a [|b r] IH]; simpl; intro Z; try constructor.
  - inversion Z as [|? ? Ha Zr]. inversion Zr. simpl. tauto.
  - apply IH. inversion Z. assumption. Qed.

Lemma norm_pow_zero p L : (1 <= p)%nat -> Forall zero_pts L -> norm_pow p L == 0.
Proof. intros P Z. unfold norm_pow. apply sumQ_zero. apply Forall_map.
  eapply Forall_impl. 2: exact Z. intros l Zl. unfold depth_pow. apply sumQ_zero. apply Forall_map.
  eapply Forall_impl. 2: apply zero_segments; exact Zl.
  intros [[x0 y0] [x1 y1]] [H0 H1]. simpl in *. apply seg_int_zero; auto. Qed.

Lemma norm_pow_m_zero p L : (1 <= p)%nat -> Forall zero_pts L -> exists v, norm_pow_m p L = Some v /\ v == 0.
Proof. intros P Z. destruct (norm_pow_m_correct p L P) as [v [E V]]. exists v. split; auto.
  rewrite V. apply norm_pow_zero; auto. Qed.

Lemma norm_pow_m_scale p c L : (1 <= p)%nat ->
  exists v w, norm_pow_m p (scale c L) = Some v /\ norm_pow_m p L = Some w /\ v == pw (Qabs c) p * w.
Proof. intro P. destruct (norm_pow_m_correct p L P) as [w [E W]].
  destruct (norm_pow_m_correct p (scale c L) P) as [v [E' V]]. exists v, w. repeat split; auto.
  rewrite V, W. apply norm_pow_scale; auto. Qed.

(* two facts used by Proofs/PNormRInt.v *)
Lemma cross_den_neq0 p y0 y1 : crosses y0 y1 = true -> ~ nQ (S p) * (Qabs y0 + Qabs y1) == 0.
Proof. intros C E. apply crosses_true in C. destruct C as [A0 A1]. assert (NP := nQ_S_pos p).
  apply Qmult_integral in E. destruct E as [E|E]; lra. Qed.
Lemma lt_minus_neq0 x0 x1 : x0 < x1 -> ~ x1 - x0 == 0.
Proof. intros D E. lra. Qed.
