(* C10 - Minkowski's inequality, part 2: the p-th power of the norm of one depth, depth_pow (Spec/PNormS.v), IS the
   Riemann integral of |f|^p over any real interval containing the breakpoints, f = pl_evalR (the breakpoint list
   read as a function of a real abscissa, 0 outside the breakpoints); and a pointwise identity between breakpoint
   lists that holds at every rational abscissa holds at every real one. *)
From Coq Require Import QArith Qabs Qreals Reals Lra Lia List.
From Coquelicot Require Import Coquelicot.
From Persim Require Import Lib.Kth Lib.PL Spec.PNormS Spec.LandscapeRealS Proofs.PNormP Proofs.PNormLaws Proofs.PNormRInt
  Proofs.SweepRealLib.
Import ListNotations.
Open Scope R_scope.

(* |f|^p of a breakpoint list at a real abscissa *)
Definition absp (p : nat) (l : list pt) (t : R) : R := Rabs (pl_evalR (map rp l) t) ^ p.

Lemma is_RInt_zero_on (f : R -> R) lo hi : lo <= hi -> (forall t, lo < t < hi -> f t = 0) -> is_RInt f lo hi 0.
Proof. intros L Z. apply (@is_RInt_ext R_NormedModule (fun _ => 0)).
  - intros t T. rewrite Rmin_left, Rmax_right in T by lra. symmetry. apply Z. exact T.
  - generalize (@is_RInt_const R_NormedModule lo hi 0). rewrite scal_R, Rmult_0_r. trivial. Qed.

Lemma depth_pow_cons2 p a b r : (depth_pow p (a :: b :: r) == seg_int p a b + depth_pow p (b :: r))%Q.
Proof. unfold depth_pow. simpl. reflexivity. Qed.

Lemma pow0_S n : 0 ^ S n = 0. Proof. simpl. ring. Qed.

(* from the first breakpoint to any hi to the right of all of them *)
Lemma depth_RInt_from n : forall r x0 y0 hi, incr ((x0, y0) :: r) ->
  (forall q, In q ((x0, y0) :: r) -> Q2R (fst q) <= hi) ->
  is_RInt (absp (S n) ((x0, y0) :: r)) (Q2R x0) hi (Q2R (depth_pow (S n) ((x0, y0) :: r))).
Proof.
  induction r as [|[x1 y1] r IH]; intros x0 y0 hi I B.
  - assert (H0 : Q2R x0 <= hi) by (apply (B (x0, y0)); left; reflexivity).
    replace (Q2R (depth_pow (S n) [(x0, y0)])) with 0 by (unfold depth_pow; simpl; rewrite Q2R_0; reflexivity).
    apply is_RInt_zero_on; auto. intros t T. unfold absp. change (map rp [(x0, y0)]) with [(Q2R x0, Q2R y0)]. rewrite plR_last by lra.
    rewrite Rabs_R0. apply pow0_S.
  - assert (I' := I). destruct I' as [D I']. simpl in D.
    assert (DR := Qlt_Rlt _ _ D).
    assert (H1 : Q2R x1 <= hi) by (apply (B (x1, y1)); right; left; reflexivity).
    match goal with |- is_RInt _ _ _ ?v =>
      assert (E : v = plus (Q2R (seg_int (S n) (x0, y0) (x1, y1))) (Q2R (depth_pow (S n) ((x1, y1) :: r))))
        by (rewrite plus_R, <- Q2R_plus; apply Qeq_eqR, depth_pow_cons2); rewrite E end.
    apply (@is_RInt_Chasles R_NormedModule _ (Q2R x0) (Q2R x1) hi).
    + apply (@is_RInt_ext R_NormedModule (fun t => Rabs (lin (Q2R x0) (Q2R y0) (Q2R x1) (Q2R y1) t) ^ S n)).
      2: apply seg_int_is_RInt; exact D.
      intros t T. rewrite Rmin_left, Rmax_right in T by lra. unfold absp. f_equal. f_equal.
      change (map rp ((x0, y0) :: (x1, y1) :: r)) with ((Q2R x0, Q2R y0) :: (Q2R x1, Q2R y1) :: map rp r).
      rewrite plR_seg by lra. reflexivity.
    + apply (@is_RInt_ext R_NormedModule (absp (S n) ((x1, y1) :: r))).
      2: { apply IH. exact I'. intros q Hq. apply B. right. exact Hq. }
      intros t T. rewrite Rmin_left, Rmax_right in T by lra. unfold absp. f_equal. f_equal.
      change (map rp ((x0, y0) :: (x1, y1) :: r)) with ((Q2R x0, Q2R y0) :: (Q2R x1, Q2R y1) :: map rp r).
      rewrite plR_skip by lra. reflexivity.
Qed.

(* the integral of |f|^p over any interval containing the breakpoints is depth_pow *)
Lemma depth_RInt n l lo hi : incr l -> lo <= hi -> (forall q, In q l -> lo <= Q2R (fst q) <= hi) ->
  is_RInt (absp (S n) l) lo hi (Q2R (depth_pow (S n) l)).
Proof. intros I LH B. destruct l as [|[x0 y0] r].
  - replace (Q2R (depth_pow (S n) [])) with 0 by (unfold depth_pow; simpl; rewrite Q2R_0; reflexivity).
    apply is_RInt_zero_on; auto. intros t _. unfold absp. simpl. rewrite Rabs_R0. ring.
  - assert (H0 : lo <= Q2R x0 <= hi) by (apply (B (x0, y0)); left; reflexivity).
    match goal with |- is_RInt _ _ _ ?v => assert (E : v = plus 0 v) by (rewrite plus_R; ring); rewrite E end.
    apply (@is_RInt_Chasles R_NormedModule _ lo (Q2R x0) hi).
    + apply is_RInt_zero_on. lra. intros t T. unfold absp.
      change (map rp ((x0, y0) :: r)) with ((Q2R x0, Q2R y0) :: map rp r). rewrite plR_left by lra.
      rewrite Rabs_R0. apply pow0_S.
    + apply depth_RInt_from; auto. intros q Hq. apply B. exact Hq.
Qed.

(* ------------------------------------------------------------------ locally affine away from the breakpoints *)
Lemma loc_affine : forall l (t : R), incr l -> (forall q, In q l -> Q2R (fst q) <> t) ->
  exists d m k, 0 < d /\ forall s, Rabs (s - t) < d -> pl_evalR (map rp l) s = m * s + k.
Proof.
  induction l as [|[x0 y0] r IH]; intros t I N.
  - exists 1, 0, 0. split. lra. intros s _. simpl. ring.
  - assert (N0 : Q2R x0 <> t) by (apply (N (x0, y0)); left; reflexivity).
    destruct r as [|[x1 y1] r].
    + exists (Rabs (t - Q2R x0)), 0, 0. split. apply Rabs_pos_lt. lra.
      intros s Hs. simpl. unfold rp; simpl. destruct (Req_EM_T s (Q2R x0)) as [E|E]; [|ring].
      subst s. rewrite Rabs_minus_sym in Hs. lra.
    + assert (N1 : Q2R x1 <> t) by (apply (N (x1, y1)); right; left; reflexivity).
      destruct I as [D I]. simpl in D. assert (DR := Qlt_Rlt _ _ D).
      change (map rp ((x0, y0) :: (x1, y1) :: r)) with ((Q2R x0, Q2R y0) :: (Q2R x1, Q2R y1) :: map rp r).
      destruct (Rlt_dec t (Q2R x0)) as [A|A].
      * exists (Q2R x0 - t), 0, 0. split. lra. intros s Hs. apply Rabs_def2 in Hs. rewrite plR_left by lra. ring.
      * destruct (Rlt_dec t (Q2R x1)) as [C|C].
        -- exists (Rmin (t - Q2R x0) (Q2R x1 - t)), ((Q2R y1 - Q2R y0) / (Q2R x1 - Q2R x0)),
             (Q2R y0 - (Q2R y1 - Q2R y0) / (Q2R x1 - Q2R x0) * Q2R x0).
           split. apply Rmin_glb_lt; lra.
           intros s Hs. apply Rabs_def2 in Hs.
           assert (M1 := Rmin_l (t - Q2R x0) (Q2R x1 - t)). assert (M2 := Rmin_r (t - Q2R x0) (Q2R x1 - t)).
           rewrite plR_seg by lra. field. lra.
        -- destruct (IH t I) as (d & m & k & Pd & Hd). { intros q Hq. apply N. right. exact Hq. }
           exists (Rmin d (t - Q2R x1)), m, k. split. apply Rmin_glb_lt; lra.
           intros s Hs. assert (M1 := Rmin_l d (t - Q2R x1)). assert (M2 := Rmin_r d (t - Q2R x1)).
           assert (Hs' := Hs). apply Rabs_def2 in Hs'.
           rewrite plR_skip by lra. apply Hd. lra.
Qed.

Lemma breakpoint_dec (l : list pt) (t : R) :
  (exists q, In q l /\ Q2R (fst q) = t) \/ (forall q, In q l -> Q2R (fst q) <> t).
Proof. induction l as [|a r IH].
  - right. intros q [].
  - destruct (Req_dec (Q2R (fst a)) t) as [E|E].
    + left. exists a. split; auto. left; reflexivity.
    + destruct IH as [(q & Hq & Eq)|IH].
      * left. exists q. split; auto. right; exact Hq.
      * right. intros q [Hq|Hq]. subst q. exact E. apply IH. exact Hq.
Qed.

(* a rational strictly between two reals *)
Lemma rational_between a b : a < b -> exists q : Q, a < Q2R q < b.
Proof. intro H.
  destruct (archimed (/ (b - a))) as [U _]. set (n := up (/ (b - a))) in *.
  assert (P : 0 < / (b - a)) by (apply Rinv_0_lt_compat; lra).
  assert (Pn : 0 < IZR n) by lra.
  assert (Zn : (0 < n)%Z) by (apply lt_IZR; exact Pn).
  destruct (archimed (a * IZR n)) as [V W]. set (m := up (a * IZR n)) in *.
  exists (m # Z.to_pos n)%Q. unfold Q2R. simpl. rewrite Z2Pos.id by exact Zn.
  assert (G : 1 < (b - a) * IZR n).
  { apply (Rmult_lt_reg_l (/ (b - a))). exact P. rewrite <- Rmult_assoc, Rinv_l, Rmult_1_l, Rmult_1_r by lra. exact U. }
  split.
  - apply (Rmult_lt_reg_r (IZR n)). exact Pn. rewrite Rmult_assoc, Rinv_l, Rmult_1_r by lra. exact V.
  - apply (Rmult_lt_reg_r (IZR n)). exact Pn. rewrite Rmult_assoc, Rinv_l, Rmult_1_r by lra. lra.
Qed.

From Persim Require Proofs.SweepReal.

(* an identity h = f + g between breakpoint lists that holds at every rational abscissa holds at every real one:
   at a breakpoint abscissa (rational) directly, elsewhere the three functions are affine near t and the rationals
   are dense *)
Lemma pointwise_sum_Q_to_R (a b c : list pt) : incr a -> incr b -> incr c ->
  (forall t : Q, (pl_eval c t == pl_eval a t + pl_eval b t)%Q) ->
  forall t : R, pl_evalR (map rp c) t = pl_evalR (map rp a) t + pl_evalR (map rp b) t.
Proof. intros Ia Ib Ic H t.
  destruct (breakpoint_dec (a ++ b ++ c) t) as [(q & Hq & E)|N].
  - subst t. rewrite !SweepReal.plR_rational, <- Q2R_plus. apply Qeq_eqR. apply H.
  - destruct (loc_affine a t Ia) as (da & ma & ka & Pa & Ha). { intros q Hq. apply N. apply in_or_app. left. exact Hq. }
    destruct (loc_affine b t Ib) as (db & mb & kb & Pb & Hb). { intros q Hq. apply N. apply in_or_app. right. apply in_or_app. left. exact Hq. }
    destruct (loc_affine c t Ic) as (dc & mc & kc & Pc & Hc). { intros q Hq. apply N. apply in_or_app. right. apply in_or_app. right. exact Hq. }
    set (d := Rmin da (Rmin db dc)).
    assert (Pd : 0 < d) by (unfold d; repeat apply Rmin_glb_lt; auto).
    assert (Dda : d <= da) by (unfold d; apply Rmin_l).
    assert (Ddb : d <= db) by (unfold d; eapply Rle_trans; [apply Rmin_r|apply Rmin_l]).
    assert (Ddc : d <= dc) by (unfold d; eapply Rle_trans; [apply Rmin_r|apply Rmin_r]).
    assert (Z : forall s : Q, Rabs (Q2R s - t) < d -> mc * Q2R s + kc = (ma * Q2R s + ka) + (mb * Q2R s + kb)).
    { intros s Hs. rewrite <- Ha, <- Hb, <- Hc by lra. rewrite !SweepReal.plR_rational, <- Q2R_plus. apply Qeq_eqR. apply H. }
    destruct (rational_between (t - d) t) as (q1 & Q1) . lra.
    destruct (rational_between t (t + d)) as (q2 & Q2). lra.
    assert (Z1 := Z q1). assert (Z2 := Z q2).
    rewrite Ha, Hb, Hc by (rewrite Rminus_diag_eq, Rabs_R0 by reflexivity; lra).
    assert (R1 : Rabs (Q2R q1 - t) < d) by (apply Rabs_def1; lra).
    assert (R2 : Rabs (Q2R q2 - t) < d) by (apply Rabs_def1; lra).
    specialize (Z1 R1). specialize (Z2 R2).
    assert (E1 : (mc - ma - mb) * Q2R q1 + (kc - ka - kb) = 0) by lra.
    assert (E2 : (mc - ma - mb) * Q2R q2 + (kc - ka - kb) = 0) by lra.
    assert (E3 : (mc - ma - mb) * (Q2R q2 - Q2R q1) = 0) by lra.
    assert (M0 : mc - ma - mb = 0). { apply Rmult_integral in E3. destruct E3; lra. }
    assert (K0 : kc - ka - kb = 0). { rewrite M0 in E1. lra. }
    replace mc with (ma + mb) by lra. replace kc with (ka + kb) by lra. ring.
Qed.
