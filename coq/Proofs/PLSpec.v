(* C03: pl_eval really is "linear interpolation of the breakpoints, 0 outside them" - the reading of
   critical_pairs that the property text names - for every list with strictly increasing abscissae. *)
From Coq Require Import QArith Qminmax Lqa List Bool Arith Lia.
From Persim Require Import Lib.Kth Lib.PL Proofs.SweepStep Proofs.SweepShape.
Import ListNotations.
Open Scope Q_scope.

Lemma incr_lt_last l x y : incr (l ++ [(x, y)]) -> forall p, In p l -> fst p < x.
Proof. induction l as [|a r IH]; simpl; intros I p Hp. contradiction.
  destruct I as [H I]. destruct Hp as [<-|Hp].
  - destruct r as [|b r']; simpl in *. auto. destruct I as [H2 I]. specialize (IH (conj H2 I) b (or_introl eq_refl)). lra.
  - apply IH; auto. Qed.

Lemma pl_eval_after l t : incr l -> (forall p, In p l -> fst p < t) -> pl_eval l t == 0.
Proof. induction l as [|[x0 y0] r IH]; intros I H. reflexivity.
  destruct r as [|[x1 y1] r'].
  - apply pl_eval_last. apply (H (x0, y0)). left; auto.
  - simpl in I. destruct I as [L I]. simpl in L.
    rewrite pl_eval_skip. apply IH; auto. intros p Hp. apply H. right; auto. lra.
    apply (H (x1, y1)). right; left; auto. Qed.

Lemma pl_eval_at_last pre x y t : incr (pre ++ [(x, y)]) -> t == x -> pl_eval (pre ++ [(x, y)]) t == y.
Proof. induction pre as [|[xa ya] r IH]; intros I E.
  - simpl. replace (Qeq_bool t x) with true by (symmetry; apply Qeq_bool_iff; auto). reflexivity.
  - destruct r as [|[xb yb] r'].
    + simpl app in *. simpl in I. destruct I as [L _]. simpl in L.
      rewrite pl_eval_seg by lra. rewrite E. field. lra.
    + simpl app in *. assert (I' := I). simpl in I'. destruct I' as [L I']. simpl in L.
      assert (xb < x). { apply (incr_lt_last ((xb, yb) :: r') x y (proj2 I) (xb, yb)). left; auto. }
      rewrite pl_eval_skip by lra. apply IH; auto. Qed.

Lemma pl_eval_interp pre x0 y0 x1 y1 post t : incr (pre ++ (x0, y0) :: (x1, y1) :: post) ->
  x0 <= t -> t <= x1 ->
  pl_eval (pre ++ (x0, y0) :: (x1, y1) :: post) t == y0 + (y1 - y0) * (t - x0) / (x1 - x0).
Proof. intros I A B.
  assert (L : x0 < x1). { apply incr_app_r in I. simpl in I. destruct I as [L _]. exact L. }
  rewrite pl_eval_app by auto. simpl fst. destruct (Qle_bool t x0) eqn:E.
  - apply Qle_bool_iff in E. assert (Et : t == x0) by lra.
    assert (IP : incr (pre ++ [(x0, y0)])).
    { clear - I. revert I. induction pre as [|a r IH]; simpl. intros [_ _]. simpl. auto.
      intros [H I]. split. destruct r; simpl in *; auto. auto. }
    rewrite (pl_eval_at_last pre x0 y0 t IP Et). rewrite Et. field; lra.
  - apply pl_eval_seg; auto. Qed.

Lemma pl_eval_at_breakpoint pre x y post : incr (pre ++ (x, y) :: post) -> pl_eval (pre ++ (x, y) :: post) x == y.
Proof. intro I. rewrite pl_eval_app by auto. simpl fst.
  replace (Qle_bool x x) with true by (symmetry; apply Qle_bool_iff; lra).
  apply pl_eval_at_last. 2: reflexivity.
  clear - I. revert I. induction pre as [|a r IH]; simpl. intros _. auto.
  intros [H I]. split. destruct r; simpl in *; auto. auto. Qed.

Lemma pl_eval_outside l t : incr l ->
  ((forall p, In p l -> t < fst p) \/ (forall p, In p l -> fst p < t)) -> pl_eval l t == 0.
Proof. intros I [H|H]. apply pl_eval_before; auto. apply pl_eval_after; auto. Qed.
