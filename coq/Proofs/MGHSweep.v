(* C05: the greedy assignment test against the brute-force definition, exhaustively on a
   finite domain (all multisets with entries in 1..max_d, max_d <= 5, at most 5 entries, every
   threshold 1..max_d).  This is a finite sweep by vm_compute, not the general completeness
   theorem. *)
From Coq Require Import ZArith List Bool Arith Lia.
From Persim Require Import Spec.MGH Model.MGHM.
Import ListNotations.
Open Scope Z_scope.

(* brute force: try every injective assignment *)
Fixpoint inj_b (v u : list Z) (d : Z) : bool :=
  match v with
  | [] => true
  | x :: v' => existsb (fun k => (Z.abs (x - nth k u 0) <? d) && inj_b v' (remove_nth k u) d)
                       (seq 0 (length u))
  end.

Fixpoint lists_upto (s : nat) (vals : list Z) : list (list Z) :=
  match s with
  | O => [[]]
  | S s' => [] :: flat_map (fun x => map (cons x) (lists_upto s' vals)) vals
  end.
Fixpoint is_sorted (l : list Z) : bool :=
  match l with
  | x :: ((y :: _) as t) => (x <=? y) && is_sorted t
  | _ => true
  end.
Definition zrange (n : nat) : list Z := map (fun k => Z.of_nat (S k)) (seq 0 n).   (* 1..n *)
Definition multisets (maxd s : nat) : list (list Z) :=
  nodup (list_eq_dec Z.eq_dec) (filter is_sorted (lists_upto s (zrange maxd))).

Definition obool_eqb (a : option bool) (b : bool) : bool :=
  match a with Some x => Bool.eqb x b | None => false end.

Definition sweep_ok (maxd s : nat) : bool :=
  let ms := multisets maxd s in
  forallb (fun v => forallb (fun u => forallb (fun d =>
     obool_eqb (check_feas (row_dist (Z.of_nat maxd) v) (row_dist (Z.of_nat maxd) u) d) (inj_b v u d))
     (zrange maxd)) ms) ms.

Lemma greedy_sweep : forallb (fun maxd => sweep_ok maxd 5) [1%nat; 2%nat; 3%nat; 4%nat; 5%nat] = true.
Proof. vm_cast_no_check (eq_refl true). Qed.

Example sweep_size : length (multisets 5 5) = 252%nat.
Proof. vm_compute. reflexivity. Qed.
