(* C03: the inner loop of compute_landscape (one depth).  inner_t is the same loop written so that it
   returns the breakpoints it appends; inner_eq ties it to Model.SweepM.inner.  inner_sem is the
   invariant proof: termination, shape of the breakpoint list, preservation of the rank function. *)
From Coq Require Import QArith Qminmax Lqa List Bool Arith Lia Permutation.
From Persim Require Import Lib.Kth Lib.PL Spec.LandscapeS Model.SweepM Proofs.SweepStep Proofs.SweepSort Proofs.SweepShape.
Import ListNotations.
Open Scope Q_scope.

Definition junction (d bp : Q) : list pt :=
  (if Qlt_bool d bp then [(d, 0)] else []) ++ (if Qle_bool d bp then [(bp, 0)] else [cross bp d]).
Definition next_A (d bp : Q) (A1 : list bar) : list bar :=
  if Qle_bool d bp then A1 else insert_at (insert_pos bp d A1) (bp, d) A1.

Fixpoint inner_t (fuel : nat) (b d : Q) (A : list bar) : option (list pt * list bar) :=
  match fuel with O => None | S f =>
    if forallb (fun x => Qle_bool (snd x) d) A then Some ([(d, 0)], A)
    else match find_gt d A 0 with
         | None => None
         | Some (i, (bp, dp)) =>
             match inner_t f bp dp (next_A d bp (remove_nth i A)) with
             | None => None
             | Some (tl, A') => Some (junction d bp ++ peak bp dp :: tl, A')
             end
         end end.

Lemma inner_eq f : forall acc b d A,
  inner f acc b d A = match inner_t f b d A with Some (tl, A') => Some (acc ++ tl, A') | None => None end.
Proof. induction f as [|f IH]; intros acc b d A; simpl. reflexivity.
  destruct (forallb (fun x => Qle_bool (snd x) d) A). reflexivity.
  destruct (find_gt d A 0) as [[i [bp dp]]|]; [|reflexivity].
  unfold next_A, junction, peak, cross.
  destruct (Qle_bool d bp), (Qlt_bool d bp); rewrite IH;
  match goal with |- context [inner_t f ?x ?y ?z] => destruct (inner_t f x y z) as [[tl A']|] end;
  try reflexivity; simpl; rewrite <- ?app_assoc; simpl; reflexivity. Qed.

(* ---- the loop invariant on the data ---- *)
Definition positive (A : list bar) : Prop := forall x, In x A -> fst x < snd x.
Record Inv (b d : Q) (A : list bar) : Prop := {
  i_pos : b < d;
  i_sorted : ssorted A;
  i_bars : positive A;
  i_later : forall x, In x A -> d < snd x -> b < fst x }.

(* termination measure: number of remaining bars that die later than d *)
Definition cgt (d : Q) (A : list bar) : nat := ex (map snd A) d.

Lemma ex_mono l d d' : d <= d' -> (ex l d' <= ex l d)%nat.
Proof. intro H. induction l as [|x r IH]. unfold ex; simpl; lia. rewrite !ex_cons.
  destruct (Qlt_bool d' x) eqn:E1, (Qlt_bool d x) eqn:E2; breflect; try lia. lra. Qed.
Lemma ex_le_length l v : (ex l v <= length l)%nat.
Proof. induction l as [|x r IH]. unfold ex; simpl; lia. rewrite ex_cons. simpl length. destruct (Qlt_bool v x); lia. Qed.
Lemma cgt_zero d A : forallb (fun x => Qle_bool (snd x) d) A = false -> (0 < cgt d A)%nat.
Proof. unfold cgt. induction A as [|x r IH]; simpl. discriminate. rewrite ex_cons.
  destruct (Qle_bool (snd x) d) eqn:E; simpl.
  - intro H. specialize (IH H). lia.
  - intros _. breflect. replace (Qlt_bool d (snd x)) with true by (symmetry; apply Qlt_bool_iff; auto). lia. Qed.

(* ---- algebra of Qmax used below ---- *)
Lemma qmax_absorb a b g : g <= b -> Qmax a (Qmax b g) == Qmax a b.
Proof. intro H. qmm; lra. Qed.
Lemma qmax_drop a b g : a <= b -> Qmax a (Qmax b g) == Qmax b g.
Proof. intro H. qmm; lra. Qed.
Lemma qmax_assoc' a b g : Qmax a (Qmax b g) == Qmax (Qmax a b) g.
Proof. qmm; lra. Qed.

Lemma tentv_perm A B t : Permutation A B -> Permutation (tentv A t) (tentv B t).
Proof. intro P. unfold tentv. apply Permutation_map. auto. Qed.

Lemma split_perm {X} (pre : list X) x post : Permutation (pre ++ x :: post) (x :: pre ++ post).
Proof. apply Permutation_sym. apply Permutation_middle. Qed.

(* ---- the invariant proof ---- *)
Lemma inner_sem : forall fuel b d A, Inv b d A -> (cgt d A < fuel)%nat ->
  exists tl A' (G : Q -> Q),
    inner_t fuel b d A = Some (tl, A') /\
    ssorted A' /\ positive A' /\ (length A' <= length A)%nat /\
    incr (peak b d :: tl) /\
    (forall t, 0 <= G t) /\
    (forall t, t <= half (b + d) -> G t <= tent (b, d) t) /\
    (forall t, half (b + d) <= t -> pl_eval (peak b d :: tl) t == Qmax (tent (b, d) t) (G t)) /\
    (forall F0, SInv F0 b d -> forall t v, 0 <= v ->
        ex (F0 t :: tentv A t) v = ex (Qmax (F0 t) (G t) :: tentv A' t) v) /\
    (forall F0, SInv F0 b d -> (forall x, In x A -> snd x <= d -> forall t, tent x t <= F0 t) ->
        forall x, In x A' -> forall t, tent x t <= Qmax (F0 t) (G t)).
Proof.
  induction fuel as [|f IH]; intros b d A I M. lia.
  destruct I as [P SA PA LA]. simpl inner_t.
  destruct (forallb (fun x => Qle_bool (snd x) d) A) eqn:EX.
  { (* the current bar outlives every remaining one: close the depth *)
    exists [(d, 0)], A, (fun _ => 0). split; [reflexivity|].
    split; [auto|]. split; [auto|]. split; [lia|].
    split. { simpl. unfold half. repeat split; lra. }
    split. { intro; lra. }
    split. { intros; apply tent_nonneg. }
    split. { intros t H. rewrite shape_close by auto. pose proof (tent_nonneg (b, d) t). qmm; lra. }
    split.
    - intros F0 S0 t v Hv. apply ex_head_eq. pose proof (s_dom _ _ _ S0 t). pose proof (tent_nonneg (b, d) t).
      symmetry. apply Q.max_l. lra.
    - intros F0 S0 U x Hx t. rewrite forallb_forall in EX. specialize (EX x Hx). breflect.
      specialize (U x Hx EX t). qmm; lra. }
  destruct (find_gt d A 0) as [[i [bp dp]]|] eqn:FG.
  2: { apply find_gt_none in FG. congruence. }
  apply find_gt_split in FG. destruct FG as (pre & post & EA & Ei & PRE & DP). simpl in Ei, DP. subst i.
  subst A. rewrite remove_nth_app.
  assert (PERM : Permutation (pre ++ (bp, dp) :: post) ((bp, dp) :: pre ++ post)) by apply split_perm.
  assert (BP : b < bp). { apply (LA (bp, dp)). apply in_or_app; right; left; auto. auto. }
  assert (PP : bp < dp). { apply (PA (bp, dp)). apply in_or_app; right; left; auto. }
  apply ssorted_app in SA. destruct SA as (S1 & S2 & S12). inversion S2 as [|? ? HP S3]; subst.
  assert (SA1 : ssorted (pre ++ post)).
  { apply ssorted_app. repeat split; auto. intros x y Hx Hy. apply S12; auto. right; auto. }
  assert (PA1 : positive (pre ++ post)).
  { intros x Hx. apply PA. apply in_app_or in Hx. apply in_or_app. destruct Hx; auto. right; right; auto. }
  set (A1 := pre ++ post) in *.
  remember (next_A d bp A1) as A2 eqn:EA2.
  assert (A2P : (Qle_bool d bp = true /\ A2 = A1) \/ (Qle_bool d bp = false /\ A2 = place bp d A1)).
  { rewrite EA2. unfold next_A. destruct (Qle_bool d bp); [left|right]; split; auto. apply insert_pos_place; auto. }
  assert (IN2 : forall x, In x A2 -> In x A1 \/ (x = (bp, d) /\ bp < d)).
  { intros x Hx. destruct A2P as [[E ->]|[E E2]]; auto. rewrite E2 in Hx.
    apply (Permutation_in _ (Permutation_sym (place_perm bp d A1))) in Hx. destruct Hx; auto.
    right. split; auto. breflect; auto. }
  assert (LEN2 : (length A2 <= length (pre ++ (bp, dp) :: post))%nat).
  { rewrite (Permutation_length PERM). simpl. fold A1.
    destruct A2P as [[E ->]|[E ->]]. lia. rewrite <- (Permutation_length (place_perm bp d A1)). simpl; lia. }
  assert (I2 : Inv bp dp A2).
  { constructor; auto.
    - destruct A2P as [[E ->]|[E ->]]; auto. apply place_sorted; auto.
    - intros x Hx. apply IN2 in Hx. destruct Hx as [Hx|[-> Hx]]; auto.
    - intros x Hx Hd. apply IN2 in Hx. destruct Hx as [Hx|[-> Hx]].
      + unfold A1 in Hx. apply in_app_or in Hx. destruct Hx as [Hx|Hx].
        * specialize (PRE x Hx). lra.
        * specialize (HP x Hx). destruct HP as [K|[K1 K2]]; simpl in *; lra.
      + simpl in Hd. lra. }
  assert (M2 : (cgt dp A2 < f)%nat).
  { assert (C0 : cgt d (pre ++ (bp, dp) :: post) = S (cgt d A1)).
    { unfold cgt. rewrite (ex_perm _ _ d (Permutation_map snd PERM)). simpl map. rewrite ex_cons. simpl snd.
      replace (Qlt_bool d dp) with true by (symmetry; apply Qlt_bool_iff; auto). reflexivity. }
    assert (C1 : (cgt dp A2 <= cgt d A1)%nat).
    { destruct A2P as [[E ->]|[E ->]].
      - apply ex_mono. lra.
      - unfold cgt. rewrite <- (ex_perm _ _ dp (Permutation_map snd (place_perm bp d A1))). simpl map. rewrite ex_cons.
        simpl snd. replace (Qlt_bool dp d) with false by (symmetry; apply Qlt_bool_false; lra).
        simpl. apply ex_mono. lra. }
    apply (Nat.le_lt_trans _ _ _ C1). unfold lt in *. apply le_S_n. rewrite <- C0. exact M. }
  destruct (IH bp dp A2 I2 M2) as (tl' & A' & G' & RUN & SA' & PA' & LEN' & INC' & G0 & GLE & SHAPE & RANK & UNDER).
  rewrite RUN.
  exists (junction d bp ++ peak bp dp :: tl'), A', (fun t => Qmax (tent (bp, dp) t) (G' t)).
  split; [reflexivity|]. split; [auto|]. split; [auto|]. split; [exact (Nat.le_trans _ _ _ LEN' LEN2)|].
  (* the three junction shapes *)
  assert (JS : (d < bp /\ junction d bp = [(d, 0); (bp, 0)]) \/ (d == bp /\ junction d bp = [(bp, 0)]) \/
               (bp < d /\ junction d bp = [cross bp d])).
  { unfold junction. destruct (Qlt_bool d bp) eqn:E1, (Qle_bool d bp) eqn:E2; breflect.
    - left; auto. - lra. - right; left; split; auto; lra. - right; right; auto. }
  split.
  { (* abscissae strictly increasing *)
    destruct JS as [[J ->]|[[J ->]|[J ->]]]; simpl app; unfold peak, cross in *; simpl in INC' |- *;
    unfold half in *; repeat split; try lra; try (apply INC'); tauto. }
  split. { intro t. pose proof (tent_nonneg (bp, dp) t). qmm; lra. }
  split.
  { intros t Ht. apply Q.max_lub. apply chain_before; auto.
    eapply Qle_trans. apply GLE. unfold half in *; lra. apply chain_before; auto. }
  split.
  { (* shape *)
    intros t Ht. destruct (Qlt_le_dec (half (bp + dp)) t) as [L|Gt].
    - assert (E : pl_eval (peak b d :: junction d bp ++ peak bp dp :: tl') t = pl_eval (peak bp dp :: tl') t).
      { destruct JS as [[J ->]|[[J ->]|[J ->]]]; simpl app.
        apply skip_gap; auto. apply skip_touch; auto. apply skip_cross; auto. }
      rewrite E, SHAPE by lra. symmetry. apply qmax_drop. apply chain_after; auto; lra.
    - rewrite qmax_absorb by (apply GLE; auto).
      destruct JS as [[J ->]|[[J ->]|[J ->]]]; simpl app.
      apply shape_gap; auto. apply shape_touch; auto. apply shape_cross; auto. }
  split.
  { (* rank function *)
    intros F0 S0 t v Hv.
    transitivity (ex (F0 t :: tent (bp, dp) t :: tentv A1 t) v).
    { apply ex_perm. apply perm_skip. change (tent (bp, dp) t :: tentv A1 t) with (tentv ((bp, dp) :: A1) t).
      apply tentv_perm. exact PERM. }
    destruct A2P as [[E E2]|[E E2]]; breflect.
    - destruct (step_disjoint F0 b d bp dp S0 E PP) as (S' & RK & _).
      rewrite RK by auto. rewrite <- E2.
      rewrite (RANK _ S' t v Hv). apply ex_head_eq. symmetry. apply qmax_assoc'.
    - destruct (step_overlap F0 b d bp dp S0 (Qlt_le_weak _ _ BP) E DP) as (S' & _ & RK & _).
      rewrite RK.
      transitivity (ex (Qmax (F0 t) (tent (bp, dp) t) :: tentv A2 t) v).
      { apply ex_perm. apply perm_skip. change (tent (bp, d) t :: tentv A1 t) with (tentv ((bp, d) :: A1) t).
        apply tentv_perm. rewrite E2. apply place_perm. }
      rewrite (RANK _ S' t v Hv). apply ex_head_eq. symmetry. apply qmax_assoc'. }
  { (* remaining bars lie under the envelope *)
    intros F0 S0 U x Hx t.
    assert (S' : SInv (fun t => Qmax (F0 t) (tent (bp, dp) t)) bp dp).
    { destruct A2P as [[E E2]|[E E2]]; breflect.
      apply (step_disjoint F0 b d bp dp S0 E PP). apply (step_overlap F0 b d bp dp S0 (Qlt_le_weak _ _ BP) E DP). }
    rewrite qmax_assoc'. apply (UNDER _ S'); auto.
    intros y Hy Hd s. apply IN2 in Hy. destruct Hy as [Hy|[-> Hy]].
    - destruct (Qlt_le_dec d (snd y)) as [L|Gd].
      + (* died later than d but was not the first such bar: it comes after (bp,dp), so it is nested in it *)
        unfold A1 in Hy. apply in_app_or in Hy. destruct Hy as [Hy|Hy]. specialize (PRE y Hy). lra.
        specialize (HP y Hy). apply kle_birth in HP. simpl in HP.
        eapply Qle_trans; [|apply Q.le_max_r]. destruct y as [yb yd]. simpl in *. apply tent_nested; auto.
      + eapply Qle_trans; [|apply Q.le_max_l]. apply U; auto.
        unfold A1 in Hy. apply in_app_or in Hy. apply in_or_app. destruct Hy; auto. right; right; auto.
    - eapply Qle_trans; [|apply Q.le_max_r]. apply tent_nested; lra. }
Qed.
