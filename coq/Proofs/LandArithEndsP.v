(* C09 - the Fixed variant of the exact sum (commit 5fc4f85 / fixes/C09_first_ordinate.patch) on ARBITRARY
   critical-pair lists: the sum is the pointwise sum of the functions pl_eval at every t EXACTLY when the
   operands satisfy Spec.ends_compatible (no non-zero end ordinate of one strictly inside the range of the other).

   Mechanism.  For x' <= first abscissa, integ x' 0 (pos_to_slope a) t is
       0                      for t <= first_x a,
       pl_eval a t - first_y  for first_x a <= t <= last_x a,
       last_y a - first_y a   for last_x a <= t          (the slope list ends with slope 0: constant extension),
   so slope_to_pos (ystart) (sum_slopes ...) is the CONTINUOUS function
       ystart + (a~(t) - first_y a) + (b~(t) - first_y b)     (a~ = a extended by its end ordinates)
   between min first_x and max last_x.  It equals pl_eval a + pl_eval b (which drop to 0 outside the range of
   each operand) iff the jumps of the operands sit at the ends of the result: ends_compatible. *)
From Coq Require Import QArith Qminmax Lqa List Bool ZArith Lia Arith.
From Persim Require Import Lib.Kth Lib.PL Model.LandArithM Spec.LandArithS Proofs.LandArithP Proofs.LandArithFixedP.
Import ListNotations.
Open Scope Q_scope.

(* ------------------------------------------------------------------ the condition, as a boolean *)
Definition ends_compatible_b (a b : list pt) : bool :=
  (negb (Qlt_bool (first_x a) (first_x b)) || Qeq_bool (first_y b) 0) &&
  (negb (Qlt_bool (first_x b) (first_x a)) || Qeq_bool (first_y a) 0) &&
  (negb (Qlt_bool (last_x a) (last_x b)) || Qeq_bool (last_y a) 0) &&
  (negb (Qlt_bool (last_x b) (last_x a)) || Qeq_bool (last_y b) 0).

Lemma imp_b x y z : (negb (Qlt_bool x y) || Qeq_bool z 0 = true) <-> (x < y -> z == 0).
Proof.
  rewrite orb_true_iff, negb_true_iff, Qlt_bool_false, Qeq_bool_iff. split.
  - intros [H|H] L; [lra|exact H].
  - intro H. destruct (Qlt_le_dec x y) as [L|L]; [right; auto|left; exact L].
Qed.

Lemma ends_compatible_b_spec a b : ends_compatible_b a b = true <-> ends_compatible a b.
Proof.
  unfold ends_compatible_b, ends_compatible. rewrite !andb_true_iff, !imp_b. tauto.
Qed.

Lemma ends_compatible_b_false a b : ends_compatible_b a b = false <-> ~ ends_compatible a b.
Proof.
  rewrite <- ends_compatible_b_spec. destruct (ends_compatible_b a b); split; intro H; try discriminate; auto.
  exfalso. apply H. reflexivity.
Qed.

Lemma ends_compatible_sym a b : ends_compatible a b -> ends_compatible b a.
Proof. unfold ends_compatible. tauto. Qed.

(* ------------------------------------------------------------------ what one operand contributes *)
Lemma contrib r x0 y0 x' t : incr ((x0, y0) :: r) -> x' <= x0 -> x' <= t ->
  (t <= x0 -> integ x' 0 (pos_to_slope ((x0, y0) :: r)) t == 0) /\
  (x0 <= t -> t <= last_x ((x0, y0) :: r) ->
     pl_eval ((x0, y0) :: r) t == y0 + integ x' 0 (pos_to_slope ((x0, y0) :: r)) t) /\
  (last_x ((x0, y0) :: r) <= t -> integ x' 0 (pos_to_slope ((x0, y0) :: r)) t == last_y ((x0, y0) :: r) - y0).
Proof.
  intros I X T.
  destruct (p2s_head x0 y0 r) as [m0 [tl E]]. npt.
  assert (Ip := p2s_incr _ I). rewrite E in Ip. assert (S := incr_sfrom x0 m0 tl Ip).
  assert (F := incr_first_le_last_cons r x0 y0 I). fold (last_x ((x0, y0) :: r)) in F.
  npt. rewrite E, integ_cons.
  split; [|split].
  - intro H. replace (Qle_bool t x0) with true by (symmetry; apply b_le; exact H). ring.
  - intros H1 H2. destruct (p2s_spec r x0 y0 t I H1) as [P1 _]. npt. rewrite E in P1. unfold ES in P1.
    rewrite (P1 H2). destruct (Qle_bool t x0) eqn:C.
    + apply b_le in C. assert (TE : t == x0) by lra.
      rewrite (integ_compat tl x0 m0 t x0 TE), (integ_at_start x0 m0 tl S). ring.
    + ring.
  - intro H. assert (H1 : x0 <= t) by lra.
    destruct (p2s_spec r x0 y0 t I H1) as [_ P2]. npt. rewrite E in P2. unfold ES in P2. specialize (P2 H).
    destruct (Qle_bool t x0) eqn:C.
    + apply b_le in C. assert (TE : t == x0) by lra.
      rewrite (integ_compat tl x0 m0 t x0 TE), (integ_at_start x0 m0 tl S) in P2. lra.
    + lra.
Qed.

(* ------------------------------------------------------------------ first and last abscissa of the merge *)
Lemma merge_head_min f (a0 : pt) a' (b0 : pt) b' am bm xs ms rs :
  sum_slopes_go (S f) (a0 :: a') (b0 :: b') am bm = Some ((xs, ms) :: rs) -> xs == Qmin (fst a0) (fst b0).
Proof.
  destruct a0 as [ax am'], b0 as [bx bm']. rewrite go_cc. simpl fst.
  destruct (Qlt_bool bx ax) eqn:C1; [|destruct (Qlt_bool ax bx) eqn:C2];
  match goal with |- context [option_map _ ?u] => destruct u; simpl; intro H; inversion H; subst end.
  - apply Qlt_bool_iff in C1. rewrite Q.min_r by lra. reflexivity.
  - apply Qlt_bool_iff in C2. rewrite Q.min_l by lra. reflexivity.
  - apply Qlt_bool_false in C1, C2. rewrite Q.min_l by lra. reflexivity.
Qed.

Lemma lastx_d_nil d : lastx_d d [] = d.
Proof. reflexivity. Qed.

Lemma merge_last_le fuel : forall a b am bm s x0 u,
  sum_slopes_go fuel a b am bm = Some s -> sfrom x0 a -> sfrom x0 b ->
  lastx_d x0 a <= u -> lastx_d x0 b <= u -> lastx_d x0 s <= u.
Proof.
  induction fuel as [|f IH]; intros a b am bm s x0 u E Sa Sb Ua Ub.
  - destruct a, b; simpl in E; try discriminate. inversion E. exact Ua.
  - destruct a as [|[ax am'] a'], b as [|[bx bm'] b']; [simpl in E|rewrite go_nb in E|rewrite go_an in E|rewrite go_cc in E].
    + inversion E. exact Ua.
    + destruct (sum_slopes_go f [] b' am bm') as [s'|] eqn:E'; simpl in E; [|discriminate].
      inversion E; subst s; clear E. destruct Sb as [B1 B2]. rewrite lastx_d_cons in *.
      apply (IH _ _ _ _ s' bx u E' I B2); [|exact Ub].
      rewrite lastx_d_nil. apply Qle_trans with (lastx_d bx b'); [apply sfrom_le_last; exact B2|exact Ub].
    + destruct (sum_slopes_go f a' [] am' bm) as [s'|] eqn:E'; simpl in E; [|discriminate].
      inversion E; subst s; clear E. destruct Sa as [A1 A2]. rewrite lastx_d_cons in *.
      apply (IH _ _ _ _ s' ax u E' A2 I); [exact Ua|].
      rewrite lastx_d_nil. apply Qle_trans with (lastx_d ax a'); [apply sfrom_le_last; exact A2|exact Ua].
    + assert (Sa' := Sa). assert (Sb' := Sb). destruct Sa' as [A1 A2], Sb' as [B1 B2].
      destruct (Qlt_bool bx ax) eqn:C1.
      * apply Qlt_bool_iff in C1.
        destruct (sum_slopes_go f ((ax, am') :: a') b' am bm') as [s'|] eqn:E'; simpl in E; [|discriminate].
        inversion E; subst s; clear E.
        assert (Sa2 : sfrom bx ((ax, am') :: a')) by (simpl; split; [lra|auto]).
        rewrite (lastx_d_cons x0 bx). rewrite lastx_d_cons in Ua, Ub.
        apply (IH _ _ _ _ s' bx u E' Sa2 B2); [rewrite lastx_d_cons; exact Ua|exact Ub].
      * apply Qlt_bool_false in C1. destruct (Qlt_bool ax bx) eqn:C2.
        -- apply Qlt_bool_iff in C2.
           destruct (sum_slopes_go f a' ((bx, bm') :: b') am' bm) as [s'|] eqn:E'; simpl in E; [|discriminate].
           inversion E; subst s; clear E.
           assert (Sb2 : sfrom ax ((bx, bm') :: b')) by (simpl; split; [lra|auto]).
           rewrite (lastx_d_cons x0 ax). rewrite lastx_d_cons in Ua, Ub.
           apply (IH _ _ _ _ s' ax u E' A2 Sb2); [exact Ua|rewrite lastx_d_cons; exact Ub].
        -- apply Qlt_bool_false in C2.
           destruct (sum_slopes_go f a' b' am' bm') as [s'|] eqn:E'; simpl in E; [|discriminate].
           inversion E; subst s; clear E.
           assert (B2' : sfrom ax b') by (apply (sfrom_weaken bx); [lra|auto]).
           rewrite (lastx_d_cons x0 ax). rewrite lastx_d_cons in Ua, Ub.
           apply (IH _ _ _ _ s' ax u E' A2 B2'); [exact Ua|].
           apply Qle_trans with (lastx_d bx b'); [apply lastx_d_mono; lra|exact Ub].
Qed.

(* ------------------------------------------------------------------ the sum as a continuous function
   everything that does not depend on the compatibility of the ends *)
Lemma add_depth_fixed_shape (ra rb : list pt) xa ya xb yb :
  let a := (xa, ya) :: ra in let b := (xb, yb) :: rb in
  incr a -> incr b ->
  exists c, add_depth Fixed a b = Some c /\ c <> [] /\ incr c /\
    first_x c == Qmin xa xb /\ first_y c == first_ordinate a b /\
    last_x a <= last_x c /\ last_x b <= last_x c /\
    (forall u, last_x a <= u -> last_x b <= u -> last_x c <= u) /\
    forall t, Qmin xa xb <= t -> t <= last_x c ->
      pl_eval c t == first_ordinate a b + integ (Qmin xa xb) 0 (pos_to_slope a) t
                                        + integ (Qmin xa xb) 0 (pos_to_slope b) t.
Proof.
  intros a b Ia Ib.
  change (add_depth Fixed a b) with (add_depth_core Fixed a b). unfold add_depth_core, sum_slopes. change (ystart Fixed a b) with (first_ordinate a b). set (ys := first_ordinate a b).
  set (pa := pos_to_slope a). set (pb := pos_to_slope b).
  destruct (merge_some (length pa + length pb) pa pb 0 0 (le_n _)) as [s E]. rewrite E. simpl option_map.
  exists (slope_to_pos ys s). split; [reflexivity|].
  destruct (p2s_head xa ya ra) as [ma [ta Epa]]. destruct (p2s_head xb yb rb) as [mb [tb Epb]]. npt.
  assert (Ipa : incr pa) by (apply p2s_incr; exact Ia).
  assert (Ipb : incr pb) by (apply p2s_incr; exact Ib).
  assert (Hpa : pa = (xa, ma) :: ta) by exact Epa.
  assert (Hpb : pb = (xb, mb) :: tb) by exact Epb.
  set (x' := Qmin xa xb). assert (X1 : x' <= xa) by apply Q.le_min_l. assert (X2 : x' <= xb) by apply Q.le_min_r.
  assert (Sa : sfrom x' pa) by (apply incr_sfrom'; [exact Ipa|rewrite Hpa; exact X1]).
  assert (Sb : sfrom x' pb) by (apply incr_sfrom'; [exact Ipb|rewrite Hpb; exact X2]).
  destruct (merge_struct _ _ _ _ _ s x' E Ipa Ipb) as [_ [_ Is]].
  destruct s as [|[xs ms] rs].
  { apply merge_nil in E. destruct E as [E _]. rewrite Hpa in E. discriminate. }
  assert (XS : xs == x').
  { assert (E2 := E). rewrite Hpa, Hpb in E2. simpl length in E2. apply merge_head_min in E2. exact E2. }
  simpl slope_to_pos.
  destruct (s2p_spec rs xs ys ms Is) as [Ic [Lc Ec]].
  set (c := (xs, ys) :: s2p_go xs ys ms rs) in *.
  assert (Ss : sfrom xs rs) by (apply (incr_sfrom xs ms); exact Is).
  destruct (merge_last _ _ _ _ _ _ x' E Sa Sb) as [LA LB].
  assert (LU := fun u => merge_last_le _ _ _ _ _ _ x' u E Sa Sb).
  rewrite lastx_d_cons in LA, LB. rewrite <- Lc in LA, LB.
  assert (LU' : forall u, lastx_d x' pa <= u -> lastx_d x' pb <= u -> last_x c <= u).
  { intros u U1 U2. rewrite Lc. rewrite <- (lastx_d_cons x' xs ms rs). apply LU; assumption. }
  clear LU.
  unfold pa in LA, LU'. rewrite (p2s_last a x' (0, 0)) in LA, LU' by (unfold a; congruence).
  unfold pb in LB, LU'. rewrite (p2s_last b x' (0, 0)) in LB, LU' by (unfold b; congruence).
  change (fst (last a (0, 0))) with (last_x a) in LA, LU'. change (fst (last b (0, 0))) with (last_x b) in LB, LU'.
  split; [unfold c; congruence|]. split; [exact Ic|].
  split; [unfold first_x, c; simpl; exact XS|]. split; [unfold first_y, c; simpl; reflexivity|].
  split; [exact LA|]. split; [exact LB|]. split; [exact LU'|].
  intros t T1 T2.
  assert (M := merge_integ _ _ _ _ _ _ x' t E Sa Sb T1).
  assert (M2 : integ x' 0 ((xs, ms) :: rs) t == integ x' (0 + 0) ((xs, ms) :: rs) t) by (apply integ_compat_m; ring).
  fold pa pb. rewrite <- Qplus_assoc, <- M, <- M2.
  rewrite (Ec t) by (try exact T2; lra). rewrite integ_cons.
  destruct (Qle_bool t xs) eqn:C.
  - apply b_le in C. assert (TE : t == xs) by lra.
    rewrite (integ_compat rs xs ms t xs TE), (integ_at_start xs ms rs Ss). ring.
  - ring.
Qed.

Lemma first_ordinate_cons xa ya ra xb yb rb :
  first_ordinate ((xa, ya) :: ra) ((xb, yb) :: rb) =
  (if Qle_bool xa xb then ya else 0) + (if Qle_bool xb xa then yb else 0).
Proof. reflexivity. Qed.

(* ------------------------------------------------------------------ sufficiency *)
Lemma add_depth_fixed_ends_cons (ra rb : list pt) xa ya xb yb :
  let a := (xa, ya) :: ra in let b := (xb, yb) :: rb in
  incr a -> incr b -> ends_compatible a b ->
  exists c, add_depth Fixed a b = Some c /\ c <> [] /\ incr c /\
    first_x c == Qmin (first_x a) (first_x b) /\ last_x c == Qmax (last_x a) (last_x b) /\
    forall t, pl_eval c t == pl_eval a t + pl_eval b t.
Proof.
  intros a b Ia Ib [C1 [C2 [C3 C4]]].
  destruct (add_depth_fixed_shape ra rb xa ya xb yb Ia Ib) as [c [E [N [Ic [FX [FY [LA [LB [LU EV]]]]]]]]].
  fold a b in E, FY, LA, LB, LU, EV.
  unfold first_x, first_y in C1, C2. simpl in C1, C2.
  set (x' := Qmin xa xb) in *. assert (X1 : x' <= xa) by apply Q.le_min_l. assert (X2 : x' <= xb) by apply Q.le_min_r.
  assert (XM : x' == xa \/ x' == xb).
  { unfold x'. destruct (Q.min_spec xa xb) as [[_ M]|[_ M]]; rewrite M; [left|right]; reflexivity. }
  assert (YS : first_ordinate a b == ya + yb).
  { unfold a, b. rewrite first_ordinate_cons.
    destruct (Qle_bool xa xb) eqn:B1, (Qle_bool xb xa) eqn:B2;
      try apply b_le in B1; try apply b_le in B2; try apply b_le_f in B1; try apply b_le_f in B2.
    - ring.
    - rewrite (C1 B2). ring.
    - rewrite (C2 B1). ring.
    - lra. }
  assert (FA : xa <= x' \/ ya == 0).
  { destruct (Qlt_le_dec xb xa) as [G|G]; [right; apply C2; exact G|left]. destruct XM; lra. }
  assert (FB : xb <= x' \/ yb == 0).
  { destruct (Qlt_le_dec xa xb) as [G|G]; [right; apply C1; exact G|left]. destruct XM; lra. }
  assert (GA : last_x b <= last_x a \/ last_y a == 0).
  { destruct (Qlt_le_dec (last_x a) (last_x b)) as [G|G]; [right; apply C3; exact G|left; exact G]. }
  assert (GB : last_x a <= last_x b \/ last_y b == 0).
  { destruct (Qlt_le_dec (last_x b) (last_x a)) as [G|G]; [right; apply C4; exact G|left; exact G]. }
  assert (LM : last_x c == Qmax (last_x a) (last_x b)).
  { apply Qle_antisym; [apply LU; [apply Q.le_max_l|apply Q.le_max_r]|apply Q.max_lub; assumption]. }
  assert (Na : a <> []) by (unfold a; congruence). assert (Nb : b <> []) by (unfold b; congruence).
  exists c. split; [exact E|]. split; [exact N|]. split; [exact Ic|].
  split; [unfold first_x at 2 3; simpl; exact FX|]. split; [exact LM|].
  intro t. destruct (Qlt_le_dec t x') as [G|G].
  - rewrite (pl_eval_left c t N Ic) by lra.
    rewrite (pl_eval_left a t Na Ia) by (unfold first_x, a; simpl; lra).
    rewrite (pl_eval_left b t Nb Ib) by (unfold first_x, b; simpl; lra). ring.
  - destruct (Qlt_le_dec (last_x c) t) as [G2|G2].
    + rewrite (pl_eval_right c t N Ic G2).
      rewrite (pl_eval_right a t Na Ia) by lra. rewrite (pl_eval_right b t Nb Ib) by lra. ring.
    + rewrite (EV t G G2), YS.
      assert (TL : t <= last_x a \/ t <= last_x b).
      { destruct (Qlt_le_dec (last_x a) t) as [H1|H1]; [|left; exact H1].
        destruct (Qlt_le_dec (last_x b) t) as [H2|H2]; [|right; exact H2].
        exfalso. destruct (Qlt_le_dec (last_x a) (last_x b)) as [H3|H3].
        - assert (last_x c <= last_x b) by (apply LU; lra). lra.
        - assert (last_x c <= last_x a) by (apply LU; lra). lra. }
      destruct (contrib ra xa ya x' t Ia X1 G) as [A1 [A2 A3]].
      destruct (contrib rb xb yb x' t Ib X2 G) as [B1 [B2 B3]].
      fold a in A1, A2, A3. fold b in B1, B2, B3.
      set (ia := integ x' 0 (pos_to_slope a) t) in *. set (ib := integ x' 0 (pos_to_slope b) t) in *.
      assert (DA : pl_eval a t == ya + ia \/ (last_x a < t /\ pl_eval a t == 0 /\ ia == last_y a - ya)
                   \/ (t < xa /\ pl_eval a t == 0 /\ ia == 0)).
      { destruct (Qlt_le_dec t xa) as [H1|H1].
        - right; right. split; [exact H1|]. split; [apply (pl_eval_left a t Na Ia); unfold first_x, a; simpl; exact H1|apply A1; lra].
        - destruct (Qlt_le_dec (last_x a) t) as [H2|H2].
          + right; left. split; [exact H2|]. split; [apply (pl_eval_right a t Na Ia H2)|apply A3; lra].
          + left. apply A2; assumption. }
      assert (DB : pl_eval b t == yb + ib \/ (last_x b < t /\ pl_eval b t == 0 /\ ib == last_y b - yb)
                   \/ (t < xb /\ pl_eval b t == 0 /\ ib == 0)).
      { destruct (Qlt_le_dec t xb) as [H1|H1].
        - right; right. split; [exact H1|]. split; [apply (pl_eval_left b t Nb Ib); unfold first_x, b; simpl; exact H1|apply B1; lra].
        - destruct (Qlt_le_dec (last_x b) t) as [H2|H2].
          + right; left. split; [exact H2|]. split; [apply (pl_eval_right b t Nb Ib H2)|apply B3; lra].
          + left. apply B2; assumption. }
      clear A1 A2 A3 B1 B2 B3 EV LU C1 C2 C3 C4.
      destruct DA as [DA|[[DA1 [DA2 DA3]]|[DA1 [DA2 DA3]]]]; destruct DB as [DB|[[DB1 [DB2 DB3]]|[DB1 [DB2 DB3]]]];
        destruct FA as [FA|FA]; destruct FB as [FB|FB]; destruct GA as [GA|GA]; destruct GB as [GB|GB];
        destruct TL as [TL|TL]; lra.
Qed.

Lemma add_depth_fixed_ends a b : a <> [] -> b <> [] -> incr a -> incr b -> ends_compatible a b ->
  exists c, add_depth Fixed a b = Some c /\ c <> [] /\ incr c /\
    first_x c == Qmin (first_x a) (first_x b) /\ last_x c == Qmax (last_x a) (last_x b) /\
    forall t, pl_eval c t == pl_eval a t + pl_eval b t.
Proof.
  destruct a as [|[xa ya] ra]; [congruence|]. destruct b as [|[xb yb] rb]; [congruence|].
  intros _ _. apply add_depth_fixed_ends_cons.
Qed.

(* ------------------------------------------------------------------ necessity
   stated on the functional equation "continuous sum = pointwise sum" so that it can be used in both orders *)
Section Necessity.
Variables (ra rb : list pt) (xa ya xb yb x' ys lc : Q).
Let a := (xa, ya) :: ra.
Let b := (xb, yb) :: rb.
Hypothesis Ia : incr a.
Hypothesis Ib : incr b.
Hypothesis X1 : x' <= xa.
Hypothesis X2 : x' <= xb.
Hypothesis LA : last_x a <= lc.
Hypothesis LB : last_x b <= lc.
Hypothesis EQ : forall t, x' <= t -> t <= lc ->
  ys + integ x' 0 (pos_to_slope a) t + integ x' 0 (pos_to_slope b) t == pl_eval a t + pl_eval b t.

Lemma nec_first : (xa < xb -> ys == ya) -> xa < xb -> yb == 0.
Proof.
  intros YS L. specialize (YS L).
  assert (Na : a <> []) by (unfold a; congruence). assert (Nb : b <> []) by (unfold b; congruence).
  assert (Fa := incr_first_le_last_cons ra xa ya Ia). fold a in Fa. fold (last_x a) in Fa.
  assert (Fb := incr_first_le_last_cons rb xb yb Ib). fold b in Fb. fold (last_x b) in Fb.
  assert (T1 : x' <= xb) by lra. assert (T2 : xb <= lc) by lra.
  assert (Q1 := EQ xb T1 T2).
  destruct (contrib ra xa ya x' xb Ia X1 T1) as [_ [A2 A3]].
  destruct (contrib rb xb yb x' xb Ib X2 T1) as [B1 [B2 _]].
  fold a in A2, A3. fold b in B1, B2.
  specialize (B1 ltac:(lra)). specialize (B2 ltac:(lra) Fb).
  destruct (Qlt_le_dec (last_x a) xb) as [G|G].
  - (* the range of a ends before b starts: look also at a point between them *)
    specialize (A3 ltac:(lra)). assert (P0 := pl_eval_right a xb Na Ia G).
    set (tm := (last_x a + xb) * (1 # 2)).
    assert (M1 : last_x a < tm) by (unfold tm; lra). assert (M2 : tm < xb) by (unfold tm; lra).
    assert (T3 : x' <= tm) by lra. assert (T4 : tm <= lc) by lra.
    assert (Q2 := EQ tm T3 T4).
    destruct (contrib ra xa ya x' tm Ia X1 T3) as [_ [_ A3']].
    destruct (contrib rb xb yb x' tm Ib X2 T3) as [B1' _].
    fold a in A3'. fold b in B1'. specialize (A3' ltac:(lra)). specialize (B1' ltac:(lra)).
    assert (P1 := pl_eval_right a tm Na Ia M1).
    assert (P2 : pl_eval b tm == 0) by (apply (pl_eval_left b tm Nb Ib); unfold first_x, b; simpl; exact M2).
    lra.
  - specialize (A2 ltac:(lra) G). lra.
Qed.

Lemma nec_last : ys == ya + yb -> last_x a < last_x b -> last_y a == 0.
Proof.
  intros YS L.
  assert (Na : a <> []) by (unfold a; congruence).
  assert (Fa := incr_first_le_last_cons ra xa ya Ia). fold a in Fa. fold (last_x a) in Fa.
  assert (Fb := incr_first_le_last_cons rb xb yb Ib). fold b in Fb. fold (last_x b) in Fb.
  assert (T1 : x' <= last_x b) by lra.
  assert (Q1 := EQ (last_x b) T1 LB).
  destruct (contrib ra xa ya x' (last_x b) Ia X1 T1) as [_ [_ A3]].
  destruct (contrib rb xb yb x' (last_x b) Ib X2 T1) as [_ [B2 _]].
  fold a in A3. fold b in B2.
  specialize (A3 ltac:(lra)). specialize (B2 Fb ltac:(lra)).
  assert (P0 := pl_eval_right a (last_x b) Na Ia L). lra.
Qed.
End Necessity.

Lemma add_depth_fixed_ends_necessary_cons (ra rb : list pt) xa ya xb yb c :
  let a := (xa, ya) :: ra in let b := (xb, yb) :: rb in
  incr a -> incr b -> add_depth Fixed a b = Some c ->
  (forall t, pl_eval c t == pl_eval a t + pl_eval b t) -> ends_compatible a b.
Proof.
  intros a b Ia Ib E PW.
  destruct (add_depth_fixed_shape ra rb xa ya xb yb Ia Ib) as [c' [E' [N [Ic [FX [FY [LA [LB [LU EV]]]]]]]]].
  fold a b in E', FY, LA, LB, LU, EV. rewrite E in E'. inversion E'; subst c'; clear E'.
  set (x' := Qmin xa xb) in *. assert (X1 : x' <= xa) by apply Q.le_min_l. assert (X2 : x' <= xb) by apply Q.le_min_r.
  set (ys := first_ordinate a b) in *.
  assert (EQ : forall t, x' <= t -> t <= last_x c ->
     ys + integ x' 0 (pos_to_slope a) t + integ x' 0 (pos_to_slope b) t == pl_eval a t + pl_eval b t).
  { intros t T1 T2. rewrite <- (EV t T1 T2). apply PW. }
  assert (EQ' : forall t, x' <= t -> t <= last_x c ->
     ys + integ x' 0 (pos_to_slope b) t + integ x' 0 (pos_to_slope a) t == pl_eval b t + pl_eval a t).
  { intros t T1 T2. specialize (EQ t T1 T2). lra. }
  assert (YA : xa < xb -> ys == ya).
  { intro L. unfold ys, a, b. rewrite first_ordinate_cons.
    replace (Qle_bool xa xb) with true by (symmetry; apply b_le; lra).
    replace (Qle_bool xb xa) with false by (symmetry; apply b_le_f; lra). ring. }
  assert (YB : xb < xa -> ys == yb).
  { intro L. unfold ys, a, b. rewrite first_ordinate_cons.
    replace (Qle_bool xa xb) with false by (symmetry; apply b_le_f; lra).
    replace (Qle_bool xb xa) with true by (symmetry; apply b_le; lra). ring. }
  assert (C1 : xa < xb -> yb == 0) by (apply (nec_first ra rb xa ya xb yb x' ys (last_x c)); assumption).
  assert (C2 : xb < xa -> ya == 0) by (apply (nec_first rb ra xb yb xa ya x' ys (last_x c)); assumption).
  assert (YS : ys == ya + yb).
  { destruct (Qlt_le_dec xa xb) as [G|G]; [rewrite (YA G), (C1 G); ring|].
    destruct (Qlt_le_dec xb xa) as [G'|G']; [rewrite (YB G'), (C2 G'); ring|].
    unfold ys, a, b. rewrite first_ordinate_cons.
    replace (Qle_bool xa xb) with true by (symmetry; apply b_le; lra).
    replace (Qle_bool xb xa) with true by (symmetry; apply b_le; lra). ring. }
  assert (YS' : ys == yb + ya) by lra.
  split; [exact C1|]. split; [exact C2|]. split.
  - apply (nec_last ra rb xa ya xb yb x' ys (last_x c)); assumption.
  - apply (nec_last rb ra xb yb xa ya x' ys (last_x c)); assumption.
Qed.

(* the exact boundary: on non-empty lists with strictly increasing abscissae the sum the (repaired) code computes
   is the pointwise sum at every t if and only if the ends are compatible *)
Lemma add_depth_fixed_ends_iff a b : a <> [] -> b <> [] -> incr a -> incr b ->
  ((exists c, add_depth Fixed a b = Some c /\ forall t, pl_eval c t == pl_eval a t + pl_eval b t)
   <-> ends_compatible a b).
Proof.
  intros Na Nb Ia Ib. split.
  - intros [c [E PW]]. destruct a as [|[xa ya] ra]; [congruence|]. destruct b as [|[xb yb] rb]; [congruence|].
    apply (add_depth_fixed_ends_necessary_cons ra rb xa ya xb yb c Ia Ib E PW).
  - intro C. destruct (add_depth_fixed_ends a b Na Nb Ia Ib C) as [c [E [_ [_ [_ [_ PW]]]]]]. exists c. auto.
Qed.

(* the sum always evaluates (no fuel error) and has increasing abscissae, compatible ends or not *)
Lemma add_depth_fixed_total a b : a <> [] -> b <> [] -> incr a -> incr b ->
  exists c, add_depth Fixed a b = Some c /\ c <> [] /\ incr c.
Proof.
  destruct a as [|[xa ya] ra]; [congruence|]. destruct b as [|[xb yb] rb]; [congruence|]. intros _ _ Ia Ib.
  destruct (add_depth_fixed_shape ra rb xa ya xb yb Ia Ib) as [c [E [N [Ic _]]]]. exists c. auto.
Qed.

(* ------------------------------------------------------------------ concrete witnesses *)
(* a jump of b (first ordinate 1 at abscissa 1) strictly inside the range of a: the model - and the real code, which
   returns the same list [[0,0],[1,1],[2,1.5],[3,0],[4,-1]] - is continuous, the pointwise sum is not: at t = 1 the
   result has 1, the operands 1 + 1 *)
Lemma add_ends_incompatible_refuted_lemma :
  exists a b c t, a <> [] /\ b <> [] /\ incr a /\ incr b /\ ends_compatible_b a b = false /\
    add_depth Fixed a b = Some c /\ ~ pl_eval c t == pl_eval a t + pl_eval b t.
Proof.
  exists [(0, 0); (2, 2); (4, 0)], [(1, 1); (3, 0)].
  eexists. exists 1.
  split; [discriminate|]. split; [discriminate|].
  split; [simpl; repeat split; reflexivity|]. split; [simpl; repeat split; reflexivity|].
  split; [vm_compute; reflexivity|]. split; [vm_compute; reflexivity|]. vm_compute. discriminate.
Qed.

(* a non-zero LAST ordinate inside the range of the other operand: constant extension instead of the drop to 0 *)
Lemma add_last_incompatible_refuted_lemma :
  exists a b c t, incr a /\ incr b /\ ends_compatible_b a b = false /\
    add_depth Fixed a b = Some c /\ ~ pl_eval c t == pl_eval a t + pl_eval b t.
Proof.
  exists [(0, 0); (1, 1)], [(0, 0); (2, 0)].
  eexists. exists (3 # 2).
  split; [simpl; repeat split; reflexivity|]. split; [simpl; repeat split; reflexivity|].
  split; [vm_compute; reflexivity|]. split; [vm_compute; reflexivity|]. vm_compute. discriminate.
Qed.

(* compatible ends with every kind of non-zero end ordinate and different ranges: hypotheses of the theorem hold *)
Lemma ends_compatible_instance :
  let a := [(0, 1); (2, 3); (5, 0)] in let b := [(2, 0); (3, -(1)); (5, 4)] in
  a <> [] /\ b <> [] /\ incr a /\ incr b /\ ends_compatible a b /\
  add_depth Fixed a b = Some [(0, 1); (2, 6 # 2); (3, 6 # 6); (5, 144 # 36)].
Proof.
  cbv zeta. split; [discriminate|]. split; [discriminate|].
  split; [simpl; repeat split; reflexivity|]. split; [simpl; repeat split; reflexivity|].
  split; [apply ends_compatible_b_spec; vm_compute; reflexivity|].
  vm_compute. reflexivity.
Qed.

(* An explicitly empty depth (only constructible through critical_pairs=[[]...]): the real code raises IndexError
   (a[0][0] in union_crit_pairs; before 5fc4f85 l[-1][0] in pos_to_slope_interp); the model returns its error value. *)
Lemma add_empty_depth_raises v b : add_depth v [] b = None /\ add_depth v b [] = None.
Proof. split; [reflexivity|destruct b; reflexivity]. Qed.
