(* C07, generic part: real-valued cost lists of partial matchings, the two aggregators
   (largest cost / sum of costs), composition of matchings (the heart of the triangle
   inequality), and the metric / invariance laws of the minimum over all partial matchings for
   ANY pseudo-metric pair cost with a compatible diagonal cost.  Instantiated in MetricLawsW.v
   (Euclidean / sum = Wasserstein) and MetricLawsB.v (L-infinity / max = bottleneck). *)
From Coq Require Import List Arith Bool Permutation Lia Reals Lra.
From Persim Require Import Spec.PartialMatching Lib.PMatchLemmas.
Import ListNotations.
Open Scope R_scope.

(* ---------- aggregators ---------- *)
Definition maxRl (l : list R) : R := fold_right Rmax 0 l.
Definition sumR (l : list R) : R := fold_right Rplus 0 l.

Lemma maxRl_ge0 l : 0 <= maxRl l.
Proof. induction l; simpl; [lra|]. eapply Rle_trans; [exact IHl|apply Rmax_r]. Qed.
Lemma maxRl_in x l : In x l -> x <= maxRl l.
Proof.
  induction l; simpl; [contradiction|]. intros [H|H].
  - subst. apply Rmax_l.
  - eapply Rle_trans; [apply IHl; exact H|apply Rmax_r].
Qed.
Lemma maxRl_le b l : 0 <= b -> (forall x, In x l -> x <= b) -> maxRl l <= b.
Proof.
  intros Hb. induction l; simpl; intros H; [exact Hb|].
  apply Rmax_lub; [apply H; auto|apply IHl; intros; apply H; auto].
Qed.
Lemma maxRl_incl l l' : incl l l' -> maxRl l <= maxRl l'.
Proof. intros H. apply maxRl_le; [apply maxRl_ge0|]. intros x Hx. apply maxRl_in. apply H. exact Hx. Qed.
Lemma maxRl_perm l l' : Permutation l l' -> maxRl l = maxRl l'.
Proof.
  intros H. apply Rle_antisym; apply maxRl_incl; intros x Hx;
    [eapply Permutation_in; [exact H|exact Hx]|eapply Permutation_in; [symmetry; exact H|exact Hx]].
Qed.
Lemma maxRl_mono l l' : Forall2 Rle l l' -> maxRl l <= maxRl l'.
Proof.
  induction 1; simpl; [lra|]. apply Rmax_lub.
  - eapply Rle_trans; [exact H|apply Rmax_l].
  - eapply Rle_trans; [exact IHForall2|apply Rmax_r].
Qed.
Lemma maxRl_zero l : Forall (fun c => c = 0) l -> maxRl l = 0.
Proof. induction 1; simpl; [reflexivity|]. subst. rewrite IHForall. apply Rmax_left. lra. Qed.
Lemma maxRl_scale c l : 0 <= c -> maxRl (map (Rmult c) l) = c * maxRl l.
Proof.
  intros Hc. induction l; simpl; [ring|]. rewrite IHl. apply RmaxRmult. exact Hc.
Qed.

Lemma sumR_app l l' : sumR (l ++ l') = sumR l + sumR l'.
Proof. induction l; simpl; lra. Qed.
Lemma sumR_perm l l' : Permutation l l' -> sumR l = sumR l'.
Proof. induction 1; simpl; lra. Qed.
Lemma sumR_mono l l' : Forall2 Rle l l' -> sumR l <= sumR l'.
Proof. induction 1; simpl; lra. Qed.
Lemma sumR_zero l : Forall (fun c => c = 0) l -> sumR l = 0.
Proof. induction 1; simpl; lra. Qed.
Lemma sumR_nonneg l : Forall (fun c => 0 <= c) l -> 0 <= sumR l.
Proof. induction 1; simpl; lra. Qed.
Lemma sumR_scale c l : sumR (map (Rmult c) l) = c * sumR l.
Proof. induction l; simpl; [ring|]. rewrite IHl. ring. Qed.
Lemma maxRl_le_sumR l : Forall (fun c => 0 <= c) l -> maxRl l <= sumR l.
Proof.
  induction 1; simpl; [lra|]. assert (0 <= sumR l) by (apply sumR_nonneg; assumption).
  apply Rmax_lub; lra.
Qed.

(* ---------- finite sums over index ranges ---------- *)
Definition ssum (f : nat -> R) (n : nat) : R := sumR (map f (seq 0 n)).

Lemma sumR_map_ext_in {A} (f g : A -> R) l : (forall x, In x l -> f x = g x) -> sumR (map f l) = sumR (map g l).
Proof. intros H. f_equal. apply map_ext_in. exact H. Qed.
Lemma sumR_map_le {A} (f g : A -> R) l : (forall x, In x l -> f x <= g x) -> sumR (map f l) <= sumR (map g l).
Proof.
  induction l; simpl; intros H; [lra|]. assert (f a <= g a) by (apply H; auto).
  assert (sumR (map f l) <= sumR (map g l)) by (apply IHl; intros; apply H; auto). lra.
Qed.
Lemma sumR_map_plus {A} (f g : A -> R) l : sumR (map (fun x => f x + g x) l) = sumR (map f l) + sumR (map g l).
Proof. induction l; simpl; lra. Qed.
Lemma sumR_map_filter {A} (p : A -> bool) (g : A -> R) l :
  sumR (map g (filter p l)) = sumR (map (fun x => if p x then g x else 0) l).
Proof. induction l; simpl; [reflexivity|]. destruct (p a); simpl; lra. Qed.

Lemma ssum_ext f g n : (forall i, (i < n)%nat -> f i = g i) -> ssum f n = ssum g n.
Proof. intros H. apply sumR_map_ext_in. intros x Hx. apply in_seq in Hx. apply H. lia. Qed.
Lemma ssum_le f g n : (forall i, (i < n)%nat -> f i <= g i) -> ssum f n <= ssum g n.
Proof. intros H. apply sumR_map_le. intros x Hx. apply in_seq in Hx. apply H. lia. Qed.
Lemma ssum_plus f g n : ssum (fun i => f i + g i) n = ssum f n + ssum g n.
Proof. apply sumR_map_plus. Qed.

Lemma sum_update n : forall s a y (X : nat -> R), X a = 0 ->
  sumR (map (fun i => if Nat.eqb i a then y else X i) (seq s n)) =
  sumR (map X (seq s n)) + (if (Nat.leb s a && Nat.ltb a (s + n))%bool then y else 0).
Proof.
  induction n; intros s a y X X0; simpl.
  - replace (s + 0)%nat with s by lia.
    destruct (Nat.leb_spec s a), (Nat.ltb_spec a s); simpl; try lra; lia.
  - rewrite (IHn (S s) a y X X0). destruct (Nat.eqb_spec s a) as [E|E].
    + subst. rewrite X0.
      destruct (Nat.leb_spec (S a) a); [lia|]. destruct (Nat.leb_spec a a); [|lia].
      destruct (Nat.ltb_spec a (a + S n)); [|lia]. simpl. lra.
    + destruct (Nat.leb_spec (S s) a), (Nat.leb_spec s a), (Nat.ltb_spec a (S s + n)),
        (Nat.ltb_spec a (s + S n)); simpl; try lra; lia.
Qed.

(* sum over the pairs of a matching = sum over left indices through the lookup *)
Lemma ssum_lookup (g : nat -> nat -> R) M (m : pmatching) :
  NoDup (map fst m) -> (forall p, In p m -> (fst p < M)%nat) ->
  ssum (fun i => match lookup_l m i with Some j => g i j | None => 0 end) M =
  sumR (map (fun p => g (fst p) (snd p)) m).
Proof.
  unfold ssum. induction m as [|[a b] m IH]; intros ND B.
  - simpl. apply sumR_zero. apply Forall_forall. intros x Hx. apply in_map_iff in Hx.
    destruct Hx as [i [E _]]. auto.
  - inversion ND as [|x l NI ND']. subst. simpl.
    rewrite <- IH; [|exact ND'|intros; apply B; right; assumption].
    assert (La : lookup_l m a = None) by (apply lookup_l_None; exact NI).
    assert (Ba : (a < M)%nat) by (apply (B (a, b)); left; reflexivity).
    rewrite (sumR_map_ext_in _ (fun i => if Nat.eqb i a then g a b else
               match lookup_l m i with Some j => g i j | None => 0 end)).
    + rewrite sum_update; [|rewrite La; reflexivity].
      destruct (Nat.ltb_spec a (0 + M)); [|lia]. simpl. lra.
    + intros i _. destruct (Nat.eqb_spec i a); [subst|]; reflexivity.
Qed.

Lemma ssum_lookup_r (g : nat -> nat -> R) N (m : pmatching) :
  NoDup (map snd m) -> (forall p, In p m -> (snd p < N)%nat) ->
  ssum (fun j => match lookup_r m j with Some i => g i j | None => 0 end) N =
  sumR (map (fun p => g (fst p) (snd p)) m).
Proof.
  intros ND B. unfold lookup_r. rewrite (ssum_lookup (fun j i => g i j) N (pswap m)).
  - unfold pswap. rewrite map_map. reflexivity.
  - rewrite map_fst_pswap. exact ND.
  - intros [j i] H. apply -> in_pswap in H. apply (B _ H).
Qed.

(* re-indexing a sum from the left to the right side of a matching *)
Lemma ssum_reindex (G : nat -> R) M N (m : pmatching) : valid_pm M N m ->
  ssum (fun i => match lookup_l m i with Some j => G j | None => 0 end) M =
  ssum (fun j => match lookup_r m j with Some _ => G j | None => 0 end) N.
Proof.
  intros [F [S B]].
  rewrite (ssum_lookup (fun _ j => G j) M m F), (ssum_lookup_r (fun _ j => G j) N m S); auto.
  - intros p H. apply (B p H).
  - intros p H. apply (B p H).
Qed.

Lemma ssum_reindex_r (G : nat -> R) M N (m : pmatching) : valid_pm M N m ->
  ssum (fun j => match lookup_r m j with Some i => G i | None => 0 end) N =
  ssum (fun i => match lookup_l m i with Some _ => G i | None => 0 end) M.
Proof.
  intros V. generalize (ssum_reindex G N M (pswap m) (valid_pm_pswap _ _ _ V)).
  unfold lookup_r. rewrite pswap_invol. auto.
Qed.

(* ---------- cost lists of a pseudo-metric with a compatible diagonal cost ---------- *)
Section PseudoMetric.
  Context {P : Type} (cpair : P -> P -> R) (cdiag : P -> R) (dflt : P).
  Notation costs := (pm_costs cpair cdiag dflt).
  Notation pt S i := (nth i S dflt).

  Hypothesis cpair_sym : forall p q, cpair p q = cpair q p.
  Hypothesis cpair_refl : forall p, cpair p p = 0.
  Hypothesis cpair_tri : forall p q r, cpair p r <= cpair p q + cpair q r.
  Hypothesis cdiag_tri : forall p q, cdiag p <= cpair p q + cdiag q.

  Lemma cpair_nonneg p q : 0 <= cpair p q.
  Proof. generalize (cpair_tri p q p). rewrite cpair_refl, (cpair_sym q p). lra. Qed.

  Definition wfG (S : list P) : Prop := forall p, In p S -> 0 <= cdiag p.

  Lemma wfG_nth S i : wfG S -> (i < length S)%nat -> 0 <= cdiag (pt S i).
  Proof. intros H Hi. apply H. apply nth_In. exact Hi. Qed.

  Lemma costs_nonneg S T m : wfG S -> wfG T -> Forall (fun c => 0 <= c) (costs S T m).
  Proof.
    intros WS WT. apply Forall_forall. intros c Hc. apply in_pm_costs in Hc.
    destruct Hc as [[p [_ E]]|[[i [Hi [_ E]]]|[j [Hj [_ E]]]]]; subst c.
    - apply cpair_nonneg.
    - apply wfG_nth; assumption.
    - apply wfG_nth; assumption.
  Qed.

  (* --- composition, largest-cost form (no well-formedness needed) --- *)
  Lemma max_compose A B C m1 m2 : valid_for A B m1 -> valid_for B C m2 ->
    maxRl (costs A C (pcompose m1 m2)) <= maxRl (costs A B m1) + maxRl (costs B C m2).
  Proof.
    intros V1 V2. generalize (maxRl_ge0 (costs A B m1)) (maxRl_ge0 (costs B C m2)). intros G1 G2.
    destruct V1 as [F1 [S1 B1]]. destruct V2 as [F2 [S2 B2]].
    apply maxRl_le; [lra|]. intros x Hx. apply in_pm_costs in Hx.
    destruct Hx as [[[i k] [I E]]|[[i [Hi [NI E]]]|[k [Hk [NI E]]]]]; subst x; simpl.
    - apply in_pcompose in I; [|exact F2]. destruct I as [j [I1 I2]].
      assert (cpair (pt A i) (pt B j) <= maxRl (costs A B m1)).
      { apply maxRl_in. apply in_pm_costs. left. exists (i, j). auto. }
      assert (cpair (pt B j) (pt C k) <= maxRl (costs B C m2)).
      { apply maxRl_in. apply in_pm_costs. left. exists (j, k). auto. }
      generalize (cpair_tri (pt A i) (pt B j) (pt C k)). lra.
    - destruct (in_dec Nat.eq_dec i (map fst m1)) as [I|NI1].
      + apply in_map_fst in I. destruct I as [j I].
        assert (NJ : ~ In j (map fst m2)).
        { intros H. apply in_map_fst in H. destruct H as [k H]. apply NI. apply in_map_fst.
          exists k. apply in_pcompose; [exact F2|]. exists j. auto. }
        assert (cpair (pt A i) (pt B j) <= maxRl (costs A B m1)).
        { apply maxRl_in. apply in_pm_costs. left. exists (i, j). auto. }
        assert (cdiag (pt B j) <= maxRl (costs B C m2)).
        { apply maxRl_in. apply in_pm_costs. right. left. exists j. repeat split; auto.
          apply (B1 _ I). }
        generalize (cdiag_tri (pt A i) (pt B j)). lra.
      + assert (cdiag (pt A i) <= maxRl (costs A B m1)).
        { apply maxRl_in. apply in_pm_costs. right. left. exists i. auto. }
        lra.
    - destruct (in_dec Nat.eq_dec k (map snd m2)) as [I|NI2].
      + apply in_map_snd in I. destruct I as [j I].
        assert (NJ : ~ In j (map snd m1)).
        { intros H. apply in_map_snd in H. destruct H as [i H]. apply NI. apply in_map_snd.
          exists i. apply in_pcompose; [exact F2|]. exists j. auto. }
        assert (cpair (pt B j) (pt C k) <= maxRl (costs B C m2)).
        { apply maxRl_in. apply in_pm_costs. left. exists (j, k). auto. }
        assert (cdiag (pt B j) <= maxRl (costs A B m1)).
        { apply maxRl_in. apply in_pm_costs. right. right. exists j. repeat split; auto.
          apply (B2 _ I). }
        generalize (cdiag_tri (pt C k) (pt B j)). rewrite (cpair_sym (pt C k)). lra.
      + assert (cdiag (pt C k) <= maxRl (costs B C m2)).
        { apply maxRl_in. apply in_pm_costs. right. right. exists k. auto. }
        lra.
  Qed.

  (* --- the sum of the costs in index form --- *)
  Definition Lcost S T m (i : nat) : R :=
    match lookup_l m i with Some j => cpair (pt S i) (pt T j) | None => cdiag (pt S i) end.
  Definition Rfree T m (j : nat) : R :=
    match lookup_r m j with Some _ => 0 | None => cdiag (pt T j) end.

  Lemma sum_unmatched (g : nat -> R) used n :
    sumR (map g (unmatched used n)) = ssum (fun i => if existsb (Nat.eqb i) used then 0 else g i) n.
  Proof.
    unfold unmatched, ssum. rewrite sumR_map_filter. apply sumR_map_ext_in. intros x _.
    destruct (existsb (Nat.eqb x) used); reflexivity.
  Qed.

  Lemma sum_index_form S T m : valid_for S T m ->
    sumR (costs S T m) = ssum (Lcost S T m) (length S) + ssum (Rfree T m) (length T).
  Proof.
    intros [F [Sn B]]. unfold pm_costs, unmatched_l, unmatched_r. rewrite !sumR_app, !sum_unmatched.
    rewrite <- (ssum_lookup (fun i j => cpair (pt S i) (pt T j)) (length S) m F);
      [|intros p H; apply (B p H)].
    rewrite <- Rplus_assoc, <- ssum_plus. f_equal.
    - apply ssum_ext. intros i _. unfold Lcost. destruct (lookup_l m i) as [j|] eqn:E.
      + assert (In i (map fst m)) by (apply in_map_fst; exists j; apply lookup_l_In; assumption).
        apply existsb_eqb_In in H. rewrite H. lra.
      + apply lookup_l_None in E. destruct (existsb (Nat.eqb i) (map fst m)) eqn:E'.
        * apply existsb_eqb_In in E'. contradiction.
        * lra.
    - apply ssum_ext. intros j _. unfold Rfree. destruct (lookup_r m j) as [i|] eqn:E.
      + assert (In j (map snd m)) by (apply in_map_snd; exists i; apply lookup_r_In; assumption).
        apply existsb_eqb_In in H. rewrite H. reflexivity.
      + apply lookup_r_None in E. destruct (existsb (Nat.eqb j) (map snd m)) eqn:E'.
        * apply existsb_eqb_In in E'. contradiction.
        * reflexivity.
  Qed.

  (* --- composition, sum form: needs the middle diagram on/above the diagonal --- *)
  Lemma sum_compose A B C m1 m2 : wfG B -> valid_for A B m1 -> valid_for B C m2 ->
    sumR (costs A C (pcompose m1 m2)) <= sumR (costs A B m1) + sumR (costs B C m2).
  Proof.
    intros WB V1 V2. assert (V := valid_pcompose _ _ _ _ _ V1 V2).
    rewrite (sum_index_form A C _ V), (sum_index_form A B _ V1), (sum_index_form B C _ V2).
    set (m := pcompose m1 m2).
    set (H := fun j => match lookup_r m1 j with None => cdiag (pt B j) + Lcost B C m2 j | Some _ => 0 end).
    (* step 1 + 2 *)
    assert (S1 : ssum (Lcost A C m) (length A) <=
                 ssum (Lcost A B m1) (length A) +
                 ssum (fun j => match lookup_r m1 j with Some _ => Lcost B C m2 j | None => 0 end) (length B)).
    { rewrite <- (ssum_reindex (Lcost B C m2) (length A) (length B) m1 V1), <- ssum_plus.
      apply ssum_le. intros i Hi. unfold Lcost at 1 2. unfold m.
      rewrite lookup_l_pcompose; [|apply V1|apply V2].
      destruct (lookup_l m1 i) as [j|]; [|lra]. unfold Lcost.
      destruct (lookup_l m2 j) as [k|].
      - apply cpair_tri.
      - apply cdiag_tri. }
    (* step 3 + 4 *)
    assert (S2 : ssum (Rfree C m) (length C) <=
                 ssum (Rfree C m2) (length C) +
                 ssum (fun j => match lookup_l m2 j with Some _ => H j | None => 0 end) (length B)).
    { rewrite <- (ssum_reindex_r H (length B) (length C) m2 V2), <- ssum_plus.
      apply ssum_le. intros k Hk. unfold Rfree, m. rewrite (lookup_r_pcompose _ _ _ _ _ k V1 V2).
      destruct (lookup_r m2 k) as [j|] eqn:E2; [|lra]. unfold H.
      destruct (lookup_r m1 j) as [i|]; [lra|].
      apply lookup_r_In in E2; [|apply V2]. unfold Lcost.
      apply lookup_l_In in E2; [|apply V2]. rewrite E2.
      generalize (cdiag_tri (pt C k) (pt B j)). rewrite (cpair_sym (pt C k)). lra. }
    (* step 5 *)
    assert (S3 : ssum (fun j => match lookup_r m1 j with Some _ => Lcost B C m2 j | None => 0 end) (length B) +
                 ssum (fun j => match lookup_l m2 j with Some _ => H j | None => 0 end) (length B) <=
                 ssum (Rfree B m1) (length B) + ssum (Lcost B C m2) (length B)).
    { rewrite <- !ssum_plus. apply ssum_le. intros j Hj. unfold H, Rfree.
      destruct (lookup_r m1 j) as [i|].
      - destruct (lookup_l m2 j); lra.
      - unfold Lcost. destruct (lookup_l m2 j) as [k|]; [lra|].
        generalize (wfG_nth B j WB Hj). lra. }
    lra.
  Qed.
End PseudoMetric.

(* ---------- minimum of a real-valued function over a non-empty finite list ---------- *)
Lemma list_min_exists {A} (f : A -> R) (a : A) l :
  exists x, In x (a :: l) /\ forall y, In y (a :: l) -> f x <= f y.
Proof.
  revert a. induction l as [|b l IH]; intros a.
  - exists a. split; [left; reflexivity|]. intros y [H|[]]. subst. lra.
  - destruct (IH b) as [x [Ix Hx]]. destruct (Rle_dec (f a) (f x)) as [L|L].
    + exists a. split; [left; reflexivity|]. intros y [H|H]; [subst; lra|].
      apply Rle_trans with (f x); [exact L|apply Hx; exact H].
    + exists x. split; [right; exact Ix|]. intros y [H|H]; [subst; lra|apply Hx; exact H].
Qed.

(* ---------- the laws of the minimum, for an aggregator that is one of max / sum ---------- *)
Section Laws.
  Context {P : Type} (cpair : P -> P -> R) (cdiag : P -> R) (dflt : P).
  Notation costs := (pm_costs cpair cdiag dflt).
  Variable agg : list R -> R.
  Variable ok : list P -> Prop.     (* the side condition under which costs are non-negative *)

  Definition is_min (S T : list P) (v : R) : Prop :=
    (exists m, valid_for S T m /\ agg (costs S T m) = v) /\
    (forall m, valid_for S T m -> v <= agg (costs S T m)).

  Hypothesis cpair_sym : forall p q, cpair p q = cpair q p.
  Hypothesis cpair_refl : forall p, cpair p p = 0.
  Hypothesis agg_perm : forall l l', Permutation l l' -> agg l = agg l'.
  Hypothesis agg_zero : forall l, Forall (fun c => c = 0) l -> agg l = 0.
  Hypothesis agg_scale : forall c l, 0 <= c -> agg (map (Rmult c) l) = c * agg l.
  Hypothesis agg_costs_nonneg : forall S T m, ok S -> ok T -> 0 <= agg (costs S T m).
  Hypothesis ok_perm : forall S S', Permutation S S' -> ok S -> ok S'.
  Hypothesis ok_cons : forall z S, cdiag z = 0 -> ok S -> ok (z :: S).
  Hypothesis agg_compose : forall A B C m1 m2, ok B -> valid_for A B m1 -> valid_for B C m2 ->
    agg (costs A C (pcompose m1 m2)) <= agg (costs A B m1) + agg (costs B C m2).

  Theorem min_unique S T v v' : is_min S T v -> is_min S T v' -> v = v'.
  Proof.
    intros [[m [V E]] L] [[m' [V' E']] L']. apply Rle_antisym.
    - rewrite <- E'. apply L. exact V'.
    - rewrite <- E. apply L'. exact V.
  Qed.

  Theorem min_exists S T : exists v, is_min S T v.
  Proof.
    assert (NE : exists a l, all_pm (length S) (length T) = a :: l).
    { destruct (all_pm (length S) (length T)) as [|a l] eqn:E; [|eauto].
      generalize (nil_in_pms (seq 0 (length S)) (seq 0 (length T))). unfold all_pm in E. rewrite E. intros []. }
    destruct NE as [a [l E]].
    destruct (list_min_exists (fun m => agg (costs S T m)) a l) as [x [Ix Hx]]. rewrite <- E in *.
    exists (agg (costs S T x)). split.
    - exists x. split; [apply all_pm_sound; exact Ix|reflexivity].
    - intros m V. destruct (all_pm_complete _ _ _ V) as [m' [I' Pm]].
      rewrite (agg_perm _ _ (pm_costs_perm cpair cdiag dflt S T m m' Pm)). apply Hx. exact I'.
  Qed.

  Theorem min_sym S T v : is_min S T v -> is_min T S v.
  Proof.
    intros [[m [V E]] L]. split.
    - exists (pswap m). split; [apply valid_pm_pswap; exact V|].
      rewrite (agg_perm _ _ (pm_costs_pswap cpair cdiag dflt S T m cpair_sym)). exact E.
    - intros m' V'. rewrite <- (pswap_invol m').
      rewrite (agg_perm _ _ (pm_costs_pswap cpair cdiag dflt S T (pswap m') cpair_sym)).
      apply L. apply valid_pm_pswap. exact V'.
  Qed.

  Theorem min_nonneg S T v : ok S -> ok T -> is_min S T v -> 0 <= v.
  Proof. intros oS oT [[m [V E]] _]. rewrite <- E. apply agg_costs_nonneg; assumption. Qed.

  Lemma zero_is_min S T m : ok S -> ok T -> valid_for S T m ->
    Forall (fun c => c = 0) (costs S T m) -> is_min S T 0.
  Proof.
    intros oS oT V Z. split.
    - exists m. split; [exact V|apply agg_zero; exact Z].
    - intros m' _. apply agg_costs_nonneg; assumption.
  Qed.

  Theorem min_perm_zero S S' : ok S -> Permutation S S' -> is_min S S' 0.
  Proof.
    intros oS Pm. destruct (perm_matching S S' dflt Pm) as [m [V [CL [CR EQ]]]].
    apply (zero_is_min S S' m oS (ok_perm _ _ Pm oS) V).
    apply Forall_forall. intros c Hc. apply in_pm_costs in Hc.
    destruct Hc as [[p [I E]]|[[i [Hi [NI E]]]|[j [Hj [NI E]]]]].
    - subst c. rewrite (EQ p I). apply cpair_refl.
    - elim NI. apply CL. exact Hi.
    - elim NI. apply CR. exact Hj.
  Qed.

  Theorem min_head_zero z S : ok S -> cdiag z = 0 -> is_min (z :: S) S 0.
  Proof.
    intros oS Z. destruct (shift_matching_spec z S dflt) as [V [CL [CR EQ]]].
    apply (zero_is_min (z :: S) S _ (ok_cons z S Z oS) oS V).
    apply Forall_forall. intros c Hc. apply in_pm_costs in Hc.
    destruct Hc as [[p [I E]]|[[i [Hi [NI E]]]|[j [Hj [NI E]]]]].
    - subst c. rewrite (EQ p I). apply cpair_refl.
    - rewrite (CL i Hi NI) in E. subst c. exact Z.
    - elim NI. apply CR. exact Hj.
  Qed.

  Theorem min_triangle A B C v1 v2 v3 : ok B ->
    is_min A B v1 -> is_min B C v2 -> is_min A C v3 -> v3 <= v1 + v2.
  Proof.
    intros oB [[m1 [V1 E1]] _] [[m2 [V2 E2]] _] [_ L3]. rewrite <- E1, <- E2.
    eapply Rle_trans; [apply (L3 (pcompose m1 m2))|apply agg_compose; assumption].
    eapply valid_pcompose; eassumption.
  Qed.

  (* S' at distance zero from S: the distances to any third diagram coincide *)
  Lemma min_replace S S' T v v' : ok S -> ok S' -> is_min S' S 0 ->
    is_min S T v -> is_min S' T v' -> v = v'.
  Proof.
    intros oS oS' Z H H'. apply Rle_antisym.
    - generalize (min_triangle S S' T 0 v' v oS' (min_sym _ _ _ Z) H' H). lra.
    - generalize (min_triangle S' S T 0 v v' oS Z H H'). lra.
  Qed.

  Theorem min_perm_invariant S S' T v v' : ok S -> Permutation S S' ->
    is_min S T v -> is_min S' T v' -> v = v'.
  Proof.
    intros oS Pm. apply min_replace; [exact oS|eapply ok_perm; eassumption|].
    apply min_perm_zero; [eapply ok_perm; eassumption|symmetry; exact Pm].
  Qed.

  (* a point of zero diagonal cost inserted anywhere in the first diagram *)
  Theorem min_diag_point z S S' T v v' : ok S -> cdiag z = 0 -> Permutation S' (z :: S) ->
    is_min S T v -> is_min S' T v' -> v = v'.
  Proof.
    intros oS Z Pm H H'. destruct (min_exists (z :: S) T) as [w Hw].
    assert (oz : ok (z :: S)) by (apply ok_cons; assumption).
    transitivity w.
    - apply (min_replace S (z :: S) T v w oS oz (min_head_zero z S oS Z) H Hw).
    - apply (min_perm_invariant (z :: S) S' T w v' oz); [symmetry; exact Pm|exact Hw|exact H'].
  Qed.

  (* any number of zero-diagonal-cost points inserted anywhere in the first diagram *)
  Lemma ok_app Z S : Forall (fun z => cdiag z = 0) Z -> ok S -> ok (Z ++ S).
  Proof. induction 1; simpl; intros; [assumption|apply ok_cons; auto]. Qed.

  Theorem min_diag_points Z : forall S S' T v v', ok S -> Forall (fun z => cdiag z = 0) Z ->
    Permutation S' (Z ++ S) -> is_min S T v -> is_min S' T v' -> v = v'.
  Proof.
    induction Z as [|z Z IH]; intros S S' T v v' oS FZ Pm H H'.
    - simpl in Pm. apply (min_perm_invariant S S' T v v' oS); [symmetry; exact Pm|exact H|exact H'].
    - inversion FZ as [|z' Z' Hz FZ']. subst z' Z'.
      destruct (min_exists (Z ++ S) T) as [w Hw].
      transitivity w.
      + apply (IH S (Z ++ S) T v w oS FZ' (Permutation_refl _) H Hw).
      + apply (min_diag_point z (Z ++ S) S' T w v' (ok_app Z S FZ' oS) Hz Pm Hw H').
  Qed.

  (* similarity transformations of the plane that scale both costs by c >= 0 *)
  Lemma nth_map_in (f : P -> P) S i : (i < length S)%nat -> nth i (map f S) dflt = f (nth i S dflt).
  Proof.
    intros Hi. rewrite (nth_indep (map f S) dflt (f dflt)); [apply map_nth|rewrite map_length; exact Hi].
  Qed.

  Lemma costs_map (f : P -> P) c S T m :
    (forall p q, cpair (f p) (f q) = c * cpair p q) -> (forall p, cdiag (f p) = c * cdiag p) ->
    valid_for S T m -> costs (map f S) (map f T) m = map (Rmult c) (costs S T m).
  Proof.
    intros Hp Hd [_ [_ B]]. unfold pm_costs. rewrite !map_app, !map_map, !map_length. f_equal; [|f_equal].
    - apply map_ext_in. intros p I. destruct (B p I). rewrite !nth_map_in by assumption. apply Hp.
    - apply map_ext_in. intros i I. apply in_unmatched in I. rewrite nth_map_in by tauto. apply Hd.
    - apply map_ext_in. intros i I. apply in_unmatched in I. rewrite nth_map_in by tauto. apply Hd.
  Qed.

  Theorem min_similarity (f : P -> P) c S T v : 0 <= c ->
    (forall p q, cpair (f p) (f q) = c * cpair p q) -> (forall p, cdiag (f p) = c * cdiag p) ->
    is_min S T v -> is_min (map f S) (map f T) (c * v).
  Proof.
    intros Hc Hp Hd [[m [V E]] L].
    assert (VV : forall m, valid_for (map f S) (map f T) m <-> valid_for S T m)
      by (intros; unfold valid_for; rewrite !map_length; tauto).
    split.
    - exists m. split; [apply VV; exact V|]. rewrite (costs_map f c S T m Hp Hd V), agg_scale, E; auto.
    - intros m' V'. apply VV in V'. rewrite (costs_map f c S T m' Hp Hd V'), agg_scale by exact Hc.
      apply Rmult_le_compat_l; [exact Hc|apply L; exact V'].
  Qed.

  Theorem min_empty S : is_min S [] (agg (map cdiag S)).
  Proof.
    assert (E : costs S [] [] = map cdiag S) by (rewrite pm_costs_nil; simpl; apply app_nil_r).
    split.
    - exists []. split; [apply valid_pm_nil|rewrite E; reflexivity].
    - intros m V. apply valid_pm_right_empty in V. subst m. rewrite E. lra.
  Qed.
End Laws.
