(* C09 - proofs about the exact landscape arithmetic of Model/LandArithM.v.
   Key notion: [integ x0 m s t], the integral from x0 to t of the step function that has slope m
   up to the first abscissa of the slope list s and then the listed slopes.  pos_to_slope and
   slope_to_pos are inverse up to this integral, and the merge of sum_slopes adds integrals. *)
From Coq Require Import QArith Qminmax Lqa List Bool ZArith Lia Arith.
From Persim Require Import Lib.Kth Lib.PL Model.LandArithM Spec.LandArithS.
Import ListNotations.
Open Scope Q_scope.

(* pt is a definition for Q * Q; statements elaborate some conses at type Q * Q: normalise *)
Ltac npt := change (@cons (prod Q Q)) with (@cons pt) in *; change (@nil (prod Q Q)) with (@nil pt) in *;
            change (@last (prod Q Q)) with (@last pt) in *.

(* ------------------------------------------------------------------ pl_eval on increasing lists *)
Lemma pl_eval_cons2 x0 y0 x1 y1 r t : x0 < x1 ->
  pl_eval ((x0, y0) :: (x1, y1) :: r) t =
  if Qlt_bool t x0 then 0
  else if Qle_bool t x1 then y0 + (y1 - y0) * (t - x0) / (x1 - x0)
  else pl_eval ((x1, y1) :: r) t.
Proof.
  intro L. simpl. replace (Qlt_bool x0 x1) with true by (symmetry; apply Qlt_bool_iff; auto).
  rewrite andb_true_r. reflexivity.
Qed.

Lemma pl_eval_single x0 y0 t : pl_eval [(x0, y0)] t = if Qeq_bool t x0 then y0 else 0.
Proof. reflexivity. Qed.

Lemma pl_eval_left l t : l <> [] -> incr l -> t < first_x l -> pl_eval l t == 0.
Proof.
  destruct l as [|[x0 y0] r]; [congruence|]. intros _ I H. unfold first_x in H. simpl in H.
  destruct r as [|[x1 y1] r'].
  - rewrite pl_eval_single. destruct (Qeq_bool t x0) eqn:E; [apply Qeq_bool_iff in E; lra|reflexivity].
  - simpl in I. destruct I as [L _]. simpl in L. rewrite pl_eval_cons2 by auto.
    replace (Qlt_bool t x0) with true by (symmetry; apply Qlt_bool_iff; auto). reflexivity.
Qed.

Lemma last_cons2 {A} (a b : A) r d : last (a :: b :: r) d = last (b :: r) d.
Proof. reflexivity. Qed.

Lemma incr_first_le_last_cons : forall (r : list pt) x0 y0, incr ((x0, y0) :: r) -> x0 <= fst (@last pt ((x0, y0) :: r) (0, 0)).
Proof.
  induction r as [|[x1 y1] r' IH]; intros x0 y0 I.
  - simpl. lra.
  - rewrite last_cons2. simpl in I. destruct I as [L I]. simpl in L.
    specialize (IH x1 y1 I). apply Qle_trans with x1; [lra|exact IH].
Qed.

Lemma incr_first_le_last l : l <> [] -> incr l -> first_x l <= last_x l.
Proof.
  destruct l as [|[x0 y0] r]; [congruence|]. intros _ I. unfold first_x, last_x.
  apply (incr_first_le_last_cons r x0 y0 I).
Qed.

Lemma pl_eval_right l t : l <> [] -> incr l -> last_x l < t -> pl_eval l t == 0.
Proof.
  induction l as [|[x0 y0] r IH]; [congruence|]. intros _ I H.
  destruct r as [|[x1 y1] r'].
  - unfold last_x in H. simpl in H. rewrite pl_eval_single.
    destruct (Qeq_bool t x0) eqn:E; [apply Qeq_bool_iff in E; lra|reflexivity].
  - assert (I' := I). simpl in I'. destruct I' as [L I']. simpl in L.
    unfold last_x in *. rewrite last_cons2 in H.
    assert (F := incr_first_le_last_cons r' x1 y1 I').
    assert (F2 : x1 < t) by (eapply Qle_lt_trans; [exact F|exact H]).
    rewrite pl_eval_cons2 by auto.
    replace (Qlt_bool t x0) with false by (symmetry; apply Qlt_bool_false; lra).
    replace (Qle_bool t x1) with false by (symmetry; apply b_le_f; lra).
    apply IH; [congruence|auto|auto].
Qed.

(* ------------------------------------------------------------------ slope lists and their integral *)
Fixpoint integ (x0 m : Q) (s : list pt) (t : Q) : Q :=
  match s with
  | [] => m * (t - x0)
  | (x1, m1) :: r => if Qle_bool t x1 then m * (t - x0) else m * (x1 - x0) + integ x1 m1 r t
  end.

(* weakly sorted, all abscissae >= x0 *)
Fixpoint sfrom (x0 : Q) (s : list pt) : Prop :=
  match s with [] => True | (x1, _) :: r => x0 <= x1 /\ sfrom x1 r end.

Lemma sfrom_weaken x0 x0' s : x0' <= x0 -> sfrom x0 s -> sfrom x0' s.
Proof. destruct s as [|[x1 m1] r]; simpl; auto. intros H [A B]. split; [lra|auto]. Qed.

Lemma incr_sfrom x m r : incr ((x, m) :: r) -> sfrom x r.
Proof.
  revert x m. induction r as [|[x1 m1] r IH]; simpl; auto. intros x m [L I]. simpl in L.
  split; [lra|]. apply (IH x1 m1). exact I.
Qed.

Lemma incr_sfrom' x0 s : incr s -> (match s with [] => True | p :: _ => x0 <= fst p end) -> sfrom x0 s.
Proof. destruct s as [|[x m] r]; simpl; auto. intros I H. split; auto. apply (incr_sfrom x m r). exact I. Qed.

Lemma integ_shift x0 x0' m s t : x0 <= x0' -> x0' <= t -> sfrom x0' s ->
  integ x0 m s t == m * (x0' - x0) + integ x0' m s t.
Proof.
  intros A B S. destruct s as [|[x1 m1] r]; simpl.
  - ring.
  - destruct (Qle_bool t x1); ring.
Qed.

Lemma integ_at_start x0 m s : sfrom x0 s -> integ x0 m s x0 == 0.
Proof.
  destruct s as [|[x1 m1] r]; simpl. intros _. ring.
  intros [A _]. replace (Qle_bool x0 x1) with true by (symmetry; apply b_le; auto). ring.
Qed.

(* before the first abscissa, with current slope 0, nothing has been accumulated *)
Lemma integ_zero_before x0 s t : t <= fst (hd (t, 0) s) -> integ x0 0 s t == 0.
Proof.
  destruct s as [|[x1 m1] r]; simpl. intros _. ring.
  intros A. replace (Qle_bool t x1) with true by (symmetry; apply b_le; auto). ring.
Qed.

(* ------------------------------------------------------------------ the merge adds integrals *)
Lemma merge_some fuel : forall a b am bm, (length a + length b <= fuel)%nat ->
  exists s, sum_slopes_go fuel a b am bm = Some s.
Proof.
  induction fuel as [|f IH]; intros a b am bm H.
  - destruct a, b; simpl in H; try lia. simpl. eauto.
  - destruct a as [|[ax am'] a'], b as [|[bx bm'] b']; simpl; [eauto| | |destruct (Qlt_bool bx ax); [|destruct (Qlt_bool ax bx)]];
    match goal with |- context [sum_slopes_go f ?a ?b ?x ?y] =>
      destruct (IH a b x y) as [s E]; [simpl in *; lia | rewrite E; simpl; eauto] end.
Qed.

Lemma integ_nil x0 m t : integ x0 m [] t = m * (t - x0).
Proof. reflexivity. Qed.

Lemma integ_cons x0 m x1 m1 r t :
  integ x0 m ((x1, m1) :: r) t = if Qle_bool t x1 then m * (t - x0) else m * (x1 - x0) + integ x1 m1 r t.
Proof. reflexivity. Qed.

Lemma go_nb f bx bm' b' am bm : sum_slopes_go (S f) [] ((bx, bm') :: b') am bm =
  option_map (cons (bx, am + bm')) (sum_slopes_go f [] b' am bm').
Proof. reflexivity. Qed.
Lemma go_an f ax am' a' am bm : sum_slopes_go (S f) ((ax, am') :: a') [] am bm =
  option_map (cons (ax, am' + bm)) (sum_slopes_go f a' [] am' bm).
Proof. reflexivity. Qed.
Lemma go_cc f ax am' a' bx bm' b' am bm : sum_slopes_go (S f) ((ax, am') :: a') ((bx, bm') :: b') am bm =
  if Qlt_bool bx ax then option_map (cons (bx, am + bm')) (sum_slopes_go f ((ax, am') :: a') b' am bm')
  else if Qlt_bool ax bx then option_map (cons (ax, am' + bm)) (sum_slopes_go f a' ((bx, bm') :: b') am' bm)
  else option_map (cons (ax, am' + bm')) (sum_slopes_go f a' b' am' bm').
Proof. reflexivity. Qed.

Lemma merge_integ fuel : forall a b am bm s x0 t,
  sum_slopes_go fuel a b am bm = Some s -> sfrom x0 a -> sfrom x0 b -> x0 <= t ->
  integ x0 (am + bm) s t == integ x0 am a t + integ x0 bm b t.
Proof.
  induction fuel as [|f IH]; intros a b am bm s x0 t E Sa Sb T.
  - destruct a, b; simpl in E; try discriminate. inversion E. simpl. ring.
  - destruct a as [|[ax am'] a'], b as [|[bx bm'] b']; [simpl in E|rewrite go_nb in E|rewrite go_an in E|rewrite go_cc in E].
    + inversion E. simpl. ring.
    + (* a exhausted *)
      destruct (sum_slopes_go f [] b' am bm') as [s'|] eqn:E'; simpl in E; [|discriminate].
      inversion E; subst s; clear E. simpl in Sb. destruct Sb as [B1 B2].
      rewrite (integ_cons x0 (am + bm) bx (am + bm')), (integ_cons x0 bm bx bm'), integ_nil.
      destruct (Qle_bool t bx) eqn:C.
      * ring.
      * apply b_le_f in C.
        rewrite (IH [] b' am bm' s' bx t E' I B2 ltac:(lra)). rewrite integ_nil. ring.
    + destruct (sum_slopes_go f a' [] am' bm) as [s'|] eqn:E'; simpl in E; [|discriminate].
      inversion E; subst s; clear E. simpl in Sa. destruct Sa as [A1 A2].
      rewrite (integ_cons x0 (am + bm) ax (am' + bm)), (integ_cons x0 am ax am'), integ_nil.
      destruct (Qle_bool t ax) eqn:C.
      * ring.
      * apply b_le_f in C.
        rewrite (IH a' [] am' bm s' ax t E' A2 I ltac:(lra)). rewrite integ_nil. ring.
    + assert (Sa' := Sa). assert (Sb' := Sb). simpl in Sa', Sb'. destruct Sa' as [A1 A2], Sb' as [B1 B2].
      destruct (Qlt_bool bx ax) eqn:C1.
      * (* next pair from b *)
        apply Qlt_bool_iff in C1.
        destruct (sum_slopes_go f ((ax, am') :: a') b' am bm') as [s'|] eqn:E'; simpl in E; [|discriminate].
        inversion E; subst s; clear E.
        rewrite (integ_cons x0 (am + bm) bx (am + bm')), (integ_cons x0 bm bx bm').
        destruct (Qle_bool t bx) eqn:C.
        -- apply b_le in C. rewrite (integ_cons x0 am ax am').
           replace (Qle_bool t ax) with true by (symmetry; apply b_le; lra). ring.
        -- apply b_le_f in C.
           assert (Sa2 : sfrom bx ((ax, am') :: a')) by (simpl; split; [lra|auto]).
           rewrite (IH _ _ _ _ s' bx t E' Sa2 B2 ltac:(lra)).
           rewrite (integ_shift x0 bx am ((ax, am') :: a') t B1 ltac:(lra) Sa2). ring.
      * apply Qlt_bool_false in C1. destruct (Qlt_bool ax bx) eqn:C2.
        -- apply Qlt_bool_iff in C2.
           destruct (sum_slopes_go f a' ((bx, bm') :: b') am' bm) as [s'|] eqn:E'; simpl in E; [|discriminate].
           inversion E; subst s; clear E.
           rewrite (integ_cons x0 (am + bm) ax (am' + bm)), (integ_cons x0 am ax am').
           destruct (Qle_bool t ax) eqn:C.
           ++ apply b_le in C. rewrite (integ_cons x0 bm bx bm').
              replace (Qle_bool t bx) with true by (symmetry; apply b_le; lra). ring.
           ++ apply b_le_f in C.
              assert (Sb2 : sfrom ax ((bx, bm') :: b')) by (simpl; split; [lra|auto]).
              rewrite (IH _ _ _ _ s' ax t E' A2 Sb2 ltac:(lra)).
              rewrite (integ_shift x0 ax bm ((bx, bm') :: b') t A1 ltac:(lra) Sb2). ring.
        -- apply Qlt_bool_false in C2. assert (EQ : ax == bx) by lra.
           destruct (sum_slopes_go f a' b' am' bm') as [s'|] eqn:E'; simpl in E; [|discriminate].
           inversion E; subst s; clear E.
           rewrite (integ_cons x0 (am + bm) ax (am' + bm')), (integ_cons x0 am ax am'), (integ_cons x0 bm bx bm').
           destruct (Qle_bool t ax) eqn:C.
           ++ apply b_le in C. replace (Qle_bool t bx) with true by (symmetry; apply b_le; lra). ring.
           ++ apply b_le_f in C. replace (Qle_bool t bx) with false by (symmetry; apply b_le_f; lra).
              assert (B2' : sfrom ax b') by (apply (sfrom_weaken bx); [lra|auto]).
              rewrite (IH _ _ _ _ s' ax t E' A2 B2' ltac:(lra)).
              rewrite (integ_shift ax bx bm' b' t ltac:(lra) ltac:(lra) B2).
              assert (E1 : bm' * (bx - ax) == 0) by (setoid_replace (bx - ax) with 0 by lra; ring).
              assert (E2 : bm * (ax - x0) == bm * (bx - x0)) by (setoid_replace (ax - x0) with (bx - x0) by lra; ring).
              lra.
Qed.

(* ------------------------------------------------------------------ structure of the merge *)
Definition lbound (x : Q) (s : list pt) : Prop := match s with [] => True | p :: _ => x < fst p end.
Definition hbound (x : Q) (s : list pt) : Prop := match s with [] => True | p :: _ => x <= fst p end.
Definition lastx_d (d : Q) (s : list pt) : Q := fst (@last pt s (d, 0)).

Lemma incr_cons (p : pt) r : incr (p :: r) <-> lbound (fst p) r /\ incr r.
Proof. destruct r; simpl; tauto. Qed.

Lemma merge_struct fuel : forall a b am bm s x,
  sum_slopes_go fuel a b am bm = Some s -> incr a -> incr b ->
  (lbound x a -> lbound x b -> lbound x s) /\ (hbound x a -> hbound x b -> hbound x s) /\ incr s.
Proof.
  induction fuel as [|f IH]; intros a b am bm s x E Ia Ib.
  - destruct a, b; simpl in E; try discriminate. inversion E. simpl. auto.
  - destruct a as [|[ax am'] a'], b as [|[bx bm'] b']; [simpl in E|rewrite go_nb in E|rewrite go_an in E|rewrite go_cc in E].
    + inversion E. simpl. auto.
    + destruct (sum_slopes_go f [] b' am bm') as [s'|] eqn:E'; simpl in E; [|discriminate].
      inversion E; subst s; clear E. apply incr_cons in Ib. destruct Ib as [B1 B2]. simpl fst in B1.
      destruct (IH _ _ _ _ s' bx E' I B2) as [H1 [_ H2]].
      split; [|split]; [simpl; tauto|simpl; tauto|]. apply incr_cons. split; [apply H1; simpl; auto|exact H2].
    + destruct (sum_slopes_go f a' [] am' bm) as [s'|] eqn:E'; simpl in E; [|discriminate].
      inversion E; subst s; clear E. apply incr_cons in Ia. destruct Ia as [A1 A2]. simpl fst in A1.
      destruct (IH _ _ _ _ s' ax E' A2 I) as [H1 [_ H2]].
      split; [|split]; [simpl; tauto|simpl; tauto|]. apply incr_cons. split; [apply H1; simpl; auto|exact H2].
    + assert (Ia' := Ia). assert (Ib' := Ib). apply incr_cons in Ia', Ib'.
      destruct Ia' as [A1 A2], Ib' as [B1 B2]. simpl fst in A1, B1.
      destruct (Qlt_bool bx ax) eqn:C1.
      * apply Qlt_bool_iff in C1.
        destruct (sum_slopes_go f ((ax, am') :: a') b' am bm') as [s'|] eqn:E'; simpl in E; [|discriminate].
        inversion E; subst s; clear E.
        destruct (IH _ _ _ _ s' bx E' Ia B2) as [H1 [_ H2]].
        split; [|split]; [simpl; tauto|simpl; tauto|]. apply incr_cons. split; [apply H1; simpl; auto|exact H2].
      * apply Qlt_bool_false in C1. destruct (Qlt_bool ax bx) eqn:C2.
        -- apply Qlt_bool_iff in C2.
           destruct (sum_slopes_go f a' ((bx, bm') :: b') am' bm) as [s'|] eqn:E'; simpl in E; [|discriminate].
           inversion E; subst s; clear E.
           destruct (IH _ _ _ _ s' ax E' A2 Ib) as [H1 [_ H2]].
           split; [|split]; [simpl; tauto|simpl; tauto|]. apply incr_cons. split; [apply H1; simpl; auto|exact H2].
        -- apply Qlt_bool_false in C2.
           destruct (sum_slopes_go f a' b' am' bm') as [s'|] eqn:E'; simpl in E; [|discriminate].
           inversion E; subst s; clear E.
           destruct (IH _ _ _ _ s' ax E' A2 B2) as [H1 [_ H2]].
           split; [|split]; [simpl; tauto|simpl; tauto|]. apply incr_cons. split; [|exact H2].
           apply H1; [exact A1|]. destruct b' as [|q b'']; simpl in *; auto. lra.
Qed.

Lemma last_cons_default {A} : forall (r : list A) a d, last (a :: r) d = last r a.
Proof.
  induction r as [|b r IH]; intros a d. reflexivity.
  change (last (a :: b :: r) d) with (last (b :: r) d). rewrite (IH b d), (IH b a). reflexivity.
Qed.

Lemma lastx_d_cons d x m r : lastx_d d ((x, m) :: r) = lastx_d x r.
Proof.
  unfold lastx_d. rewrite last_cons_default. destruct r as [|q r]. reflexivity.
  rewrite !last_cons_default. reflexivity.
Qed.

Lemma lastx_d_mono d d' s : d <= d' -> lastx_d d s <= lastx_d d' s.
Proof. destruct s as [|[x m] r]. unfold lastx_d; simpl; auto. rewrite !lastx_d_cons. lra. Qed.

Lemma sfrom_le_last x s : sfrom x s -> x <= lastx_d x s.
Proof.
  revert x. induction s as [|[x1 m1] r IH]; intros x. unfold lastx_d; simpl; lra.
  intros [A B]. rewrite lastx_d_cons. specialize (IH x1 B). lra.
Qed.

Lemma merge_last fuel : forall a b am bm s x0,
  sum_slopes_go fuel a b am bm = Some s -> sfrom x0 a -> sfrom x0 b ->
  lastx_d x0 a <= lastx_d x0 s /\ lastx_d x0 b <= lastx_d x0 s.
Proof.
  induction fuel as [|f IH]; intros a b am bm s x0 E Sa Sb.
  - destruct a, b; simpl in E; try discriminate. inversion E. unfold lastx_d; simpl. lra.
  - destruct a as [|[ax am'] a'], b as [|[bx bm'] b']; [simpl in E|rewrite go_nb in E|rewrite go_an in E|rewrite go_cc in E].
    + inversion E. unfold lastx_d; simpl. lra.
    + destruct (sum_slopes_go f [] b' am bm') as [s'|] eqn:E'; simpl in E; [|discriminate].
      inversion E; subst s; clear E. destruct Sb as [B1 B2].
      destruct (IH _ _ _ _ s' bx E' I B2) as [H1 H2]. rewrite !lastx_d_cons.
      split; [|exact H2]. unfold lastx_d in H1 at 1. simpl in H1. unfold lastx_d at 1. simpl. lra.
    + destruct (sum_slopes_go f a' [] am' bm) as [s'|] eqn:E'; simpl in E; [|discriminate].
      inversion E; subst s; clear E. destruct Sa as [A1 A2].
      destruct (IH _ _ _ _ s' ax E' A2 I) as [H1 H2]. rewrite !lastx_d_cons.
      split; [exact H1|]. unfold lastx_d in H2 at 1. simpl in H2. unfold lastx_d at 1. simpl. lra.
    + assert (Sa' := Sa). assert (Sb' := Sb). destruct Sa' as [A1 A2], Sb' as [B1 B2].
      destruct (Qlt_bool bx ax) eqn:C1.
      * apply Qlt_bool_iff in C1.
        destruct (sum_slopes_go f ((ax, am') :: a') b' am bm') as [s'|] eqn:E'; simpl in E; [|discriminate].
        inversion E; subst s; clear E.
        assert (Sa2 : sfrom bx ((ax, am') :: a')) by (simpl; split; [lra|auto]).
        destruct (IH _ _ _ _ s' bx E' Sa2 B2) as [H1 H2].
        rewrite (lastx_d_cons x0 bx), (lastx_d_cons x0 bx). rewrite lastx_d_cons in H1. rewrite lastx_d_cons. auto.
      * apply Qlt_bool_false in C1. destruct (Qlt_bool ax bx) eqn:C2.
        -- apply Qlt_bool_iff in C2.
           destruct (sum_slopes_go f a' ((bx, bm') :: b') am' bm) as [s'|] eqn:E'; simpl in E; [|discriminate].
           inversion E; subst s; clear E.
           assert (Sb2 : sfrom ax ((bx, bm') :: b')) by (simpl; split; [lra|auto]).
           destruct (IH _ _ _ _ s' ax E' A2 Sb2) as [H1 H2].
           rewrite (lastx_d_cons x0 ax), (lastx_d_cons x0 ax). rewrite lastx_d_cons in H2. rewrite lastx_d_cons. auto.
        -- apply Qlt_bool_false in C2.
           destruct (sum_slopes_go f a' b' am' bm') as [s'|] eqn:E'; simpl in E; [|discriminate].
           inversion E; subst s; clear E.
           assert (B2' : sfrom ax b') by (apply (sfrom_weaken bx); [lra|auto]).
           destruct (IH _ _ _ _ s' ax E' A2 B2') as [H1 H2].
           rewrite !lastx_d_cons. split; [exact H1|].
           apply Qle_trans with (lastx_d ax b'); [apply lastx_d_mono; lra|exact H2].
Qed.

(* ------------------------------------------------------------------ integ respects == in t *)
Lemma integ_compat : forall s x0 m t t', t == t' -> integ x0 m s t == integ x0 m s t'.
Proof.
  induction s as [|[x1 m1] r IH]; intros x0 m t t' H; simpl.
  - rewrite H. reflexivity.
  - destruct (Qle_bool t x1) eqn:C, (Qle_bool t' x1) eqn:C'.
    + rewrite H. reflexivity.
    + apply b_le in C. apply b_le_f in C'. lra.
    + apply b_le_f in C. apply b_le in C'. lra.
    + rewrite (IH x1 m1 t t' H). reflexivity.
Qed.

(* value of a slope list started at ordinate ys *)
Definition ES (ys : Q) (s : list pt) (t : Q) : Q :=
  match s with [] => ys | (x0, m0) :: r => ys + integ x0 m0 r t end.

(* ------------------------------------------------------------------ pos_to_slope_interp *)
Lemma p2s_head x y r : exists m tl, pos_to_slope ((x, y) :: r) = (x, m) :: tl.
Proof. destruct r as [|[x1 y1] r']; simpl; eauto. Qed.

Lemma p2s_cons2 x0 y0 x1 y1 r :
  pos_to_slope ((x0, y0) :: (x1, y1) :: r) = @cons pt (x0, (y1 - y0) / (x1 - x0)) (pos_to_slope (@cons pt (x1, y1) r)).
Proof. reflexivity. Qed.

Lemma p2s_incr : forall l, incr l -> incr (pos_to_slope l).
Proof.
  induction l as [|[x0 y0] r IH]; intro I. exact I.
  destruct r as [|[x1 y1] r']. simpl. auto.
  rewrite p2s_cons2. assert (I' := I). apply incr_cons in I'. destruct I' as [L I'].
  apply incr_cons. split; [|apply IH; exact I'].
  destruct (p2s_head x1 y1 r') as [m [tl E]]. npt. rewrite E. simpl in *. exact L.
Qed.

Lemma p2s_last : forall l d d', l <> [] -> lastx_d d (pos_to_slope l) = fst (@last pt l d').
Proof.
  induction l as [|[x0 y0] r IH]; intros d d' N; [congruence|].
  destruct r as [|[x1 y1] r']. reflexivity.
  rewrite p2s_cons2, lastx_d_cons. rewrite (IH x0 d') by congruence. reflexivity.
Qed.

Lemma p2s_length l : length (pos_to_slope l) = length l.
Proof.
  induction l as [|[x0 y0] r IH]. reflexivity. destruct r as [|[x1 y1] r']. reflexivity.
  rewrite p2s_cons2. simpl length in *. rewrite IH. reflexivity.
Qed.

Lemma p2s_spec : forall r x0 y0 t, incr ((x0, y0) :: r) -> x0 <= t ->
  (t <= last_x ((x0, y0) :: r) -> pl_eval ((x0, y0) :: r) t == ES y0 (pos_to_slope ((x0, y0) :: r)) t) /\
  (last_x ((x0, y0) :: r) <= t -> ES y0 (pos_to_slope ((x0, y0) :: r)) t == last_y ((x0, y0) :: r)).
Proof.
  induction r as [|[x1 y1] r' IH]; intros x0 y0 t I T.
  - unfold last_x, last_y. simpl. split; intro H.
    + replace (Qeq_bool t x0) with true by (symmetry; apply Qeq_bool_iff; lra). ring.
    + ring.
  - assert (I' := I). apply incr_cons in I'. destruct I' as [L I']. simpl in L.
    assert (NZ : ~ x1 - x0 == 0) by lra.
    assert (F := incr_first_le_last_cons r' x1 y1 I').
    rewrite p2s_cons2. unfold last_x, last_y. rewrite !last_cons2.
    destruct (p2s_head x1 y1 r') as [m1 [tl E]]. npt.
    pose proof (IH x1 y1 t I') as IHt; clear IH.
    unfold last_x, last_y in IHt. rewrite E in *. unfold ES in *. rewrite integ_cons.
    split; intro H.
    + rewrite pl_eval_cons2 by auto.
      replace (Qlt_bool t x0) with false by (symmetry; apply Qlt_bool_false; auto).
      destruct (Qle_bool t x1) eqn:C.
      * field. exact NZ.
      * apply b_le_f in C. destruct (IHt ltac:(lra)) as [IH1 _]. rewrite (IH1 H). field. exact NZ.
    + assert (T1 : x1 <= t) by (eapply Qle_trans; [exact F|exact H]).
      destruct (Qle_bool t x1) eqn:C.
      * apply b_le in C. assert (TE : t == x1) by lra.
        destruct r' as [|[x2 y2] r''].
        -- simpl. rewrite TE. field. exact NZ.
        -- exfalso. apply incr_cons in I'. destruct I' as [L2 I'']. simpl in L2.
           assert (F2 := incr_first_le_last_cons r'' x2 y2 I''). rewrite last_cons2 in H.
           assert (x2 <= t) by (eapply Qle_trans; [exact F2|exact H]). lra.
      * destruct (IHt T1) as [_ IH2]. rewrite <- (IH2 H). field. exact NZ.
Qed.

Lemma pl_eval_at_last : forall r x0 y0, incr ((x0, y0) :: r) ->
  pl_eval ((x0, y0) :: r) (last_x ((x0, y0) :: r)) == last_y ((x0, y0) :: r).
Proof.
  induction r as [|[x1 y1] r' IH]; intros x0 y0 I.
  - unfold last_x, last_y. simpl. rewrite Qeq_bool_refl. reflexivity.
  - assert (I' := I). apply incr_cons in I'. destruct I' as [L I']. simpl in L.
    unfold last_x, last_y. rewrite !last_cons2. rewrite pl_eval_cons2 by auto.
    assert (F := incr_first_le_last_cons r' x1 y1 I').
    match goal with |- context [Qlt_bool ?u x0] => replace (Qlt_bool u x0) with false by (symmetry; apply Qlt_bool_false; eapply Qle_trans; [apply Qlt_le_weak; exact L|exact F]) end.
    destruct r' as [|[x2 y2] r''].
    + simpl. replace (Qle_bool x1 x1) with true by (symmetry; apply b_le; lra). field. lra.
    + apply incr_cons in I'. destruct I' as [L2 I'']. simpl in L2.
      assert (F2 := incr_first_le_last_cons r'' x2 y2 I'').
      rewrite !last_cons2 in *.
      match goal with |- context [Qle_bool ?u x1] => replace (Qle_bool u x1) with false
        by (symmetry; apply b_le_f; eapply Qlt_le_trans; [exact L2|exact F2]) end.
      apply (IH x1 y1). apply incr_cons. split; [exact L2|exact I''].
Qed.

(* ------------------------------------------------------------------ slope_to_pos_interp *)
Lemma s2p_spec : forall r x0 y0 m, incr ((x0, m) :: r) ->
  let c := (x0, y0) :: s2p_go x0 y0 m r in
  incr c /\ last_x c = lastx_d x0 r /\
  (forall t, x0 <= t -> t <= last_x c -> pl_eval c t == y0 + integ x0 m r t).
Proof.
  induction r as [|[x1 m1] r' IH]; intros x0 y0 m I c.
  - subst c. simpl. split; [auto|]. split; [reflexivity|]. intros t A B. unfold last_x in B. simpl in B.
    replace (Qeq_bool t x0) with true by (symmetry; apply Qeq_bool_iff; lra).
    assert (TE : t == x0) by lra. rewrite TE. ring.
  - assert (I' := I). apply incr_cons in I'. destruct I' as [L I']. simpl in L.
    subst c. simpl s2p_go. set (y1 := y0 + (x1 - x0) * m).
    destruct (IH x1 y1 m1 I') as [H1 [H2 H3]]. clear IH.
    split; [|split].
    + apply incr_cons. split; [exact L|exact H1].
    + unfold last_x in *. npt. rewrite last_cons2. npt. rewrite H2. rewrite lastx_d_cons. reflexivity.
    + intros t A B. unfold last_x in B, H3. rewrite last_cons2 in B.
      rewrite pl_eval_cons2 by auto. rewrite integ_cons.
      replace (Qlt_bool t x0) with false by (symmetry; apply Qlt_bool_false; auto).
      destruct (Qle_bool t x1) eqn:C.
      * unfold y1. field. lra.
      * apply b_le_f in C. rewrite (H3 t) by (try exact B; lra). unfold y1. ring.
Qed.

(* ------------------------------------------------------------------ well-formed depths *)
Lemma wf_inv l : wf l -> exists x0 y0 r, l = (x0, y0) :: r /\ incr ((x0, y0) :: r) /\ y0 == 0 /\ last_y ((x0, y0) :: r) == 0.
Proof.
  intros [N [I [F L]]]. destruct l as [|[x0 y0] r]; [congruence|]. exists x0, y0, r. unfold first_y in F. simpl in F. auto.
Qed.

Lemma integ_compat_m s x0 m m' t : m == m' -> integ x0 m s t == integ x0 m' s t.
Proof. intro H. destruct s as [|[x1 m1] r]; simpl; [|destruct (Qle_bool t x1)]; rewrite H; reflexivity. Qed.

Lemma wf_eval_ge_last l t : wf l -> last_x l <= t -> pl_eval l t == 0.
Proof.
  intros W H. destruct (wf_inv l W) as [x0 [y0 [r [E [I [Y0 YL]]]]]]. subst l.
  destruct (Qlt_le_dec (last_x ((x0, y0) :: r)) t) as [G|G].
  - apply pl_eval_right; [congruence|auto|auto].
  - assert (F := incr_first_le_last_cons r x0 y0 I). unfold last_x in H, G.
    assert (T : x0 <= t) by (eapply Qle_trans; [exact F|exact H]).
    destruct (p2s_spec r x0 y0 t I T) as [P1 P2]. rewrite (P1 G), (P2 H). exact YL.
Qed.

Lemma wf_eval_integ l x' t : wf l -> x' <= first_x l -> x' <= t ->
  pl_eval l t == integ x' 0 (pos_to_slope l) t.
Proof.
  intros W X T. destruct (wf_inv l W) as [x0 [y0 [r [E [I [Y0 YL]]]]]]. subst l.
  unfold first_x in X. simpl in X.
  destruct (p2s_head x0 y0 r) as [m0 [tl E]]. npt.
  assert (Ip := p2s_incr _ I). rewrite E in Ip. assert (S := incr_sfrom x0 m0 tl Ip).
  assert (F := incr_first_le_last_cons r x0 y0 I).
  npt. rewrite E, integ_cons.
  destruct (Qle_bool t x0) eqn:C.
  - apply b_le in C. destruct (Qlt_le_dec t x0) as [G|G].
    + rewrite pl_eval_left; [ring|congruence|auto|exact G].
    + assert (TE : t == x0) by lra.
      destruct (p2s_spec r x0 y0 t I G) as [P1 _].
      rewrite P1 by (unfold last_x; eapply Qle_trans; [exact C|exact F]).
      npt. rewrite E. unfold ES. rewrite (integ_compat tl x0 m0 t x0 TE), (integ_at_start x0 m0 tl S). rewrite Y0. ring.
  - apply b_le_f in C. assert (T0 : x0 <= t) by lra.
    destruct (p2s_spec r x0 y0 t I T0) as [P1 P2]. npt. rewrite E in P1, P2. unfold ES in P1, P2.
    destruct (Qlt_le_dec (last_x ((x0, y0) :: r)) t) as [G|G].
    + rewrite pl_eval_right; [|congruence|auto|exact G]. specialize (P2 (Qlt_le_weak _ _ G)). lra.
    + rewrite (P1 G). lra.
Qed.

Lemma merge_nil fuel a b am bm : sum_slopes_go fuel a b am bm = Some [] -> a = [] /\ b = [].
Proof.
  destruct fuel; destruct a as [|[ax am'] a'], b as [|[bx bm'] b']; try (simpl; intros; auto; discriminate).
  - rewrite go_nb. destruct (sum_slopes_go fuel [] b' am bm'); simpl; discriminate.
  - rewrite go_an. destruct (sum_slopes_go fuel a' [] am' bm); simpl; discriminate.
  - rewrite go_cc. destruct (Qlt_bool bx ax); [|destruct (Qlt_bool ax bx)];
    match goal with |- context [option_map _ ?u] => destruct u; simpl; discriminate end.
Qed.

Lemma ystart_wf v a b : first_y a == 0 -> first_y b == 0 -> ystart v a b == 0.
Proof.
  intros A B. destruct v; simpl. reflexivity.
  unfold first_ordinate. destruct a as [|[xa ya] ra], b as [|[xb yb] rb]; try reflexivity.
  unfold first_y in *. simpl in A, B. destruct (Qle_bool xa xb), (Qle_bool xb xa); lra.
Qed.

Lemma add_depth_ne v a b : a <> [] -> b <> [] -> add_depth v a b = add_depth_core v a b.
Proof. destruct a; [congruence|]. destruct b; [congruence|]. reflexivity. Qed.

Lemma add_depth_wf v a b : wf a -> wf b ->
  exists c, add_depth v a b = Some c /\ wf c /\ forall t, pl_eval c t == pl_eval a t + pl_eval b t.
Proof.
  intros Wa Wb.
  destruct (wf_inv a Wa) as [xa [ya [ra [Ea [Ia [Ya La]]]]]].
  destruct (wf_inv b Wb) as [xb [yb [rb [Eb [Ib [Yb Lb]]]]]].
  assert (YS : ystart v a b == 0) by (apply ystart_wf; [destruct Wa as [_ [_ [H _]]]|destruct Wb as [_ [_ [H _]]]]; exact H).
  rewrite (add_depth_ne v a b (proj1 Wa) (proj1 Wb)). unfold add_depth_core, sum_slopes. set (ys := ystart v a b) in *.
  set (pa := pos_to_slope a). set (pb := pos_to_slope b).
  destruct (merge_some (length pa + length pb) pa pb 0 0 (le_n _)) as [s E]. rewrite E. simpl option_map.
  exists (slope_to_pos ys s). split; [reflexivity|].
  destruct (p2s_head xa ya ra) as [ma [ta Epa]]. destruct (p2s_head xb yb rb) as [mb [tb Epb]]. npt.
  assert (Ipa : incr pa) by (apply p2s_incr; subst a; exact Ia).
  assert (Ipb : incr pb) by (apply p2s_incr; subst b; exact Ib).
  assert (Hpa : pa = (xa, ma) :: ta) by (unfold pa; subst a; exact Epa).
  assert (Hpb : pb = (xb, mb) :: tb) by (unfold pb; subst b; exact Epb).
  set (x' := Qmin xa xb). assert (X1 : x' <= xa) by apply Q.le_min_l. assert (X2 : x' <= xb) by apply Q.le_min_r.
  assert (Sa : sfrom x' pa) by (apply incr_sfrom'; [exact Ipa|rewrite Hpa; exact X1]).
  assert (Sb : sfrom x' pb) by (apply incr_sfrom'; [exact Ipb|rewrite Hpb; exact X2]).
  destruct (merge_struct _ _ _ _ _ s x' E Ipa Ipb) as [_ [HB Is]].
  assert (Hb : hbound x' s) by (apply HB; [rewrite Hpa|rewrite Hpb]; simpl; auto).
  destruct s as [|[xs ms] rs].
  { apply merge_nil in E. destruct E as [E _]. rewrite Hpa in E. discriminate. }
  simpl in Hb. simpl slope_to_pos.
  destruct (s2p_spec rs xs ys ms Is) as [Ic [Lc Ec]].
  set (c := (xs, ys) :: s2p_go xs ys ms rs) in *.
  assert (Ss : sfrom xs rs) by (apply (incr_sfrom xs ms); exact Is).
  (* the merge adds the two functions *)
  assert (KEY : forall t, x' <= t -> integ x' 0 ((xs, ms) :: rs) t == pl_eval a t + pl_eval b t).
  { intros t T.
    assert (M := merge_integ _ _ _ _ _ _ x' t E Sa Sb T).
    assert (A : pl_eval a t == integ x' 0 (pos_to_slope a) t) by (apply wf_eval_integ; [exact Wa|subst a; exact X1|exact T]).
    assert (B : pl_eval b t == integ x' 0 (pos_to_slope b) t) by (apply wf_eval_integ; [exact Wb|subst b; exact X2|exact T]).
    eapply Qeq_trans; [apply (integ_compat_m _ x' 0 (0 + 0) t); ring|].
    eapply Qeq_trans; [exact M|]. rewrite A, B. reflexivity. }
  (* last abscissa of the result dominates *)
  destruct (merge_last _ _ _ _ _ _ x' E Sa Sb) as [LA LB].
  rewrite lastx_d_cons in LA, LB. rewrite <- Lc in LA, LB.
  unfold pa in LA. rewrite (p2s_last a x' (0, 0)) in LA by (subst a; congruence).
  unfold pb in LB. rewrite (p2s_last b x' (0, 0)) in LB by (subst b; congruence).
  change (fst (last a (0, 0))) with (last_x a) in LA. change (fst (last b (0, 0))) with (last_x b) in LB.
  assert (PW : forall t, pl_eval c t == pl_eval a t + pl_eval b t).
  { intro t. destruct (Qlt_le_dec t xs) as [G|G].
    - rewrite (pl_eval_left c t) by (try exact Ic; unfold c; try congruence; exact G).
      destruct (Qlt_le_dec t x') as [G'|G'].
      + assert (A0 : pl_eval a t == 0) by (apply pl_eval_left; subst a; [congruence|exact Ia|unfold first_x; simpl; lra]).
        assert (B0 : pl_eval b t == 0) by (apply pl_eval_left; subst b; [congruence|exact Ib|unfold first_x; simpl; lra]).
        rewrite A0, B0. ring.
      + rewrite <- (KEY t G'). rewrite integ_cons.
        replace (Qle_bool t xs) with true by (symmetry; apply b_le; lra). ring.
    - destruct (Qlt_le_dec (last_x c) t) as [G2|G2].
      + rewrite (pl_eval_right c t) by (try exact Ic; unfold c; try congruence; exact G2).
        rewrite (wf_eval_ge_last a t Wa) by lra. rewrite (wf_eval_ge_last b t Wb) by lra. ring.
      + rewrite (Ec t G G2). rewrite <- (KEY t) by lra. rewrite integ_cons.
        destruct (Qle_bool t xs) eqn:C.
        * apply b_le in C. assert (TE : t == xs) by lra.
          rewrite (integ_compat rs xs ms t xs TE), (integ_at_start xs ms rs Ss). lra.
        * lra. }
  split; [|exact PW].
  split; [unfold c; congruence|]. split; [exact Ic|]. split; [unfold first_y, c; simpl; exact YS|].
  assert (AL := pl_eval_at_last _ xs ys Ic). fold c in AL.
  eapply Qeq_trans; [symmetry; exact AL|].
  rewrite PW, (wf_eval_ge_last a _ Wa LA), (wf_eval_ge_last b _ Wb LB). ring.
Qed.

(* ------------------------------------------------------------------ scalar multiples, negation *)
Definition map_y (g : Q -> Q) (l : list pt) : list pt := map (fun p => (fst p, g (snd p))) l.

Lemma pl_eval_cons2' x0 y0 x1 y1 r t :
  pl_eval ((x0, y0) :: (x1, y1) :: r) t =
  if Qlt_bool t x0 then 0
  else if Qle_bool t x1 && Qlt_bool x0 x1 then y0 + (y1 - y0) * (t - x0) / (x1 - x0)
  else pl_eval ((x1, y1) :: r) t.
Proof. reflexivity. Qed.

Lemma pl_eval_map_y g c l t : (forall y, g y == c * y) -> pl_eval (map_y g l) t == c * pl_eval l t.
Proof.
  intro G. induction l as [|[x0 y0] r IH]; [simpl; ring|]. destruct r as [|[x1 y1] r'].
  - simpl. destruct (Qeq_bool t x0); [apply G|ring].
  - unfold map_y in *. cbn [map fst snd] in *. rewrite !pl_eval_cons2'.
    destruct (Qlt_bool t x0); [ring|].
    destruct (Qle_bool t x1 && Qlt_bool x0 x1) eqn:C.
    + apply andb_true_iff in C. destruct C as [_ C]. apply Qlt_bool_iff in C.
      rewrite (G y0), (G y1). field. lra.
    + exact IH.
Qed.

Lemma incr_map_y g l : incr l -> incr (map_y g l).
Proof.
  induction l as [|[x0 y0] r IH]; intro I. exact I.
  apply incr_cons in I. destruct I as [L I]. unfold map_y. cbn [map]. apply incr_cons. split; [|apply IH; exact I].
  destruct r as [|[x1 y1] r']; simpl in *; auto.
Qed.

Lemma last_map {A B} (f : A -> B) : forall l d d', l <> [] -> last (map f l) d = f (last l d').
Proof.
  induction l as [|a r IH]; intros d d' N; [congruence|]. destruct r as [|b r']. reflexivity.
  cbn [map]. rewrite !last_cons2. apply (IH d d'). congruence.
Qed.

Lemma wf_map_y g c l : (forall y, g y == c * y) -> wf l -> wf (map_y g l).
Proof.
  intros G [N [I [F L]]]. split; [|split; [|split]].
  - destruct l; [congruence|]. unfold map_y. simpl. congruence.
  - apply incr_map_y. exact I.
  - destruct l as [|[x0 y0] r]; [congruence|]. unfold first_y in *. simpl in *. rewrite G, F. ring.
  - unfold last_y, map_y in *. rewrite (last_map _ l (0, 0) (0, 0) N). cbn [snd]. rewrite G, L. ring.
Qed.

(* ------------------------------------------------------------------ union_crit_pairs *)
Lemma evalL_nil k t : evalL [] k t = 0.
Proof. unfold evalL. destruct k; reflexivity. Qed.

Lemma union_wf v : forall A B, wfL A -> wfL B ->
  exists C, union_crit_pairs v A B = Some C /\ wfL C /\ length C = Nat.max (length A) (length B) /\
    forall k t, evalL C k t == evalL A k t + evalL B k t.
Proof.
  induction A as [|a A' IH]; intros B WA WB.
  - exists B. simpl. split; [reflexivity|]. split; [exact WB|]. split; [reflexivity|].
    intros k t. rewrite evalL_nil. ring.
  - destruct B as [|b B'].
    + exists (a :: A'). simpl. split; [reflexivity|]. split; [exact WA|]. split; [reflexivity|].
      intros k t. rewrite evalL_nil. ring.
    + inversion WA as [|? ? Wa WA']; subst. inversion WB as [|? ? Wb WB']; subst.
      destruct (add_depth_wf v a b Wa Wb) as [c [E [Wc P]]].
      destruct (IH B' WA' WB') as [C' [E' [WC' [LC' P']]]].
      exists (c :: C'). simpl. rewrite E, E'. split; [reflexivity|]. split; [constructor; auto|].
      split; [rewrite LC'; reflexivity|].
      intros [|k] t; unfold evalL; simpl; [apply P|apply P'].
Qed.

(* ------------------------------------------------------------------ the exact operators *)
Lemma evalL_map_y g c L k t : (forall y, g y == c * y) -> evalL (map (map_y g) L) k t == c * evalL L k t.
Proof.
  intro G. unfold evalL. revert k. induction L as [|l L IH]; intros [|k]; simpl; try ring.
  - apply pl_eval_map_y. exact G.
  - apply IH.
Qed.

Lemma wfL_map_y g c L : (forall y, g y == c * y) -> wfL L -> wfL (map (map_y g) L).
Proof. intros G W. induction W; simpl; constructor; auto. apply (wf_map_y g c); auto. Qed.

Lemma neg_is_map_y L : neg_cp L = map (map_y Qopp) L. Proof. reflexivity. Qed.
Lemma scale_is_map_y c L : scale_cp c L = map (map_y (Qmult c)) L. Proof. reflexivity. Qed.
Lemma opp_lin y : - y == (-1) * y. Proof. ring. Qed.

Lemma e_neg_pointwise A : wfL (e_cp A) ->
  e_deg (e_neg A) = e_deg A /\ wfL (e_cp (e_neg A)) /\ length (e_cp (e_neg A)) = length (e_cp A) /\
  forall k t, evalL (e_cp (e_neg A)) k t == - evalL (e_cp A) k t.
Proof.
  intro W. unfold e_neg. simpl. rewrite neg_is_map_y. split; [reflexivity|]. split; [apply (wfL_map_y _ (-1)); [apply opp_lin|exact W]|].
  split; [apply map_length|]. intros k t. rewrite (evalL_map_y Qopp (-1)) by apply opp_lin. ring.
Qed.

Lemma e_mul_pointwise c A : wfL (e_cp A) ->
  e_deg (e_mul c A) = e_deg A /\ wfL (e_cp (e_mul c A)) /\ length (e_cp (e_mul c A)) = length (e_cp A) /\
  forall k t, evalL (e_cp (e_mul c A)) k t == c * evalL (e_cp A) k t.
Proof.
  intro W. unfold e_mul. simpl. rewrite scale_is_map_y. split; [reflexivity|].
  split; [apply (wfL_map_y _ c); [intro; reflexivity|exact W]|].
  split; [apply map_length|]. intros k t. apply evalL_map_y. intro; reflexivity.
Qed.

Lemma e_div_pointwise c A : wfL (e_cp A) -> ~ c == 0 ->
  exists R, e_div A c = Ok R /\ e_deg R = e_deg A /\ wfL (e_cp R) /\ length (e_cp R) = length (e_cp A) /\
  forall k t, evalL (e_cp R) k t == evalL (e_cp A) k t / c.
Proof.
  intros W N. unfold e_div. destruct (Qeq_bool c 0) eqn:C; [apply Qeq_bool_iff in C; contradiction|].
  exists (e_mul (1 / c) A). split; [reflexivity|].
  destruct (e_mul_pointwise (1 / c) A W) as [D [W' [L P]]]. split; [exact D|]. split; [exact W'|]. split; [exact L|].
  intros k t. rewrite P. field. exact N.
Qed.

Lemma e_div_zero c A : c == 0 -> e_div A c = ErrDivZero.
Proof. intro H. unfold e_div. replace (Qeq_bool c 0) with true by (symmetry; apply Qeq_bool_iff; exact H). reflexivity. Qed.

Lemma e_add_pointwise v A B : wfL (e_cp A) -> wfL (e_cp B) -> e_deg A = e_deg B ->
  exists R, e_add v A B = Ok R /\ e_deg R = e_deg A /\ wfL (e_cp R) /\
    length (e_cp R) = Nat.max (length (e_cp A)) (length (e_cp B)) /\
    forall k t, evalL (e_cp R) k t == evalL (e_cp A) k t + evalL (e_cp B) k t.
Proof.
  intros WA WB D. unfold e_add. assert (Hd : Z.eqb (e_deg A) (e_deg B) = true) by (apply Z.eqb_eq; exact D).
  rewrite Hd. simpl negb. cbv iota.
  destruct (union_wf v _ _ WA WB) as [C [E [WC [LC P]]]]. rewrite E.
  eexists. split; [reflexivity|]. simpl. auto.
Qed.

Lemma e_add_degree v A B : e_deg A <> e_deg B -> e_add v A B = ErrDegree.
Proof. intro H. unfold e_add. apply Z.eqb_neq in H. rewrite H. reflexivity. Qed.

Lemma e_sub_pointwise v A B : wfL (e_cp A) -> wfL (e_cp B) -> e_deg A = e_deg B ->
  exists R, e_sub v A B = Ok R /\ e_deg R = e_deg A /\ wfL (e_cp R) /\
    length (e_cp R) = Nat.max (length (e_cp A)) (length (e_cp B)) /\
    forall k t, evalL (e_cp R) k t == evalL (e_cp A) k t - evalL (e_cp B) k t.
Proof.
  intros WA WB D. unfold e_sub. destruct (e_neg_pointwise B WB) as [DN [WN [LN PN]]].
  destruct (e_add_pointwise v A (e_neg B) WA WN) as [R [E [DR [WR [LR P]]]]]. congruence.
  exists R. split; [exact E|]. split; [exact DR|]. split; [exact WR|]. split; [rewrite LR, LN; reflexivity|].
  intros k t. rewrite P, PN. ring.
Qed.

(* ------------------------------------------------------------------ expression trees *)
Lemma expr_pointwise_lemma v env d : forall e,
  (forall A, In A env -> wfL (e_cp A) /\ e_deg A = d) -> expr_ok (length env) e ->
  exists R, eval_expr v env e = Ok R /\ e_deg R = d /\ wfL (e_cp R) /\
    forall k t, evalL (e_cp R) k t == expr_fun env e k t.
Proof.
  intros e H. induction e as [i|e1 IH1 e2 IH2|e1 IH1 e2 IH2|e1 IH1|c e1 IH1|e1 IH1 c]; simpl; intro OK.
  - destruct (nth_error env i) as [A|] eqn:E.
    + destruct (H A (nth_error_In _ _ E)) as [W D]. exists A. split; [reflexivity|]. split; [exact D|]. split; [exact W|]. intros; reflexivity.
    + apply nth_error_None in E. lia.
  - destruct OK as [O1 O2]. destruct (IH1 O1) as [A [EA [DA [WA PA]]]]. destruct (IH2 O2) as [B [EB [DB [WB PB]]]].
    rewrite EA, EB. simpl. destruct (e_add_pointwise v A B WA WB ltac:(congruence)) as [R [E [DR [WR [_ P]]]]].
    exists R. split; [exact E|]. split; [congruence|]. split; [exact WR|]. intros k t. rewrite P, PA, PB. reflexivity.
  - destruct OK as [O1 O2]. destruct (IH1 O1) as [A [EA [DA [WA PA]]]]. destruct (IH2 O2) as [B [EB [DB [WB PB]]]].
    rewrite EA, EB. simpl. destruct (e_sub_pointwise v A B WA WB ltac:(congruence)) as [R [E [DR [WR [_ P]]]]].
    exists R. split; [exact E|]. split; [congruence|]. split; [exact WR|]. intros k t. rewrite P, PA, PB. reflexivity.
  - destruct (IH1 OK) as [A [EA [DA [WA PA]]]]. rewrite EA. simpl.
    destruct (e_neg_pointwise A WA) as [D [W [_ P]]]. exists (e_neg A). split; [reflexivity|]. split; [congruence|]. split; [exact W|].
    intros k t. rewrite P, PA. reflexivity.
  - destruct (IH1 OK) as [A [EA [DA [WA PA]]]]. rewrite EA. simpl.
    destruct (e_mul_pointwise c A WA) as [D [W [_ P]]]. exists (e_mul c A). split; [reflexivity|]. split; [congruence|]. split; [exact W|].
    intros k t. rewrite P, PA. reflexivity.
  - destruct OK as [O1 N]. destruct (IH1 O1) as [A [EA [DA [WA PA]]]]. rewrite EA. simpl.
    destruct (e_div_pointwise c A WA N) as [R [E [D [W [_ P]]]]]. exists R. split; [exact E|]. split; [congruence|]. split; [exact W|].
    intros k t. rewrite P, PA. reflexivity.
Qed.

(* ------------------------------------------------------------------ the two variants *)
Lemma add_legacy_refuted_lemma :
  exists a b c, incr a /\ incr b /\ add_depth Legacy a b = Some c /\ ~ pl_eval c 0 == pl_eval a 0 + pl_eval b 0.
Proof.
  exists [(0, 1); (1, 1)], [(0, 1); (1, 1)], [(0, 0); (1, 0 + (1 - 0) * (0 + 0))].
  split; [simpl; split; [reflexivity|auto]|]. split; [simpl; split; [reflexivity|auto]|].
  split; [vm_compute; reflexivity|]. vm_compute. discriminate.
Qed.

Lemma add_variants_agree_lemma a b : wf a -> wf b ->
  exists c c', add_depth Legacy a b = Some c /\ add_depth Fixed a b = Some c' /\ forall t, pl_eval c t == pl_eval c' t.
Proof.
  intros Wa Wb. destruct (add_depth_wf Legacy a b Wa Wb) as [c [E [_ P]]].
  destruct (add_depth_wf Fixed a b Wa Wb) as [c' [E' [_ P']]].
  exists c, c'. split; [exact E|]. split; [exact E'|]. intro t. rewrite P, P'. reflexivity.
Qed.
