(* C17: relabelling a graph relabels its hop metric.  shortest_path is an oracle here: ANY two
   results that satisfy the shortest-path specification [sp] for a graph and for a relabelled
   copy agree entry by entry up to the relabelling (so connected relabelled graphs have isometric
   distance matrices, and [relabel_bracket] applies to them). *)
From Coq Require Import ZArith List Bool Arith Lia.
From Persim Require Import Spec.MGH Model.MGHM Model.GraphM Proofs.MGHBasics Proofs.MGHLb Proofs.GraphP.
Import ListNotations.
Open Scope Z_scope.

(* a walk that starts at i and visits the vertices of l in turn *)
Fixpoint path (A : mat) (i : nat) (l : list nat) : Prop :=
  match l with
  | [] => True
  | y :: t => (y < length A)%nat /\ edge A i y = true /\ path A y t
  end.
Definition conn (A : mat) (i j : nat) (d : nat) : Prop :=
  exists l, length l = d /\ path A i l /\ last l i = j.

(* D is a correct answer of shortest_path(A, directed=False, unweighted=True) *)
Definition sp (A : mat) (D : omat) : Prop :=
  forall i j, (i < length A)%nat -> (j < length A)%nat ->
  match oent D i j with
  | Some d => 0 <= d /\ conn A i j (Z.to_nat d) /\ forall d', conn A i j d' -> (Z.to_nat d <= d')%nat
  | None => forall d', ~ conn A i j d'
  end.

(* A' is A with vertex i renamed to f i *)
Definition renamed (f : nat -> nat) (A A' : mat) : Prop :=
  length A' = length A /\
  (forall i, (i < length A)%nat -> (f i < length A)%nat) /\
  forall i j, (i < length A)%nat -> (j < length A)%nat -> edge A' (f i) (f j) = edge A i j.

Lemma last_map_f (f : nat -> nat) l i : last (map f l) (f i) = f (last l i).
Proof. induction l as [|x t IH]; [reflexivity|]. simpl. destruct t; [reflexivity|]. exact IH. Qed.

Lemma path_renamed f A A' : renamed f A A' -> forall l i, (i < length A)%nat -> path A i l -> path A' (f i) (map f l).
Proof.
  intros [L [R E]]. induction l as [|y t IH]; intros i Hi P; simpl; [exact I|].
  destruct P as [Hy [Ey Pt]]. split; [rewrite L; apply R; exact Hy|]. split; [rewrite E by assumption; exact Ey|].
  apply IH; assumption.
Qed.

Lemma conn_renamed f A A' i j d : renamed f A A' -> (i < length A)%nat -> conn A i j d -> conn A' (f i) (f j) d.
Proof.
  intros Rn Hi [l [Ll [P La]]]. exists (map f l). split; [rewrite map_length; exact Ll|].
  split; [apply (path_renamed f A A' Rn); assumption|]. rewrite last_map_f, La. reflexivity.
Qed.

Theorem relabelled_metric A A' D D' p :
  is_perm (length A) p -> renamed (img p) A A' -> sp A D -> sp A' D' ->
  forall i j, (i < length A)%nat -> (j < length A)%nat -> oent D' (img p i) (img p j) = oent D i j.
Proof.
  intros HP Rn S S' i j Hi Hj.
  destruct (perm_inverse _ _ HP) as [q [HQ [PQ QP]]].
  pose proof (perm_valid _ _ HP) as Vp. pose proof (perm_valid _ _ HQ) as Vq.
  pose proof Rn as [L [Rg E]].
  assert (Rn' : renamed (img q) A' A).
  { split; [symmetry; exact L|]. rewrite L. split; [intros a Ha; apply (valid_img _ _ _ _ Vq); exact Ha|].
    intros a b Ha Hb. rewrite <- (E (img q a) (img q b)) by (apply (valid_img _ _ _ _ Vq); assumption).
    rewrite !PQ by assumption. reflexivity. }
  assert (Fwd : forall d, conn A i j d -> conn A' (img p i) (img p j) d) by (intros d; apply conn_renamed; assumption).
  assert (Bwd : forall d, conn A' (img p i) (img p j) d -> conn A i j d).
  { intros d C. apply (conn_renamed (img q) A' A) in C; [|exact Rn'|rewrite L; apply Rg; exact Hi].
    rewrite !QP in C by assumption. exact C. }
  specialize (S i j Hi Hj). specialize (S' (img p i) (img p j)).
  rewrite L in S'. specialize (S' (Rg i Hi) (Rg j Hj)).
  destruct (oent D i j) as [d|], (oent D' (img p i) (img p j)) as [d'|]; try reflexivity.
  - destruct S as [P0 [C M]]. destruct S' as [P0' [C' M']].
    pose proof (M _ (Bwd _ C')). pose proof (M' _ (Fwd _ C)). f_equal. lia.
  - destruct S as [_ [C _]]. exfalso. apply (S' _ (Fwd _ C)).
  - destruct S' as [_ [C' _]]. exfalso. apply (S _ (Bwd _ C')).
Qed.

(* hence: connected relabelled graphs have isometric distance matrices *)
Theorem relabelled_connected_isometric A A' D D' p :
  is_perm (length A) p -> renamed (img p) A A' -> sp A D -> sp A' D' ->
  length D = length A -> length D' = length A ->
  isometric (map (map oz) D) (map (map oz) D').
Proof.
  intros HP Rn S S' LD LD'. split; [rewrite !map_length; congruence|].
  exists p. rewrite map_length, LD. split; [exact HP|]. intros i j Hi Hj.
  pose proof (relabelled_metric A A' D D' p HP Rn S S' i j Hi Hj) as E.
  assert (G : forall (M : omat) a b, ent (map (map oz) M) a b = oz (oent M a b)).
  { intros M a b. unfold ent, oent. change (@nil Z) with (map oz []). rewrite map_nth.
    change 0 with (oz None) at 1. rewrite map_nth. reflexivity. }
  rewrite !G, E. reflexivity.
Qed.
